package sim

import (
	"bufio"
	"encoding/json"
	"fmt"
	"os"
	"strconv"
	"strings"
	"time"
)

// A Job is what the driver hands to an engine worker process.
type Job struct {
	Engine   string   `json:"engine"`
	Profile  string   `json:"profile"`
	Tier     string   `json:"tier"`
	Seed     uint64   `json:"seed"`
	RunStart uint64   `json:"run_start"`
	RunCount uint64   `json:"run_count"`
	RunStep  uint64   `json:"run_step"` // stride between runs of this worker
	Replay   []uint32 `json:"replay,omitempty"`
	Mode     string   `json:"mode,omitempty"` // "", "replay", "shrink"
	Key      string   `json:"key,omitempty"`  // violation key to preserve while shrinking
	MaxRuns  int      `json:"max_runs,omitempty"`
	WantTape bool     `json:"want_tape"`
	Out      string   `json:"out"`
	BudgetS  float64  `json:"budget_s"` // stop starting new runs after this much wall time
}

// LoadJob reads the job named by VERIF_JOB.
func LoadJob() (*Job, error) {
	p := os.Getenv("VERIF_JOB")
	b, err := os.ReadFile(p)
	if err != nil {
		return nil, err
	}
	var j Job
	return &j, json.Unmarshal(b, &j)
}

// RunJob executes a job with the engine's run function and writes one JSON
// line per run.
func RunJob(j *Job, run func(t *Tape, profile, tier string) *RunResult) error {
	run = withRaceLog(run)
	f, err := os.Create(j.Out)
	if err != nil {
		return err
	}
	defer f.Close()
	bw := bufio.NewWriter(f)
	defer bw.Flush()
	enc := json.NewEncoder(bw)
	start := time.Now()
	// every result is flushed at once and every run announces itself first, so
	// that a run that kills the process (fatal out-of-memory, stack exhaustion)
	// can be named by the driver
	emit := func(r *RunResult) error {
		if err := enc.Encode(r); err != nil {
			return err
		}
		return bw.Flush()
	}
	if f := os.Getenv("VERIF_LOGDUMP"); f != "" {
		// (debugging aid for the determinism self-test: every event of every run, in order)
		Dump, _ = os.Create(f)
	}
	begin := func(run uint64) {
		if Dump != nil {
			fmt.Fprintf(Dump, "=== run %d\n", run)
		}
		enc.Encode(map[string]uint64{"begin": run})
		bw.Flush()
	}
	if j.Mode == "shrink" {
		max := j.MaxRuns
		if max == 0 {
			max = 300
		}
		best, n := Shrink(run, j.Profile, j.Tier, j.Replay, j.Key, max, time.Duration(j.BudgetS*float64(time.Second)))
		t := ReplayTape(best)
		r := run(t, j.Profile, j.Tier)
		r.Seed = j.Seed
		r.Tape = best
		if r.Stats == nil {
			r.Stats = Stats{}
		}
		r.Stats["shrink.runs"] = int64(n)
		return emit(r)
	}
	if j.Replay != nil || j.Mode == "replay" {
		t := ReplayTape(j.Replay)
		begin(0)
		r := run(t, j.Profile, j.Tier)
		r.Seed = j.Seed
		r.Tape = t.Recording()
		return emit(r)
	}
	step := j.RunStep
	if step == 0 {
		step = 1
	}
	for i := uint64(0); i < j.RunCount; i++ {
		if j.BudgetS > 0 && time.Since(start).Seconds() > j.BudgetS {
			break
		}
		runIdx := j.RunStart + i*step
		t := NewTape(j.Seed, runIdx)
		begin(runIdx)
		r := run(t, j.Profile, j.Tier)
		r.Seed, r.Run = j.Seed, runIdx
		if j.WantTape || len(r.Violations) > 0 || r.HarnessErr != "" {
			r.Tape = t.Recording()
		}
		if err := emit(r); err != nil {
			return err
		}
	}
	return nil
}

// withRaceLog turns reports of the race detector (binary built with -race,
// GORACE log_path = $VERIF_RACE_LOG) that appear during a run into a violation
// of the profile's property.
func withRaceLog(run func(t *Tape, profile, tier string) *RunResult) func(t *Tape, profile, tier string) *RunResult {
	base := os.Getenv("VERIF_RACE_LOG")
	if base == "" {
		return run
	}
	path := base + "." + strconv.Itoa(os.Getpid())
	size := func() int64 {
		if st, err := os.Stat(path); err == nil {
			return st.Size()
		}
		return 0
	}
	return func(t *Tape, profile, tier string) *RunResult {
		before := size()
		r := run(t, profile, tier)
		if after := size(); after > before {
			b, _ := os.ReadFile(path)
			rep := string(b[before:])
			// the goroutine / address details differ between processes: keep the access sites
			var sites []string
			for _, l := range strings.Split(rep, "\n") {
				l = strings.TrimSpace(l)
				if strings.HasPrefix(l, "go.sia.tech/core/") && len(sites) < 6 {
					sites = append(sites, strings.SplitN(l, "(", 2)[0])
				}
			}
			r.Violations = append(r.Violations, Violation{Property: profile, Invariant: "data-race", Detail: "the race detector reported a data race while concurrent callers used the library on shared inputs: " + strings.Join(sites, " / ")})
		}
		return r
	}
}
