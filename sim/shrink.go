package sim

import "time"

// Shrink minimises a failing tape by delta debugging on the choice sequence:
// truncate the tail, delete blocks of choices, zero values, halve values. A
// candidate is accepted only if a full deterministic re-run reports a
// violation with the same key.
func Shrink(run func(t *Tape, profile, tier string) *RunResult, profile, tier string, tape []uint32, key string, maxRuns int, budget time.Duration) (best []uint32, runs int) {
	start := time.Now()
	fails := func(c []uint32) bool {
		if runs >= maxRuns || time.Since(start) > budget {
			return false
		}
		runs++
		r := run(ReplayTape(c), profile, tier)
		for _, v := range r.Violations {
			if v.Key() == key {
				return true
			}
		}
		return false
	}
	best = append([]uint32(nil), tape...)
	// 1. truncate tail (binary search on the length)
	lo, hi := 0, len(best)
	for lo < hi {
		mid := (lo + hi) / 2
		if fails(best[:mid]) {
			hi = mid
		} else {
			lo = mid + 1
		}
	}
	if hi < len(best) && fails(best[:hi]) {
		best = best[:hi]
	}
	// 2. delete blocks
	for size := len(best) / 2; size >= 1; size /= 2 {
		for i := 0; i+size <= len(best); {
			c := append(append([]uint32(nil), best[:i]...), best[i+size:]...)
			if fails(c) {
				best = c
			} else {
				i += size
			}
			if runs >= maxRuns || time.Since(start) > budget {
				return
			}
		}
	}
	// 3. zero, then halve values
	for i := range best {
		if best[i] == 0 {
			continue
		}
		c := append([]uint32(nil), best...)
		c[i] = 0
		if fails(c) {
			best = c
			continue
		}
		c[i] = best[i] / 2
		if c[i] != best[i] && fails(c) {
			best = c
		}
		if runs >= maxRuns || time.Since(start) > budget {
			return
		}
	}
	return
}
