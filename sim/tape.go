// Package sim holds the simulator core shared by all engines: the choice tape
// (the single source of nondeterminism), the event log, fired-fault counters
// and the violation / result records exchanged with the driver.
package sim

import (
	"crypto/sha256"
	"encoding/binary"
	"encoding/hex"
	"fmt"
	"os"
	"sort"
)

// splitmix64 is the PRNG behind a generating tape. It is tiny, has no global
// state and is bit-for-bit reproducible across Go releases.
type splitmix64 struct{ s uint64 }

func (r *splitmix64) next() uint64 {
	r.s += 0x9e3779b97f4a7c15
	z := r.s
	z = (z ^ (z >> 30)) * 0xbf58476d1ce4e5b9
	z = (z ^ (z >> 27)) * 0x94d049bb133111eb
	return z ^ (z >> 31)
}

// A Tape is the only source of choices in a run. In generate mode values come
// from a PRNG and are recorded; in replay mode they come from the recording and
// an exhausted (or out-of-range) recording yields 0, the benign alternative.
type Tape struct {
	rng     splitmix64
	replay  bool
	in      []uint32
	pos     int
	rec     []uint32
	MaxLen  int // hard cap on choices per run (runaway guard)
	Exceeds bool
}

// NewTape returns a generating tape for (seed, run).
func NewTape(seed uint64, run uint64) *Tape {
	t := &Tape{MaxLen: 4_000_000}
	t.rng.s = seed*0x9e3779b97f4a7c15 ^ (run+1)*0xd1b54a32d192ed03
	t.rng.next()
	return t
}

// ReplayTape returns a tape that replays rec.
func ReplayTape(rec []uint32) *Tape {
	return &Tape{replay: true, in: rec, MaxLen: 4_000_000}
}

// Choose returns a value in [0,n). n<=1 returns 0 without consuming a choice.
func (t *Tape) Choose(n int) int {
	if n <= 1 {
		return 0
	}
	if len(t.rec) >= t.MaxLen {
		t.Exceeds = true
		return 0
	}
	var v uint32
	if t.replay {
		if t.pos < len(t.in) {
			v = t.in[t.pos]
			t.pos++
			if int(v) >= n {
				v = uint32(int(v) % n)
			}
		}
	} else {
		v = uint32(t.rng.next() % uint64(n))
	}
	t.rec = append(t.rec, v)
	return int(v)
}

// Chance returns true with probability num/den; 0 on the tape means false, so
// zeroing a tape removes the (fault) branch.
func (t *Tape) Chance(num, den int) bool {
	if num <= 0 {
		return false
	}
	return t.Choose(den) >= den-num
}

// Range returns a value in [lo,hi] (inclusive); 0 on the tape means lo.
func (t *Tape) Range(lo, hi int) int {
	if hi <= lo {
		return lo
	}
	return lo + t.Choose(hi-lo+1)
}

// Weighted picks an index with the given integer weights; index 0 is the
// benign alternative.
func (t *Tape) Weighted(w ...int) int {
	total := 0
	for _, x := range w {
		total += x
	}
	if total <= 0 {
		return 0
	}
	v := t.Choose(total)
	for i, x := range w {
		if v < x {
			return i
		}
		v -= x
	}
	return len(w) - 1
}

// Recording returns the choices made so far.
func (t *Tape) Recording() []uint32 { return append([]uint32(nil), t.rec...) }

// Len is the number of choices made so far.
func (t *Tape) Len() int { return len(t.rec) }

// A Log is the event log of one run. It never draws from the tape and never
// reads a clock. Its running SHA-256 identifies the history.
type Log struct {
	h     [32]byte
	n     int
	Keep  int // number of trailing lines kept verbatim
	lines []string
	head  []string
}

// Dump, when set (VERIF_LOGDUMP), receives every event of every run.
var Dump *os.File

// NewLog returns an empty log.
func NewLog(keep int) *Log { return &Log{Keep: keep} }

// Addf appends one event.
func (l *Log) Addf(format string, a ...any) {
	s := fmt.Sprintf(format, a...)
	var buf []byte
	buf = append(buf, l.h[:]...)
	buf = append(buf, s...)
	l.h = sha256.Sum256(buf)
	l.n++
	if Dump != nil {
		fmt.Fprintln(Dump, s)
	}
	if len(l.head) < 40 {
		l.head = append(l.head, s)
	}
	if l.Keep > 0 {
		l.lines = append(l.lines, s)
		if len(l.lines) > 2*l.Keep {
			l.lines = append([]string(nil), l.lines[len(l.lines)-l.Keep:]...)
		}
	}
}

// Hash returns the history hash.
func (l *Log) Hash() string { return hex.EncodeToString(l.h[:]) }

// N is the number of events.
func (l *Log) N() int { return l.n }

// Tail returns the last kept lines.
func (l *Log) Tail(n int) []string {
	if n > len(l.lines) {
		n = len(l.lines)
	}
	return append([]string(nil), l.lines[len(l.lines)-n:]...)
}

// Head returns the first lines.
func (l *Log) Head() []string { return append([]string(nil), l.head...) }

// Stats are plain named counters (fired faults, probe rows, reach metrics).
type Stats map[string]int64

// Inc adds one to a counter.
func (s Stats) Inc(k string) { s[k]++ }

// Add adds n to a counter.
func (s Stats) Add(k string, n int64) { s[k] += n }

// Merge adds o into s.
func (s Stats) Merge(o Stats) {
	for k, v := range o {
		s[k] += v
	}
}

// Keys returns the sorted counter names.
func (s Stats) Keys() []string {
	ks := make([]string, 0, len(s))
	for k := range s {
		ks = append(ks, k)
	}
	sort.Strings(ks)
	return ks
}

// A Violation is one failed oracle.
type Violation struct {
	Property  string `json:"property"`
	Invariant string `json:"invariant"`
	Detail    string `json:"detail"`
	Step      int    `json:"step"`
}

func (v Violation) String() string {
	return fmt.Sprintf("%s/%s at step %d: %s", v.Property, v.Invariant, v.Step, v.Detail)
}

// Key identifies the violation class used by the shrinker and by
// known_findings.json.
func (v Violation) Key() string { return v.Property + "/" + v.Invariant }

// A RunResult is what one simulated run reports to the driver.
type RunResult struct {
	Engine     string      `json:"engine"`
	Profile    string      `json:"profile"`
	Seed       uint64      `json:"seed"`
	Run        uint64      `json:"run"`
	TapeLen    int         `json:"tape_len"`
	Events     int         `json:"events"`
	LogHash    string      `json:"log_hash"`
	SimSeconds float64     `json:"sim_seconds"`
	WallMs     float64     `json:"wall_ms"`
	Stats      Stats       `json:"stats"`
	Reach      []string    `json:"reach,omitempty"`  // distinct reach tuples visited
	Nontrivial bool        `json:"nontrivial"`       // property oracle exercised on a non-empty case
	Sample     []string    `json:"sample,omitempty"` // compact trace
	Violations []Violation `json:"violations,omitempty"`
	Tape       []uint32    `json:"tape,omitempty"` // only when a violation was found or asked for
	HarnessErr string      `json:"harness_err,omitempty"`
}

// HashU64 derives a label-dependent 64-bit value without touching the tape
// (key material, file contents).
func HashU64(label string, a, b uint64) uint64 {
	var buf [16]byte
	binary.LittleEndian.PutUint64(buf[:8], a)
	binary.LittleEndian.PutUint64(buf[8:], b)
	h := sha256.Sum256(append([]byte(label), buf[:]...))
	return binary.LittleEndian.Uint64(h[:8])
}

// HashBytes derives n label-dependent bytes without touching the tape.
func HashBytes(label string, a, b uint64, n int) []byte {
	out := make([]byte, 0, n+32)
	var ctr uint64
	for len(out) < n {
		var buf [24]byte
		binary.LittleEndian.PutUint64(buf[:8], a)
		binary.LittleEndian.PutUint64(buf[8:16], b)
		binary.LittleEndian.PutUint64(buf[16:], ctr)
		h := sha256.Sum256(append([]byte(label), buf[:]...))
		out = append(out, h[:]...)
		ctr++
	}
	return out[:n]
}
