// Command verif is the driver: it rebuilds the engine binaries from /repo's
// working tree, fans simulated runs out over worker processes, merges their
// results into the evidence file, minimises and replays violations, and
// honours known_findings.json.
package main

import (
	"bufio"
	"crypto/sha256"
	"encoding/json"
	"fmt"
	"os"
	"os/exec"
	"path/filepath"
	"runtime"
	"sort"
	"strconv"
	"strings"
	"sync"
	"time"

	"verif/sim"
)

var root = func() string {
	if r := os.Getenv("VERIF_ROOT"); r != "" {
		return r
	}
	return "/verif"
}()

func goEnv() []string {
	env := os.Environ()
	env = append(env,
		"GOFLAGS=-mod=mod", "GOPROXY=off", "GOSUMDB=off", "GOTOOLCHAIN=local",
		"PATH=/opt/veriftools/go1.26.8/bin:"+os.Getenv("PATH"),
	)
	return env
}

func die(code int, f string, a ...any) {
	fmt.Fprintf(os.Stderr, f+"\n", a...)
	os.Exit(code)
}

func main() {
	if len(os.Args) < 2 {
		die(2, "usage: verif check <id> [--tier quick|thorough] | verif replay <file> | verif selftest <engine> | verif build")
	}
	switch os.Args[1] {
	case "check":
		cmdCheck(os.Args[2:])
	case "replay":
		cmdReplay(os.Args[2:])
	case "selftest":
		cmdSelftest(os.Args[2:])
	case "build":
		for _, e := range []string{"world", "sess", "conc"} {
			if m, _ := filepath.Glob(filepath.Join(root, e, "*.go")); len(m) > 0 {
				buildEngine(e, false)
			}
		}
	default:
		die(2, "unknown command %q", os.Args[1])
	}
}

// buildEngine compiles the engine's test binary against /repo's current tree.
func buildEngine(pkg string, race bool) string {
	// VERIF_REPO points the build at another checkout of the repository (used
	// for evaluating seeded changes in scratch worktrees without touching
	// /repo); the registered checks never set it.
	repo := os.Getenv("VERIF_REPO")
	tag := ""
	if repo != "" {
		tag = fmt.Sprintf("-%x", sha256.Sum256([]byte(repo)))[:9]
	}
	dir := filepath.Join(root, "bin", "engines"+tag)
	out := filepath.Join(dir, pkg+".test")
	args := []string{"test", "-c", "-tags", "verif", "-o", out}
	if race {
		out = filepath.Join(dir, pkg+".race.test")
		args = []string{"test", "-c", "-race", "-tags", "verif", "-o", out}
	}
	os.MkdirAll(dir, 0o755)
	src := "/repo"
	if repo != "" {
		src = repo
		gm, err := os.ReadFile(filepath.Join(root, "go.mod"))
		if err != nil {
			die(2, "go.mod: %v", err)
		}
		mf := filepath.Join(dir, "go.mod")
		os.WriteFile(mf, []byte(strings.Replace(string(gm), "=> /repo", "=> "+repo, 1)), 0o644)
		gs, _ := os.ReadFile(filepath.Join(root, "go.sum"))
		os.WriteFile(filepath.Join(dir, "go.sum"), gs, 0o644)
		args = append(args, "-modfile="+mf)
	}
	args = append(args, "./"+pkg)
	// go.sum follows the repository's
	if b, err := os.ReadFile(filepath.Join(src, "go.sum")); err == nil && repo == "" {
		cur, _ := os.ReadFile(filepath.Join(root, "go.sum"))
		if !strings.Contains(string(cur), strings.TrimSpace(string(b))) {
			os.WriteFile(filepath.Join(root, "go.sum"), append(b, cur...), 0o644)
		}
	}
	cmd := exec.Command("go", args...)
	cmd.Dir = root
	cmd.Env = goEnv()
	if b, err := cmd.CombinedOutput(); err != nil {
		die(2, "BUILD-FAILED engine=%s: %v\n%s", pkg, err, b)
	}
	return out
}

func runWorker(bin string, job *sim.Job, extraEnv ...string) ([]*sim.RunResult, error) {
	dir, err := os.MkdirTemp(filepath.Join(root, "bin"), "job")
	if err != nil {
		return nil, err
	}
	defer os.RemoveAll(dir)
	job.Out = filepath.Join(dir, "out.jsonl")
	jb, _ := json.Marshal(job)
	jp := filepath.Join(dir, "job.json")
	os.WriteFile(jp, jb, 0o644)
	cmd := exec.Command(bin, "-test.run", "^TestWorker$", "-test.cpu", "1", "-test.timeout", "6h")
	// one P (-test.cpu 1) and no signal-based preemption: which goroutine of a
	// library's own background tasks (the mux's read and write loops) runs next
	// is then decided by where they block, not by the clock
	cmd.Env = append(os.Environ(), "VERIF_JOB="+jp, "GODEBUG=asyncpreemptoff=1")
	cmd.Env = append(cmd.Env, extraEnv...)
	if strings.HasSuffix(bin, ".race.test") {
		cmd.Env = append(cmd.Env, "GORACE=halt_on_error=0 log_path="+filepath.Join(dir, "race"), "VERIF_RACE_LOG="+filepath.Join(dir, "race"))
	}
	cmd.Dir = dir
	outb, werr := cmd.CombinedOutput()
	var res []*sim.RunResult
	pending := int64(-1) // run that had begun when the process ended
	f, err := os.Open(job.Out)
	if err == nil {
		sc := bufio.NewScanner(f)
		sc.Buffer(make([]byte, 1<<20), 1<<30)
		for sc.Scan() {
			var b struct {
				Begin *uint64 `json:"begin"`
			}
			if json.Unmarshal(sc.Bytes(), &b) == nil && b.Begin != nil {
				pending = int64(*b.Begin)
				continue
			}
			var r sim.RunResult
			if json.Unmarshal(sc.Bytes(), &r) == nil {
				res = append(res, &r)
				pending = -1
			}
		}
		f.Close()
	}
	if werr != nil && pending >= 0 && job.Mode != "shrink" {
		if sig := crashSignature(string(outb)); sig != "" {
			// the run took the whole process down: that is a result, not a tool failure
			r := &sim.RunResult{Engine: job.Engine, Profile: job.Profile, Seed: job.Seed, Run: uint64(pending), Nontrivial: true, Stats: sim.Stats{"process-crash": 1},
				Violations: []sim.Violation{{Property: job.Profile, Invariant: "process-crash", Detail: "the run ended the process: " + sig}}, Sample: strings.Split(tail(string(outb), 1500), "\n")}
			if job.Replay != nil {
				r.Tape = job.Replay
			}
			return append(res, r), nil
		}
	}
	if werr != nil {
		if len(res) > 0 && strings.Contains(string(outb), "race detected during execution of test") {
			// a -race binary exits non-zero after a report; the report itself is in the results
			return res, nil
		}
		return res, fmt.Errorf("worker: %v\n%s", werr, tail(string(outb), 3000))
	}
	return res, nil
}

// crashSignature recognises a Go runtime fatal error (not recoverable by the
// engines' panic guards) in a worker's output and names the library frames.
func crashSignature(out string) string {
	i := strings.Index(out, "fatal error: ")
	if i < 0 {
		// an unrecovered panic on a goroutine of the run: a result only when it
		// was raised inside the library (the first frame that is not the
		// runtime's); one raised by the harness's own code stays a tool failure
		if strings.HasPrefix(out, "panic: ") {
			i = 0
		} else if i = strings.Index(out, "\npanic: "); i >= 0 {
			i++
		} else {
			return ""
		}
		inLib := false
		for _, l := range strings.Split(out[i:], "\n")[1:] {
			l = strings.TrimSpace(l)
			if l == "" || strings.HasPrefix(l, "goroutine ") || strings.HasPrefix(l, "panic(") || strings.HasPrefix(l, "runtime.") || strings.HasPrefix(l, "/") || strings.HasPrefix(l, "[") || strings.HasPrefix(l, "\t") {
				continue
			}
			inLib = strings.HasPrefix(l, "go.sia.tech/core/")
			break
		}
		if !inLib {
			return ""
		}
	}
	lines := strings.Split(out[i:], "\n")
	sig := lines[0]
	n := 0
	for _, l := range lines[1:] {
		l = strings.TrimSpace(l)
		if strings.HasPrefix(l, "go.sia.tech/core/") && n < 4 {
			sig += " < " + strings.SplitN(l, "(", 2)[0]
			n++
		}
	}
	return sig
}

func tail(s string, n int) string {
	if len(s) > n {
		return s[len(s)-n:]
	}
	return s
}

type finding struct {
	Status    string `json:"status"` // "open" or "fixed"
	Property  string `json:"property"`
	Invariant string `json:"invariant"`
	Match     string `json:"match"` // substring of the violation detail identifying the failing input / call site
	What      string `json:"what"`
	Commit    string `json:"commit,omitempty"`
}

func loadFindings() []finding {
	var fs struct {
		Findings []finding `json:"findings"`
	}
	b, err := os.ReadFile(filepath.Join(root, "known_findings.json"))
	if err != nil {
		return nil
	}
	if err := json.Unmarshal(b, &fs); err != nil {
		die(2, "known_findings.json: %v", err)
	}
	return fs.Findings
}

func knownFinding(fs []finding, v sim.Violation) *finding {
	for i, f := range fs {
		if f.Status == "open" && f.Property == v.Property && f.Invariant == v.Invariant && strings.Contains(v.Detail, f.Match) {
			return &fs[i]
		}
	}
	return nil
}

type replayFile struct {
	Engine      string        `json:"engine"`
	Pkg         string        `json:"pkg"`
	Profile     string        `json:"profile"`
	Tier        string        `json:"tier"`
	Seed        uint64        `json:"seed"`
	Run         uint64        `json:"run"`
	Violation   sim.Violation `json:"violation"`
	Tape        []uint32      `json:"tape"`
	OrigTapeLen int           `json:"original_tape_len"`
	LogHash     string        `json:"event_log_sha256"`
	Env         []string      `json:"env,omitempty"`
	Trace       []string      `json:"trace,omitempty"`
}

func cmdCheck(args []string) {
	if len(args) < 1 {
		die(2, "usage: verif check <id> [--tier quick|thorough]")
	}
	id := args[0]
	tier := os.Getenv("VERIF_TIER")
	if tier == "" {
		tier = "quick"
	}
	var seed uint64 = 1
	if s := os.Getenv("VERIF_SEED"); s != "" {
		if v, err := strconv.ParseUint(s, 10, 64); err == nil {
			seed = v
		} else if v, err := strconv.ParseInt(s, 10, 64); err == nil {
			seed = uint64(v)
		}
	}
	workers := runtime.NumCPU()
	if workers > 16 {
		workers = 16
	}
	for i := 1; i < len(args); i++ {
		switch args[i] {
		case "--tier":
			i++
			tier = args[i]
		case "--seed":
			i++
			seed, _ = strconv.ParseUint(args[i], 10, 64)
		case "--workers":
			i++
			workers, _ = strconv.Atoi(args[i])
		}
	}
	p, ok := props[id]
	if !ok {
		die(2, "unknown property %s", id)
	}
	start := time.Now()
	findings := loadFindings()

	type batch struct {
		part part
		bin  string
		res  []*sim.RunResult
		errs []string
	}
	var batches []*batch
	for _, pt := range p.Parts {
		bin := buildEngine(pt.Pkg, pt.Race)
		batches = append(batches, &batch{part: pt, bin: bin})
	}
	for _, b := range batches {
		runs := b.part.QuickRuns
		budget := b.part.QuickBudgetS
		if tier == "thorough" {
			runs, budget = b.part.ThoroughRuns, b.part.ThoroughBudgetS
		}
		var mu sync.Mutex
		var wg sync.WaitGroup
		per := (runs + workers - 1) / workers
		for wi := 0; wi < workers; wi++ {
			wg.Add(1)
			go func(wi int) {
				defer wg.Done()
				job := &sim.Job{Engine: b.part.Engine, Profile: b.part.Profile, Tier: tier, Seed: seed,
					RunStart: uint64(wi), RunStep: uint64(workers), RunCount: uint64(per), BudgetS: budget}
				res, err := runWorker(b.bin, job, b.part.Env...)
				mu.Lock()
				b.res = append(b.res, res...)
				if err != nil {
					b.errs = append(b.errs, err.Error())
				}
				mu.Unlock()
			}(wi)
		}
		wg.Wait()
		sort.Slice(b.res, func(i, j int) bool { return b.res[i].Run < b.res[j].Run })
	}

	// merge
	ev := newEvidence(id, tier, seed, p)
	var viol *sim.RunResult
	var violV sim.Violation
	var violBatch *batch
	exit := 0
	knownPrinted := map[string]bool{}
	for _, b := range batches {
		for _, e := range b.errs {
			fmt.Println("WORKER-ERROR:", firstLine(e))
			if os.Getenv("VERIF_VERBOSE") != "" {
				fmt.Fprintln(os.Stderr, e)
			}
			ev.workerErrors++
		}
		for _, r := range b.res {
			ev.add(b.part, r)
			for _, v := range r.Violations {
				if v.Property != id {
					ev.otherProps[v.Property+"/"+v.Invariant]++
					continue
				}
				if f := knownFinding(findings, v); f != nil {
					k := f.Property + "/" + f.Invariant + "/" + f.Match
					if !knownPrinted[k] {
						fmt.Printf("KNOWN-FINDING: property=%s %s\n", id, f.What)
						knownPrinted[k] = true
					}
					ev.known++
					continue
				}
				ev.violations++
				if viol == nil {
					viol, violV, violBatch = r, v, b
				}
			}
		}
	}
	if viol != nil {
		path := reportViolation(id, tier, violBatch.part, violBatch.bin, viol, violV)
		fmt.Printf("VIOLATION property=%s replay=%s\n", id, path)
		fmt.Printf("  %s\n", violV.String())
		exit = 1
	}
	ev.wall = time.Since(start).Seconds()
	ev.write()
	if exit == 0 {
		degraded := ev.harnessErrs*10 > ev.runs
		if degraded && len(ev.otherProps) > 0 && len(ev.distinct) >= 2 && ev.workerErrors == 0 {
			// the stubs could not make progress because the library violates
			// *other* properties in these runs; that is their checks' business
			fmt.Printf("NOTE property=%s exploration degraded by violations of other properties: %v\n", id, ev.otherProps)
			degraded = false
		}
		if ev.runs == 0 || ev.workerErrors > 0 || degraded || len(ev.distinct) < 2 {
			fmt.Printf("HARNESS-TROUBLE property=%s runs=%d nontrivial=%d harness_errors=%d worker_errors=%d other_property_violations=%v\n", id, ev.runs, len(ev.distinct), ev.harnessErrs, ev.workerErrors, ev.otherProps)
			for _, s := range ev.harnessSamples {
				fmt.Println("  ", s)
			}
			os.Exit(2)
		}
		for i, smp := range ev.harnessSamples {
			if i < 3 {
				fmt.Printf("NOTE property=%s harness error (run not judged): %s\n", id, smp)
			}
		}
		fmt.Printf("OK property=%s tier=%s runs=%d distinct=%d wall=%.1fs harness_errors=%d\n", id, tier, ev.runs, len(ev.distinct), ev.wall, ev.harnessErrs)
	}
	os.Exit(exit)
}

func firstLine(s string) string {
	if i := strings.IndexByte(s, '\n'); i >= 0 {
		return s[:i]
	}
	return s
}

// reportViolation shrinks the tape, verifies the replay in a fresh process and
// writes the replay file.
func reportViolation(id, tier string, pt part, bin string, r *sim.RunResult, v sim.Violation) string {
	os.MkdirAll(filepath.Join(root, "replays"), 0o755)
	base := fmt.Sprintf("%s-%s-%d-%d", id, pt.Engine, r.Seed, r.Run)
	orig := replayFile{Engine: pt.Engine, Pkg: pt.Pkg, Profile: pt.Profile, Tier: tier, Seed: r.Seed, Run: r.Run, Violation: v, Tape: r.Tape, OrigTapeLen: len(r.Tape), LogHash: r.LogHash, Env: pt.Env, Trace: r.Sample}
	writeJSON(filepath.Join(root, "replays", base+".orig.json"), orig)
	if len(r.Tape) == 0 {
		// a run that killed its process: no tape came back; it is identified by
		// seed and run number and verified by running exactly that run again
		job := &sim.Job{Engine: pt.Engine, Profile: pt.Profile, Tier: tier, Seed: r.Seed, RunStart: r.Run, RunCount: 1, RunStep: 1}
		res, _ := runWorker(bin, job, pt.Env...)
		again := false
		for _, rr := range res {
			for _, mv := range rr.Violations {
				again = again || mv.Key() == v.Key()
			}
		}
		if !again {
			fmt.Println("NOTE: the process crash did not recur when the run was repeated")
		}
		path := filepath.Join(root, "replays", base+".json")
		writeJSON(path, orig)
		return path
	}
	min := orig
	budget := 60.0
	if tier == "thorough" {
		budget = 600
	}
	job := &sim.Job{Engine: pt.Engine, Profile: pt.Profile, Tier: tier, Seed: r.Seed, Mode: "shrink", Replay: r.Tape, Key: v.Key(), MaxRuns: 300, BudgetS: budget}
	if res, err := runWorker(bin, job, pt.Env...); err == nil && len(res) == 1 {
		for _, mv := range res[0].Violations {
			if mv.Key() == v.Key() {
				min.Tape, min.Violation, min.LogHash, min.Trace = res[0].Tape, mv, res[0].LogHash, res[0].Sample
			}
		}
	}
	// replay the minimised tape in a fresh process: same violation, same hash
	job = &sim.Job{Engine: pt.Engine, Profile: pt.Profile, Tier: tier, Seed: r.Seed, Mode: "replay", Replay: min.Tape}
	ok := false
	if res, err := runWorker(bin, job, pt.Env...); err == nil && len(res) == 1 {
		for _, mv := range res[0].Violations {
			if mv.Key() == v.Key() && res[0].LogHash == min.LogHash {
				ok = true
			}
		}
	}
	if !ok {
		// fall back to the original tape, which is what actually failed
		fmt.Println("NOTE: minimised tape did not replay identically; reporting the original tape")
		min = orig
	}
	path := filepath.Join(root, "replays", base+".json")
	writeJSON(path, min)
	return path
}

func writeJSON(path string, v any) {
	b, _ := json.MarshalIndent(v, "", " ")
	os.WriteFile(path, b, 0o644)
}

func cmdReplay(args []string) {
	if len(args) < 1 {
		die(2, "usage: verif replay <file>")
	}
	b, err := os.ReadFile(args[0])
	if err != nil {
		die(2, "%v", err)
	}
	var rf replayFile
	if err := json.Unmarshal(b, &rf); err != nil {
		die(2, "%v", err)
	}
	bin := buildEngine(rf.Pkg, rf.Engine == "E3")
	job := &sim.Job{Engine: rf.Engine, Profile: rf.Profile, Tier: rf.Tier, Seed: rf.Seed, Mode: "replay", Replay: rf.Tape}
	if len(rf.Tape) == 0 {
		job = &sim.Job{Engine: rf.Engine, Profile: rf.Profile, Tier: rf.Tier, Seed: rf.Seed, RunStart: rf.Run, RunCount: 1, RunStep: 1}
	}
	res, err := runWorker(bin, job, rf.Env...)
	if err != nil || len(res) != 1 {
		die(2, "replay failed to run: %v", err)
	}
	r := res[0]
	for _, l := range r.Sample {
		fmt.Println("  ", l)
	}
	for _, v := range r.Violations {
		if v.Key() == rf.Violation.Key() {
			same := "same"
			if r.LogHash != rf.LogHash {
				same = "DIFFERENT"
			}
			fmt.Printf("REPRODUCED %s (event log hash %s)\n  %s\n", v.Key(), same, v.Detail)
			fmt.Printf("VIOLATION property=%s replay=%s\n", v.Property, args[0])
			os.Exit(1)
		}
	}
	fmt.Printf("NOT-REPRODUCED %s (violations now: %v)\n", rf.Violation.Key(), r.Violations)
	os.Exit(0)
}

// cmdSelftest runs the determinism self-test of an engine: many seeds, each
// in several processes at several GOMAXPROCS values; event-log hashes must
// agree.
func cmdSelftest(args []string) {
	if len(args) < 2 {
		die(2, "usage: verif selftest <pkg> <profile> [seeds] [procs]")
	}
	pkg, profile := args[0], args[1]
	seeds, procs := 40, 6
	if len(args) > 2 {
		seeds, _ = strconv.Atoi(args[2])
	}
	if len(args) > 3 {
		procs, _ = strconv.Atoi(args[3])
	}
	bin := buildEngine(pkg, false)
	type key struct{ run uint64 }
	hashes := map[uint64]map[string]int{}
	var mu sync.Mutex
	var wg sync.WaitGroup
	sem := make(chan struct{}, 16)
	for p := 0; p < procs; p++ {
		gmp := []string{"1", "4", "16"}[p%3]
		wg.Add(1)
		sem <- struct{}{}
		go func(p int) {
			defer wg.Done()
			defer func() { <-sem }()
			job := &sim.Job{Engine: pkg, Profile: profile, Tier: "quick", Seed: 7, RunStart: 0, RunStep: 1, RunCount: uint64(seeds)}
			res, err := runWorker(bin, job, "GOMAXPROCS="+gmp)
			if err != nil {
				fmt.Println("worker error:", firstLine(err.Error()))
			}
			mu.Lock()
			for _, r := range res {
				if hashes[r.Run] == nil {
					hashes[r.Run] = map[string]int{}
				}
				hashes[r.Run][r.LogHash+fmt.Sprint(r.TapeLen)]++
			}
			mu.Unlock()
		}(p)
	}
	wg.Wait()
	bad := 0
	for run, m := range hashes {
		if len(m) != 1 {
			bad++
			fmt.Printf("NONDETERMINISTIC run=%d variants=%d\n", run, len(m))
		}
	}
	fmt.Printf("selftest %s/%s: %d runs x %d processes, %d nondeterministic\n", pkg, profile, len(hashes), procs, bad)
	if bad > 0 {
		os.Exit(1)
	}
}
