package main

// part is one batch of simulated runs of one engine profile.
type part struct {
	Engine  string // label: E1, E1h, E2, E3
	Pkg     string // go package of the engine test binary
	Profile string
	Race    bool
	Env     []string

	QuickRuns       int
	QuickBudgetS    float64 // per worker
	ThoroughRuns    int
	ThoroughBudgetS float64
}

type prop struct {
	Parts          []part
	Rule           string
	Assumptions    []string
	Components     map[string]string
	ExpectCounters []string // reach / probe counters that should be non-zero over a thorough batch
}

var e1Components = map[string]string{
	"consensus validation/application/revert/accumulator/difficulty": "real (go.sia.tech/core/consensus, public API)",
	"types: codecs, IDs, sighashes, policies, currency":               "real (go.sia.tech/core/types)",
	"chain manager, fork choice, reorg driver, element store, mempool": "stub written for the harness",
	"miners, wallets, renters, hosts, light clients, adversary":       "stub actors calling the real library",
	"network, clocks, disks":                                           "simulated, owned by the seeded scheduler",
	"reference ledger, naive Merkle forest, RefWire, RefPolicy":        "independent models in /verif/ref (x/crypto blake2b, math/big)",
	"ed25519, blake2b, encoding/json, Go runtime":                      "trusted",
}

var e1Assumptions = []string{
	"sampling, not enumeration: a clean batch is evidence, not proof",
	"the stub chain manager / store / actors are harness code; their failures exit 2, never VIOLATION",
	"network parameters stay inside sane ranges (block interval 1 min … 3 days, v2 require height >= 1)",
	"proof of work is real but kept cheap (initial difficulty <= 16)",
}

func e1(profile string, quick, thorough int) part {
	return part{Engine: "E1", Pkg: "world", Profile: profile, QuickRuns: quick, QuickBudgetS: 40, ThoroughRuns: thorough, ThoroughBudgetS: 900}
}

var props = map[string]prop{
	"C01": {
		Parts:       []part{e1("C01", 240, 6000)},
		Rule:        "one case = one seeded run of a 2-4 node Sia network (swarm-drawn network parameters, eras, fault kinds, workload mix); after every applied and every reverted block at every node the reference ledger (math/big, fed by block contents) is compared with the store built from the library's diffs, and the supply equation, miner payout, siafund count and claim amounts are checked. Non-trivial = the run applied blocks with transactions and the oracle ran; distinct = distinct SHA-256 of the event log.",
		Assumptions: e1Assumptions,
		Components:  e1Components,
		ExpectCounters: []string{"fault.drop", "fault.duplicate", "fault.partition", "reach.reorg", "workload.pay-v1", "workload.pay-v2", "workload.siafund-v1", "workload.siafund-v2", "workload.ephemeral-v2"},
	},
}
