package main

// part is one batch of simulated runs of one engine profile.
type part struct {
	Engine  string // label: E1, E1h, E2, E3
	Pkg     string // go package of the engine test binary
	Profile string
	Race    bool
	Env     []string

	QuickRuns       int
	QuickBudgetS    float64 // per worker
	ThoroughRuns    int
	ThoroughBudgetS float64
}

type prop struct {
	Parts          []part
	Rule           string
	Assumptions    []string
	Components     map[string]string
	ExpectCounters []string // reach / probe counters that should be non-zero over a thorough batch
}

var e1Components = map[string]string{
	"consensus validation/application/revert/accumulator/difficulty":   "real (go.sia.tech/core/consensus, public API)",
	"types: codecs, IDs, sighashes, policies, currency":                "real (go.sia.tech/core/types)",
	"chain manager, fork choice, reorg driver, element store, mempool": "stub written for the harness",
	"miners, wallets, renters, hosts, light clients, adversary":        "stub actors calling the real library",
	"network, clocks, disks":                                           "simulated, owned by the seeded scheduler",
	"reference ledger, naive Merkle forest, RefWire, RefPolicy":        "independent models in /verif/ref (x/crypto blake2b, math/big)",
	"ed25519, blake2b, encoding/json, Go runtime":                      "trusted",
}

var e1Assumptions = []string{
	"sampling, not enumeration: a clean batch is evidence, not proof",
	"the stub chain manager / store / actors are harness code; their failures exit 2, never VIOLATION",
	"network parameters stay inside sane ranges (block interval 1 min … 3 days, v2 require height >= 1)",
	"proof of work is real but kept cheap (initial difficulty <= 16)",
}

func e1(profile string, quick, thorough int) part {
	return part{Engine: "E1", Pkg: "world", Profile: profile, QuickRuns: quick, QuickBudgetS: 40, ThoroughRuns: thorough, ThoroughBudgetS: 900}
}

func e1prop(profile string, quick, thorough int, rule string, expect ...string) prop {
	return prop{Parts: []part{e1(profile, quick, thorough)}, Rule: rule, Assumptions: e1Assumptions, Components: e1Components, ExpectCounters: expect}
}

const e1Case = "one case = one seeded run of a 2-4 node Sia network (swarm-drawn network parameters, eras, fault kinds, workload mix); distinct = distinct SHA-256 of the event log; "

var e2Components = map[string]string{
	"gateway handshake, RPC framing and limits; rhp/v2 encrypted transport; rhp/v3 stream framing; rhp/v4 request/response framing; all RPC object codecs": "real (go.sia.tech/core/gateway, rhp/v2, rhp/v3, rhp/v4)",
	"rhp/v2 and rhp/v4 Merkle builders and verifiers, blake2b (AVX2 and generic paths)":                                                                    "real",
	"stream multiplexer under gateway and RHP3":                                      "real dependency go.sia.tech/mux v1.5.3 inside the bubble (not under test)",
	"byte-stream connection, chunking, delays, stalls, bit flips, truncation, reset": "simulated, owned by the seeded lock-step scheduler",
	"clock": "testing/synctest bubble clock (Go 1.26.8)",
	"renter / host / peer endpoints, scripts": "stub tasks calling the real transports",
	"RefMerkle": "independent model in /verif/ref",
}

var e2Assumptions = []string{
	"sampling, not enumeration",
	"between two quiescent points goroutines run under the Go scheduler; the history is independent of that interleaving (checked by the determinism self-test)",
	"key-exchange randomness only influences ciphertext, which never enters the event log",
	"frame integrity of mux-carried traffic (gateway, RHP3) is the multiplexer's job; it is observed through the equality oracle, the exact tamper-detection oracle applies to RHP2",
}

var props = map[string]prop{
	"C14": e1prop("C14", 240, 6000, e1Case+"probe profile: on private forks of reachable states an output is created that is guarded by a tape-drawn policy tree (above / after around the fork's height and median time, public keys the spender holds or not, hash locks with known or unknown preimages, nested thresholds, opaque branches, legacy unlock conditions with ed25519 / unknown-algorithm / entropy keys and a timelock around the height); it is then spent six times with tape-drawn presentations (exactly / fewer / more branches revealed than required, others opaque) and witness assignments (honest, one signature or preimage bit flipped, missing, surplus, swapped, signed by a foreign key). Oracle: RefPolicy (evaluator written from the policy's meaning): SpendPolicy.Verify and ValidateBlock (a block spending the output, everything else valid) must agree with it; Address must not change when any subset of branches (incl. a legacy-conditions branch) is made opaque; policies whose sub-policy count exceeds the protocol limit only across sibling thresholds must be rejected.",
		"probe.P2-verify-compared", "probe.P2-satisfied", "probe.P2-policy-in-block.offered", "probe.P2-address-checked", "probe.P2-size-limit"),
	"C17": {
		Parts:          []part{{Engine: "E2", Pkg: "sess", Profile: "C17", QuickRuns: 3000, QuickBudgetS: 60, ThoroughRuns: 150000, ThoroughBudgetS: 1200}},
		Rule:           "one case = one seeded contract life between a renter task and a host task over the simulated connection (real RHP4 request objects and codec, tape-chosen chunking, stalls and truncation): formation, then 3-10 operations out of {append (incl. exactly the free capacity, large batches), free, sector roots, fund accounts (fraction / exactly the remaining allowance / one hasting more), replenish, renew, refresh with full and with partial rollover, expired prices, badly signed prices} with a tape-drawn price table (zero, tiny and large prices), allowances and collateral at, below and above what is left. Both parties run the real Validate methods, constructors and cost functions; the host funds, signs, validates (ValidateV2Transaction) and mines every resulting transaction on a private chain running the real consensus code. Oracle: big-integer accounting from the property's identities (total kept; renter charged exactly the reported usage; missed host value lowered by exactly the reported collateral and never raised; total collateral untouched; failure exactly when funds do not cover the cost; renewal/refresh split the old value exactly, roll over no more than the new contract costs, and reported costs + rollover = new contract + tax + fee), acceptance by consensus, and agreement of the two parties (host signature verifies against the renter's own result). A v1 variant drives rhp/v2 and rhp/v3 formation, payment revisions and renewals through ValidateTransaction. Non-trivial = at least one constructed transaction was mined.",
		Assumptions:    e2Assumptions,
		Components:     e2Components,
		ExpectCounters: []string{"c17.op.form", "c17.op.append", "c17.op.free", "c17.op.roots", "c17.op.fund", "c17.op.fund-exact", "c17.op.fund-over", "c17.op.replenish", "c17.op.renew", "c17.op.refresh-full", "c17.op.refresh-partial", "c17.op.expired-prices", "c17.revision-checked", "c17.renewal-checked", "c17.insufficient", "c17.rejected-by-validate", "c17.mined", "c17.v1-validated", "fault.truncate-close", "fault.stall"},
	},
	"C16": {
		Parts: []part{
			{Engine: "E2", Pkg: "sess", Profile: "C16", QuickRuns: 1500, QuickBudgetS: 60, ThoroughRuns: 60000, ThoroughBudgetS: 1200},
			{Engine: "E2", Pkg: "sess", Profile: "C16", QuickRuns: 500, QuickBudgetS: 40, ThoroughRuns: 20000, ThoroughBudgetS: 600, Env: []string{"GODEBUG=cpu.avx2=off,cpu.avx512f=off"}},
		},
		Rule:           "one case = one seeded host/renter session over the simulated connection: 2-6 operations out of {stream a sector or a shorter leaf-aligned file into ReaderRoot / ReadSectorRoot / ReadSector; read a leaf range with BuildProof into the streaming RangeProofVerifier; single-leaf proof from the cached-subtree builder BuildSectorProof; sector-roots range proof; append proof; free-sectors proof; rhp/v2 swap+trim diff proof}, with tape-chosen chunking of the stream and at most one in-flight fault (bit flip, truncate-and-close). Oracles: RefMerkle (plain recursive RFC 6962 tree over 64-byte leaves) gives every root, the range proof by definition and the audit path (ConvertProofOrdering); an honest proof must verify, what arrives changed must be rejected and what is accepted must be unchanged; every single-element corruption (proof hash bit, datum bit, root bit, shifted range, proof one hash short / long, other freed index) must be rejected. The batch is run a second time with the assembly hash kernels disabled (GODEBUG=cpu.avx2=off). Non-trivial = at least one operation verified.",
		Assumptions:    e2Assumptions,
		Components:     e2Components,
		ExpectCounters: []string{"merkle.sector-root", "merkle.read-range", "merkle.verify-leaf", "merkle.sector-roots", "merkle.append", "merkle.free", "merkle.diff", "merkle.corruptions", "merkle.tamper-detected", "fault.bitflip", "fault.truncate-close"},
	},
	"C19": {
		Parts:          []part{{Engine: "E2", Pkg: "sess", Profile: "C19", QuickRuns: 4000, QuickBudgetS: 40, ThoroughRuns: 120000, ThoroughBudgetS: 900}},
		Rule:           "one case = one seeded session of two endpoint tasks over the simulated connection inside a synctest bubble: RHP4 request/response scripts (every object type filled by reflection from the tape, error responses, follow-up messages, objects at MaxSectorBatchSize / MaxAccountBatchSize, free-sector proofs from the real builder for valid requests, over-limit objects), RHP2 encrypted transport (handshake, every ProtocolObject, RawResponse/VerifyTag path, wrong host key, over-limit), RHP3 over the real mux, gateway Dial/Accept with matching and mismatching headers and every gateway.Object; per session one chunking mode (all / random / small / byte) and at most one fault (bit flip at an offset, truncate-and-close, stall until deadlines fire). Oracles: what is read equals what was written, in order; valid messages within limits are readable; reads never consume more than the receiver's limit; error responses arrive as that error; an RHP2 frame with a flipped bit is never accepted; mismatching handshakes are refused. Non-trivial = bytes were delivered.",
		Assumptions:    e2Assumptions,
		Components:     e2Components,
		ExpectCounters: []string{"session.rhp4", "session.rhp4-maxima", "session.rhp4-free-sectors", "session.rhp4-overlimit", "session.rhp2", "session.rhp2-overlimit", "session.rhp2-wrongkey", "session.rhp3", "session.rhp3-wrongkey", "session.gateway", "session.gateway-mismatch-genesis", "session.gateway-mismatch-unique-id", "fault.bitflip", "fault.truncate-close", "fault.stall", "rhp2.raw-response-verified", "rpc4.error-delivered", "rpc4.maxima-delivered"},
	},
	"C05": e1prop("C05", 240, 6000, e1Case+"accumulator-stress profile (many outputs, 2-4 light clients, forced partitions and stale mining). After every applied/reverted block: accumulator leaf count and roots = naive forest over all leaves ever added; every stored and every light-client proof verifies and equals the forest path; leaf indices equal the forest's. Non-trivial = light clients verified at least one proof after an update.",
		"reach.reorg", "reach.light-revert", "reach.light-spent-verified", "probe.light.verified"),
	"C06": e1prop("C06", 240, 6000, e1Case+"reorg-heavy profile. On every revert: RevertBlock's diffs are the reverse of ApplyBlock's; the store (ids, fields, leaf indices, proofs) equals its digest from before the block was applied and the reference ledger of the parent; every element verifies against the parent state; on re-apply state encoding and diffs are byte-identical to the first apply. Non-trivial = at least one revert with non-empty diffs.",
		"reach.reorg", "reach.revert-nonempty", "reach.reapply", "reach.reorg.depth3"),
	"C09": func() prop {
		p := e1prop("C09", 200, 5000, e1Case+"at every validated block (valid or not, incl. corrupted copies): inputs (state, block incl. every proof, supplement) byte-equal before/after ValidateBlock and ApplyBlock; repeated calls agree; decode(encode(b)) copy agrees in verdict, state bytes and diffs; per-transaction MidState validation agrees with ValidateBlock; updates and DeepCopy share no memory with inputs; different nodes reaching the same block hold byte-identical state and diffs; ID, signature-hash and address functions give the same result when other hashing happens in between and leave their arguments unchanged. Concurrent stage (engine E3, second part built with the race detector): at the end of every run 2-8 caller goroutines (count, work lists and one contended sample drawn from the tape) validate, apply, revert, hash, copy and encode the very same block / state / supplement objects at once; every result must equal the sequential one, inputs must be byte-identical afterwards, and a race-detector report during a run is a violation.",
			"probe.c09.validate", "probe.c09.apply", "probe.c09.deepcopy", "probe.c09.pure", "probe.c09.concurrent-stage", "probe.c09.concurrent-calls")
		race := e1("C09", 64, 1600)
		race.Engine, race.Race = "E3", true
		p.Parts = append(p.Parts, race)
		return p
	}(),
	"C10": func() prop {
		p := e1prop("C10", 240, 6000, e1Case+"corruption-heavy profile: encoded blocks, block batches, locators and transaction sets are bit-flipped, truncated and spliced in transit and fed to the real decoders and, when they still decode, to ValidateBlock / ValidateTransaction / ValidateV2Transaction on nodes in reachable states; every call runs under recover; accepted blocks are applied and (through reorgs) reverted; structure-aware rows (extreme currencies, covered-field and multiproof leaf-count bounds, cross-kind parents). Second part (engine E2, hostile peer): a peer that completed the RHP2 / RHP3 (mux) / RHP4 handshake honestly sends one request or response whose bytes are a valid encoding damaged in one place (a small 8-byte field set to 2^20..2^24 or to values near 2^62..2^64, truncation, bit flips, splice, appended garbage); the other side reads it with the real transport and codec; gateway objects are decoded from such bytes through the codec hooks. It may return anything; it must not panic, must not end the process, and must not allocate more than 64 x (bytes sent + reader limit) + 4 MiB. Non-trivial = at least one damaged message reached a decoder.",
			"fault.bitflip", "fault.truncate", "fault.splice", "node.undecodable", "hostile.decoded", "hostile.accepted", "session.hostile-rhp2", "session.hostile-rhp3", "session.hostile-rhp4", "session.hostile-gateway")
		p.Parts = append(p.Parts, part{Engine: "E2", Pkg: "sess", Profile: "C10", QuickRuns: 32000, QuickBudgetS: 60, ThoroughRuns: 1600000, ThoroughBudgetS: 900})
		comps := map[string]string{}
		for k, v := range p.Components {
			comps[k] = v
		}
		for k, v := range e2Components {
			comps[k] = v
		}
		p.Components = comps
		return p
	}(),
	"C20": func() prop {
		p := e1prop("C20", 240, 6000, e1Case+"2-4 light clients per run consume their node's ApplyUpdate/RevertUpdate stream after a JSON round trip of every update (refreshing proofs before or, other clients, after adopting the elements the update created) and must end with proofs that verify against the state exactly like in-memory clients (every tracked element, incl. spent ones and contracts, across reorgs). Text channel: every transaction a wallet submits and every block and state a node applies crosses a JSON API (parsed back: equal encoding and ID); policies in string form, unlock keys (incl. non-alphanumeric algorithm specifiers), addresses and chain indices in text form; the channel's fault alters / drops / adds one character of an identifier inside the JSON (address, hash, public key, signature) or of an address / chain index string: the parser must refuse, or (informational members) return the unchanged value, and never panic. Second part (engine E2): a host daemon publishes rhp v2/v3/v4 protocol objects (host settings, prices, price tables, accounts, tokens, requests, contracts, policies) as JSON over the simulated connection with the same identifier faults.",
			"probe.light.json-update", "reach.light-revert", "probe.light.refresh-after-adopt", "probe.api.json-roundtrip", "probe.api.corrupt-address", "probe.api.corrupt-hash", "probe.api.corrupt-chain-index", "probe.api.policy-string", "text.roundtrip", "text.harmed")
		p.Parts = append(p.Parts, part{Engine: "E2", Pkg: "sess", Profile: "C20", QuickRuns: 16000, QuickBudgetS: 60, ThoroughRuns: 800000, ThoroughBudgetS: 600})
		comps := map[string]string{}
		for k, v := range p.Components {
			comps[k] = v
		}
		for k, v := range e2Components {
			comps[k] = v
		}
		p.Components = comps
		return p
	}(),
	"C02": e1prop("C02", 240, 6000, e1Case+"probe profile: at sampled reachable states the adversary builds blocks that contain a second use of an element (same transaction, two transactions, v1+v2, ephemeral, spent in an earlier block with pre-spend or maintained proof, siafunds), re-signed and re-sealed so that nothing else is wrong, and offers them to ValidateBlock on a private fork: every one must be rejected, every control accepted; over accepted histories the reference ledger refuses any repeated spend/resolution. Non-trivial = at least one probe row offered.",
		"probe.D1-v1-same-txn.offered", "probe.D1-v2-same-txn.offered", "probe.D2-v1-v1.offered", "probe.D2-v2-v2.offered", "probe.D2-v1-v2.offered", "probe.D3-ephemeral-twice.offered", "probe.D4-v2-maintained-proof.offered", "probe.D4-v1-maintained-proof.offered", "probe.D2-sf-v2-v2.offered", "probe.D2-sf-v1-v1.offered"),
	"C03": e1prop("C03", 240, 6000, e1Case+"probe profile: valid signed v1 (whole and partial covered fields) and v2 (every wallet policy kind) transactions are tampered with at one point (covered content, signature bit/drop/add/reorder, key index, other conditions/policy, opaque branch, attestation fields, Foundation updates), re-sealed and offered: tampered rejected, untampered accepted. Content rows are only asserted for inputs that carry a signature (a hash-lock binds nothing).",
		"probe.A1-v1-control.offered", "probe.A1-v1-output-address.offered", "probe.A1-v1-sig-bitflip.offered", "probe.A1-v1-key-index.offered", "probe.A2-v2-control.offered", "probe.A2-v2-output-address.offered", "probe.A2-v2-sig-reordered.offered", "probe.A2-v2-preimage-flip.offered", "probe.A2-v2-needed-branch-opaque.offered", "probe.A4-value.offered", "probe.A5-v2-unauthorized.offered", "probe.A5-v2-authorized.offered", "probe.A5-v1-authorized.offered", "probe.A5-v1-partial-sig.offered"),
	"C04": e1prop("C04", 240, 6000, e1Case+"probe profile: live elements are presented with one field, leaf index, proof hash or proof length altered, with another element's proof, as never-created or re-labelled spent elements, through v2 parents (ValidateBlock and ValidateTransactionElements) and through v1 supplement entries, rebalanced and re-signed so that only membership is wrong: all rejected, unmodified live elements accepted; accumulator = naive forest after every block.",
		"probe.M-v2-control.offered", "probe.M1-value.offered", "probe.M1-address-steal.offered", "probe.M1-leaf-index.offered", "probe.M1-proof-bitflip.offered", "probe.M1-other-proof.offered", "probe.M2-never-created.offered", "probe.M1-maturity.offered", "probe.M1-sf-value.offered", "probe.M1-v1-supp-value.offered", "probe.M1-v1-supp-proof.offered"),
	"C07": e1prop("C07", 240, 6000, e1Case+"renter/host pairs drive whole contract lives on the simulated chain (v1 via rhp/v2 PrepareContractFormation, v2 with short windows; files of 0 bytes, partial last leaf, non-power-of-two leaf counts; revisions, renewals, proofs, expiries, host crashes, reorgs) and the reference ledger's contract tracker requires at most one resolution paying exactly the latest accepted revision's outputs with the maturity delay; on private forks the adversary runs the prove/verify matrix (honest accepted; other leaf, data bit, proof bit, short/long proof, other file, other contract, wrong/fake proof index rejected; RefMerkle is the independent prover) and the revision / renewal / formation rule rows.",
		"reach.resolved.proof.era3", "reach.resolved.expire.era3", "reach.resolved.v2proof", "reach.resolved.v2expire", "reach.resolved.renewal", "probe.K3-v1-honest-era3.offered", "probe.K3-v1-honest-era2.offered", "probe.K3-v1-honest-era1.offered", "probe.K7-v2-honest.offered", "probe.K3-v1-other-file.offered", "probe.K7-v2-index-other-height.offered", "probe.K5-total-plus-1.offered", "probe.K6-final-plus-1.offered", "probe.K2-valid-sum-plus-1.offered", "probe.payout-checked", "fault.host-crash"),
	"C08": e1prop("C08", 240, 6000, e1Case+"probe profile: for each height/time rule the adversary builds the transaction that is valid except for the rule and advances a private fork of a reachable state with empty blocks so that it is offered in the block at bound-1 (must be rejected) and at bound (must be accepted); after(t) is driven to median == t (reject) and t+1s (accept) with chosen timestamps.",
		"probe.T3-maturity-early.offered", "probe.T3-maturity-at-bound.offered", "probe.T2-v1-timelock-early.offered", "probe.T2-v2-uc-timelock-at-bound.offered", "probe.P1-above-early.offered", "probe.P1-above-at-bound.offered", "probe.P1-after-at-T.offered", "probe.P1-after-T-plus-1.offered", "probe.T1-v1-after-require-at-bound.offered", "probe.T1-v2-before-allow-early.offered"),
	"C11": func() prop {
		p := e1prop("C11", 240, 6000, e1Case+"every block, state and transaction put on the simulated network or disk is checked at that moment: decode(encode(x)) re-encodes to identical bytes, encoding is repeatable, the bytes equal RefWire's independent statement of the layout (header, v1 block, v1/v2 transactions incl. the v2 field bitmap, policies, elements, contracts, resolutions, State with accumulator), and sampled proper prefixes (all prefixes for small messages) fail to decode. Limited: value space = what simulated traffic produces; RPC objects are engine E2's part.",
			"probe.wire.block", "probe.wire.v1txn", "probe.wire.v2txn", "probe.wire.state", "probe.wire.truncation", "probe.wire.multiproof")
		p.Rule += " Second part (engine E2): every rhp v2/v3/v4 request / response object and every gateway object, filled by reflection from the tape, decodes from its own encoding, re-encodes to identical bytes, and fails to decode from sampled proper prefixes (incl. empty and all-but-one byte)."
		p.ExpectCounters = append(p.ExpectCounters, "codec.objects", "codec.prefixes")
		p.Parts = append(p.Parts, part{Engine: "E2", Pkg: "sess", Profile: "C11", QuickRuns: 48000, QuickBudgetS: 40, ThoroughRuns: 2400000, ThoroughBudgetS: 600})
		comps := map[string]string{}
		for k, v := range p.Components {
			comps[k] = v
		}
		for k, v := range e2Components {
			comps[k] = v
		}
		p.Components = comps
		return p
	}(),
	"C12": e1prop("C12", 240, 6000, e1Case+"world invariants (IDs recomputed from RefWire's layouts equal the library's for every transaction on the wire; an ID never changes when only proofs are refreshed by updates; every derived ID ever created is distinct, across kinds) plus probe rows: single-field rewrites of valid v1/v2 transactions must change the ID and input sighash iff the field is effect-bearing; derived IDs of distinct kinds/positions differ; the four v2 signature purposes hash differently and a signature made for one purpose is refused for another; a v1 transaction signed below the ASIC / Foundation / v2-allow boundary is refused when replayed above it; block rewrites with header fields kept are rejected or change the ID; a v2 block re-sealed on another parent state is rejected.",
		"probe.I1-v1-output-address", "probe.I1-v1-signature-bytes", "probe.I1-v2-output-address", "probe.I1-v2-parent-proof", "probe.I1-v2-siafund-claim-address", "probe.I1-v2-revision-field", "probe.S2-asic-replayed.offered", "probe.S2-foundation-replayed.offered", "probe.S2-v2-allow-replayed.offered", "probe.B2-miner-address", "probe.B2-parent-state", "probe.S1-attestation-signed-with-input-sighash.offered"),
	"C18": e1prop("C18", 240, 6000, e1Case+"every v2 block put on the wire goes through the multiproof codec and must come back with bit-identical proofs, ID and commitment; at sampled reachable states blocks with many parent kinds (pool transactions, revisions, resolutions with shared proof-index elements, ephemeral parents) are outlined with a tape-chosen withheld subset (none / some / all), sent through the real outline codec, and completed from partial, superset and permuted candidate pools: outline ID = block ID, Missing() exact after each step, completed block byte-identical to the original.",
		"probe.wire.multiproof", "probe.O1-outline", "reach.outline-all-withheld", "reach.outline-two-step-completion", "reach.multiproof-duplicate-leaf"),
	"C13": {
		Parts:          []part{{Engine: "E1h", Pkg: "world", Profile: "C13", QuickRuns: 2400, QuickBudgetS: 40, ThoroughRuns: 40000, ThoroughBudgetS: 900}},
		Rule:           "one case = one seeded header chain of 300-3000 blocks under swarm-drawn network parameters (Oak before/at/after multiples of 500, fix height, ASIC reset values, nonce factor, v2 allow/require/final-cut heights incl. v2 from height 1, block interval 10 ms ... 1 h, initial difficulty 1-256) and one of five timestamp behaviours (honest, constant = always the median, decreasing-within-rule, far future, mixed); every block is applied both as header only and as full block. Per header: no panic; retarget inside the era's clamp in exact rationals; total work monotone (strict from v2); target/difficulty floored inverses; header-only state = full state on all proof-of-work fields; ValidateHeader accepts the honest header and refuses each single defect (parent, median-1s, nonce factor, work) while accepting the median itself; SufficientlyHeavierThan asymmetric over sampled state pairs. Non-trivial = more than 50 headers applied; distinct = distinct event-log hashes.",
		Assumptions:    []string{"proof of work is really performed, so runs stop when difficulty exceeds 4096", "targets of 2^255 and above saturate to the maximum target in the library (difficulty < 2); the clamp oracle accepts that saturation (DESIGN Appendix F)", "sampling, not enumeration"},
		Components:     e1Components,
		ExpectCounters: []string{"hdr.era.preoak", "hdr.era.oak", "hdr.era.v2", "hdr.era.finalcut", "probe.B3-wrong-parent", "probe.B3-timestamp-median-minus-1s", "probe.B3-timestamp-at-median", "probe.B3-nonce-factor", "probe.B3-insufficient-work", "hdr.heavier-pairs"},
	},
	"C01": {
		Parts:          []part{e1("C01", 240, 6000)},
		Rule:           "one case = one seeded run of a 2-4 node Sia network (swarm-drawn network parameters, eras, fault kinds, workload mix); after every applied and every reverted block at every node the reference ledger (math/big, fed by block contents) is compared with the store built from the library's diffs, and the supply equation, miner payout, siafund count and claim amounts are checked. Non-trivial = the run applied blocks with transactions and the oracle ran; distinct = distinct SHA-256 of the event log.",
		Assumptions:    e1Assumptions,
		Components:     e1Components,
		ExpectCounters: []string{"fault.drop", "fault.duplicate", "fault.partition", "reach.reorg", "workload.pay-v1", "workload.pay-v2", "workload.siafund-v1", "workload.siafund-v2", "workload.ephemeral-v2"},
	},
}
