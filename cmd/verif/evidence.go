package main

import (
	"fmt"
	"os"
	"path/filepath"
	"sort"
	"strings"

	"verif/sim"
)

type evidence struct {
	id, tier string
	seed     uint64
	p        prop

	runs           int
	nontrivial     int
	distinct       map[string]bool // log hashes of non-trivial runs
	stats          sim.Stats
	reach          map[string]bool
	simSeconds     float64
	workMs         float64
	events         int
	samples        []any
	harnessErrs    int
	harnessSamples []string
	workerErrors   int
	violations     int
	known          int
	otherProps     map[string]int
	wall           float64
	perPart        map[string]int
}

func newEvidence(id, tier string, seed uint64, p prop) *evidence {
	return &evidence{id: id, tier: tier, seed: seed, p: p, distinct: map[string]bool{}, stats: sim.Stats{}, reach: map[string]bool{}, otherProps: map[string]int{}, perPart: map[string]int{}}
}

func (e *evidence) add(pt part, r *sim.RunResult) {
	e.runs++
	e.perPart[pt.Engine+"/"+pt.Profile]++
	if r.HarnessErr != "" {
		e.harnessErrs++
		if len(e.harnessSamples) < 5 {
			e.harnessSamples = append(e.harnessSamples, fmt.Sprintf("%s/%s seed=%d run=%d: %s", pt.Engine, pt.Profile, r.Seed, r.Run, r.HarnessErr))
		}
	}
	if r.Nontrivial {
		e.nontrivial++
		e.distinct[r.LogHash] = true
	}
	e.stats.Merge(r.Stats)
	for _, k := range r.Reach {
		e.reach[k] = true
	}
	e.simSeconds += r.SimSeconds
	e.workMs += r.WallMs
	e.events += r.Events
	if len(e.samples) < 3 && r.Nontrivial && len(r.Sample) > 0 {
		e.samples = append(e.samples, map[string]any{"engine": pt.Engine, "profile": pt.Profile, "seed": r.Seed, "run": r.Run, "tape_len": r.TapeLen, "events": r.Events, "event_log_sha256": r.LogHash, "trace": r.Sample})
	}
}

func (e *evidence) write() {
	group := func(prefix string) map[string]int64 {
		m := map[string]int64{}
		for _, k := range e.stats.Keys() {
			if strings.HasPrefix(k, prefix) {
				m[strings.TrimPrefix(k, prefix)] = e.stats[k]
			}
		}
		return m
	}
	var reachKeys []string
	for k := range e.reach {
		reachKeys = append(reachKeys, k)
	}
	sort.Strings(reachKeys)
	reachSample := reachKeys
	if len(reachSample) > 60 {
		reachSample = reachSample[:60]
	}
	// probes stuck at zero are listed, not hidden
	var zero []string
	for _, k := range e.p.ExpectCounters {
		if e.stats[k] == 0 {
			zero = append(zero, k)
		}
	}
	if len(e.samples) == 0 {
		e.samples = append(e.samples, map[string]any{"note": "no non-trivial run in this batch"})
	}
	other := map[string]int64{}
	for _, k := range e.stats.Keys() {
		if !strings.HasPrefix(k, "fault.") && !strings.HasPrefix(k, "probe.") && !strings.HasPrefix(k, "reach.") {
			other[k] = e.stats[k]
		}
	}
	cov := map[string]any{
		"evaluations":                         e.runs,
		"distinct_nontrivial":                 len(e.distinct),
		"rule":                                e.p.Rule,
		"samples":                             e.samples,
		"nontrivial_runs":                     e.nontrivial,
		"runs_by_engine":                      e.perPart,
		"seeds":                               []uint64{e.seed},
		"runs_per_hour":                       int(float64(e.runs) / (e.wall + 1e-9) * 3600),
		"sim_seconds_covered":                 e.simSeconds,
		"events":                              e.events,
		"faults_fired":                        group("fault."),
		"probes":                              group("probe."),
		"rare_conditions":                     group("reach."),
		"counters":                            other,
		"reach_tuples":                        len(reachKeys),
		"reach_tuple_samples":                 reachSample,
		"counters_stuck_at_zero":              zero,
		"components":                          e.p.Components,
		"harness_errors":                      e.harnessErrs,
		"harness_error_samples":               e.harnessSamples,
		"known_finding_hits":                  e.known,
		"violations_of_other_properties_seen": e.otherProps,
		"exhaustive":                          false,
	}
	out := map[string]any{
		"property_id": e.id,
		"tier":        e.tier,
		"seed":        e.seed,
		"level":       "exploration",
		"coverage":    cov,
		"assumptions": e.p.Assumptions,
		"wall_s":      e.wall,
		"violations":  e.violations,
	}
	dir := "evidence"
	if os.Getenv("VERIF_REPO") != "" {
		// a run against a scratch checkout (seeded changes) must not overwrite
		// the evidence of the real tree
		dir = filepath.Join("bin", "evidence-scratch")
	}
	os.MkdirAll(filepath.Join(root, dir), 0o755)
	writeJSON(filepath.Join(root, dir, e.id+".json"), out)
}
