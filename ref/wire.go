// Package ref holds the reference models the oracles compare the library
// against. Everything here is written from the protocol's definitions
// (byte layouts, Merkle forest, ledger rules) and deliberately does not call
// the library's encoders, hashers, validators or accumulator.
package ref

import (
	"encoding/binary"
	"fmt"
	"time"

	"go.sia.tech/core/types"
	"golang.org/x/crypto/blake2b"
)

// W is a byte buffer with the protocol's primitive encodings (RefWire).
type W struct{ B []byte }

func (w *W) U8(v uint8)   { w.B = append(w.B, v) }
func (w *W) Bool(v bool)  { w.B = append(w.B, b2u(v)) }
func (w *W) Raw(p []byte) { w.B = append(w.B, p...) }
func (w *W) U64(v uint64) { w.B = binary.LittleEndian.AppendUint64(w.B, v) }
func (w *W) Bytes(p []byte) {
	w.U64(uint64(len(p)))
	w.Raw(p)
}
func (w *W) Time(t time.Time) { w.U64(uint64(t.Unix())) }
func (w *W) Dist(s string)    { w.Raw([]byte("sia/" + s + "|")) }

func b2u(b bool) uint8 {
	if b {
		return 1
	}
	return 0
}

// Sum is BLAKE2b-256.
func Sum(p []byte) types.Hash256 { return blake2b.Sum256(p) }

// Hash of the buffer.
func (w *W) Hash() types.Hash256 { return Sum(w.B) }

// CurV1: length-prefixed big-endian bytes without leading zeros.
func (w *W) CurV1(c types.Currency) {
	var buf [16]byte
	binary.BigEndian.PutUint64(buf[:8], c.Hi)
	binary.BigEndian.PutUint64(buf[8:], c.Lo)
	i := 0
	for i < 16 && buf[i] == 0 {
		i++
	}
	w.Bytes(buf[i:])
}

// CurV2: lo then hi, little endian.
func (w *W) CurV2(c types.Currency) { w.U64(c.Lo); w.U64(c.Hi) }

func (w *W) SCOv1(o types.SiacoinOutput) { w.CurV1(o.Value); w.Raw(o.Address[:]) }
func (w *W) SCOv2(o types.SiacoinOutput) { w.CurV2(o.Value); w.Raw(o.Address[:]) }
func (w *W) SFOv1(o types.SiafundOutput) {
	w.CurV1(types.NewCurrency64(o.Value))
	w.Raw(o.Address[:])
	w.CurV1(types.ZeroCurrency) // legacy claim start
}
func (w *W) SFOv2(o types.SiafundOutput) { w.U64(o.Value); w.Raw(o.Address[:]) }

func (w *W) UnlockKey(k types.UnlockKey) { w.Raw(k.Algorithm[:]); w.Bytes(k.Key) }
func (w *W) UC(uc types.UnlockConditions) {
	w.U64(uc.Timelock)
	w.U64(uint64(len(uc.PublicKeys)))
	for _, k := range uc.PublicKeys {
		w.UnlockKey(k)
	}
	w.U64(uc.SignaturesRequired)
}
func (w *W) SCI(in types.SiacoinInput) { w.Raw(in.ParentID[:]); w.UC(in.UnlockConditions) }
func (w *W) SFI(in types.SiafundInput) {
	w.Raw(in.ParentID[:])
	w.UC(in.UnlockConditions)
	w.Raw(in.ClaimAddress[:])
}
func (w *W) scosV1(os []types.SiacoinOutput) {
	w.U64(uint64(len(os)))
	for _, o := range os {
		w.SCOv1(o)
	}
}
func (w *W) FC(fc types.FileContract) {
	w.U64(fc.Filesize)
	w.Raw(fc.FileMerkleRoot[:])
	w.U64(fc.WindowStart)
	w.U64(fc.WindowEnd)
	w.CurV1(fc.Payout)
	w.scosV1(fc.ValidProofOutputs)
	w.scosV1(fc.MissedProofOutputs)
	w.Raw(fc.UnlockHash[:])
	w.U64(fc.RevisionNumber)
}
func (w *W) FCR(r types.FileContractRevision) {
	w.Raw(r.ParentID[:])
	w.UC(r.UnlockConditions)
	w.U64(r.FileContract.RevisionNumber)
	w.U64(r.FileContract.Filesize)
	w.Raw(r.FileContract.FileMerkleRoot[:])
	w.U64(r.FileContract.WindowStart)
	w.U64(r.FileContract.WindowEnd)
	w.scosV1(r.FileContract.ValidProofOutputs)
	w.scosV1(r.FileContract.MissedProofOutputs)
	w.Raw(r.FileContract.UnlockHash[:])
}
func (w *W) hashes(hs []types.Hash256) {
	w.U64(uint64(len(hs)))
	for _, h := range hs {
		w.Raw(h[:])
	}
}
func (w *W) SP(sp types.StorageProof) {
	w.Raw(sp.ParentID[:])
	w.Raw(sp.Leaf[:])
	w.hashes(sp.Proof)
}
func (w *W) u64s(v []uint64) {
	w.U64(uint64(len(v)))
	for _, x := range v {
		w.U64(x)
	}
}
func (w *W) CF(cf types.CoveredFields) {
	w.Bool(cf.WholeTransaction)
	w.u64s(cf.SiacoinInputs)
	w.u64s(cf.SiacoinOutputs)
	w.u64s(cf.FileContracts)
	w.u64s(cf.FileContractRevisions)
	w.u64s(cf.StorageProofs)
	w.u64s(cf.SiafundInputs)
	w.u64s(cf.SiafundOutputs)
	w.u64s(cf.MinerFees)
	w.u64s(cf.ArbitraryData)
	w.u64s(cf.Signatures)
}
func (w *W) TSig(s types.TransactionSignature) {
	w.Raw(s.ParentID[:])
	w.U64(s.PublicKeyIndex)
	w.U64(s.Timelock)
	w.CF(s.CoveredFields)
	w.Bytes(s.Signature)
}

// TxnNoSigs is the v1 transaction without its signatures (the preimage of the
// v1 transaction ID).
func (w *W) TxnNoSigs(t types.Transaction) {
	w.U64(uint64(len(t.SiacoinInputs)))
	for _, x := range t.SiacoinInputs {
		w.SCI(x)
	}
	w.scosV1(t.SiacoinOutputs)
	w.U64(uint64(len(t.FileContracts)))
	for _, x := range t.FileContracts {
		w.FC(x)
	}
	w.U64(uint64(len(t.FileContractRevisions)))
	for _, x := range t.FileContractRevisions {
		w.FCR(x)
	}
	w.U64(uint64(len(t.StorageProofs)))
	for _, x := range t.StorageProofs {
		w.SP(x)
	}
	w.U64(uint64(len(t.SiafundInputs)))
	for _, x := range t.SiafundInputs {
		w.SFI(x)
	}
	w.U64(uint64(len(t.SiafundOutputs)))
	for _, x := range t.SiafundOutputs {
		w.SFOv1(x)
	}
	w.U64(uint64(len(t.MinerFees)))
	for _, x := range t.MinerFees {
		w.CurV1(x)
	}
	w.U64(uint64(len(t.ArbitraryData)))
	for _, x := range t.ArbitraryData {
		w.Bytes(x)
	}
}
func (w *W) Txn(t types.Transaction) {
	w.TxnNoSigs(t)
	w.U64(uint64(len(t.Signatures)))
	for _, s := range t.Signatures {
		w.TSig(s)
	}
}

func (w *W) policyBody(p types.SpendPolicy) {
	switch p := p.Type.(type) {
	case types.PolicyTypeAbove:
		w.U8(1)
		w.U64(uint64(p))
	case types.PolicyTypeAfter:
		w.U8(2)
		w.Time(time.Time(p))
	case types.PolicyTypePublicKey:
		w.U8(3)
		w.Raw(p[:])
	case types.PolicyTypeHash:
		w.U8(4)
		w.Raw(p[:])
	case types.PolicyTypeThreshold:
		w.U8(5)
		w.U8(p.N)
		w.U8(uint8(len(p.Of)))
		for _, sp := range p.Of {
			w.policyBody(sp)
		}
	case types.PolicyTypeOpaque:
		w.U8(6)
		w.Raw(p[:])
	case types.PolicyTypeUnlockConditions:
		w.U8(7)
		w.UC(types.UnlockConditions(p))
	default:
		panic(fmt.Sprintf("ref: unknown policy %T", p))
	}
}
func (w *W) Policy(p types.SpendPolicy) { w.U8(1); w.policyBody(p) }
func (w *W) SatPolicy(sp types.SatisfiedPolicy) {
	w.Policy(sp.Policy)
	w.U64(uint64(len(sp.Signatures)))
	for _, s := range sp.Signatures {
		w.Raw(s[:])
	}
	w.U64(uint64(len(sp.Preimages)))
	for _, p := range sp.Preimages {
		w.Raw(p[:])
	}
}
func (w *W) SE(se types.StateElement) { w.U64(se.LeafIndex); w.hashes(se.MerkleProof) }
func (w *W) SCE(e types.SiacoinElement) {
	w.SE(e.StateElement)
	w.Raw(e.ID[:])
	w.SCOv2(e.SiacoinOutput)
	w.U64(e.MaturityHeight)
}
func (w *W) SFE(e types.SiafundElement) {
	w.SE(e.StateElement)
	w.Raw(e.ID[:])
	w.SFOv2(e.SiafundOutput)
	w.CurV2(e.ClaimStart)
}
func (w *W) CIE(e types.ChainIndexElement) {
	w.SE(e.StateElement)
	w.Raw(e.ID[:])
	w.U64(e.ChainIndex.Height)
	w.Raw(e.ChainIndex.ID[:])
}
func (w *W) V2FC(fc types.V2FileContract) {
	w.U64(fc.Capacity)
	w.U64(fc.Filesize)
	w.Raw(fc.FileMerkleRoot[:])
	w.U64(fc.ProofHeight)
	w.U64(fc.ExpirationHeight)
	w.SCOv2(fc.RenterOutput)
	w.SCOv2(fc.HostOutput)
	w.CurV2(fc.MissedHostValue)
	w.CurV2(fc.TotalCollateral)
	w.Raw(fc.RenterPublicKey[:])
	w.Raw(fc.HostPublicKey[:])
	w.U64(fc.RevisionNumber)
	w.Raw(fc.RenterSignature[:])
	w.Raw(fc.HostSignature[:])
}
func (w *W) FCE(e types.FileContractElement) {
	w.SE(e.StateElement)
	w.Raw(e.ID[:])
	w.FC(e.FileContract)
}
func (w *W) V2FCE(e types.V2FileContractElement) {
	w.SE(e.StateElement)
	w.Raw(e.ID[:])
	w.V2FC(e.V2FileContract)
}
func (w *W) V2SCI(in types.V2SiacoinInput) { w.SCE(in.Parent); w.SatPolicy(in.SatisfiedPolicy) }
func (w *W) V2SFI(in types.V2SiafundInput) {
	w.SFE(in.Parent)
	w.Raw(in.ClaimAddress[:])
	w.SatPolicy(in.SatisfiedPolicy)
}
func (w *W) Renewal(r types.V2FileContractRenewal) {
	w.SCOv2(r.FinalRenterOutput)
	w.SCOv2(r.FinalHostOutput)
	w.CurV2(r.RenterRollover)
	w.CurV2(r.HostRollover)
	w.V2FC(r.NewContract)
	w.Raw(r.RenterSignature[:])
	w.Raw(r.HostSignature[:])
}
func (w *W) V2SP(sp types.V2StorageProof) {
	w.CIE(sp.ProofIndex)
	w.Raw(sp.Leaf[:])
	w.hashes(sp.Proof)
}
func (w *W) resolutionBody(r types.V2FileContractResolutionType) {
	switch r := r.(type) {
	case *types.V2FileContractRenewal:
		w.Renewal(*r)
	case *types.V2StorageProof:
		w.V2SP(*r)
	case *types.V2FileContractExpiration:
	default:
		panic(fmt.Sprintf("ref: unknown resolution %T", r))
	}
}
func (w *W) Resolution(r types.V2FileContractResolution) {
	w.V2FCE(r.Parent)
	switch r.Resolution.(type) {
	case *types.V2FileContractRenewal:
		w.U8(0)
	case *types.V2StorageProof:
		w.U8(1)
	case *types.V2FileContractExpiration:
		w.U8(2)
	}
	w.resolutionBody(r.Resolution)
}
func (w *W) Attestation(a types.Attestation) {
	w.Raw(a.PublicKey[:])
	w.Bytes([]byte(a.Key))
	w.Bytes(a.Value)
	w.Raw(a.Signature[:])
}

// V2Txn is the full wire form: version 2, presence bitmap, present fields.
func (w *W) V2Txn(t types.V2Transaction) {
	w.U8(2)
	var f uint64
	set := func(i int, b bool) {
		if b {
			f |= 1 << i
		}
	}
	set(0, len(t.SiacoinInputs) != 0)
	set(1, len(t.SiacoinOutputs) != 0)
	set(2, len(t.SiafundInputs) != 0)
	set(3, len(t.SiafundOutputs) != 0)
	set(4, len(t.FileContracts) != 0)
	set(5, len(t.FileContractRevisions) != 0)
	set(6, len(t.FileContractResolutions) != 0)
	set(7, len(t.Attestations) != 0)
	set(8, len(t.ArbitraryData) != 0)
	set(9, t.NewFoundationAddress != nil)
	set(10, !t.MinerFee.IsZero())
	w.U64(f)
	if f&1 != 0 {
		w.U64(uint64(len(t.SiacoinInputs)))
		for _, x := range t.SiacoinInputs {
			w.V2SCI(x)
		}
	}
	if f&2 != 0 {
		w.U64(uint64(len(t.SiacoinOutputs)))
		for _, x := range t.SiacoinOutputs {
			w.SCOv2(x)
		}
	}
	if f&4 != 0 {
		w.U64(uint64(len(t.SiafundInputs)))
		for _, x := range t.SiafundInputs {
			w.V2SFI(x)
		}
	}
	if f&8 != 0 {
		w.U64(uint64(len(t.SiafundOutputs)))
		for _, x := range t.SiafundOutputs {
			w.SFOv2(x)
		}
	}
	if f&16 != 0 {
		w.U64(uint64(len(t.FileContracts)))
		for _, x := range t.FileContracts {
			w.V2FC(x)
		}
	}
	if f&32 != 0 {
		w.U64(uint64(len(t.FileContractRevisions)))
		for _, x := range t.FileContractRevisions {
			w.V2FCE(x.Parent)
			w.V2FC(x.Revision)
		}
	}
	if f&64 != 0 {
		w.U64(uint64(len(t.FileContractResolutions)))
		for _, x := range t.FileContractResolutions {
			w.Resolution(x)
		}
	}
	if f&128 != 0 {
		w.U64(uint64(len(t.Attestations)))
		for _, x := range t.Attestations {
			w.Attestation(x)
		}
	}
	if f&256 != 0 {
		w.Bytes(t.ArbitraryData)
	}
	if f&512 != 0 {
		w.Raw(t.NewFoundationAddress[:])
	}
	if f&1024 != 0 {
		w.CurV2(t.MinerFee)
	}
}

// V2Semantics is the "semantic" form hashed for v2 transaction IDs and input
// signature hashes: parents by ID only, no witnesses, signatures zeroed, no
// Merkle proofs.
func (w *W) V2Semantics(t types.V2Transaction) {
	var zero types.Signature
	w.U64(uint64(len(t.SiacoinInputs)))
	for _, x := range t.SiacoinInputs {
		w.Raw(x.Parent.ID[:])
	}
	w.U64(uint64(len(t.SiacoinOutputs)))
	for _, x := range t.SiacoinOutputs {
		w.SCOv2(x)
	}
	w.U64(uint64(len(t.SiafundInputs)))
	for _, x := range t.SiafundInputs {
		w.Raw(x.Parent.ID[:])
	}
	w.U64(uint64(len(t.SiafundOutputs)))
	for _, x := range t.SiafundOutputs {
		w.SFOv2(x)
	}
	w.U64(uint64(len(t.FileContracts)))
	for _, fc := range t.FileContracts {
		fc.RenterSignature, fc.HostSignature = zero, zero
		w.V2FC(fc)
	}
	w.U64(uint64(len(t.FileContractRevisions)))
	for _, r := range t.FileContractRevisions {
		w.Raw(r.Parent.ID[:])
		fc := r.Revision
		fc.RenterSignature, fc.HostSignature = zero, zero
		w.V2FC(fc)
	}
	w.U64(uint64(len(t.FileContractResolutions)))
	for _, r := range t.FileContractResolutions {
		w.Raw(r.Parent.ID[:])
		switch res := r.Resolution.(type) {
		case *types.V2FileContractRenewal:
			c := *res
			c.RenterSignature, c.HostSignature = zero, zero
			c.NewContract.RenterSignature, c.NewContract.HostSignature = zero, zero
			w.Renewal(c)
		case *types.V2StorageProof:
			c := *res
			c.ProofIndex.StateElement.MerkleProof = nil
			w.V2SP(c)
		case *types.V2FileContractExpiration:
		}
	}
	w.U64(uint64(len(t.Attestations)))
	for _, a := range t.Attestations {
		w.Attestation(a)
	}
	w.Bytes(t.ArbitraryData)
	w.Bool(t.NewFoundationAddress != nil)
	if t.NewFoundationAddress != nil {
		w.Raw(t.NewFoundationAddress[:])
	}
	w.CurV2(t.MinerFee)
}

func (w *W) Header(h types.BlockHeader) {
	w.Raw(h.ParentID[:])
	w.U64(h.Nonce)
	w.Time(h.Timestamp)
	w.Raw(h.Commitment[:])
}

// V1Block is the v1 block wire form.
func (w *W) V1Block(b types.Block) {
	w.Raw(b.ParentID[:])
	w.U64(b.Nonce)
	w.Time(b.Timestamp)
	w.scosV1(b.MinerPayouts)
	w.U64(uint64(len(b.Transactions)))
	for _, t := range b.Transactions {
		w.Txn(t)
	}
}

// ---- IDs and hashes by definition ----

// TxnID is the v1 transaction ID.
func TxnID(t types.Transaction) types.TransactionID {
	var w W
	w.TxnNoSigs(t)
	return types.TransactionID(w.Hash())
}

func v1Derived(spec string, t types.Transaction, i int) types.Hash256 {
	var w W
	var s [16]byte
	copy(s[:], spec)
	w.Raw(s[:])
	w.TxnNoSigs(t)
	w.U64(uint64(i))
	return w.Hash()
}

// V1 derived IDs.
func V1SiacoinOutputID(t types.Transaction, i int) types.SiacoinOutputID {
	return types.SiacoinOutputID(v1Derived("siacoin output", t, i))
}
func V1SiafundOutputID(t types.Transaction, i int) types.SiafundOutputID {
	return types.SiafundOutputID(v1Derived("siafund output", t, i))
}
func V1FileContractID(t types.Transaction, i int) types.FileContractID {
	return types.FileContractID(v1Derived("file contract", t, i))
}
func V1ClaimID(id types.SiafundOutputID) types.SiacoinOutputID {
	return types.SiacoinOutputID(Sum(id[:]))
}
func V1ProofOutputID(fcid types.FileContractID, valid bool, i int) types.SiacoinOutputID {
	var w W
	var s [16]byte
	copy(s[:], "storage proof")
	w.Raw(s[:])
	w.Raw(fcid[:])
	w.Bool(valid)
	w.U64(uint64(i))
	return types.SiacoinOutputID(w.Hash())
}
func MinerOutputID(bid types.BlockID, i int) types.SiacoinOutputID {
	var w W
	w.Raw(bid[:])
	w.U64(uint64(i))
	return types.SiacoinOutputID(w.Hash())
}
func FoundationOutputID(bid types.BlockID) types.SiacoinOutputID {
	var w W
	var s [16]byte
	copy(s[:], "foundation")
	w.Raw(bid[:])
	w.Raw(s[:])
	return types.SiacoinOutputID(w.Hash())
}

// V2TxnID is the v2 transaction ID.
func V2TxnID(t types.V2Transaction) types.TransactionID {
	var w W
	w.Dist("id/transaction")
	w.V2Semantics(t)
	return types.TransactionID(w.Hash())
}
func v2Derived(d string, id types.Hash256, i int, withIndex bool) types.Hash256 {
	var w W
	w.Dist(d)
	w.Raw(id[:])
	if withIndex {
		w.U64(uint64(i))
	}
	return w.Hash()
}
func V2SiacoinOutputID(txid types.TransactionID, i int) types.SiacoinOutputID {
	return types.SiacoinOutputID(v2Derived("id/siacoinoutput", types.Hash256(txid), i, true))
}
func V2SiafundOutputID(txid types.TransactionID, i int) types.SiafundOutputID {
	return types.SiafundOutputID(v2Derived("id/siafundoutput", types.Hash256(txid), i, true))
}
func V2FileContractID(txid types.TransactionID, i int) types.FileContractID {
	return types.FileContractID(v2Derived("id/filecontract", types.Hash256(txid), i, true))
}
func V2AttestationID(txid types.TransactionID, i int) types.AttestationID {
	return types.AttestationID(v2Derived("id/attestation", types.Hash256(txid), i, true))
}
func V2ClaimID(id types.SiafundOutputID) types.SiacoinOutputID {
	return types.SiacoinOutputID(v2Derived("id/v2siacoinclaimoutput", types.Hash256(id), 0, false))
}
func V2ContractOutputID(id types.FileContractID, host bool) types.SiacoinOutputID {
	return types.SiacoinOutputID(v2Derived("id/v2filecontractoutput", types.Hash256(id), int(b2u(host)), true))
}
func V2RenewalID(id types.FileContractID) types.FileContractID {
	return types.FileContractID(v2Derived("id/v2filecontractrenewal", types.Hash256(id), 0, false))
}

// HeaderID is the block ID.
func HeaderID(h types.BlockHeader) types.BlockID {
	var w W
	w.Header(h)
	return types.BlockID(w.Hash())
}

// ---- consensus.State layout (fields passed in to keep this package free of the library's codecs) ----

// StateFields is the public content of a consensus state.
type StateFields struct {
	Index                types.ChainIndex
	Timestamps           []time.Time // newest first, min(height+1, 11) entries
	Depth, ChildTarget   types.BlockID
	TaxRevenue           types.Currency
	OakTime              time.Duration
	OakTarget            types.BlockID
	FoundationSubsidy    types.Address
	FoundationManagement types.Address
	TotalWork            [32]byte
	Difficulty           [32]byte
	OakWork              [32]byte
	NumLeaves            uint64
	Trees                [64]types.Hash256
	Attestations         uint64
}

// State is the wire form of a consensus state.
func (w *W) State(s StateFields) {
	w.U64(s.Index.Height)
	w.Raw(s.Index.ID[:])
	for _, t := range s.Timestamps {
		w.Time(t)
	}
	w.Raw(s.Depth[:])
	w.Raw(s.ChildTarget[:])
	w.CurV2(s.TaxRevenue)
	w.U64(uint64(s.OakTime))
	w.Raw(s.OakTarget[:])
	w.Raw(s.FoundationSubsidy[:])
	w.Raw(s.FoundationManagement[:])
	w.Raw(s.TotalWork[:])
	w.Raw(s.Difficulty[:])
	w.Raw(s.OakWork[:])
	w.U64(s.NumLeaves)
	for h := 0; h < 64; h++ {
		if s.NumLeaves&(1<<h) != 0 {
			w.Raw(s.Trees[h][:])
		}
	}
	w.U64(s.Attestations)
}
