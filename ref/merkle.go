package ref

import (
	"math/big"

	"go.sia.tech/core/types"
)

// RefMerkle: the plainly defined binary Merkle tree of RFC 6962 (leaf prefix
// 0x00, node prefix 0x01, split at the largest power of two smaller than n)
// over 64-byte leaves.

// Leaf64 hashes one leaf, zero-extended to 64 bytes.
func Leaf64(data []byte) types.Hash256 {
	buf := make([]byte, 65)
	copy(buf[1:], data)
	return Sum(buf)
}

// FileLeaves splits data into 64-byte leaves (the last one zero-extended) and
// returns their hashes.
func FileLeaves(data []byte) []types.Hash256 {
	var out []types.Hash256
	for off := 0; off < len(data); off += 64 {
		end := off + 64
		if end > len(data) {
			end = len(data)
		}
		out = append(out, Leaf64(data[off:end]))
	}
	return out
}

func split(n int) int {
	k := 1
	for k*2 < n {
		k *= 2
	}
	return k
}

// TreeRoot is the Merkle root of the given leaf hashes (zero hash if empty).
func TreeRoot(leaves []types.Hash256) types.Hash256 {
	switch len(leaves) {
	case 0:
		return types.Hash256{}
	case 1:
		return leaves[0]
	}
	k := split(len(leaves))
	return NodeHash(TreeRoot(leaves[:k]), TreeRoot(leaves[k:]))
}

// TreePath is the audit path of leaf i, bottom-up.
func TreePath(leaves []types.Hash256, i int) []types.Hash256 {
	if len(leaves) <= 1 {
		return nil
	}
	k := split(len(leaves))
	if i < k {
		return append(TreePath(leaves[:k], i), TreeRoot(leaves[k:]))
	}
	return append(TreePath(leaves[k:], i-k), TreeRoot(leaves[:k]))
}

// LeafSegment returns the 64-byte segment i of data, zero-extended.
func LeafSegment(data []byte, i int) (seg [64]byte) {
	off := i * 64
	if off < len(data) {
		copy(seg[:], data[off:])
	}
	return
}

// ChallengeIndex restates the chain-derived storage proof challenge: the
// BLAKE2b hash of (window/proof block ID, contract ID) read as a big-endian
// integer, modulo the number of 64-byte leaves.
func ChallengeIndex(filesize uint64, blockID types.BlockID, fcid types.FileContractID) uint64 {
	n := (filesize + 63) / 64
	if n == 0 {
		return 0
	}
	var w W
	w.Raw(blockID[:])
	w.Raw(fcid[:])
	seed := w.Hash()
	x := new(big.Int).SetBytes(seed[:])
	return x.Mod(x, new(big.Int).SetUint64(n)).Uint64()
}
