package ref

import (
	"crypto/ed25519"
	"crypto/sha256"
	"time"

	"go.sia.tech/core/types"
)

// RefPolicy: what a satisfied spend policy means, written from the protocol's
// description. Witnesses (signatures, preimages) are consumed left to right
// in the order the leaves are visited; nothing may be left over.

// Protocol limits on policy size.
const (
	maxSubPoliciesPerThreshold = 255
	maxSubPoliciesTotal        = 1024
)

type policyEval struct {
	height  uint64
	median  time.Time
	sigHash types.Hash256
	sigs    []types.Signature
	pre     [][32]byte
	total   int
}

func verifySig(key []byte, h types.Hash256, sig types.Signature) bool {
	return len(key) == ed25519.PublicKeySize && ed25519.Verify(ed25519.PublicKey(key), h[:], sig[:])
}

func (e *policyEval) eval(p types.SpendPolicy, top bool) bool {
	switch t := p.Type.(type) {
	case types.PolicyTypeAbove:
		return e.height >= uint64(t)
	case types.PolicyTypeAfter:
		return e.median.After(time.Time(t))
	case types.PolicyTypePublicKey:
		if len(e.sigs) == 0 {
			return false
		}
		s := e.sigs[0]
		e.sigs = e.sigs[1:]
		return verifySig(t[:], e.sigHash, s)
	case types.PolicyTypeHash:
		if len(e.pre) == 0 {
			return false
		}
		pi := e.pre[0]
		e.pre = e.pre[1:]
		return sha256.Sum256(pi[:]) == [32]byte(t)
	case types.PolicyTypeOpaque:
		return false
	case types.PolicyTypeThreshold:
		if len(t.Of) > maxSubPoliciesPerThreshold {
			return false
		}
		if e.total += len(t.Of); e.total > maxSubPoliciesTotal {
			return false
		}
		revealed := 0
		for _, sp := range t.Of {
			switch sp.Type.(type) {
			case types.PolicyTypeOpaque:
				continue
			case types.PolicyTypeUnlockConditions:
				return false // legacy conditions exist only as a whole address
			}
			revealed++
			if revealed > int(t.N) {
				return false // a branch that is not needed must be opaque
			}
			if !e.eval(sp, false) {
				return false // a revealed branch must hold
			}
		}
		return revealed == int(t.N)
	case types.PolicyTypeUnlockConditions:
		if e.height < t.Timelock {
			return false
		}
		// the required number of signatures, by distinct listed keys, in key order
		need := t.SignaturesRequired
		for i, k := range t.PublicKeys {
			if need == 0 || need > uint64(len(t.PublicKeys)-i) || need > uint64(len(e.sigs)) {
				break
			}
			switch k.Algorithm {
			case types.SpecifierEntropy:
				return false
			case types.SpecifierEd25519:
				if verifySig(k.Key, e.sigHash, e.sigs[0]) {
					e.sigs = e.sigs[1:]
					need--
				}
			default:
				e.sigs = e.sigs[1:] // unknown algorithms cannot be checked
				need--
			}
		}
		return need == 0
	}
	return false
}

// PolicySatisfied reports whether p holds for the given chain context and witnesses.
func PolicySatisfied(p types.SpendPolicy, height uint64, median time.Time, sigHash types.Hash256, sigs []types.Signature, preimages [][32]byte) bool {
	e := &policyEval{height: height, median: median, sigHash: sigHash, sigs: sigs, pre: preimages}
	return e.eval(p, true) && len(e.sigs) == 0 && len(e.pre) == 0
}

// UnlockHash is the address of legacy unlock conditions by definition: the
// root of the Merkle tree whose leaves are the timelock, each key (algorithm,
// length-prefixed key bytes) and the number of required signatures.
func UnlockHash(uc types.UnlockConditions) types.Address {
	leaf := func(data []byte) types.Hash256 { return Sum(append([]byte{0}, data...)) }
	u64 := func(x uint64) []byte {
		var w W
		w.U64(x)
		return w.B
	}
	leaves := []types.Hash256{leaf(u64(uc.Timelock))}
	for _, k := range uc.PublicKeys {
		var w W
		w.UnlockKey(k)
		leaves = append(leaves, leaf(w.B))
	}
	leaves = append(leaves, leaf(u64(uc.SignaturesRequired)))
	return types.Address(TreeRoot(leaves))
}

// PolicyDepthOK reports whether no node of p has more than 32 ancestors (the
// protocol's nesting limit for encoded policies).
func PolicyDepthOK(p types.SpendPolicy) bool {
	var walk func(p types.SpendPolicy, depth int) bool
	walk = func(p types.SpendPolicy, depth int) bool {
		if depth > 32 {
			return false
		}
		if t, ok := p.Type.(types.PolicyTypeThreshold); ok {
			for _, sp := range t.Of {
				if !walk(sp, depth+1) {
					return false
				}
			}
		}
		return true
	}
	return walk(p, 0)
}
