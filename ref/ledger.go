package ref

import (
	"bytes"
	"errors"
	"fmt"
	"math/big"
	"sort"
	"time"

	"go.sia.tech/core/types"
)

// Params are the public network parameters the ledger rules depend on.
type Params struct {
	InitialCoinbase       types.Currency
	MinimumCoinbase       types.Currency
	MaturityDelay         uint64
	BlockInterval         time.Duration
	TaxHeight             uint64
	FoundationHeight      uint64
	FoundationPrimary     types.Address
	FoundationFailsafe    types.Address
	V2AllowHeight         uint64
	V2RequireHeight       uint64
	EphemeralOutputHeight uint64
}

// Ledger entries.
type (
	SCO struct {
		Out      types.SiacoinOutput
		Maturity uint64
		Leaf     uint64
	}
	SFO struct {
		Out        types.SiafundOutput
		ClaimStart types.Currency
		Leaf       uint64
	}
	FCE struct {
		FC   types.FileContract
		Leaf uint64
	}
	V2FCE struct {
		FC   types.V2FileContract
		Leaf uint64
	}
)

// Resolution records how a contract ended (contract tracker, C07).
type Resolution struct {
	ID      types.FileContractID
	V2      bool
	Kind    string // "proof", "expire", "renewal", "v2proof", "v2expire"
	Outputs []types.SiacoinOutputID
	Height  uint64
}

// A RuleError says that a block's *contents* contradict the ledger rules. If
// the library accepted the block, this is a violation of Property.
type RuleError struct {
	Property string
	Rule     string
	Detail   string
}

func (e *RuleError) Error() string { return e.Property + "/" + e.Rule + ": " + e.Detail }

func rule(prop, r, f string, a ...any) error {
	return &RuleError{prop, r, fmt.Sprintf(f, a...)}
}

// ErrHarness marks inconsistencies that can only come from the harness.
var ErrHarness = errors.New("harness")

// Ledger is the reference ledger after some block. Ledgers are immutable once
// built; Apply returns a new one.
type Ledger struct {
	P      *Params
	Height uint64 // height of the tip block; genesis = 0
	Empty  bool   // true before genesis
	TipID  types.BlockID

	SC   map[types.SiacoinOutputID]SCO
	SF   map[types.SiafundOutputID]SFO
	FC   map[types.FileContractID]FCE
	V2FC map[types.FileContractID]V2FCE

	Pool      types.Currency // total tax ever collected
	Claimed   *big.Int       // total paid to claims
	Forfeited *big.Int       // v2 collateral destroyed by missed expirations
	Minted    *big.Int       // genesis allocation + all subsidies so far

	FoundationPrimary  types.Address
	FoundationFailsafe types.Address
	Attestations       uint64

	Forest *Forest
	CI     []types.ChainIndexElement // chain index element per height (proof empty; Leaf in StateElement.LeafIndex)
	Ever   map[types.Hash256]uint64  // every element ID ever created on this chain -> height
	Spent  map[types.Hash256]uint64  // every element ID spent / resolved on this chain -> height

	// per-block record (of the tip block)
	Resolved    []Resolution
	CreatedSC   []types.SiacoinOutputID
	SpentSC     []types.SiacoinOutputID
	CreatedSF   []types.SiafundOutputID
	SpentSF     []types.SiafundOutputID
	Fees        *big.Int
	MinerPayout *big.Int
	Subsidy     *big.Int
	ClaimsPaid  int
}

// NewLedger returns the empty pre-genesis ledger.
func NewLedger(p *Params) *Ledger {
	return &Ledger{
		P: p, Empty: true,
		SC: map[types.SiacoinOutputID]SCO{}, SF: map[types.SiafundOutputID]SFO{},
		FC: map[types.FileContractID]FCE{}, V2FC: map[types.FileContractID]V2FCE{},
		Claimed: new(big.Int), Forfeited: new(big.Int), Minted: new(big.Int),
		FoundationPrimary: p.FoundationPrimary, FoundationFailsafe: p.FoundationFailsafe,
		Forest: &Forest{}, Ever: map[types.Hash256]uint64{}, Spent: map[types.Hash256]uint64{},
	}
}

func (l *Ledger) clone() *Ledger {
	c := *l
	c.SC = make(map[types.SiacoinOutputID]SCO, len(l.SC)+16)
	for k, v := range l.SC {
		c.SC[k] = v
	}
	c.SF = make(map[types.SiafundOutputID]SFO, len(l.SF)+4)
	for k, v := range l.SF {
		c.SF[k] = v
	}
	c.FC = make(map[types.FileContractID]FCE, len(l.FC)+4)
	for k, v := range l.FC {
		c.FC[k] = v
	}
	c.V2FC = make(map[types.FileContractID]V2FCE, len(l.V2FC)+4)
	for k, v := range l.V2FC {
		c.V2FC[k] = v
	}
	c.Ever = make(map[types.Hash256]uint64, len(l.Ever)+32)
	for k, v := range l.Ever {
		c.Ever[k] = v
	}
	c.Spent = make(map[types.Hash256]uint64, len(l.Spent)+32)
	for k, v := range l.Spent {
		c.Spent[k] = v
	}
	c.Claimed = new(big.Int).Set(l.Claimed)
	c.Forfeited = new(big.Int).Set(l.Forfeited)
	c.Minted = new(big.Int).Set(l.Minted)
	c.Forest = l.Forest.Clone()
	c.CI = append([]types.ChainIndexElement(nil), l.CI...)
	c.Resolved, c.CreatedSC, c.SpentSC, c.CreatedSF, c.SpentSF = nil, nil, nil, nil, nil
	c.Fees, c.MinerPayout, c.Subsidy = new(big.Int), new(big.Int), new(big.Int)
	c.ClaimsPaid = 0
	return &c
}

func bigc(c types.Currency) *big.Int { return c.Big() }

// BlockReward by definition: max(initial - height*1SC, minimum).
func (p *Params) BlockReward(height uint64) *big.Int {
	r := new(big.Int).Sub(bigc(p.InitialCoinbase), new(big.Int).Mul(new(big.Int).SetUint64(height), bigc(types.Siacoins(1))))
	if r.Cmp(bigc(p.MinimumCoinbase)) < 0 {
		return bigc(p.MinimumCoinbase)
	}
	return r
}

// FoundationSubsidy by definition: 30 000 SC per block, paid once a month (a
// twelfth of the blocks per year), a whole year at the hardfork height,
// nothing if the primary address is void.
func (l *Ledger) foundationSubsidy(height uint64) (*big.Int, bool) {
	if l.FoundationPrimary == types.VoidAddress || height < l.P.FoundationHeight {
		return nil, false
	}
	perYear := uint64(365 * 24 * time.Hour / l.P.BlockInterval)
	perMonth := perYear / 12
	if perMonth == 0 {
		return nil, false
	}
	if (height-l.P.FoundationHeight)%perMonth != 0 {
		return nil, false
	}
	per := bigc(types.Siacoins(30000))
	if height == l.P.FoundationHeight {
		return per.Mul(per, new(big.Int).SetUint64(perYear)), true
	}
	return per.Mul(per, new(big.Int).SetUint64(perMonth)), true
}

// V1Tax by definition: 3.9% of the payout rounded down to a multiple of the
// siafund count. Before the tax hardfork the historical chain used the binary
// floating point value nearest to 0.039 as an exact rational.
func (p *Params) V1Tax(height uint64, payout types.Currency) *big.Int {
	x := bigc(payout)
	if height < p.TaxHeight {
		r := new(big.Rat).SetInt(x)
		r.Mul(r, new(big.Rat).SetFloat64(0.039))
		x = new(big.Int).Quo(r.Num(), r.Denom())
	} else {
		x.Mul(x, big.NewInt(39))
		x.Quo(x, big.NewInt(1000))
	}
	return x.Sub(x, new(big.Int).Mod(x, big.NewInt(10000)))
}

// V2Tax by definition: 4% of renter+host value, rounded down.
func V2Tax(fc types.V2FileContract) *big.Int {
	x := new(big.Int).Add(bigc(fc.RenterOutput.Value), bigc(fc.HostOutput.Value))
	return x.Quo(x, big.NewInt(25))
}

func toCur(x *big.Int) (types.Currency, bool) {
	if x.Sign() < 0 || x.BitLen() > 128 {
		return types.Currency{}, false
	}
	lo := new(big.Int).And(x, new(big.Int).SetUint64(^uint64(0))).Uint64()
	hi := new(big.Int).Rsh(x, 64).Uint64()
	return types.NewCurrency(lo, hi), true
}

type applyCtx struct {
	l      *Ledger
	height uint64
	newSC  []types.SiacoinOutputID
	newSF  []types.SiafundOutputID
	newFC  []types.FileContractID
	newV2  []types.FileContractID
	newAtt []struct {
		id types.AttestationID
		a  types.Attestation
	}
	// elements created in this block that were spent/resolved in it
	ephSC   map[types.SiacoinOutputID]SCO
	ephSF   map[types.SiafundOutputID]SFO
	ephFC   map[types.FileContractID]FCE
	touched map[uint64]bool // existing leaves that need re-hashing
	pool    *big.Int
}

func (c *applyCtx) createSC(id types.SiacoinOutputID, o types.SiacoinOutput, maturity uint64) error {
	if h, ok := c.l.Ever[types.Hash256(id)]; ok {
		return rule("C12", "derived-id-collision", "siacoin output id %v created at height %d and again at %d", id, h, c.height)
	}
	c.l.Ever[types.Hash256(id)] = c.height
	c.l.SC[id] = SCO{Out: o, Maturity: maturity, Leaf: types.UnassignedLeafIndex}
	c.newSC = append(c.newSC, id)
	c.l.CreatedSC = append(c.l.CreatedSC, id)
	return nil
}

func (c *applyCtx) spendSC(id types.SiacoinOutputID, what string) (SCO, error) {
	e, ok := c.l.SC[id]
	if !ok {
		if h, spent := c.l.Spent[types.Hash256(id)]; spent {
			return SCO{}, rule("C02", "double-spend", "%s spends siacoin output %v already spent at height %d (now %d)", what, id, h, c.height)
		}
		return SCO{}, rule("C04", "spend-nonexistent", "%s spends siacoin output %v that was never created on this chain", what, id)
	}
	if e.Maturity > c.height {
		return SCO{}, rule("C08", "immature-spend", "%s spends siacoin output %v maturing at %d in block %d", what, id, e.Maturity, c.height)
	}
	delete(c.l.SC, id)
	c.l.Spent[types.Hash256(id)] = c.height
	c.l.SpentSC = append(c.l.SpentSC, id)
	if e.Leaf == types.UnassignedLeafIndex {
		c.ephSC[id] = e
	} else {
		c.touched[e.Leaf] = true
		c.l.Forest.Set(e.Leaf, LeafHash(SiacoinElemHash(id, e.Out, e.Maturity), e.Leaf, true))
	}
	return e, nil
}

func (c *applyCtx) createSF(id types.SiafundOutputID, o types.SiafundOutput) error {
	if h, ok := c.l.Ever[types.Hash256(id)]; ok {
		return rule("C12", "derived-id-collision", "siafund output id %v created at height %d and again at %d", id, h, c.height)
	}
	cs, _ := toCur(c.pool)
	c.l.Ever[types.Hash256(id)] = c.height
	c.l.SF[id] = SFO{Out: o, ClaimStart: cs, Leaf: types.UnassignedLeafIndex}
	c.newSF = append(c.newSF, id)
	c.l.CreatedSF = append(c.l.CreatedSF, id)
	return nil
}

func (c *applyCtx) spendSF(id types.SiafundOutputID, what string) (SFO, error) {
	e, ok := c.l.SF[id]
	if !ok {
		if h, spent := c.l.Spent[types.Hash256(id)]; spent {
			return SFO{}, rule("C02", "double-spend", "%s spends siafund output %v already spent at height %d (now %d)", what, id, h, c.height)
		}
		return SFO{}, rule("C04", "spend-nonexistent", "%s spends siafund output %v that was never created on this chain", what, id)
	}
	delete(c.l.SF, id)
	c.l.Spent[types.Hash256(id)] = c.height
	c.l.SpentSF = append(c.l.SpentSF, id)
	if e.Leaf == types.UnassignedLeafIndex {
		c.ephSF[id] = e
	} else {
		c.l.Forest.Set(e.Leaf, LeafHash(SiafundElemHash(id, e.Out, e.ClaimStart), e.Leaf, true))
	}
	return e, nil
}

// claim pays floor((pool-claimStart)/10000)*value.
func (c *applyCtx) claim(e SFO) *big.Int {
	x := new(big.Int).Sub(c.pool, bigc(e.ClaimStart))
	x.Quo(x, big.NewInt(10000))
	x.Mul(x, new(big.Int).SetUint64(e.Out.Value))
	return x
}

func sumOutputs(os []types.SiacoinOutput) *big.Int {
	s := new(big.Int)
	for _, o := range os {
		s.Add(s, bigc(o.Value))
	}
	return s
}

func (c *applyCtx) v1Txn(ti int, txn types.Transaction) error {
	l := c.l
	what := fmt.Sprintf("v1 txn %d", ti)
	in, out := new(big.Int), new(big.Int)
	for _, sci := range txn.SiacoinInputs {
		e, err := c.spendSC(sci.ParentID, what)
		if err != nil {
			return err
		}
		in.Add(in, bigc(e.Out.Value))
	}
	for i, o := range txn.SiacoinOutputs {
		if err := c.createSC(V1SiacoinOutputID(txn, i), o, 0); err != nil {
			return err
		}
		out.Add(out, bigc(o.Value))
	}
	var sfIn, sfOut uint64
	for _, sfi := range txn.SiafundInputs {
		e, err := c.spendSF(sfi.ParentID, what)
		if err != nil {
			return err
		}
		sfIn += e.Out.Value
		amt := c.claim(e)
		cv, ok := toCur(amt)
		if !ok {
			return rule("C01", "claim-range", "claim amount %v out of range", amt)
		}
		l.Claimed.Add(l.Claimed, amt)
		l.ClaimsPaid++
		if err := c.createSC(V1ClaimID(sfi.ParentID), types.SiacoinOutput{Value: cv, Address: sfi.ClaimAddress}, c.height+l.P.MaturityDelay); err != nil {
			return err
		}
	}
	for i, o := range txn.SiafundOutputs {
		if err := c.createSF(V1SiafundOutputID(txn, i), o); err != nil {
			return err
		}
		sfOut += o.Value
	}
	if sfIn != sfOut && c.height > 0 {
		return rule("C01", "siafund-balance", "%s: siafund inputs %d != outputs %d", what, sfIn, sfOut)
	}
	for i, fc := range txn.FileContracts {
		id := V1FileContractID(txn, i)
		if h, ok := l.Ever[types.Hash256(id)]; ok {
			return rule("C12", "derived-id-collision", "contract id %v created at %d and again at %d", id, h, c.height)
		}
		tax := l.P.V1Tax(c.height, fc.Payout)
		valid, missed := sumOutputs(fc.ValidProofOutputs), sumOutputs(fc.MissedProofOutputs)
		if valid.Cmp(missed) != 0 {
			return rule("C01", "contract-valid-missed", "%s contract %d: valid sum %v != missed sum %v", what, i, valid, missed)
		}
		if new(big.Int).Add(valid, tax).Cmp(bigc(fc.Payout)) != 0 {
			return rule("C01", "contract-tax", "%s contract %d: payout %v != outputs %v + tax %v", what, i, fc.Payout, valid, tax)
		}
		l.Ever[types.Hash256(id)] = c.height
		l.FC[id] = FCE{FC: fc, Leaf: types.UnassignedLeafIndex}
		c.newFC = append(c.newFC, id)
		c.pool.Add(c.pool, tax)
		out.Add(out, bigc(fc.Payout))
	}
	for _, rev := range txn.FileContractRevisions {
		e, ok := l.FC[rev.ParentID]
		if !ok {
			if h, res := l.Spent[types.Hash256(rev.ParentID)]; res {
				return rule("C02", "revise-resolved", "%s revises contract %v resolved at height %d", what, rev.ParentID, h)
			}
			return rule("C04", "revise-nonexistent", "%s revises unknown contract %v", what, rev.ParentID)
		}
		nv, nm := sumOutputs(rev.FileContract.ValidProofOutputs), sumOutputs(rev.FileContract.MissedProofOutputs)
		if nv.Cmp(sumOutputs(e.FC.ValidProofOutputs)) != 0 || nm.Cmp(sumOutputs(e.FC.MissedProofOutputs)) != 0 {
			return rule("C07", "revision-changes-total", "%s revision of %v changes payout sums", what, rev.ParentID)
		}
		if rev.FileContract.RevisionNumber <= e.FC.RevisionNumber {
			return rule("C07", "revision-number", "%s revision of %v does not raise revision number (%d -> %d)", what, rev.ParentID, e.FC.RevisionNumber, rev.FileContract.RevisionNumber)
		}
		if e.FC.WindowStart < c.height {
			return rule("C08", "revise-after-window", "%s revises %v at height %d, window opened at %d", what, rev.ParentID, c.height, e.FC.WindowStart)
		}
		nfc := rev.FileContract
		nfc.Payout = e.FC.Payout
		e.FC = nfc
		l.FC[rev.ParentID] = e
		if e.Leaf != types.UnassignedLeafIndex {
			l.Forest.Set(e.Leaf, LeafHash(FileContractElemHash(rev.ParentID, e.FC), e.Leaf, false))
		}
	}
	for _, sp := range txn.StorageProofs {
		e, ok := l.FC[sp.ParentID]
		if !ok {
			if h, res := l.Spent[types.Hash256(sp.ParentID)]; res {
				return rule("C02", "double-resolution", "%s proves contract %v already resolved at height %d", what, sp.ParentID, h)
			}
			return rule("C04", "prove-nonexistent", "%s proves unknown contract %v", what, sp.ParentID)
		}
		if c.height <= e.FC.WindowStart && !(e.FC.WindowStart == c.height) {
			return rule("C08", "proof-before-window", "%s proves %v at height %d before window start %d", what, sp.ParentID, c.height, e.FC.WindowStart)
		}
		delete(l.FC, sp.ParentID)
		l.Spent[types.Hash256(sp.ParentID)] = c.height
		if e.Leaf == types.UnassignedLeafIndex {
			c.ephFC[sp.ParentID] = e
		} else {
			l.Forest.Set(e.Leaf, LeafHash(FileContractElemHash(sp.ParentID, e.FC), e.Leaf, true))
		}
		res := Resolution{ID: sp.ParentID, Kind: "proof", Height: c.height}
		for i, o := range e.FC.ValidProofOutputs {
			oid := V1ProofOutputID(sp.ParentID, true, i)
			if err := c.createSC(oid, o, c.height+l.P.MaturityDelay); err != nil {
				return err
			}
			res.Outputs = append(res.Outputs, oid)
		}
		l.Resolved = append(l.Resolved, res)
	}
	for _, f := range txn.MinerFees {
		out.Add(out, bigc(f))
		l.Fees.Add(l.Fees, bigc(f))
	}
	if in.Cmp(out) != 0 && c.height > 0 {
		return rule("C01", "siacoin-balance", "%s: inputs %v != outputs+payouts+fees %v", what, in, out)
	}
	// Foundation address update (v1: arbitrary data with the foundation
	// specifier; takes effect when the parent height has reached the hardfork).
	if c.height > l.P.FoundationHeight {
		var spec [16]byte
		copy(spec[:], "foundation")
		for _, arb := range txn.ArbitraryData {
			if bytes.HasPrefix(arb, spec[:]) && len(arb) >= 16+64 {
				copy(l.FoundationPrimary[:], arb[16:48])
				copy(l.FoundationFailsafe[:], arb[48:80])
			}
		}
	}
	return nil
}

func (c *applyCtx) createV2FC(id types.FileContractID, fc types.V2FileContract) error {
	l := c.l
	if h, ok := l.Ever[types.Hash256(id)]; ok {
		return rule("C12", "derived-id-collision", "v2 contract id %v created at %d and again at %d", id, h, c.height)
	}
	l.Ever[types.Hash256(id)] = c.height
	l.V2FC[id] = V2FCE{FC: fc, Leaf: types.UnassignedLeafIndex}
	c.newV2 = append(c.newV2, id)
	c.pool.Add(c.pool, V2Tax(fc))
	return nil
}

func (c *applyCtx) v2Txn(ti int, txn types.V2Transaction) error {
	l := c.l
	what := fmt.Sprintf("v2 txn %d", ti)
	txid := V2TxnID(txn)
	in, out := new(big.Int), new(big.Int)
	for i, sci := range txn.SiacoinInputs {
		e, err := c.spendSC(sci.Parent.ID, what)
		if err != nil {
			return err
		}
		eph := sci.Parent.StateElement.LeafIndex == types.UnassignedLeafIndex
		if eph != (e.Leaf == types.UnassignedLeafIndex) {
			return rule("C04", "ephemeral-flag", "%s input %d: parent %v claims leaf %d but ledger has %d", what, i, sci.Parent.ID, sci.Parent.StateElement.LeafIndex, e.Leaf)
		}
		if sci.Parent.SiacoinOutput != e.Out || sci.Parent.MaturityHeight != e.Maturity {
			if eph && c.height < l.P.EphemeralOutputHeight {
				return fmt.Errorf("%w: legacy ephemeral window exercised by the workload", ErrHarness)
			}
			return rule("C04", "altered-parent", "%s input %d: parent %v claims (%v,%v,maturity %d) but ledger has (%v,%v,maturity %d)", what, i, sci.Parent.ID,
				sci.Parent.SiacoinOutput.Value, sci.Parent.SiacoinOutput.Address, sci.Parent.MaturityHeight, e.Out.Value, e.Out.Address, e.Maturity)
		}
		if !eph && sci.Parent.StateElement.LeafIndex != e.Leaf {
			return rule("C04", "altered-leaf-index", "%s input %d: parent %v claims leaf %d, ledger has %d", what, i, sci.Parent.ID, sci.Parent.StateElement.LeafIndex, e.Leaf)
		}
		in.Add(in, bigc(e.Out.Value))
	}
	for i, o := range txn.SiacoinOutputs {
		if err := c.createSC(V2SiacoinOutputID(txid, i), o, 0); err != nil {
			return err
		}
		out.Add(out, bigc(o.Value))
	}
	var sfIn, sfOut uint64
	for i, sfi := range txn.SiafundInputs {
		e, err := c.spendSF(sfi.Parent.ID, what)
		if err != nil {
			return err
		}
		eph := sfi.Parent.StateElement.LeafIndex == types.UnassignedLeafIndex
		if eph && c.height >= l.P.EphemeralOutputHeight {
			return rule("C04", "ephemeral-siafund", "%s input %d spends ephemeral siafund output at height %d", what, i, c.height)
		}
		if sfi.Parent.SiafundOutput != e.Out || sfi.Parent.ClaimStart != e.ClaimStart {
			if eph && c.height < l.P.EphemeralOutputHeight {
				return fmt.Errorf("%w: legacy ephemeral window exercised by the workload", ErrHarness)
			}
			return rule("C04", "altered-parent", "%s siafund input %d: parent %v fields differ from ledger", what, i, sfi.Parent.ID)
		}
		sfIn += e.Out.Value
		amt := c.claim(e)
		cv, ok := toCur(amt)
		if !ok {
			return rule("C01", "claim-range", "claim amount %v out of range", amt)
		}
		l.Claimed.Add(l.Claimed, amt)
		l.ClaimsPaid++
		if err := c.createSC(V2ClaimID(sfi.Parent.ID), types.SiacoinOutput{Value: cv, Address: sfi.ClaimAddress}, c.height+l.P.MaturityDelay); err != nil {
			return err
		}
	}
	for i, o := range txn.SiafundOutputs {
		if err := c.createSF(V2SiafundOutputID(txid, i), o); err != nil {
			return err
		}
		sfOut += o.Value
	}
	if sfIn != sfOut {
		return rule("C01", "siafund-balance", "%s: siafund inputs %d != outputs %d", what, sfIn, sfOut)
	}
	for i, fc := range txn.FileContracts {
		if err := c.createV2FC(V2FileContractID(txid, i), fc); err != nil {
			return err
		}
		out.Add(out, bigc(fc.RenterOutput.Value))
		out.Add(out, bigc(fc.HostOutput.Value))
		out.Add(out, V2Tax(fc))
	}
	for i, rev := range txn.FileContractRevisions {
		id := rev.Parent.ID
		e, ok := l.V2FC[id]
		if !ok {
			if h, res := l.Spent[types.Hash256(id)]; res {
				return rule("C02", "revise-resolved", "%s revises v2 contract %v resolved at height %d", what, id, h)
			}
			return rule("C04", "revise-nonexistent", "%s revision %d of unknown v2 contract %v", what, i, id)
		}
		cur, r := e.FC, rev.Revision
		cs := new(big.Int).Add(bigc(cur.RenterOutput.Value), bigc(cur.HostOutput.Value))
		rs := new(big.Int).Add(bigc(r.RenterOutput.Value), bigc(r.HostOutput.Value))
		switch {
		case cs.Cmp(rs) != 0:
			return rule("C07", "revision-changes-total", "%s revision of %v changes total %v -> %v", what, id, cs, rs)
		case r.RevisionNumber <= cur.RevisionNumber:
			return rule("C07", "revision-number", "%s revision of %v does not raise revision number (%d -> %d)", what, id, cur.RevisionNumber, r.RevisionNumber)
		case r.MissedHostValue.Cmp(cur.MissedHostValue) > 0:
			return rule("C07", "revision-raises-missed-host", "%s revision of %v raises missed host value %v -> %v", what, id, cur.MissedHostValue, r.MissedHostValue)
		case r.TotalCollateral != cur.TotalCollateral:
			return rule("C07", "revision-collateral", "%s revision of %v alters total collateral", what, id)
		case cur.ProofHeight < c.height:
			return rule("C08", "revise-after-proof-height", "%s revises %v at height %d after proof height %d", what, id, c.height, cur.ProofHeight)
		}
		e.FC = r
		l.V2FC[id] = e
		if e.Leaf != types.UnassignedLeafIndex {
			l.Forest.Set(e.Leaf, LeafHash(V2FileContractElemHash(id, e.FC), e.Leaf, false))
		}
	}
	for i, res := range txn.FileContractResolutions {
		id := res.Parent.ID
		e, ok := l.V2FC[id]
		if !ok {
			if h, r := l.Spent[types.Hash256(id)]; r {
				return rule("C02", "double-resolution", "%s resolves v2 contract %v already resolved at height %d", what, id, h)
			}
			return rule("C04", "resolve-nonexistent", "%s resolution %d of unknown v2 contract %v", what, i, id)
		}
		if e.Leaf == types.UnassignedLeafIndex {
			return rule("C02", "resolve-created", "%s resolves v2 contract %v created in the same block", what, id)
		}
		fc := e.FC
		delete(l.V2FC, id)
		l.Spent[types.Hash256(id)] = c.height
		l.Forest.Set(e.Leaf, LeafHash(V2FileContractElemHash(id, fc), e.Leaf, true))
		var renter, host types.SiacoinOutput
		rec := Resolution{ID: id, V2: true, Height: c.height}
		locked := new(big.Int).Add(bigc(fc.RenterOutput.Value), bigc(fc.HostOutput.Value))
		switch r := res.Resolution.(type) {
		case *types.V2FileContractRenewal:
			rec.Kind = "renewal"
			renter, host = r.FinalRenterOutput, r.FinalHostOutput
			tot := new(big.Int).Add(bigc(renter.Value), bigc(host.Value))
			tot.Add(tot, bigc(r.RenterRollover))
			tot.Add(tot, bigc(r.HostRollover))
			if tot.Cmp(locked) != 0 {
				return rule("C07", "renewal-split", "%s renewal of %v: final+rollover %v != contract value %v", what, id, tot, locked)
			}
			cost := new(big.Int).Add(bigc(r.NewContract.RenterOutput.Value), bigc(r.NewContract.HostOutput.Value))
			cost.Add(cost, V2Tax(r.NewContract))
			roll := new(big.Int).Add(bigc(r.RenterRollover), bigc(r.HostRollover))
			if roll.Cmp(cost) > 0 {
				return rule("C07", "renewal-rollover", "%s renewal of %v: rollover %v exceeds new contract cost %v", what, id, roll, cost)
			}
			in.Add(in, roll)
			out.Add(out, cost)
			if err := c.createV2FC(V2RenewalID(id), r.NewContract); err != nil {
				return err
			}
		case *types.V2StorageProof:
			rec.Kind = "v2proof"
			renter, host = fc.RenterOutput, fc.HostOutput
			if c.height <= fc.ProofHeight {
				return rule("C08", "proof-before-proof-height", "%s proves %v at height %d, proof height %d", what, id, c.height, fc.ProofHeight)
			}
		case *types.V2FileContractExpiration:
			rec.Kind = "v2expire"
			renter, host = fc.RenterOutput, types.SiacoinOutput{Value: fc.MissedHostValue, Address: fc.HostOutput.Address}
			if c.height <= fc.ExpirationHeight {
				return rule("C08", "expire-early", "%s expires %v at height %d, expiration height %d", what, id, c.height, fc.ExpirationHeight)
			}
			if fc.MissedHostValue.Cmp(fc.HostOutput.Value) > 0 {
				return rule("C01", "missed-exceeds-valid", "%s expiration of %v would create value", what, id)
			}
			l.Forfeited.Add(l.Forfeited, new(big.Int).Sub(bigc(fc.HostOutput.Value), bigc(fc.MissedHostValue)))
		}
		rid, hid := V2ContractOutputID(id, false), V2ContractOutputID(id, true)
		if err := c.createSC(rid, renter, c.height+l.P.MaturityDelay); err != nil {
			return err
		}
		if err := c.createSC(hid, host, c.height+l.P.MaturityDelay); err != nil {
			return err
		}
		rec.Outputs = []types.SiacoinOutputID{rid, hid}
		l.Resolved = append(l.Resolved, rec)
	}
	for i, a := range txn.Attestations {
		c.newAtt = append(c.newAtt, struct {
			id types.AttestationID
			a  types.Attestation
		}{V2AttestationID(txid, i), a})
	}
	out.Add(out, bigc(txn.MinerFee))
	l.Fees.Add(l.Fees, bigc(txn.MinerFee))
	if in.Cmp(out) != 0 {
		return rule("C01", "siacoin-balance", "%s: inputs+rollover %v != outputs+contracts+tax+fee %v", what, in, out)
	}
	if txn.NewFoundationAddress != nil {
		l.FoundationPrimary = *txn.NewFoundationAddress
		if *txn.NewFoundationAddress != types.VoidAddress {
			l.FoundationFailsafe = *txn.NewFoundationAddress
		}
	}
	return nil
}

// Apply returns the ledger after block b. expiring is the order in which the
// node presents the v1 contracts that expire in this block (the set is checked
// against the rule WindowEnd == height).
func (l *Ledger) Apply(b types.Block, expiring []types.FileContractID) (*Ledger, error) {
	n := l.clone()
	height := l.Height + 1
	if l.Empty {
		height = 0
	} else if b.ParentID != l.TipID {
		return nil, fmt.Errorf("%w: ledger tip %v, block parent %v", ErrHarness, l.TipID, b.ParentID)
	}
	n.Empty = false
	n.Height = height
	c := &applyCtx{l: n, height: height, pool: bigc(l.Pool),
		ephSC: map[types.SiacoinOutputID]SCO{}, ephSF: map[types.SiafundOutputID]SFO{}, ephFC: map[types.FileContractID]FCE{},
		touched: map[uint64]bool{}}

	if len(b.Transactions) > 0 && height >= l.P.V2RequireHeight && height > 0 {
		return nil, rule("C08", "v1-after-require", "block at height %d carries v1 transactions (require height %d)", height, l.P.V2RequireHeight)
	}
	if b.V2 != nil && len(b.V2.Transactions) > 0 && height < l.P.V2AllowHeight {
		return nil, rule("C08", "v2-before-allow", "block at height %d carries v2 transactions (allow height %d)", height, l.P.V2AllowHeight)
	}
	for i, txn := range b.Transactions {
		if err := c.v1Txn(i, txn); err != nil {
			return nil, err
		}
	}
	for i, txn := range b.V2Transactions() {
		if err := c.v2Txn(i, txn); err != nil {
			return nil, err
		}
	}
	bid := b.ID()
	// miner payouts: reward + fees exactly
	reward := l.P.BlockReward(height)
	want := new(big.Int).Add(reward, n.Fees)
	got := sumOutputs(b.MinerPayouts)
	if height > 0 && got.Cmp(want) != 0 {
		return nil, rule("C01", "miner-payout", "block %d: miner payouts %v != reward %v + fees %v", height, got, reward, n.Fees)
	}
	n.MinerPayout.Set(got)
	for i, o := range b.MinerPayouts {
		if err := c.createSC(MinerOutputID(bid, i), o, height+l.P.MaturityDelay); err != nil {
			return nil, err
		}
	}
	if height == 0 {
		// genesis: everything it creates is the initial allocation
		for _, id := range c.newSC {
			n.Minted.Add(n.Minted, bigc(n.SC[id].Out.Value))
		}
		for id, e := range c.ephSC {
			_ = id
			n.Minted.Add(n.Minted, bigc(e.Out.Value))
		}
	} else {
		n.Minted.Add(n.Minted, reward)
	}
	if amt, ok := n.foundationSubsidyAt(l, height); ok {
		cv, _ := toCur(amt)
		if err := c.createSC(FoundationOutputID(bid), types.SiacoinOutput{Value: cv, Address: l.FoundationPrimary}, height+l.P.MaturityDelay); err != nil {
			return nil, err
		}
		n.Minted.Add(n.Minted, amt)
		n.Subsidy.Set(amt)
	}
	// v1 expirations
	wantExp := map[types.FileContractID]bool{}
	if height < l.P.V2RequireHeight { // from the require height on v1 supplements must be empty: nothing expires
		for id, e := range n.FC {
			if e.FC.WindowEnd == height {
				wantExp[id] = true
			}
		}
	}
	for _, id := range expiring {
		if _, resolvedNow := n.Spent[types.Hash256(id)]; resolvedNow && n.Spent[types.Hash256(id)] == height {
			continue // proven in this very block; the library skips it too
		}
		if !wantExp[id] {
			return nil, fmt.Errorf("%w: supplement expires contract %v which does not end at height %d", ErrHarness, id, height)
		}
		delete(wantExp, id)
		e := n.FC[id]
		delete(n.FC, id)
		n.Spent[types.Hash256(id)] = height
		if e.Leaf == types.UnassignedLeafIndex {
			c.ephFC[id] = e
		} else {
			n.Forest.Set(e.Leaf, LeafHash(FileContractElemHash(id, e.FC), e.Leaf, true))
		}
		rec := Resolution{ID: id, Kind: "expire", Height: height}
		for i, o := range e.FC.MissedProofOutputs {
			oid := V1ProofOutputID(id, false, i)
			if err := c.createSC(oid, o, height+l.P.MaturityDelay); err != nil {
				return nil, err
			}
			rec.Outputs = append(rec.Outputs, oid)
		}
		n.Resolved = append(n.Resolved, rec)
	}
	if len(wantExp) > 0 {
		return nil, fmt.Errorf("%w: %d contracts ending at height %d missing from the supplement", ErrHarness, len(wantExp), height)
	}

	// assign leaves to everything created, in the accumulator's order:
	// siacoin, siafund, v1 contract, v2 contract, attestation, chain index.
	next := n.Forest.N()
	for _, id := range c.newSC {
		if e, ok := n.SC[id]; ok {
			e.Leaf = next
			n.SC[id] = e
			n.Forest.Set(next, LeafHash(SiacoinElemHash(id, e.Out, e.Maturity), next, false))
		} else {
			e := c.ephSC[id]
			n.Forest.Set(next, LeafHash(SiacoinElemHash(id, e.Out, e.Maturity), next, true))
		}
		next++
	}
	for _, id := range c.newSF {
		if e, ok := n.SF[id]; ok {
			e.Leaf = next
			n.SF[id] = e
			n.Forest.Set(next, LeafHash(SiafundElemHash(id, e.Out, e.ClaimStart), next, false))
		} else {
			e := c.ephSF[id]
			n.Forest.Set(next, LeafHash(SiafundElemHash(id, e.Out, e.ClaimStart), next, true))
		}
		next++
	}
	for _, id := range c.newFC {
		if e, ok := n.FC[id]; ok {
			e.Leaf = next
			n.FC[id] = e
			n.Forest.Set(next, LeafHash(FileContractElemHash(id, e.FC), next, false))
		} else {
			e := c.ephFC[id]
			n.Forest.Set(next, LeafHash(FileContractElemHash(id, e.FC), next, true))
		}
		next++
	}
	for _, id := range c.newV2 {
		e := n.V2FC[id]
		e.Leaf = next
		n.V2FC[id] = e
		n.Forest.Set(next, LeafHash(V2FileContractElemHash(id, e.FC), next, false))
		next++
	}
	for _, a := range c.newAtt {
		n.Forest.Set(next, LeafHash(AttestationElemHash(a.id, a.a), next, false))
		next++
		n.Attestations++
	}
	ci := types.ChainIndex{Height: height, ID: bid}
	n.Forest.Set(next, LeafHash(ChainIndexElemHash(bid, ci), next, false))
	n.CI = append(n.CI, types.ChainIndexElement{ID: bid, ChainIndex: ci, StateElement: types.StateElement{LeafIndex: next}})

	pc, ok := toCur(c.pool)
	if !ok {
		return nil, rule("C01", "pool-range", "tax pool out of range")
	}
	n.Pool = pc
	n.TipID = bid
	return n, nil
}

func (n *Ledger) foundationSubsidyAt(parent *Ledger, height uint64) (*big.Int, bool) {
	// the subsidy address in force is the parent state's
	return parent.foundationSubsidy(height)
}

// Conservation evaluates the supply equation; it returns the two sides.
func (l *Ledger) Conservation() (have, want *big.Int) {
	have = new(big.Int)
	for _, e := range l.SC {
		have.Add(have, bigc(e.Out.Value))
	}
	for _, e := range l.FC {
		have.Add(have, sumOutputs(e.FC.ValidProofOutputs))
	}
	for _, e := range l.V2FC {
		have.Add(have, bigc(e.FC.RenterOutput.Value))
		have.Add(have, bigc(e.FC.HostOutput.Value))
	}
	have.Add(have, bigc(l.Pool))
	have.Sub(have, l.Claimed)
	have.Add(have, l.Forfeited)
	return have, new(big.Int).Set(l.Minted)
}

// SiafundTotal is the number of siafunds in unspent outputs.
func (l *Ledger) SiafundTotal() uint64 {
	var s uint64
	for _, e := range l.SF {
		s += e.Out.Value
	}
	return s
}

// SortedSC returns the siacoin IDs in byte order.
func (l *Ledger) SortedSC() []types.SiacoinOutputID {
	ids := make([]types.SiacoinOutputID, 0, len(l.SC))
	for id := range l.SC {
		ids = append(ids, id)
	}
	sort.Slice(ids, func(i, j int) bool { return bytes.Compare(ids[i][:], ids[j][:]) < 0 })
	return ids
}
