package ref

import (
	"math/bits"

	"go.sia.tech/core/types"
)

// Element hashes by definition of the accumulator leaf format.

func SiacoinElemHash(id types.SiacoinOutputID, o types.SiacoinOutput, maturity uint64) types.Hash256 {
	var w W
	w.Dist("leaf/siacoin")
	w.Raw(id[:])
	w.SCOv2(o)
	w.U64(maturity)
	return w.Hash()
}
func SiafundElemHash(id types.SiafundOutputID, o types.SiafundOutput, claimStart types.Currency) types.Hash256 {
	var w W
	w.Dist("leaf/siafund")
	w.Raw(id[:])
	w.SFOv2(o)
	w.CurV2(claimStart)
	return w.Hash()
}
func FileContractElemHash(id types.FileContractID, fc types.FileContract) types.Hash256 {
	var w W
	w.Dist("leaf/filecontract")
	w.Raw(id[:])
	w.FC(fc)
	return w.Hash()
}
func V2FileContractElemHash(id types.FileContractID, fc types.V2FileContract) types.Hash256 {
	var w W
	w.Dist("leaf/v2filecontract")
	w.Raw(id[:])
	w.V2FC(fc)
	return w.Hash()
}
func AttestationElemHash(id types.AttestationID, a types.Attestation) types.Hash256 {
	var w W
	w.Dist("leaf/attestation")
	w.Raw(id[:])
	w.Attestation(a)
	return w.Hash()
}
func ChainIndexElemHash(id types.BlockID, ci types.ChainIndex) types.Hash256 {
	var w W
	w.Dist("leaf/chainindex")
	w.Raw(id[:])
	w.U64(ci.Height)
	w.Raw(ci.ID[:])
	return w.Hash()
}

// LeafHash is the Merkle leaf of an element: 0x00 || element hash || index || spent.
func LeafHash(elem types.Hash256, index uint64, spent bool) types.Hash256 {
	var w W
	w.U8(0)
	w.Raw(elem[:])
	w.U64(index)
	w.Bool(spent)
	return w.Hash()
}

// NodeHash is an interior Merkle node: 0x01 || left || right.
func NodeHash(l, r types.Hash256) types.Hash256 {
	buf := make([]byte, 65)
	buf[0] = 1
	copy(buf[1:], l[:])
	copy(buf[33:], r[:])
	return Sum(buf)
}

// A Forest is the naive Merkle forest over all leaves ever added: a slice of
// leaf hashes; trees are the binary decomposition of the count, largest first
// from index 0.
type Forest struct {
	Leaves []types.Hash256
	memo   map[[2]uint64]types.Hash256 // (start,size) -> root, filled lazily
}

// Clone copies the forest.
func (f *Forest) Clone() *Forest {
	return &Forest{Leaves: append([]types.Hash256(nil), f.Leaves...)}
}

// Set writes leaf i (appending if i == len).
func (f *Forest) Set(i uint64, h types.Hash256) {
	f.memo = nil
	if i == uint64(len(f.Leaves)) {
		f.Leaves = append(f.Leaves, h)
		return
	}
	f.Leaves[i] = h
}

func (f *Forest) subtree(start, size uint64) types.Hash256 {
	if size == 1 {
		return f.Leaves[start]
	}
	k := [2]uint64{start, size}
	if h, ok := f.memo[k]; ok {
		return h
	}
	h := NodeHash(f.subtree(start, size/2), f.subtree(start+size/2, size/2))
	if f.memo == nil {
		f.memo = make(map[[2]uint64]types.Hash256)
	}
	f.memo[k] = h
	return h
}

// N is the number of leaves.
func (f *Forest) N() uint64 { return uint64(len(f.Leaves)) }

// Roots returns root[height] for each tree present (bit set in N).
func (f *Forest) Roots() (roots [64]types.Hash256) {
	n := f.N()
	start := uint64(0)
	for h := 63; h >= 0; h-- {
		if n&(1<<h) != 0 {
			roots[h] = f.subtree(start, 1<<h)
			start += 1 << h
		}
	}
	return
}

// TreeOf returns the (start, height) of the tree holding leaf i.
func (f *Forest) TreeOf(i uint64) (start uint64, height int) {
	n := f.N()
	height = bits.Len64(i^n) - 1
	start = i &^ (1<<height - 1)
	return
}

// Path returns the audit path of leaf i within its tree, bottom-up.
func (f *Forest) Path(i uint64) []types.Hash256 {
	start, height := f.TreeOf(i)
	path := make([]types.Hash256, 0, height)
	for h := 0; h < height; h++ {
		size := uint64(1) << h
		sub := start + ((i-start)>>h)<<h // start of i's subtree of this size
		sib := sub ^ size                // sibling subtree start (relative flip works as start is aligned)
		path = append(path, f.subtree(sib, size))
	}
	return path
}

// Node returns the hash of the node at (row, col) where row is the height and
// col the index of the subtree of size 2^row.
func (f *Forest) Node(row, col uint64) types.Hash256 {
	return f.subtree(col<<row, 1<<row)
}

// ProofRoot folds a leaf hash along a path.
func ProofRoot(leaf types.Hash256, index uint64, path []types.Hash256) types.Hash256 {
	h := leaf
	for i, s := range path {
		if index&(1<<i) == 0 {
			h = NodeHash(h, s)
		} else {
			h = NodeHash(s, h)
		}
	}
	return h
}
