package sess

import (
	"bytes"
	"errors"
	"fmt"
	"time"

	rhp4 "go.sia.tech/core/rhp/v4"
	"go.sia.tech/core/types"
	"verif/sim"
)

type obj4 = rhp4.Object

// rpc4 lists every RHP4 object type: request/response pairs by RPC id plus the
// follow-up messages of multi-step RPCs.
type rpc4 struct {
	name string
	id   types.Specifier
	req  func() obj4
	resp func() obj4
	more []func() obj4 // second, third, ... responses (alternating renter->host, host->renter)
}

var rpcs4 = []rpc4{
	{"Settings", rhp4.RPCSettingsID, func() obj4 { return new(rhp4.RPCSettingsRequest) }, func() obj4 { return new(rhp4.RPCSettingsResponse) }, nil},
	{"FormContract", rhp4.RPCFormContractID, func() obj4 { return new(rhp4.RPCFormContractRequest) }, func() obj4 { return new(rhp4.RPCFormContractResponse) },
		[]func() obj4{func() obj4 { return new(rhp4.RPCFormContractSecondResponse) }, func() obj4 { return new(rhp4.RPCFormContractThirdResponse) }}},
	{"RenewContract", rhp4.RPCRenewContractID, func() obj4 { return new(rhp4.RPCRenewContractRequest) }, func() obj4 { return new(rhp4.RPCRenewContractResponse) },
		[]func() obj4{func() obj4 { return new(rhp4.RPCRenewContractSecondResponse) }, func() obj4 { return new(rhp4.RPCRenewContractThirdResponse) }}},
	{"RefreshContract", rhp4.RPCRefreshContractID, func() obj4 { return new(rhp4.RPCRefreshContractRequest) }, func() obj4 { return new(rhp4.RPCRefreshContractResponse) },
		[]func() obj4{func() obj4 { return new(rhp4.RPCRefreshContractSecondResponse) }, func() obj4 { return new(rhp4.RPCRefreshContractThirdResponse) }}},
	{"FreeSectors", rhp4.RPCFreeSectorsID, func() obj4 { return new(rhp4.RPCFreeSectorsRequest) }, func() obj4 { return new(rhp4.RPCFreeSectorsResponse) },
		[]func() obj4{func() obj4 { return new(rhp4.RPCFreeSectorsSecondResponse) }, func() obj4 { return new(rhp4.RPCFreeSectorsThirdResponse) }}},
	{"AppendSectors", rhp4.RPCAppendSectorsID, func() obj4 { return new(rhp4.RPCAppendSectorsRequest) }, func() obj4 { return new(rhp4.RPCAppendSectorsResponse) },
		[]func() obj4{func() obj4 { return new(rhp4.RPCAppendSectorsSecondResponse) }, func() obj4 { return new(rhp4.RPCAppendSectorsThirdResponse) }}},
	{"LatestRevision", rhp4.RPCLatestRevisionID, func() obj4 { return new(rhp4.RPCLatestRevisionRequest) }, func() obj4 { return new(rhp4.RPCLatestRevisionResponse) }, nil},
	{"ReadSector", rhp4.RPCReadSectorID, func() obj4 { return new(rhp4.RPCReadSectorRequest) }, func() obj4 { return new(rhp4.RPCReadSectorResponse) }, nil},
	{"WriteSector", rhp4.RPCWriteSectorID, func() obj4 { return new(rhp4.RPCWriteSectorRequest) }, func() obj4 { return new(rhp4.RPCWriteSectorResponse) }, nil},
	{"SectorRoots", rhp4.RPCSectorRootsID, func() obj4 { return new(rhp4.RPCSectorRootsRequest) }, func() obj4 { return new(rhp4.RPCSectorRootsResponse) }, nil},
	{"AccountBalance", rhp4.RPCAccountBalanceID, func() obj4 { return new(rhp4.RPCAccountBalanceRequest) }, func() obj4 { return new(rhp4.RPCAccountBalanceResponse) }, nil},
	{"ReplenishAccounts", rhp4.RPCReplenishAccountsID, func() obj4 { return new(rhp4.RPCReplenishAccountsRequest) }, func() obj4 { return new(rhp4.RPCReplenishAccountsResponse) },
		[]func() obj4{func() obj4 { return new(rhp4.RPCReplenishAccountsSecondResponse) }, func() obj4 { return new(rhp4.RPCReplenishAccountsThirdResponse) }}},
	{"FundAccounts", rhp4.RPCFundAccountsID, func() obj4 { return new(rhp4.RPCFundAccountsRequest) }, func() obj4 { return new(rhp4.RPCFundAccountsResponse) }, nil},
	{"AttachPools", rhp4.RPCAttachPoolsID, func() obj4 { return new(rhp4.RPCAttachPoolsRequest) }, func() obj4 { return new(rhp4.RPCAttachPoolsResponse) }, nil},
	{"DetachPools", rhp4.RPCDetachPoolsID, func() obj4 { return new(rhp4.RPCDetachPoolsRequest) }, func() obj4 { return new(rhp4.RPCDetachPoolsResponse) }, nil},
	{"VerifySector", rhp4.RPCVerifySectorID, func() obj4 { return new(rhp4.RPCVerifySectorRequest) }, func() obj4 { return new(rhp4.RPCVerifySectorResponse) }, nil},
}

func enc4(o obj4) []byte {
	var buf bytes.Buffer
	e := types.NewEncoder(&buf)
	rhp4.VerifEncode(e, o)
	e.Flush()
	return buf.Bytes()
}

// step4 is one message of an RHP4 script.
type step4 struct {
	name   string
	dir    int              // 0: renter->host, 1: host->renter
	id     *types.Specifier // non-nil: a request preceded by its RPC id
	obj    obj4
	fresh  func() obj4
	rpcErr *rhp4.RPCError // host answers with this error instead of obj
	enc    []byte         // encoding of obj as sent
	limit  int            // receiver's limit for this message
	over   bool           // deliberately larger than the limit
	maxima bool
}

// hashes returns n distinct hashes.
func hashes(n int, salt uint64) []types.Hash256 {
	out := make([]types.Hash256, n)
	b := sim.HashBytes("hashes", salt, uint64(n), 32)
	for i := range out {
		copy(out[i][:], b)
		out[i][0], out[i][1], out[i][2] = byte(i), byte(i>>8), byte(i>>16)
	}
	return out
}

// maxima4 builds objects at the protocol's own maxima.
func maxima4(t *sim.Tape, which int) (name string, o obj4, fresh func() obj4, dir int, id *types.Specifier) {
	sp := func(s types.Specifier) *types.Specifier { return &s }
	const maxS = rhp4.MaxSectorBatchSize
	const maxA = rhp4.MaxAccountBatchSize
	switch which % 11 {
	case 0:
		r := &rhp4.RPCAppendSectorsRequest{Sectors: hashes(maxS, 1)}
		return "AppendSectorsRequest@max", r, func() obj4 { return new(rhp4.RPCAppendSectorsRequest) }, 0, sp(rhp4.RPCAppendSectorsID)
	case 1:
		r := &rhp4.RPCAppendSectorsResponse{Accepted: make([]bool, maxS), SubtreeRoots: hashes(64, 2)}
		for i := range r.Accepted {
			r.Accepted[i] = i%3 != 0
		}
		return "AppendSectorsResponse@max", r, func() obj4 { return new(rhp4.RPCAppendSectorsResponse) }, 1, nil
	case 2:
		r := &rhp4.RPCFreeSectorsRequest{Indices: make([]uint64, maxS)}
		for i := range r.Indices {
			r.Indices[i] = uint64(i) * 3
		}
		return "FreeSectorsRequest@max", r, func() obj4 { return new(rhp4.RPCFreeSectorsRequest) }, 0, sp(rhp4.RPCFreeSectorsID)
	case 3:
		r := &rhp4.RPCSectorRootsResponse{Roots: hashes(maxS, 3), Proof: hashes(64, 4)}
		return "SectorRootsResponse@max", r, func() obj4 { return new(rhp4.RPCSectorRootsResponse) }, 1, nil
	case 4:
		r := &rhp4.RPCFundAccountsRequest{Deposits: make([]rhp4.AccountDeposit, maxA)}
		for i := range r.Deposits {
			r.Deposits[i].Account[0], r.Deposits[i].Account[1] = byte(i), byte(i>>8)
			r.Deposits[i].Amount = types.MaxCurrency
		}
		return "FundAccountsRequest@max", r, func() obj4 { return new(rhp4.RPCFundAccountsRequest) }, 0, sp(rhp4.RPCFundAccountsID)
	case 5:
		r := &rhp4.RPCFundAccountsResponse{Balances: make([]types.Currency, maxA)}
		for i := range r.Balances {
			r.Balances[i] = types.MaxCurrency
		}
		return "FundAccountsResponse@max", r, func() obj4 { return new(rhp4.RPCFundAccountsResponse) }, 1, nil
	case 6:
		r := &rhp4.RPCReplenishAccountsRequest{Accounts: make([]rhp4.Account, maxA), Target: types.MaxCurrency}
		return "ReplenishAccountsRequest@max", r, func() obj4 { return new(rhp4.RPCReplenishAccountsRequest) }, 0, sp(rhp4.RPCReplenishAccountsID)
	case 7:
		r := &rhp4.RPCReplenishAccountsResponse{Deposits: make([]rhp4.AccountDeposit, maxA)}
		return "ReplenishAccountsResponse@max", r, func() obj4 { return new(rhp4.RPCReplenishAccountsResponse) }, 1, nil
	case 8:
		r := &rhp4.RPCAttachPoolsRequest{Attachments: make([]rhp4.PoolAttachment, maxA)}
		return "AttachPoolsRequest@max", r, func() obj4 { return new(rhp4.RPCAttachPoolsRequest) }, 0, sp(rhp4.RPCAttachPoolsID)
	case 9:
		r := &rhp4.RPCDetachPoolsRequest{Detachments: make([]rhp4.PoolDetachment, maxA)}
		return "DetachPoolsRequest@max", r, func() obj4 { return new(rhp4.RPCDetachPoolsRequest) }, 0, sp(rhp4.RPCDetachPoolsID)
	default:
		// a sector read of a whole sector: proof for the full range is empty,
		// the smallest range has the longest proof
		r := &rhp4.RPCReadSectorResponse{Proof: hashes(2*16, 5), DataLength: rhp4.SectorSize}
		return "ReadSectorResponse@max", r, func() obj4 { return new(rhp4.RPCReadSectorResponse) }, 1, nil
	}
}

// freeSectorsResponse builds the host's answer to a valid free-sectors
// request with the real proof builder.
func freeSectorsResponse(numSectors int, indices []uint64) *rhp4.RPCFreeSectorsResponse {
	roots := hashes(numSectors, 77)
	th, lh := rhp4.BuildFreeSectorsProof(roots, indices)
	return &rhp4.RPCFreeSectorsResponse{OldSubtreeHashes: th, OldLeafHashes: lh}
}

// buildScript4 draws an RHP4 script.
func buildScript4(t *sim.Tape, mode string) []step4 {
	var steps []step4
	add := func(st step4) {
		st.enc = enc4(st.obj)
		st.limit = rhp4.VerifMaxLen(st.fresh())
		if st.dir == 1 || st.id == nil {
			st.limit += 1024 // a response may be an RPCError instead
		}
		steps = append(steps, st)
	}
	switch mode {
	case "maxima":
		name, o, fresh, dir, id := maxima4(t, t.Choose(11))
		add(step4{name: name, dir: dir, id: id, obj: o, fresh: fresh, maxima: true})
	case "batch":
		// a batch request of a size around the protocol's batch limits, every
		// member well-formed: whatever the request's own Validate admits must
		// also fit the receiver's limit for it (an empty script: Validate refused)
		const maxA, maxS = rhp4.MaxAccountBatchSize, rhp4.MaxSectorBatchSize
		k := []int{1, maxA - 1, maxA, maxA + 1, maxA + t.Range(2, 64), 2 * maxA, 8 * maxA, maxS, maxS + 1}[t.Choose(9)]
		acct := func(i, salt int) (a rhp4.Account) {
			a[0], a[1], a[2], a[3] = byte(i), byte(i>>8), byte(i>>16), byte(salt)
			return
		}
		sig := types.Signature{1}
		var o obj4
		var fresh func() obj4
		var id types.Specifier
		var verr error
		switch which := t.Choose(5); which {
		case 0:
			r := &rhp4.RPCFundAccountsRequest{ContractID: types.FileContractID{1}, RenterSignature: sig, Deposits: make([]rhp4.AccountDeposit, k)}
			for i := range r.Deposits {
				r.Deposits[i] = rhp4.AccountDeposit{Account: acct(i, 1), Amount: types.MaxCurrency}
			}
			o, fresh, id, verr = r, func() obj4 { return new(rhp4.RPCFundAccountsRequest) }, rhp4.RPCFundAccountsID, r.Validate()
		case 1:
			r := &rhp4.RPCReplenishAccountsRequest{ContractID: types.FileContractID{1}, ChallengeSignature: sig, Target: types.MaxCurrency, Accounts: make([]rhp4.Account, k)}
			for i := range r.Accounts {
				r.Accounts[i] = acct(i, 1)
			}
			o, fresh, id, verr = r, func() obj4 { return new(rhp4.RPCReplenishAccountsRequest) }, rhp4.RPCReplenishAccountsID, r.Validate()
		case 2:
			r := &rhp4.RPCAttachPoolsRequest{Attachments: make([]rhp4.PoolAttachment, k)}
			for i := range r.Attachments {
				r.Attachments[i] = rhp4.PoolAttachment{Account: acct(i, 1), Pool: acct(i, 2), ValidUntil: epochPlusYear(), Signature: sig}
			}
			o, fresh, id, verr = r, func() obj4 { return new(rhp4.RPCAttachPoolsRequest) }, rhp4.RPCAttachPoolsID, r.Validate()
		case 3:
			r := &rhp4.RPCDetachPoolsRequest{Detachments: make([]rhp4.PoolDetachment, k)}
			for i := range r.Detachments {
				r.Detachments[i] = rhp4.PoolDetachment{Account: acct(i, 1), Pool: acct(i, 2), ValidUntil: epochPlusYear(), Signature: sig}
			}
			o, fresh, id, verr = r, func() obj4 { return new(rhp4.RPCDetachPoolsRequest) }, rhp4.RPCDetachPoolsID, r.Validate()
		default:
			hostKey := types.NewPrivateKeyFromSeed(make([]byte, 32))
			r := &rhp4.RPCAppendSectorsRequest{Sectors: hashes(k, 9)}
			r.Prices.ValidUntil = epochPlusYear()
			r.Prices.Signature = hostKey.SignHash(r.Prices.SigHash())
			o, fresh, id, verr = r, func() obj4 { return new(rhp4.RPCAppendSectorsRequest) }, rhp4.RPCAppendSectorsID, r.Validate(hostKey.PublicKey())
		}
		if verr == nil {
			add(step4{name: fmt.Sprintf("%T with %d members, passes its Validate", o, k), dir: 0, id: &id, obj: o, fresh: fresh, maxima: true})
		}
	case "free-sectors":
		// a request that passes Validate: distinct indices below the contract's
		// sector count, at most MaxSectorBatchSize of them
		shape := t.Choose(4)
		var n int
		var idx []uint64
		switch shape {
		case 0: // every other sector of a large contract: the widest proof
			k := rhp4.MaxSectorBatchSize
			n = 3 * k
			for i := 0; i < k; i++ {
				idx = append(idx, uint64(2*i))
			}
		case 1: // a contiguous run
			n = 1 << 12
			for i := 0; i < 1<<10; i++ {
				idx = append(idx, uint64(i+5))
			}
		case 2: // scattered
			n = 1 << 14
			for i := 0; i < 1<<11; i++ {
				idx = append(idx, uint64(i*7+t.Choose(3)))
			}
		default:
			n = t.Range(1, 300)
			seen := map[uint64]bool{}
			for i := 0; i < t.Range(1, n); i++ {
				x := uint64(t.Choose(n))
				if !seen[x] {
					seen[x] = true
					idx = append(idx, x)
				}
			}
		}
		fc := types.V2FileContract{Filesize: uint64(n) * rhp4.SectorSize, Capacity: uint64(n) * rhp4.SectorSize}
		req := &rhp4.RPCFreeSectorsRequest{Indices: idx}
		req.Prices.ValidUntil = epochPlusYear()
		hostKey := types.NewPrivateKeyFromSeed(make([]byte, 32))
		req.Prices.Signature = hostKey.SignHash(req.Prices.SigHash())
		valid := req.Validate(hostKey.PublicKey(), fc) == nil
		id := rhp4.RPCFreeSectorsID
		add(step4{name: fmt.Sprintf("FreeSectorsRequest shape=%d valid=%v n=%d k=%d", shape, valid, n, len(idx)), dir: 0, id: &id, obj: req, fresh: func() obj4 { return new(rhp4.RPCFreeSectorsRequest) }, maxima: valid})
		add(step4{name: fmt.Sprintf("FreeSectorsResponse to a valid request (%d of %d sectors freed, pattern %d)", len(idx), n, shape), dir: 1, obj: freeSectorsResponse(n, idx), fresh: func() obj4 { return new(rhp4.RPCFreeSectorsResponse) }, maxima: valid})
	default:
		n := t.Range(1, 6)
		for i := 0; i < n; i++ {
			r := rpcs4[t.Choose(len(rpcs4))]
			req := r.req()
			fillObject(t, req, 0, uint64(len(steps)))
			id := r.id
			add(step4{name: r.name + "Request", dir: 0, id: &id, obj: req, fresh: r.req})
			if t.Chance(1, 6) {
				dl := t.Range(0, 200)
				if t.Chance(1, 4) {
					dl = pick(t, 1015, 1014, 1000) // an error as long as an error may be (1024 bytes encoded), and a little shorter
				}
				e := &rhp4.RPCError{Code: uint8(t.Range(1, 6)), Description: string(hexish(sim.HashBytes("err", uint64(i), 0, dl)))}
				resp := r.resp()
				st := step4{name: r.name + "Response(error)", dir: 1, obj: resp, fresh: r.resp, rpcErr: e}
				st.limit = rhp4.VerifMaxLen(resp) + 1024
				steps = append(steps, st)
				continue
			}
			resp := r.resp()
			fillObject(t, resp, 0, uint64(len(steps)))
			add(step4{name: r.name + "Response", dir: 1, obj: resp, fresh: r.resp})
			for j, mk := range r.more {
				if t.Chance(1, 3) {
					break
				}
				m := mk()
				fillObject(t, m, 0, uint64(len(steps)))
				add(step4{name: fmt.Sprintf("%s follow-up %d", r.name, j+2), dir: j % 2, obj: m, fresh: mk})
			}
		}
		if mode == "overlimit" {
			// the last message of the script is a single object whose encoding
			// exceeds the receiver's limit for it
			const maxA = rhp4.MaxAccountBatchSize
			extra := t.Range(1, 64)
			var st step4
			switch t.Choose(6) {
			case 0:
				id := rhp4.RPCFundAccountsID
				st = step4{name: "FundAccountsRequest(over limit)", dir: 0, id: &id, obj: &rhp4.RPCFundAccountsRequest{Deposits: make([]rhp4.AccountDeposit, maxA+extra)}, fresh: func() obj4 { return new(rhp4.RPCFundAccountsRequest) }}
			case 1:
				id := rhp4.RPCReplenishAccountsID
				st = step4{name: "ReplenishAccountsRequest(over limit)", dir: 0, id: &id, obj: &rhp4.RPCReplenishAccountsRequest{Accounts: make([]rhp4.Account, maxA+extra)}, fresh: func() obj4 { return new(rhp4.RPCReplenishAccountsRequest) }}
			case 2:
				st = step4{name: "ReplenishAccountsResponse(over limit)", dir: 1, obj: &rhp4.RPCReplenishAccountsResponse{Deposits: make([]rhp4.AccountDeposit, maxA+1024/48+extra)}, fresh: func() obj4 { return new(rhp4.RPCReplenishAccountsResponse) }}
			case 3:
				id := rhp4.RPCAttachPoolsID
				st = step4{name: "AttachPoolsRequest(over limit)", dir: 0, id: &id, obj: &rhp4.RPCAttachPoolsRequest{Attachments: make([]rhp4.PoolAttachment, maxA+extra)}, fresh: func() obj4 { return new(rhp4.RPCAttachPoolsRequest) }}
			case 4:
				st = step4{name: "FundAccountsResponse(over limit)", dir: 1, obj: &rhp4.RPCFundAccountsResponse{Balances: make([]types.Currency, maxA+1024/16+extra)}, fresh: func() obj4 { return new(rhp4.RPCFundAccountsResponse) }}
			default:
				id := rhp4.RPCFreeSectorsID
				st = step4{name: "FreeSectorsRequest(over limit)", dir: 0, id: &id, obj: &rhp4.RPCFreeSectorsRequest{Indices: make([]uint64, (10*1024+32*rhp4.MaxSectorBatchSize)/8+extra)}, fresh: func() obj4 { return new(rhp4.RPCFreeSectorsRequest) }}
			}
			st.over = true
			add(st)
		}
	}
	return steps
}

func epochPlusYear() time.Time { return time.Now().AddDate(1, 0, 0) }

// runRHP4 runs a script over the raw simulated stream.
func runRHP4(s *Session, steps []step4) {
	do := func(e *endpoint, c *Conn, me int) {
		defer close(e.done)
		defer c.Close()
		for i := range steps {
			st := &steps[i]
			if st.dir == me {
				// ---- writer ----
				var err error
				switch {
				case st.id != nil:
					err = rhp4.WriteRequest(c, *st.id, st.obj)
				case st.rpcErr != nil:
					err = rhp4.WriteResponse(c, st.rpcErr)
				default:
					err = rhp4.WriteResponse(c, st.obj)
				}
				if err != nil {
					e.logf("step %d write %s: error", i, st.name)
					return
				}
				e.logf("step %d wrote %s (%d bytes)", i, st.name, len(st.enc))
				continue
			}
			// ---- reader ----
			_, _, before := c.in.stats()
			got := st.fresh()
			var err error
			if st.id != nil {
				var id types.Specifier
				id, err = rhp4.ReadID(c)
				if err == nil && id != *st.id && !s.tamperedDir(1-me) {
					e.violate("C19", "rhp4-id-mismatch", fmt.Sprintf("step %d: read RPC id %v, peer wrote %v", i, id, *st.id))
				}
				if err == nil {
					err = rhp4.ReadRequest(c, got)
				}
			} else {
				err = rhp4.ReadResponse(c, got)
			}
			_, _, after := c.in.stats()
			used := after - before
			tampered := s.tamperedDir(1 - me)
			e.inc("rpc4.read")
			bound := int64(st.limit)
			if st.id != nil {
				bound += 16
			}
			if used > bound+1 { // +1: the error/response flag byte
				e.violate("C19", "rhp4-read-exceeds-limit", fmt.Sprintf("step %d (%s): reader consumed %d bytes from the connection, its limit for this message is %d", i, st.name, used, bound))
			}
			switch {
			case st.over:
				e.inc("rpc4.overlimit")
				if err == nil && !tampered {
					e.violate("C19", "rhp4-overlimit-accepted", fmt.Sprintf("step %d (%s): a message of more than %d bytes was read without error", i, st.name, st.limit))
				}
				e.logf("step %d read over-limit %s: err=%v used<=limit=%v", i, st.name, err != nil, used <= bound+1)
				return
			case st.rpcErr != nil:
				var re *rhp4.RPCError
				if errors.As(err, &re) {
					if (re.Code != st.rpcErr.Code || re.Description != st.rpcErr.Description) && !tampered {
						e.violate("C19", "rhp4-error-altered", fmt.Sprintf("step %d: error response (%d,%q) arrived as (%d,%q)", i, st.rpcErr.Code, st.rpcErr.Description, re.Code, re.Description))
					}
					e.inc("rpc4.error-delivered")
					e.logf("step %d read %s: rpc error delivered", i, st.name)
					continue
				}
				if !tampered && !s.anyFault() {
					e.violate("C19", "rhp4-error-lost", fmt.Sprintf("step %d: peer wrote an RPC error, reader got %v", i, err))
				}
				e.logf("step %d read %s: err=%v", i, st.name, err != nil)
				return
			case err != nil:
				if !s.anyFault() {
					prop, inv := "C19", "rhp4-valid-message-rejected"
					detail := fmt.Sprintf("step %d: %s (%d bytes, receiver limit %d) could not be read: %v", i, st.name, len(st.enc), st.limit, err)
					e.violate(prop, inv, detail)
				}
				e.logf("step %d read %s: error", i, st.name)
				return
			default:
				if !tampered && !bytes.Equal(enc4(got), st.enc) {
					e.violate("C19", "rhp4-object-altered", fmt.Sprintf("step %d: %s was decoded to a different object than the one written", i, st.name))
				}
				if st.maxima {
					e.inc("rpc4.maxima-delivered")
				}
				e.logf("step %d read %s ok", i, st.name)
			}
		}
	}
	go do(s.ea, s.a, 0)
	go do(s.eb, s.b, 1)
}

func (s *Session) tamperedDir(d int) bool { return s.tampered[d].Load() }
func (s *Session) anyFault() bool {
	return s.plan.flipAt >= 0 || s.plan.cutAt >= 0 || s.plan.stallAt >= 0 || s.capped.Load()
}
