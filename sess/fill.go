package sess

import (
	"reflect"
	"time"

	rhp2 "go.sia.tech/core/rhp/v2"
	rhp3 "go.sia.tech/core/rhp/v3"
	"go.sia.tech/core/types"
	"verif/sim"
)

// filler populates protocol objects from the choice tape by reflection, so
// that every exported field of every RPC object type carries a non-zero,
// tape-chosen value. size is the target length of slices (0 = tape-chosen
// small).
type filler struct {
	t     *sim.Tape
	size  int
	depth int
	ctr   uint64
}

func (f *filler) bytes(n int) []byte {
	f.ctr++
	return sim.HashBytes("fill", f.ctr, uint64(n), n)
}

func (f *filler) sliceLen() int {
	if f.size > 0 {
		return f.size
	}
	return f.t.Weighted(2, 4, 3, 1) * (1 + f.t.Choose(3)) // 0, 1-3, 2-6, 3-9
}

var (
	tTime        = reflect.TypeOf(time.Time{})
	tPolicy      = reflect.TypeOf(types.SpendPolicy{})
	tResolution  = reflect.TypeOf((*types.V2FileContractResolutionType)(nil)).Elem()
	tPayment     = reflect.TypeOf((*rhp3.PaymentMethod)(nil)).Elem()
	tInstr       = reflect.TypeOf((*rhp3.Instruction)(nil)).Elem()
	tError       = reflect.TypeOf((*error)(nil)).Elem()
	tWriteAction = reflect.TypeOf(rhp2.RPCWriteAction{})
)

func (f *filler) policy(depth int) types.SpendPolicy {
	switch f.t.Choose(7) {
	case 0:
		return types.PolicyAbove(uint64(f.t.Choose(1 << 20)))
	case 1:
		return types.PolicyAfter(time.Unix(int64(f.t.Choose(1<<30)), 0))
	case 2:
		var pk types.PublicKey
		copy(pk[:], f.bytes(32))
		return types.PolicyPublicKey(pk)
	case 3:
		var h types.Hash256
		copy(h[:], f.bytes(32))
		return types.PolicyHash(h)
	case 4:
		if depth >= 3 {
			return types.AnyoneCanSpend()
		}
		n := f.t.Choose(4)
		of := make([]types.SpendPolicy, n)
		for i := range of {
			of[i] = f.policy(depth + 1)
			if _, uc := of[i].Type.(types.PolicyTypeUnlockConditions); uc {
				of[i] = types.PolicyAbove(1)
			}
		}
		return types.PolicyThreshold(uint8(f.t.Choose(n+1)), of)
	case 5:
		var a types.Address
		copy(a[:], f.bytes(32))
		return types.SpendPolicy{Type: types.PolicyTypeOpaque(a)}
	default:
		uc := types.UnlockConditions{Timelock: uint64(f.t.Choose(100)), SignaturesRequired: uint64(f.t.Choose(3))}
		for i := 0; i < f.t.Choose(3); i++ {
			uc.PublicKeys = append(uc.PublicKeys, types.UnlockKey{Algorithm: types.SpecifierEd25519, Key: f.bytes(32)})
		}
		return types.SpendPolicy{Type: types.PolicyTypeUnlockConditions(uc)}
	}
}

func (f *filler) fill(v reflect.Value) {
	if !v.CanSet() {
		return
	}
	f.depth++
	defer func() { f.depth-- }()
	t := v.Type()
	switch {
	case t == tTime:
		sec := int64(f.t.Choose(1 << 31))
		if f.t.Chance(1, 12) {
			sec = -sec // (the wire carries a time's seconds whatever their sign: a zero value or a time before 1970 comes back as it went)
		}
		v.Set(reflect.ValueOf(time.Unix(sec, 0)))
		return
	case t == tPolicy:
		v.Set(reflect.ValueOf(f.policy(0)))
		return
	case t == tResolution:
		switch f.t.Choose(3) {
		case 0:
			r := new(types.V2FileContractRenewal)
			f.fill(reflect.ValueOf(r).Elem())
			v.Set(reflect.ValueOf(r))
		case 1:
			r := new(types.V2StorageProof)
			f.fill(reflect.ValueOf(r).Elem())
			v.Set(reflect.ValueOf(r))
		default:
			v.Set(reflect.ValueOf(new(types.V2FileContractExpiration)))
		}
		return
	case t == tPayment:
		if f.t.Chance(1, 2) {
			r := new(rhp3.PayByContractRequest)
			f.fill(reflect.ValueOf(r).Elem())
			v.Set(reflect.ValueOf(r))
		} else {
			r := new(rhp3.PayByEphemeralAccountRequest)
			f.fill(reflect.ValueOf(r).Elem())
			v.Set(reflect.ValueOf(r))
		}
		return
	case t == tInstr:
		instrs := []rhp3.Instruction{&rhp3.InstrAppendSector{}, &rhp3.InstrAppendSectorRoot{}, &rhp3.InstrDropSectors{}, &rhp3.InstrHasSector{}, &rhp3.InstrReadOffset{},
			&rhp3.InstrReadSector{}, &rhp3.InstrSwapSector{}, &rhp3.InstrUpdateSector{}, &rhp3.InstrStoreSector{}, &rhp3.InstrRevision{}}
		in := instrs[f.t.Choose(len(instrs))]
		f.fill(reflect.ValueOf(in).Elem())
		v.Set(reflect.ValueOf(in))
		return
	case t == tError:
		// (transport-level errors are handled by the session scripts; an error that
		// is a member of an object - a failed instruction's - travels with it)
		if f.t.Chance(1, 3) {
			v.Set(reflect.ValueOf(&rhp3.RPCError{Description: string(hexish(sim.HashBytes("member-err", uint64(f.depth), 1, f.t.Range(1, 60))))}))
		}
		return
	}
	switch t.Kind() {
	case reflect.Bool:
		v.SetBool(f.t.Chance(1, 2))
	case reflect.Uint8, reflect.Uint16, reflect.Uint32, reflect.Uint64, reflect.Uint:
		switch f.t.Choose(4) {
		case 0:
			v.SetUint(uint64(f.t.Choose(3)))
		case 1:
			x := ^uint64(0)
			if b := t.Bits(); b < 64 {
				x = 1<<b - 1
			}
			v.SetUint(x)
		default:
			x := sim.HashU64("u", f.ctr, uint64(f.t.Choose(1<<16)))
			f.ctr++
			if b := t.Bits(); b < 64 {
				x &= 1<<b - 1
			}
			v.SetUint(x)
		}
	case reflect.Int, reflect.Int64, reflect.Int32:
		v.SetInt(int64(f.t.Choose(1 << 30)))
	case reflect.String:
		n := f.t.Choose(24)
		if f.t.Chance(1, 40) {
			n = []int{1000, 1016, 1023, 1024, 1025, 2049, 5000}[f.t.Choose(7)] // around the encoder's buffer size
		}
		v.SetString(string(hexish(f.bytes(n))))
	case reflect.Array:
		if t.Elem().Kind() == reflect.Uint8 {
			reflect.Copy(v, reflect.ValueOf(f.bytes(t.Len())))
			return
		}
		for i := 0; i < v.Len(); i++ {
			f.fill(v.Index(i))
		}
	case reflect.Slice:
		n := f.sliceLen()
		if f.depth > 6 {
			n = min(n, 1)
		}
		if t.Elem().Kind() == reflect.Uint8 {
			v.SetBytes(f.bytes(n))
			return
		}
		s := reflect.MakeSlice(t, n, n)
		inner := *f
		if f.size > 64 {
			// below a big slice everything is small
			inner.size = 0
		}
		for i := 0; i < n; i++ {
			inner.depth = f.depth
			inner.fill(s.Index(i))
		}
		f.ctr = inner.ctr
		v.Set(s)
	case reflect.Struct:
		for i := 0; i < t.NumField(); i++ {
			if t.Field(i).IsExported() {
				f.fill(v.Field(i))
			}
		}
		if t == tWriteAction && f.t.Chance(3, 4) {
			// the action kinds the protocol knows, each with whatever the other fields hold
			kinds := []types.Specifier{rhp2.RPCWriteActionAppend, rhp2.RPCWriteActionTrim, rhp2.RPCWriteActionSwap, rhp2.RPCWriteActionUpdate}
			v.FieldByName("Type").Set(reflect.ValueOf(kinds[f.t.Choose(len(kinds))]))
		}
	case reflect.Ptr:
		if f.depth > 8 || f.t.Chance(1, 4) {
			return
		}
		p := reflect.New(t.Elem())
		f.fill(p.Elem())
		v.Set(p)
	}
}

func hexish(b []byte) []byte {
	const abc = "abcdefghijklmnopqrstuvwxyz0123456789.:-"
	out := make([]byte, len(b))
	for i, c := range b {
		out[i] = abc[int(c)%len(abc)]
	}
	return out
}

// fillObject fills the object pointed to by p.
func fillObject(t *sim.Tape, p any, size int, salt uint64) {
	f := &filler{t: t, size: size, ctr: salt << 20}
	f.fill(reflect.ValueOf(p).Elem())
}

// sparsify empties some of the slices, byte strings and strings of a filled
// object (at any depth of its exported structure): the second of two messages
// is often the shorter one.
func sparsify(t *sim.Tape, v reflect.Value) {
	switch v.Kind() {
	case reflect.Ptr:
		if !v.IsNil() {
			sparsify(t, v.Elem())
		}
	case reflect.Struct:
		for i := 0; i < v.NumField(); i++ {
			if v.Type().Field(i).IsExported() && v.Field(i).CanSet() {
				sparsify(t, v.Field(i))
			}
		}
	case reflect.Slice:
		if v.Len() > 0 && t.Chance(1, 3) {
			if t.Chance(1, 2) {
				v.Set(reflect.Zero(v.Type()))
			} else {
				v.Set(v.Slice(0, v.Len()/2))
			}
			return
		}
		for i := 0; i < v.Len(); i++ {
			sparsify(t, v.Index(i))
		}
	case reflect.String:
		if v.Len() > 0 && t.Chance(1, 3) {
			v.SetString("")
		}
	}
}
