package sess

import (
	"encoding/binary"
	"fmt"
	"reflect"
	"runtime"
	"strings"
	"time"

	"go.sia.tech/core/gateway"
	rhp2 "go.sia.tech/core/rhp/v2"
	rhp3 "go.sia.tech/core/rhp/v3"
	rhp4 "go.sia.tech/core/rhp/v4"
	"go.sia.tech/core/types"
	"verif/sim"
)

// Hostile-peer session (C10, engine E2): one endpoint is a peer that completed
// the handshake honestly and then sends a message whose bytes are a valid
// encoding damaged in one place (a length or count field set to a large
// value, a truncation, flipped bits, a splice). The other endpoint reads it
// with the real transport and codec. It may return any value or error; it
// must not panic and must not allocate out of proportion to what it was sent.

// rawObj is sent verbatim by transports that take an encoder interface.
type rawObj struct{ b []byte }

func (r *rawObj) EncodeTo(e *types.Encoder)   { e.Write(r.b) }
func (r *rawObj) DecodeFrom(d *types.Decoder) {}

func damage(t *sim.Tape, enc []byte) (out []byte, how string) {
	out = append([]byte(nil), enc...)
	if len(out) == 0 {
		return out, "empty"
	}
	switch t.Weighted(5, 2, 2, 1, 1) {
	case 0:
		// a length / count field: an 8-byte little-endian value that is small in the valid encoding
		var cands, plausible []int
		for o := 0; o+8 <= len(out); o++ {
			if v := binary.LittleEndian.Uint64(out[o:]); v <= 1<<16 {
				cands = append(cands, o)
				// a non-zero value that could count what follows it, whose
				// upper bytes are zero (an aligned small integer)
				if v > 0 && uint64(o)+8+v <= uint64(len(out)) && out[o] != 0 {
					plausible = append(plausible, o)
				}
			}
		}
		if len(plausible) > 0 && t.Chance(3, 4) {
			cands = plausible
		}
		if len(cands) == 0 {
			cands = []int{t.Choose(max(1, len(out)-7))}
		}
		o := cands[t.Choose(len(cands))]
		if o+8 > len(out) {
			return out, "unchanged"
		}
		// (values whose allocation the Go runtime cannot survive -- terabytes --
		// would end the process instead of the run; 2^24 elements are enough to
		// see an allocation that ignores the input size, 2^62 and up panic recoverably)
		l := pick(t, uint64(1)<<20, 1<<22, 1<<24, 1<<24+1, 1<<23, 1<<62, ^uint64(0), 1<<63, 1<<62+5, 0)
		if t.Chance(1, 4) {
			// a count that only looks small once it is multiplied by an element size
			// (a bound computed as count * size wraps around 2^64)
			l = ^uint64(0)/uint64(pick(t, 8, 16, 24, 32, 40, 48, 64, 72, 96, 104, 112, 120, 128, 136, 160, 200, 256)) + uint64(t.Range(1, 3))
		}
		old := binary.LittleEndian.Uint64(out[o:])
		binary.LittleEndian.PutUint64(out[o:], l)
		return out, fmt.Sprintf("8-byte field at offset %d changed from %d to %d", o, old, l)
	case 1:
		n := t.Choose(len(out))
		return out[:n], fmt.Sprintf("truncated to %d of %d bytes", n, len(out))
	case 2:
		k := t.Range(1, 4)
		for i := 0; i < k; i++ {
			out[t.Choose(len(out))] ^= 1 << t.Choose(8)
		}
		return out, fmt.Sprintf("%d bits flipped", k)
	case 3:
		a, b := t.Choose(len(out)), t.Choose(len(out))
		if a > b {
			a, b = b, a
		}
		out = append(append(append([]byte(nil), out[:a]...), out[b:]...), out[a:b]...)
		return out, fmt.Sprintf("bytes [%d,%d) moved to the end", a, b)
	default:
		out = append(out, sim.HashBytes("garbage", uint64(len(out)), 3, t.Range(1, 64))...)
		return out, "garbage appended"
	}
}

// guardedDecode runs fn (a transport read) and judges panic and allocation.
func guardedDecode(e *endpoint, what, how string, sent, limit int, fn func() error) {
	var m0, m1 runtime.MemStats
	runtime.ReadMemStats(&m0)
	var err error
	p := guardPanic(func() { err = fn() })
	runtime.ReadMemStats(&m1)
	e.inc("hostile.decoded")
	if err == nil {
		e.inc("hostile.accepted")
	}
	if p != "" {
		e.violate("C10", "rpc-decode-panic", fmt.Sprintf("reading %s (%s) panicked: %s", what, how, p))
		return
	}
	alloc := int64(m1.TotalAlloc - m0.TotalAlloc)
	bound := int64(64*(sent+limit)) + 4<<20
	e.logf("read %s: error=%v allocated<=bound=%v", what, err != nil, alloc <= bound)
	if alloc > bound {
		e.violate("C10", "rpc-decode-allocation", fmt.Sprintf("reading %s (%s; %d bytes sent, reader limit %d) allocated %d bytes", what, how, sent, limit, alloc))
	}
}

func runHostile(s *Session) string {
	t := s.t
	v := pick(t, 2, 3, 4, 4, 3, 5)
	hostileHost := t.Chance(1, 2)
	s.plan.chunk = pick(t, "all", "random", "all")
	s.plan.quantumMs = t.Choose(4)
	switch v {
	case 4:
		r := rpcs4[t.Choose(len(rpcs4))]
		mk, id := r.req, &r.id
		if hostileHost {
			mk, id = r.resp, nil
		}
		o := mk()
		fillObject(t, o, 0, 1)
		crafted, how := damage(t, enc4(o))
		name := fmt.Sprintf("rhp/v4 %s %T", map[bool]string{false: "request", true: "response"}[hostileHost], o)
		victim := func(e *endpoint, c *Conn) {
			defer close(e.done)
			defer c.Close()
			c.SetDeadline(time.Now().Add(time.Minute))
			got := mk()
			limit := rhp4.VerifMaxLen(got)
			guardedDecode(e, name, how, len(crafted), limit, func() error {
				if id != nil {
					if _, err := rhp4.ReadID(c); err != nil {
						return err
					}
					return rhp4.ReadRequest(c, got)
				}
				return rhp4.ReadResponse(c, got)
			})
		}
		attacker := func(e *endpoint, c *Conn) {
			defer close(e.done)
			defer c.Close()
			var msg []byte
			if id != nil {
				msg = append(msg, id[:]...)
			} else {
				msg = append(msg, 0) // "not an error" flag
			}
			c.Write(append(msg, crafted...))
			e.logf("sent %d bytes: %s", len(crafted), how)
		}
		if hostileHost {
			go victim(s.ea, s.a)
			go attacker(s.eb, s.b)
		} else {
			go attacker(s.ea, s.a)
			go victim(s.eb, s.b)
		}
		s.run(4000)
		return "hostile-rhp4"
	case 2:
		r := rpcs2[t.Choose(len(rpcs2))]
		mk := r.req
		if hostileHost || mk == nil {
			mk, hostileHost = r.resp, true
		}
		o := mk()
		fillObject(t, o, 0, 1)
		fixup(o)
		crafted, how := damage(t, encP(o))
		limit := uint64(len(crafted)) + 64 + uint64(t.Choose(3))*4096
		name := fmt.Sprintf("rhp/v2 %T", o)
		hostKey := types.NewPrivateKeyFromSeed(sim.HashBytes("host", 2, 9, 32))
		renter := func(e *endpoint, c *Conn) {
			defer close(e.done)
			defer c.Close()
			c.SetDeadline(time.Now().Add(10 * time.Minute))
			tr, err := rhp2.NewRenterTransport(c, hostKey.PublicKey())
			if err != nil {
				return
			}
			defer tr.Close()
			if hostileHost {
				if tr.WriteRequest(r.id, nil) != nil {
					return
				}
				got := mk()
				guardedDecode(e, name+" response", how, len(crafted), int(limit), func() error { return tr.ReadResponse(got, limit) })
				return
			}
			tr.WriteRequest(r.id, &rawObj{crafted})
			e.logf("sent %s: %s", name, how)
		}
		host := func(e *endpoint, c *Conn) {
			defer close(e.done)
			defer c.Close()
			c.SetDeadline(time.Now().Add(10 * time.Minute))
			tr, err := rhp2.NewHostTransport(c, hostKey)
			if err != nil {
				return
			}
			defer tr.Close()
			if _, err := tr.ReadID(); err != nil {
				return
			}
			if hostileHost {
				tr.WriteResponse(&rawObj{crafted})
				e.logf("sent %s: %s", name, how)
				tr.ReadID()
				return
			}
			got := mk()
			guardedDecode(e, name+" request", how, len(crafted), int(limit), func() error { return tr.ReadRequest(got, limit) })
		}
		go renter(s.ea, s.a)
		go host(s.eb, s.b)
		s.run(20000)
		return "hostile-rhp2"
	case 3:
		r := rpcs3[t.Choose(len(rpcs3))]
		mk := r.req
		if hostileHost || mk == nil {
			mk, hostileHost = r.resp, true
		}
		o := mk()
		fillObject(t, o, 0, 1)
		fixup(o)
		crafted, how := damage(t, encP(o))
		limit := uint64(len(crafted)) + 64 + uint64(t.Choose(3))*4096
		name := fmt.Sprintf("rhp/v3 %T", o)
		hostKey := types.NewPrivateKeyFromSeed(sim.HashBytes("host", 3, 9, 32))
		renter := func(e *endpoint, c *Conn) {
			defer close(e.done)
			defer c.Close()
			c.SetDeadline(time.Now().Add(10 * time.Minute))
			tr, err := rhp3.NewRenterTransport(c, hostKey.PublicKey())
			if err != nil {
				return
			}
			defer tr.Close()
			st := tr.DialStream()
			defer st.Close()
			st.SetDeadline(time.Now().Add(5 * time.Minute))
			if hostileHost {
				if st.WriteRequest(r.id, nil) != nil {
					return
				}
				got := mk()
				guardedDecode(e, name+" response", how, len(crafted), int(limit), func() error { return st.ReadResponse(got, limit) })
				return
			}
			st.WriteRequest(r.id, &rawObj{crafted})
			e.logf("sent %s: %s", name, how)
			var dummy rhp3.RPCAccountBalanceResponse
			st.ReadResponse(&dummy, 4096)
		}
		host := func(e *endpoint, c *Conn) {
			defer close(e.done)
			defer c.Close()
			c.SetDeadline(time.Now().Add(10 * time.Minute))
			tr, err := rhp3.NewHostTransport(c, hostKey)
			if err != nil {
				return
			}
			defer tr.Close()
			st, err := tr.AcceptStream()
			if err != nil {
				return
			}
			defer st.Close()
			st.SetDeadline(time.Now().Add(5 * time.Minute))
			if _, err := st.ReadID(); err != nil {
				return
			}
			if hostileHost {
				st.WriteResponse(&rawObj{crafted})
				e.logf("sent %s: %s", name, how)
				tr.AcceptStream() // linger until the renter hangs up
				return
			}
			got := mk()
			guardedDecode(e, name+" request", how, len(crafted), int(limit), func() error { return st.ReadRequest(got, limit) })
			st.WriteResponseErr(fmt.Errorf("no"))
		}
		go renter(s.ea, s.a)
		go host(s.eb, s.b)
		s.run(40000)
		return "hostile-rhp3"
	default:
		// gateway objects arrive inside mux streams; the codec is reached
		// through the exported encode/decode hooks on a buffer a peer filled
		exs := buildGateway(t)
		ex := exs[t.Choose(len(exs))]
		enc := gwReqBytes(ex.obj)
		resp := t.Chance(1, 2)
		if resp {
			enc = gwRespBytes(ex.resp)
		}
		crafted, how := damage(t, enc)
		got := freshLike(ex.obj).(gateway.Object)
		e := s.ea
		guardedDecode(e, fmt.Sprintf("gateway %T (response=%v)", ex.obj, resp), how, len(crafted), len(crafted)+64, func() error {
			d := types.NewBufDecoder(crafted)
			if resp {
				gateway.VerifDecodeResponse(d, got)
			} else {
				gateway.VerifDecodeRequest(d, got)
			}
			return d.Err()
		})
		close(s.ea.done)
		close(s.eb.done)
		s.stats.Inc("merkle.ops") // counts as exercised although nothing crossed the connection
		return "hostile-gateway"
	}
}

// ---- C11 for protocol objects: every rhp v2/v3/v4 and gateway object filled
// from the tape is decoded from its own encoding (equal re-encoding) and from
// every sampled proper prefix of it, which must fail.

func runCodec(s *Session) string {
	t := s.t
	defer close(s.ea.done)
	defer close(s.eb.done)
	e := s.ea
	type codec struct {
		name   string
		enc    []byte
		fresh  func() any
		dec    func(o any, b []byte) error
		again  func(o any) []byte
		orig   any    // the value that was encoded
		second []byte // another value of the same type, encoded
	}
	var c codec
	var ex2 *gwExchange
	decP := func(o any, b []byte) error {
		d := types.NewBufDecoder(b)
		o.(pobj).DecodeFrom(d)
		return d.Err()
	}
	switch v := pick(t, 2, 3, 4, 5); v {
	case 2, 3:
		tbl := rpcs2
		if v == 3 {
			tbl = rpcs3
		}
		r := tbl[t.Choose(len(tbl))]
		mk := r.resp
		if r.req != nil && t.Chance(1, 2) {
			mk = r.req
		}
		if t.Chance(1, 10) {
			// the error object a response may carry instead: its members travel as set
			mk = func() pobj { return new(rhp2.RPCError) }
			if v == 3 {
				mk = func() pobj { return new(rhp3.RPCError) }
			}
		}
		o := mk()
		fillObject(t, o, 0, 1)
		fixup(o)
		if t.Chance(1, 2) {
			switch re := o.(type) {
			case *rhp2.RPCError:
				re.Type = types.Specifier{}
			case *rhp3.RPCError:
				re.Type = types.Specifier{}
			}
		}
		c = codec{fmt.Sprintf("rhp/v%d %T", v, o), encP(o), func() any { return mk() }, decP, func(o any) []byte { fixup(o); return encP(o.(pobj)) }, o, nil}
		{
			o2 := mk()
			fillObject(t, o2, 0, 7)
			if t.Chance(1, 2) {
				sparsify(t, reflect.ValueOf(o2).Elem())
			}
			fixup(o2)
			c.second = encP(o2)
		}
	case 4:
		r := rpcs4[t.Choose(len(rpcs4))]
		mk := r.resp
		if t.Chance(1, 2) {
			mk = r.req
		}
		o := mk()
		fillObject(t, o, 0, 1)
		c = codec{fmt.Sprintf("rhp/v4 %T", o), enc4(o), func() any { return mk() }, func(o any, b []byte) error {
			d := types.NewBufDecoder(b)
			rhp4.VerifDecode(d, o.(obj4))
			return d.Err()
		}, func(o any) []byte { return enc4(o.(obj4)) }, o, nil}
		{
			o2 := mk()
			fillObject(t, o2, 0, 7)
			if t.Chance(1, 2) {
				sparsify(t, reflect.ValueOf(o2).Elem())
			}
			c.second = enc4(o2)
		}
	default:
		exs := buildGateway(t)
		ex := exs[t.Choose(len(exs))]
		// another message of the same kind, if the next draw has one
		for _, o := range append(buildGateway(t), buildGateway(t)...) {
			if reflect.TypeOf(o.obj) == reflect.TypeOf(ex.obj) && !o.mustFit && !ex.mustFit {
				o := o
				ex2 = &o
				break
			}
		}
		if t.Chance(1, 2) {
			c = codec{fmt.Sprintf("gateway %T request", ex.obj), gwReqBytes(ex.obj), func() any { return freshLike(ex.obj) }, func(o any, b []byte) error {
				d := types.NewBufDecoder(b)
				gateway.VerifDecodeRequest(d, o.(gateway.Object))
				return d.Err()
			}, func(o any) []byte { return gwReqBytes(o.(gateway.Object)) }, nil, nil}
		} else {
			c = codec{fmt.Sprintf("gateway %T response", ex.resp), gwRespBytes(ex.resp), func() any { return freshLike(ex.resp) }, func(o any, b []byte) error {
				d := types.NewBufDecoder(b)
				gateway.VerifDecodeResponse(d, o.(gateway.Object))
				return d.Err()
			}, func(o any) []byte { return gwRespBytes(o.(gateway.Object)) }, nil, nil}
		}
	}
	if ex2 != nil {
		if strings.HasSuffix(c.name, "request") {
			c.second = gwReqBytes(ex2.obj)
		} else {
			c.second = gwRespBytes(ex2.resp)
		}
	}
	e.inc("codec.objects")
	if s.countSweep {
		// C10: every field of the encoding that could be a count, one at a time,
		// replaced by counts no input of this size can hold
		var offs []int
		for o := 0; o+8 <= len(c.enc); o++ {
			if v := binary.LittleEndian.Uint64(c.enc[o:]); v > 0 && v <= 1<<16 && uint64(o)+8+v <= uint64(len(c.enc)) && c.enc[o] != 0 {
				offs = append(offs, o)
			}
		}
		for len(offs) > 48 {
			i := t.Choose(len(offs))
			offs = append(offs[:i], offs[i+1:]...)
		}
		for _, o := range offs {
			for _, l := range []uint64{1 << 62, ^uint64(0)/uint64(pick(t, 8, 16, 24, 32, 40, 48, 64, 72, 96, 104, 112, 120, 128, 136, 160, 200, 256)) + uint64(t.Range(1, 3)), 1<<24 + 1} {
				crafted := append([]byte(nil), c.enc...)
				old := binary.LittleEndian.Uint64(crafted[o:])
				binary.LittleEndian.PutUint64(crafted[o:], l)
				how := fmt.Sprintf("8-byte field at offset %d changed from %d to %d", o, old, l)
				g := c.fresh()
				guardedDecode(e, c.name, how, len(crafted), len(crafted), func() error { return c.dec(g, crafted) })
				e.inc("hostile.count-fields")
				if len(s.viols) > 0 || len(e.viols) > 0 {
					return "count-sweep"
				}
			}
		}
		return "count-sweep"
	}
	got := c.fresh()
	var err error
	if p := guardPanic(func() { err = c.dec(got, c.enc) }); p != "" {
		e.violate("C10", "rpc-decode-panic", fmt.Sprintf("decoding %s from its own encoding panicked: %s", c.name, p))
		return "codec"
	}
	if err != nil {
		e.violate("C11", "rpc-roundtrip-decode", fmt.Sprintf("%s (%d bytes) does not decode from its own encoding: %v", c.name, len(c.enc), err))
		return "codec"
	}
	if re := c.again(got); string(re) != string(c.enc) {
		e.violate("C11", "rpc-roundtrip-differs", fmt.Sprintf("%s: re-encoding the decoded value gives different bytes (%d vs %d)", c.name, len(re), len(c.enc)))
		return "codec"
	}
	if c.orig != nil {
		// the bytes agree with themselves; the value they stand for must be the one that was encoded
		if where := valueDiff(reflect.ValueOf(c.orig).Elem(), reflect.ValueOf(got).Elem(), c.name); where != "" {
			e.violate("C11", "rpc-roundtrip-value", fmt.Sprintf("%s: decode(encode(x)) is another value than x: %s differs (re-encoding gives the same bytes, so the encoder leaves it out)", c.name, where))
			return "codec"
		}
		e.inc("codec.values-compared")
	}
	if c.second != nil {
		// a sequence of messages read into one variable (a client's response
		// object in a loop): the second arrives as it was sent, whatever the first was
		var err2 error
		if p := guardPanic(func() { err2 = c.dec(got, c.second) }); p != "" {
			e.violate("C10", "rpc-decode-panic", fmt.Sprintf("decoding a second %s into the variable that held the first panicked: %s", c.name, p))
			return "codec"
		}
		if err2 != nil {
			e.violate(s.reuseProp(), "rpc-second-message-rejected", fmt.Sprintf("%s: a second message (%d bytes) read into the variable that held the first does not decode: %v", c.name, len(c.second), err2))
			return "codec"
		}
		if re := c.again(got); string(re) != string(c.second) {
			e.violate(s.reuseProp(), "rpc-second-message-differs", fmt.Sprintf("%s: a second message read into the variable that held the first comes out different from what was sent (re-encoding gives %d bytes, sent %d): the first message shows through", c.name, len(re), len(c.second)))
			return "codec"
		}
		e.inc("codec.second-message")
	}
	if len(c.enc) == 0 {
		return "codec"
	}
	cuts := []int{0, len(c.enc) - 1, len(c.enc) / 2}
	for i := 0; i < 5; i++ {
		cuts = append(cuts, t.Choose(len(c.enc)))
	}
	for _, n := range cuts {
		g := c.fresh()
		var err error
		if p := guardPanic(func() { err = c.dec(g, c.enc[:n]) }); p != "" {
			e.violate("C10", "rpc-decode-panic", fmt.Sprintf("decoding %s from the first %d of %d bytes panicked: %s", c.name, n, len(c.enc), p))
			return "codec"
		}
		e.inc("codec.prefixes")
		if err == nil {
			e.violate("C11", "rpc-prefix-accepted", fmt.Sprintf("%s: the first %d of %d bytes of its encoding decoded without error", c.name, n, len(c.enc)))
			return "codec"
		}
	}
	return "codec"
}

// reuseProp: reading a sequence of messages is the transports' business (C19);
// under the codec profile it is reported as a round trip that fails (C11).
func (s *Session) reuseProp() string { return "C11" }
