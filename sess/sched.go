package sess

import (
	"fmt"
	"sort"
	"strings"
	"sync"
	"sync/atomic"
	"testing"
	"testing/synctest"
	"time"

	"verif/sim"
)

// endpoint is the per-task record; each task writes only to its own record so
// that the merged history does not depend on goroutine interleaving.
type endpoint struct {
	name  string
	mu    sync.Mutex
	lines []string
	stats sim.Stats
	viols []sim.Violation
	reach []string
	done  chan struct{}
}

func (e *endpoint) reachAdd(r string) {
	e.mu.Lock()
	e.reach = append(e.reach, r)
	e.mu.Unlock()
}

func (e *endpoint) logf(f string, a ...any) {
	e.mu.Lock()
	e.lines = append(e.lines, e.name+": "+fmt.Sprintf(f, a...))
	e.mu.Unlock()
}

func (e *endpoint) inc(k string) {
	e.mu.Lock()
	e.stats[k]++
	e.mu.Unlock()
}

func (e *endpoint) violate(prop, inv, detail string) {
	e.mu.Lock()
	defer e.mu.Unlock()
	for _, v := range e.viols {
		if v.Property == prop && v.Invariant == inv {
			return
		}
	}
	e.viols = append(e.viols, sim.Violation{Property: prop, Invariant: inv, Detail: detail})
	e.lines = append(e.lines, fmt.Sprintf("%s: VIOLATION %s/%s", e.name, prop, inv))
}

// faultPlan is drawn before the tasks start; positions are resolved against
// the bytes pending at quiescent points.
type faultPlan struct {
	chunk        string // "all", "byte", "random", "small"
	flipAt       int64  // absolute byte offset in the direction's stream to flip (-1 none)
	flipDir      int    // 0 a->b, 1 b->a
	flipBit      int
	flipWrite    int // if >= 0: the flip lands flipWriteOff bytes into that Write call of flipDir (resolved to flipAt once it has happened)
	flipWriteOff int
	cutAt        int64 // absolute offset after which the direction is cut (-1 none)
	cutDir       int
	cutHard      bool // the cut resets the connection (reads fail with an error) instead of closing it (EOF)
	stallAt      int64 // absolute offset at which delivery stalls until a deadline fires (-1 none)
	stallDir     int
	resetAt      int
	quantumMs    int
}

// Session is one lock-step simulated connection.
type Session struct {
	t     *sim.Tape
	log   *sim.Log
	stats sim.Stats
	a, b  *Conn
	ea    *endpoint
	eb    *endpoint
	plan  faultPlan
	viols []sim.Violation
	reach []string

	countSweep bool // C10: runCodec replaces each count field of one object instead of checking its round trip

	flipped, cutDone, stalled bool
	tampered                  [2]atomic.Bool // a fault changed / removed bytes in that direction
	capped                    atomic.Bool    // the step budget ran out: the teardown reset is the scheduler's doing
	steps                     int
}

func newSession(t *sim.Tape) *Session {
	s := &Session{t: t, log: sim.NewLog(400), stats: sim.Stats{}}
	s.a, s.b = Pipe()
	s.ea = &endpoint{name: "A", stats: sim.Stats{}, done: make(chan struct{})}
	s.eb = &endpoint{name: "B", stats: sim.Stats{}, done: make(chan struct{})}
	s.plan = faultPlan{chunk: "all", flipAt: -1, flipWrite: -1, cutAt: -1, stallAt: -1}
	return s
}

func (s *Session) violate(prop, inv, detail string) {
	for _, v := range s.viols {
		if v.Property == prop && v.Invariant == inv {
			return
		}
	}
	s.viols = append(s.viols, sim.Violation{Property: prop, Invariant: inv, Detail: detail, Step: s.steps})
}

func isDone(e *endpoint) bool {
	select {
	case <-e.done:
		return true
	default:
		return false
	}
}

// run drives the connection until both tasks have finished.
func (s *Session) run(maxSteps int) {
	dirs := []*half{s.a.out, s.b.out} // 0: a->b, 1: b->a
	idle := 0
	for s.steps = 0; s.steps < maxSteps; s.steps++ {
		synctest.Wait()
		if isDone(s.ea) && isDone(s.eb) {
			break
		}
		var ready []int
		for i, h := range dirs {
			if h.pendingLen() > 0 {
				ready = append(ready, i)
			}
		}
		if len(ready) == 0 {
			// nothing in flight: let simulated time pass so that deadlines fire
			idle++
			if idle > 40 {
				// peers that wait for ever: the connection dies (as a real
				// one eventually would)
				s.log.Addf("sched: idle, resetting connection")
				dirs[0].kill()
				dirs[1].kill()
				s.stats.Inc("fault.idle-reset")
				idle = 0
				continue
			}
			time.Sleep(time.Duration(s.plan.quantumMs+1) * 500 * time.Millisecond)
			continue
		}
		idle = 0
		if s.plan.flipWrite >= 0 && s.plan.flipAt < 0 {
			if at := dirs[s.plan.flipDir].writeStart(s.plan.flipWrite); at >= 0 {
				if _, delivered, _ := dirs[s.plan.flipDir].stats(); at+int64(s.plan.flipWriteOff) >= delivered {
					s.plan.flipAt = at + int64(s.plan.flipWriteOff)
				} else {
					s.plan.flipWrite = -1
				}
			}
		}
		d := ready[s.t.Choose(len(ready))]
		h := dirs[d]
		n := h.pendingLen()
		_, delivered, _ := h.stats()
		// faults positioned by absolute stream offset
		if !s.flipped && s.plan.flipAt >= 0 && s.plan.flipDir == d && s.plan.flipAt >= delivered && s.plan.flipAt < delivered+int64(n) {
			h.flip(int(s.plan.flipAt-delivered), s.plan.flipBit)
			s.flipped = true
			s.tampered[d].Store(true)
			s.stats.Inc("fault.bitflip")
			s.log.Addf("sched: flip dir=%d off=%d bit=%d", d, s.plan.flipAt, s.plan.flipBit)
		}
		if !s.cutDone && s.plan.cutAt >= 0 && s.plan.cutDir == d && s.plan.cutAt < delivered+int64(n) {
			k := int(s.plan.cutAt - delivered)
			if k < 0 {
				k = 0
			}
			h.cut(k, s.plan.cutHard)
			s.cutDone = true
			if s.plan.cutHard {
				s.stats.Inc("fault.truncate-reset")
			} else {
				s.stats.Inc("fault.truncate-close")
			}
			s.log.Addf("sched: cut dir=%d off=%d", d, s.plan.cutAt)
			continue
		}
		if !s.stalled && s.plan.stallAt >= 0 && s.plan.stallDir == d && s.plan.stallAt >= delivered && s.plan.stallAt < delivered+int64(n) {
			// deliver up to the stall point, then hold this direction until time has passed
			k := int(s.plan.stallAt - delivered)
			if k > 0 {
				h.deliver(k)
			}
			s.stalled = true
			s.stats.Inc("fault.stall")
			s.log.Addf("sched: stall dir=%d off=%d", d, s.plan.stallAt)
			synctest.Wait()
			time.Sleep(time.Duration(s.t.Range(1, 120)) * time.Second)
			continue
		}
		k := n
		chunk := s.plan.chunk
		if s.steps > maxSteps/2 && chunk != "byte" {
			chunk = "all" // a long transfer in small pieces: finish it within the budget
		}
		switch chunk {
		case "byte":
			k = 1
		case "small":
			k = min(n, s.t.Range(1, 16))
		case "random":
			k = s.t.Range(1, n)
		}
		h.deliver(k)
		s.stats.Inc("net.deliveries")
		if s.plan.chunk != "byte" || s.steps < 40 {
			s.log.Addf("sched: deliver dir=%d n=%d", d, k)
		}
	}
	// teardown: nothing may stay blocked
	if s.steps >= maxSteps && !(isDone(s.ea) && isDone(s.eb)) {
		// out of steps with the peers still talking: the reset below is a fault
		// of the schedule, not the peers' doing
		s.capped.Store(true)
		s.stats.Inc("fault.step-cap-reset")
		s.log.Addf("sched: step budget exhausted, resetting connection")
	}
	s.a.out.kill()
	s.b.out.kill()
	s.a.Close()
	s.b.Close()
	synctest.Wait()
}

// merge folds the endpoint records into the session in a fixed order.
func (s *Session) merge() {
	for _, e := range []*endpoint{s.ea, s.eb} {
		for _, l := range e.lines {
			s.log.Addf("%s", l)
		}
		s.stats.Merge(e.stats)
		s.reach = append(s.reach, e.reach...)
		for _, v := range e.viols {
			s.violate(v.Property, v.Invariant, v.Detail)
		}
	}
}

// drawPlan draws chunking and at most one fault from the tape. total is a
// rough bound on the bytes each direction will carry.
func (s *Session) drawPlan(faults bool, total int64) {
	t := s.t
	s.plan.chunk = pick(t, "all", "random", "small", "all", "random")
	if total < 600 && t.Chance(1, 6) {
		s.plan.chunk = "byte"
	}
	s.plan.quantumMs = t.Choose(4)
	if !faults || total <= 0 {
		return
	}
	off := func() int64 {
		// bias to the start (handshake, length prefixes, nonces), else uniform
		switch t.Choose(3) {
		case 0:
			return int64(t.Choose(int(min(total, 96))))
		default:
			return int64(t.Choose(int(total)))
		}
	}
	switch t.Weighted(4, 3, 2, 1) {
	case 0:
	case 1:
		s.plan.flipAt, s.plan.flipDir, s.plan.flipBit = off(), t.Choose(2), t.Choose(8)
	case 2:
		s.plan.cutAt, s.plan.cutDir = off(), t.Choose(2)
		s.plan.cutHard = t.Chance(1, 3)
	case 3:
		s.plan.stallAt, s.plan.stallDir = off(), t.Choose(2)
	}
}

func pick[T any](t *sim.Tape, xs ...T) T { return xs[t.Choose(len(xs))] }

// bubble runs fn inside a synctest bubble and converts the end-of-bubble
// deadlock panic into a harness error.
func bubble(t *testing.T, fn func()) (harnessErr string) {
	defer func() {
		if r := recover(); r != nil {
			harnessErr = "bubble: " + firstLine(fmt.Sprint(r))
		}
	}()
	synctest.Test(t, func(*testing.T) { fn() })
	return ""
}

func firstLine(s string) string {
	if i := strings.IndexByte(s, '\n'); i >= 0 {
		return s[:i]
	}
	return s
}

func sortedReach(m map[string]bool) []string {
	out := make([]string, 0, len(m))
	for k := range m {
		out = append(out, k)
	}
	sort.Strings(out)
	return out
}
