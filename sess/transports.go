package sess

import (
	"bytes"
	"errors"
	"fmt"
	"io"
	"reflect"
	"strings"
	"time"

	"go.sia.tech/core/consensus"
	"go.sia.tech/core/gateway"
	rhp2 "go.sia.tech/core/rhp/v2"
	rhp3 "go.sia.tech/core/rhp/v3"
	"go.sia.tech/core/types"
	"verif/sim"
)

type pobj interface {
	types.EncoderTo
	types.DecoderFrom
}

func encP(o types.EncoderTo) []byte {
	var buf bytes.Buffer
	e := types.NewEncoder(&buf)
	o.EncodeTo(e)
	e.Flush()
	return buf.Bytes()
}

func freshLike(o any) any { return reflect.New(reflect.TypeOf(o).Elem()).Interface() }

// moreResp is one further response on an exchange's stream: an error or an object.
type moreResp struct {
	err string
	obj pobj
	enc []byte
}

// receiver is the variable a message of like's type is read into: a new one,
// or (a client's response object in a loop) the one that held the last
// message of that type on this connection.
func receiver(prev map[reflect.Type]pobj, like pobj, reuse bool) pobj {
	ty := reflect.TypeOf(like)
	if o, ok := prev[ty]; ok && reuse {
		return o
	}
	o := freshLike(like).(pobj)
	prev[ty] = o
	return o
}

// exchange is one request/response of a scripted session over RHP2 or RHP3.
type exchange struct {
	name    string
	id      types.Specifier
	req     pobj // may be nil (no request body)
	resp    pobj
	respErr string          // host answers with this error instead
	errType types.Specifier // RHP3: the error's type and data members, when the host sets them
	errData []byte
	errSet  bool
	atLimit bool       // RHP2: the response frame is exactly as long as the reader's limit
	reuse   bool       // the reader takes the message into the variable that held the last message of this type
	more    []moreResp // RHP3: further responses on the same stream (a program's instructions one after the other)
	reqEnc  []byte
	respEnc []byte
	maxReq  uint64 // limit the reader passes
	maxResp uint64
	raw     bool // RHP2: renter reads the response with RawResponse/VerifyTag
	near    int  // RHP2: the response frame exceeds the reader's limit by exactly this many bytes (0: not used)
}

var rpcs2 = []struct {
	name string
	id   types.Specifier
	req  func() pobj
	resp func() pobj
}{
	{"FormContract", rhp2.RPCFormContractID, func() pobj { return new(rhp2.RPCFormContractRequest) }, func() pobj { return new(rhp2.RPCFormContractAdditions) }},
	{"FormContractSignatures", rhp2.RPCFormContractID, func() pobj { return new(rhp2.RPCFormContractSignatures) }, func() pobj { return new(rhp2.RPCFormContractSignatures) }},
	{"RenewClear", rhp2.RPCRenewClearContractID, func() pobj { return new(rhp2.RPCRenewAndClearContractRequest) }, func() pobj { return new(rhp2.RPCRenewAndClearContractSignatures) }},
	{"Lock", rhp2.RPCLockID, func() pobj { return new(rhp2.RPCLockRequest) }, func() pobj { return new(rhp2.RPCLockResponse) }},
	{"Read", rhp2.RPCReadID, func() pobj { return new(rhp2.RPCReadRequest) }, func() pobj { return new(rhp2.RPCReadResponse) }},
	{"SectorRoots", rhp2.RPCSectorRootsID, func() pobj { return new(rhp2.RPCSectorRootsRequest) }, func() pobj { return new(rhp2.RPCSectorRootsResponse) }},
	{"Settings", rhp2.RPCSettingsID, nil, func() pobj { return new(rhp2.RPCSettingsResponse) }},
	{"Write", rhp2.RPCWriteID, func() pobj { return new(rhp2.RPCWriteRequest) }, func() pobj { return new(rhp2.RPCWriteMerkleProof) }},
	{"WriteResponse", rhp2.RPCWriteID, func() pobj { return new(rhp2.RPCWriteRequest) }, func() pobj { return new(rhp2.RPCWriteResponse) }},
	{"Unlock", rhp2.RPCUnlockID, nil, func() pobj { return new(rhp2.RPCWriteResponse) }},
}

var rpcs3 = []struct {
	name string
	id   types.Specifier
	req  func() pobj
	resp func() pobj
}{
	{"AccountBalance", rhp3.RPCAccountBalanceID, func() pobj { return new(rhp3.RPCAccountBalanceRequest) }, func() pobj { return new(rhp3.RPCAccountBalanceResponse) }},
	{"UpdatePriceTable", rhp3.RPCUpdatePriceTableID, nil, func() pobj { return new(rhp3.RPCUpdatePriceTableResponse) }},
	{"FundAccount", rhp3.RPCFundAccountID, func() pobj { return new(rhp3.RPCFundAccountRequest) }, func() pobj { return new(rhp3.RPCFundAccountResponse) }},
	{"LatestRevision", rhp3.RPCLatestRevisionID, func() pobj { return new(rhp3.RPCLatestRevisionRequest) }, func() pobj { return new(rhp3.RPCLatestRevisionResponse) }},
	{"RenewContract", rhp3.RPCRenewContractID, func() pobj { return new(rhp3.RPCRenewContractRequest) }, func() pobj { return new(rhp3.RPCRenewContractHostAdditions) }},
	{"RenewSignatures", rhp3.RPCRenewContractID, func() pobj { return new(rhp3.RPCRenewSignatures) }, func() pobj { return new(rhp3.RPCRenewSignatures) }},
	{"ExecuteProgram", rhp3.RPCExecuteProgramID, func() pobj { return new(rhp3.RPCExecuteProgramRequest) }, func() pobj { return new(rhp3.RPCExecuteProgramResponse) }},
	{"FinalizeProgram", rhp3.RPCExecuteProgramID, func() pobj { return new(rhp3.RPCFinalizeProgramRequest) }, func() pobj { return new(rhp3.RPCFinalizeProgramResponse) }},
	{"PayByContract", rhp3.RPCFundAccountID, func() pobj { return new(rhp3.PayByContractRequest) }, func() pobj { return new(rhp3.PaymentResponse) }},
	{"PayByEphemeralAccount", rhp3.RPCFundAccountID, func() pobj { return new(rhp3.PayByEphemeralAccountRequest) }, func() pobj { return new(rhp3.PaymentResponse) }},
}

func buildExchanges(t *sim.Tape, v int, overlimit bool) []exchange {
	var out []exchange
	n := t.Range(1, 5)
	errHeavy := v == 3 && !overlimit && t.Chance(1, 6) // a host that refuses everything, at length
	for i := 0; i < n; i++ {
		var ex exchange
		var mkReq, mkResp func() pobj
		if v == 2 {
			r := rpcs2[t.Choose(len(rpcs2))]
			ex.name, ex.id, mkReq, mkResp = r.name, r.id, r.req, r.resp
		} else {
			r := rpcs3[t.Choose(len(rpcs3))]
			ex.name, ex.id, mkReq, mkResp = r.name, r.id, r.req, r.resp
		}
		if mkReq != nil {
			ex.req = mkReq()
			fillObject(t, ex.req, 0, uint64(i*2))
			fixup(ex.req)
			ex.reqEnc = encP(ex.req)
		}
		ex.resp = mkResp()
		fillObject(t, ex.resp, 0, uint64(i*2+1))
		fixup(ex.resp)
		if t.Chance(1, 5) {
			// bulk members at sizes around the codecs' internal step sizes
			n := pick(t, 65535, 65536, 65537, 65600, 131072+5, 3*65536+4096, 1<<20)
			switch r := ex.resp.(type) {
			case *rhp3.RPCExecuteProgramResponse:
				r.Output = sim.HashBytes("bulk", uint64(i), 1, n)
				fixup(r)
				ex.name += "(bulk output)"
			case *rhp2.RPCReadResponse:
				r.Data = sim.HashBytes("bulk", uint64(i), 2, n)
				ex.name += "(bulk data)"
			case *rhp3.RPCUpdatePriceTableResponse:
				r.PriceTableJSON = sim.HashBytes("bulk", uint64(i), 3, n)
			}
			if r, ok := ex.req.(*rhp3.RPCExecuteProgramRequest); ok {
				r.ProgramData = sim.HashBytes("bulk", uint64(i), 4, n)
				ex.reqEnc = encP(ex.req)
				ex.name += "(bulk program data)"
			}
		}
		if v == 2 && t.Chance(1, 4) {
			// message sizes around the transport's minimum frame size (padding boundary)
			ex.name, ex.id, ex.req, ex.reqEnc = "Settings(padding boundary)", rhp2.RPCSettingsID, nil, nil
			ex.resp = &rhp2.RPCSettingsResponse{Settings: sim.HashBytes("settings", uint64(i), 7, 3960+t.Choose(180))}
		}
		ex.respEnc = encP(ex.resp)
		// the reader's limit is on the framed message: object + response flag
		// (+ for RHP2: nonce and MAC)
		ex.maxReq = uint64(len(ex.reqEnc)) + 64 + uint64(t.Choose(3))*512
		ex.maxResp = uint64(len(ex.respEnc)) + 64 + uint64(t.Choose(3))*512
		if v == 3 && t.Chance(1, 3) {
			// RHP3 limits are on the object: one that is exactly as long as the
			// limit, or a few bytes shorter, is within it
			ex.maxReq = uint64(len(ex.reqEnc)) + uint64(pick(t, 0, 1, 7, 8, 9))
			ex.maxResp = uint64(len(ex.respEnc)) + uint64(pick(t, 0, 1, 7, 8, 9))
			ex.name += "(at its limit)"
		}
		if frame := uint64(12 + 1 + len(ex.respEnc) + 16); v == 2 && frame > 4096 && t.Chance(1, 2) {
			// RHP2 limits are on the frame (nonce, response flag, object, MAC): one
			// that is exactly as long as the limit is within it
			ex.maxResp = frame
			ex.name += "(at its limit)"
			ex.atLimit = true
		}
		if v == 3 && errHeavy && !ex.atLimit {
			// (a cut of the host's direction then lands inside an error more often than not:
			// what arrives of it is no error the host wrote)
			ex.respErr = string(hexish(sim.HashBytes("long-err", uint64(i), 1, t.Range(3000, 14000)))) // (longer than one frame of the mux)
			ex.maxResp += 16384
		} else if !ex.atLimit && t.Chance(1, 6) {
			ex.respErr = string(hexish(sim.HashBytes("err", uint64(i), 1, t.Range(1, 100))))
			if len(ex.respErr) > 8 && t.Chance(1, 2) {
				ex.respErr = ex.respErr[:len(ex.respErr)/2] + ": " + ex.respErr[len(ex.respErr)/2:]
			}
			if (v == 3 && t.Chance(1, 2)) || (v == 2 && t.Chance(1, 3)) {
				// (an error's members travel as they are, whichever of them are set)
				ex.errSet = true
				ex.errType = types.NewSpecifier(pick(t, "BadRequest", "HostFault", "x", ""))
				ex.errData = sim.HashBytes("errdata", uint64(i), 2, t.Range(0, 40))
			}
		}
		if v == 2 && ex.respErr == "" && t.Chance(1, 4) {
			ex.raw = true
		}
		ex.reuse = t.Chance(1, 2)
		if v == 3 && !ex.atLimit && t.Chance(1, 3) {
			// the same stream carries more responses: failures and results in any order
			for k := t.Range(1, 3); k > 0; k-- {
				var m moreResp
				if t.Chance(1, 2) {
					m.err = string(hexish(sim.HashBytes("more-err", uint64(i), uint64(k), t.Range(1, 60))))
				} else {
					m.obj = mkResp()
					fillObject(t, m.obj, 0, uint64(100+i*4+k))
					fixup(m.obj)
					m.enc = encP(m.obj)
				}
				ex.more = append(ex.more, m)
			}
		}
		out = append(out, ex)
	}
	if overlimit {
		// the last response is several KiB larger than the reader allows
		ex := &out[len(out)-1]
		big := &rhp2.RPCSectorRootsResponse{SectorRoots: hashes(t.Range(600, 3000), 9)}
		if v == 3 {
			ex.resp = &rhp3.RPCUpdatePriceTableResponse{PriceTableJSON: sim.HashBytes("pt", 1, 2, t.Range(20000, 90000))}
		} else {
			ex.resp = big
		}
		ex.respEnc = encP(ex.resp)
		ex.respErr = ""
		ex.raw = false
		ex.maxResp = uint64(t.Range(4096, 12000))
		ex.name += "(response over limit)"
		if v == 2 && t.Chance(1, 2) {
			// ... or only just: the frame (nonce, response flag, object, MAC) is a
			// few bytes longer than the limit the renter passes
			ex.near = pick(t, 1, 2, 15, 16, 27, 28, 29, 100)
			ex.maxResp = uint64(12+1+len(ex.respEnc)+16) - uint64(ex.near)
			ex.raw = t.Chance(1, 2)
			ex.name += fmt.Sprintf("(by %d bytes)", ex.near)
		}
	}
	return out
}

// fixup normalises the few fields whose in-memory form is wider than their
// wire form (documented normalisations), so that byte equality is meaningful.
func fixup(o any) {
	switch r := o.(type) {
	case *rhp3.RPCExecuteProgramResponse:
		r.OutputLength = uint64(len(r.Output))
	case *rhp3.RPCExecuteProgramRequest:
		if len(r.Program) > 6 {
			r.Program = r.Program[:6]
		}
	}
}

var errTampered = errors.New("tampered")

// runRHP2 runs the exchanges over the encrypted RHP2 transport.
func runRHP2(s *Session, exs []exchange, wrongKey bool) {
	prevReq, prevResp := map[reflect.Type]pobj{}, map[reflect.Type]pobj{} // (one side each: no sharing between the tasks)
	hostKey := types.NewPrivateKeyFromSeed(sim.HashBytes("host", 1, 1, 32))
	claimed := hostKey.PublicKey()
	if wrongKey {
		claimed[0] ^= 1
	}
	renter := func(e *endpoint, c *Conn) {
		defer close(e.done)
		defer c.Close()
		t, err := rhp2.NewRenterTransport(c, claimed)
		if err != nil {
			e.logf("handshake failed")
			e.inc("rhp2.handshake-failed")
			if !s.anyFault() && !wrongKey {
				e.violate("C19", "rhp2-handshake-failed", fmt.Sprintf("RHP2 handshake failed without any fault: %v", err))
			}
			return
		}
		if wrongKey {
			e.violate("C19", "rhp2-wrong-host-key-accepted", "renter completed the RHP2 handshake with a host that does not hold the expected key")
		}
		defer t.Close()
		for i := range exs {
			ex := &exs[i]
			if err := t.WriteRequest(ex.id, ex.req); err != nil {
				e.logf("ex %d write request failed", i)
				return
			}
			var err error
			var got pobj
			_, _, usedBefore := c.in.stats()
			if ex.raw {
				var rr *rhp2.ResponseReader
				lim := ex.maxResp + 4096
				if ex.near > 0 {
					lim = ex.maxResp
				}
				rr, err = t.RawResponse(lim)
				if err == nil {
					got = freshLike(ex.resp).(pobj)
					var body []byte
					body, err = io.ReadAll(io.LimitReader(rr, int64(len(ex.respEnc))))
					if err == nil {
						if err = rr.VerifyTag(); err != nil && t.PrematureCloseErr() == nil && !t.IsClosed() {
							e.violate("C19", "rhp2-tamper-session-open", fmt.Sprintf("exchange %d: VerifyTag refused the streamed response (%v) but the session stays open", i, err))
						}
					}
					if err == nil {
						d := types.NewBufDecoder(body)
						got.DecodeFrom(d)
						err = d.Err()
						e.inc("rhp2.raw-response-verified")
					}
				}
			} else {
				got = receiver(prevResp, ex.resp, ex.reuse)
				err = t.ReadResponse(got, ex.maxResp)
			}
			e.inc("rpc.read")
			if ex.near > 0 {
				// the limit is on the frame: the length prefix plus at most maxResp bytes
				// may be taken off the connection for this message
				_, _, usedAfter := c.in.stats()
				e.inc("rhp2.near-limit")
				if !s.anyFault() && err == nil {
					e.violate("C19", "rhp2-overlimit-accepted", fmt.Sprintf("exchange %d: a response frame %d bytes longer than the limit of %d bytes was read without error (raw=%v)", i, ex.near, ex.maxResp, ex.raw))
				} else if !s.anyFault() && usedAfter-usedBefore > int64(8+ex.maxResp) {
					e.violate("C19", "rhp2-read-exceeds-limit", fmt.Sprintf("exchange %d: renter consumed %d bytes for a response it limits to %d (+8 for the length prefix)", i, usedAfter-usedBefore, ex.maxResp))
				}
				e.logf("ex %d %s: near-limit response refused=%v", i, ex.name, err != nil)
				return
			}
			var re *rhp2.RPCError
			switch {
			case ex.respErr != "" && errors.As(err, &re):
				if re.Description != ex.respErr || (ex.errSet && (re.Type != ex.errType || !bytes.Equal(re.Data, ex.errData))) {
					e.violate("C19", "rhp2-error-altered", fmt.Sprintf("exchange %d: error (type %v, data %x, %q) arrived as (type %v, data %x, %q)", i, ex.errType, ex.errData, ex.respErr, re.Type, re.Data, re.Description))
				}
				e.inc("rpc.error-delivered")
				e.logf("ex %d %s: rpc error delivered", i, ex.name)
			case err != nil:
				if !s.anyFault() && uint64(len(ex.respEnc)) <= ex.maxResp && ex.respErr == "" {
					e.violate("C19", "rhp2-valid-message-rejected", fmt.Sprintf("exchange %d: %s response (%d bytes, limit %d) could not be read: %v", i, ex.name, len(ex.respEnc), ex.maxResp, err))
				}
				if s.plan.flipAt >= 0 && s.plan.flipDir == 1 && s.tamperedDir(1) && s.plan.cutAt < 0 && s.plan.stallAt < 0 && !s.capped.Load() && !t.IsClosed() && t.PrematureCloseErr() == nil && !c.in.isDead() && !c.out.isDead() {
					// the altered frame was refused - and must have ended the session
					e.violate("C19", "rhp2-tamper-session-open", fmt.Sprintf("exchange %d: the renter refused a frame altered in transit (bit %d of stream byte %d; %v) but its transport is neither closed nor failed: the session goes on", i, s.plan.flipBit, s.plan.flipAt, err))
				}
				e.logf("ex %d %s: read error", i, ex.name)
				return
			default:
				if ex.atLimit {
					e.inc("rhp2.at-limit-read")
				}
				if ex.respErr != "" {
					e.violate("C19", "rhp2-error-lost", fmt.Sprintf("exchange %d: host wrote error %q, renter decoded a response", i, ex.respErr))
				} else if !bytes.Equal(encP(got), ex.respEnc) {
					e.violate("C19", "rhp2-object-altered", fmt.Sprintf("exchange %d: %s response decoded to a different object than the one written (tampering undetected=%v)", i, ex.name, s.tamperedDir(1)))
				}
				if uint64(len(ex.respEnc)) > ex.maxResp+4096 {
					e.violate("C19", "rhp2-overlimit-accepted", fmt.Sprintf("exchange %d: response of %d bytes read with limit %d", i, len(ex.respEnc), ex.maxResp))
				}
				e.logf("ex %d %s: response ok", i, ex.name)
			}
		}
		e.inc("rhp2.completed")
		// RHP2 reads exactly one frame at a time: every byte consumed so far
		// belongs to a frame (or the handshake reply) this side accepted
		if _, _, used := c.in.stats(); s.tamperedDir(1) && s.plan.flipDir == 1 && s.plan.flipAt < used {
			e.violate("C19", "rhp2-tamper-undetected", fmt.Sprintf("bit %d of byte %d of the host->renter stream was flipped in transit; the renter consumed %d bytes and accepted every frame", s.plan.flipBit, s.plan.flipAt, used))
		}
	}
	host := func(e *endpoint, c *Conn) {
		defer close(e.done)
		defer c.Close()
		t, err := rhp2.NewHostTransport(c, hostKey)
		if err != nil {
			e.logf("handshake failed")
			return
		}
		defer t.Close()
		for i := range exs {
			ex := &exs[i]
			_, _, before := c.in.stats()
			id, err := t.ReadID()
			if err != nil {
				e.logf("ex %d read id failed", i)
				return
			}
			if id != ex.id {
				e.violate("C19", "rhp2-id-altered", fmt.Sprintf("exchange %d: read id %v, renter wrote %v", i, id, ex.id))
			}
			if ex.req != nil {
				got := receiver(prevReq, ex.req, ex.reuse)
				if err := t.ReadRequest(got, ex.maxReq); err != nil {
					if !s.anyFault() {
						e.violate("C19", "rhp2-valid-message-rejected", fmt.Sprintf("exchange %d: %s request (%d bytes, limit %d) could not be read: %v", i, ex.name, len(ex.reqEnc), ex.maxReq, err))
					}
					e.logf("ex %d read request failed", i)
					return
				}
				if !bytes.Equal(encP(got), ex.reqEnc) {
					e.violate("C19", "rhp2-object-altered", fmt.Sprintf("exchange %d: %s request decoded to a different object than the one written (tampering undetected=%v)", i, ex.name, s.tamperedDir(0)))
				}
			}
			_, _, after := c.in.stats()
			if lim := int64(2*(8+4096) + int64(ex.maxReq)); after-before > lim+4096 {
				e.violate("C19", "rhp2-read-exceeds-limit", fmt.Sprintf("exchange %d: host consumed %d bytes for id+request, limits allow %d", i, after-before, lim))
			}
			e.inc("rpc.read")
			if ex.respErr != "" {
				// the error as the host's code has it: plain, an RPCError, or an RPCError
				// wrapped with context (which travels as its whole text)
				switch k := strings.LastIndex(ex.respErr, ": "); {
				case ex.errSet:
					err = t.WriteResponseErr(&rhp2.RPCError{Type: ex.errType, Data: ex.errData, Description: ex.respErr})
				case len(ex.respErr)%3 == 1 && k > 0:
					err = t.WriteResponseErr(fmt.Errorf("%s: %w", ex.respErr[:k], &rhp2.RPCError{Description: ex.respErr[k+2:]}))
				case len(ex.respErr)%3 == 2:
					err = t.WriteResponseErr(&rhp2.RPCError{Description: ex.respErr})
				default:
					err = t.WriteResponseErr(errors.New(ex.respErr))
				}
			} else {
				err = t.WriteResponse(ex.resp)
			}
			if err != nil {
				e.logf("ex %d write response failed", i)
				return
			}
			e.logf("ex %d %s: request ok", i, ex.name)
		}
		e.inc("rhp2.completed")
		// the first 16 bytes are the plaintext "LoopEnter" greeting, which
		// carries no information and is not an encrypted frame
		if _, _, used := c.in.stats(); s.tamperedDir(0) && s.plan.flipDir == 0 && s.plan.flipAt >= 16 && s.plan.flipAt < used {
			e.violate("C19", "rhp2-tamper-undetected", fmt.Sprintf("bit %d of byte %d of the renter->host stream was flipped in transit; the host consumed %d bytes and accepted every frame", s.plan.flipBit, s.plan.flipAt, used))
		}
		// wait for the renter's LoopExit / close
		t.ReadID()
	}
	go renter(s.ea, s.a)
	go host(s.eb, s.b)
}

// runRHP3 runs the exchanges over the RHP3 transport (real mux).
func runRHP3(s *Session, exs []exchange, wrongKey bool) {
	prevReq, prevResp := map[reflect.Type]pobj{}, map[reflect.Type]pobj{} // (one side each: no sharing between the tasks)
	hostKey := types.NewPrivateKeyFromSeed(sim.HashBytes("host", 3, 1, 32))
	claimed := hostKey.PublicKey()
	if wrongKey {
		claimed[0] ^= 1
	}
	renter := func(e *endpoint, c *Conn) {
		defer close(e.done)
		defer c.Close()
		c.SetDeadline(time.Now().Add(10 * time.Minute))
		t, err := rhp3.NewRenterTransport(c, claimed)
		if err != nil {
			e.inc("rhp3.handshake-failed")
			if !s.anyFault() && !wrongKey {
				e.violate("C19", "rhp3-handshake-failed", fmt.Sprintf("RHP3 handshake failed without any fault: %v", err))
			}
			e.logf("handshake failed")
			return
		}
		if wrongKey {
			e.violate("C19", "rhp3-wrong-host-key-accepted", "renter completed the RHP3 handshake with a host that does not hold the expected key")
		}
		defer t.Close()
		for i := range exs {
			ex := &exs[i]
			st := t.DialStream()
			st.SetDeadline(time.Now().Add(5 * time.Minute))
			if err := st.WriteRequest(ex.id, ex.req); err != nil {
				e.logf("ex %d write request failed", i)
				st.Close()
				return
			}
			got := receiver(prevResp, ex.resp, ex.reuse)
			err := st.ReadResponse(got, ex.maxResp)
			e.inc("rpc.read")
			var re *rhp3.RPCError
			switch {
			case ex.respErr != "" && errors.As(err, &re):
				if re.Description != ex.respErr || re.Type != ex.errType || !bytes.Equal(re.Data, ex.errData) {
					e.violate("C19", "rhp3-error-altered", fmt.Sprintf("exchange %d: error (type %v, %d data bytes, %q) arrived as (type %v, %d data bytes, %q)", i, ex.errType, len(ex.errData), ex.respErr, re.Type, len(re.Data), re.Description))
				}
				e.inc("rpc.error-delivered")
				e.logf("ex %d %s: rpc error delivered", i, ex.name)
			case err != nil:
				if !s.anyFault() && uint64(len(ex.respEnc)) <= ex.maxResp && ex.respErr == "" {
					e.violate("C19", "rhp3-valid-message-rejected", fmt.Sprintf("exchange %d: %s response (%d bytes, limit %d) could not be read: %v", i, ex.name, len(ex.respEnc), ex.maxResp, err))
				}
				e.logf("ex %d %s: read error", i, ex.name)
				st.Close()
				return
			default:
				fixup(got)
				if ex.respErr != "" {
					e.violate("C19", "rhp3-error-lost", fmt.Sprintf("exchange %d: host wrote error %q, renter decoded a response", i, ex.respErr))
				} else if !bytes.Equal(encP(got), ex.respEnc) {
					e.violate("C19", "rhp3-object-altered", fmt.Sprintf("exchange %d: %s response decoded to a different object than the one written", i, ex.name))
				}
				if uint64(len(ex.respEnc)) > ex.maxResp+1024+8 {
					e.violate("C19", "rhp3-overlimit-accepted", fmt.Sprintf("exchange %d: response of %d bytes read with limit %d", i, len(ex.respEnc), ex.maxResp))
				}
				e.logf("ex %d %s: response ok", i, ex.name)
			}
			for k, m := range ex.more {
				g := receiver(prevResp, ex.resp, ex.reuse)
				err := st.ReadResponse(g, uint64(len(m.enc))+2048)
				var re *rhp3.RPCError
				switch {
				case m.err != "" && errors.As(err, &re) && re.Description == m.err:
					e.inc("rhp3.further-error-delivered")
				case m.err == "" && err == nil:
					fixup(g)
					if !bytes.Equal(encP(g), m.enc) {
						e.violate("C19", "rhp3-object-altered", fmt.Sprintf("exchange %d: further response %d on the stream decoded to a different object than the one written", i, k))
					}
					e.inc("rhp3.further-response-read")
				default:
					if !s.anyFault() {
						e.violate("C19", "rhp3-sequence-altered", fmt.Sprintf("exchange %d (%s): further response %d on the same stream was written as (error %q, object of %d bytes) and read as error %v", i, ex.name, k, m.err, len(m.enc), err))
					}
					e.logf("ex %d further response %d: read error", i, k)
					st.Close()
					return
				}
			}
			st.Close()
		}
		e.inc("rhp3.completed")
	}
	host := func(e *endpoint, c *Conn) {
		defer close(e.done)
		defer c.Close()
		c.SetDeadline(time.Now().Add(10 * time.Minute))
		t, err := rhp3.NewHostTransport(c, hostKey)
		if err != nil {
			e.logf("handshake failed")
			return
		}
		defer t.Close()
		for i := range exs {
			ex := &exs[i]
			st, err := t.AcceptStream()
			if err != nil {
				e.logf("ex %d accept failed", i)
				return
			}
			st.SetDeadline(time.Now().Add(5 * time.Minute))
			id, err := st.ReadID()
			if err != nil {
				e.logf("ex %d read id failed", i)
				st.Close()
				return
			}
			if id != ex.id {
				e.violate("C19", "rhp3-id-altered", fmt.Sprintf("exchange %d: read id %v, renter wrote %v", i, id, ex.id))
			}
			if ex.req != nil {
				got := receiver(prevReq, ex.req, ex.reuse)
				if err := st.ReadRequest(got, ex.maxReq); err != nil {
					if !s.anyFault() {
						e.violate("C19", "rhp3-valid-message-rejected", fmt.Sprintf("exchange %d: %s request (%d bytes, limit %d) could not be read: %v", i, ex.name, len(ex.reqEnc), ex.maxReq, err))
					}
					e.logf("ex %d read request failed", i)
					st.Close()
					return
				}
				fixup(got)
				if !bytes.Equal(encP(got), ex.reqEnc) {
					e.violate("C19", "rhp3-object-altered", fmt.Sprintf("exchange %d: %s request decoded to a different object than the one written", i, ex.name))
				}
			}
			e.inc("rpc.read")
			if ex.respErr != "" {
				if ex.errSet {
					err = st.WriteResponseErr(&rhp3.RPCError{Type: ex.errType, Data: ex.errData, Description: ex.respErr})
				} else {
					err = st.WriteResponseErr(errors.New(ex.respErr))
				}
			} else {
				err = st.WriteResponse(ex.resp)
			}
			for _, m := range ex.more {
				if err != nil {
					break
				}
				if m.err != "" {
					err = st.WriteResponseErr(errors.New(m.err))
				} else {
					err = st.WriteResponse(m.obj)
				}
			}
			st.Close()
			if err != nil {
				e.logf("ex %d write response failed", i)
				return
			}
			e.logf("ex %d %s: request ok", i, ex.name)
		}
		e.inc("rhp3.completed")
		// linger until the renter hangs up
		t.AcceptStream()
	}
	go renter(s.ea, s.a)
	go host(s.eb, s.b)
}

// ---- gateway ----

type gwExchange struct {
	name    string
	obj     gateway.Object // as the dialer sends it (request part filled)
	resp    gateway.Object // as the accepter answers (response part filled)
	reqEnc  []byte
	respEnc []byte
	mustFit bool // the request is within the protocol's own limits whatever the receiver's length limit says
}

func gwReqBytes(o gateway.Object) []byte {
	var buf bytes.Buffer
	e := types.NewEncoder(&buf)
	gateway.VerifEncodeRequest(e, o)
	e.Flush()
	return buf.Bytes()
}
func gwRespBytes(o gateway.Object) []byte {
	var buf bytes.Buffer
	e := types.NewEncoder(&buf)
	gateway.VerifEncodeResponse(e, o)
	e.Flush()
	return buf.Bytes()
}

func sanitizeV2(t *types.V2Transaction) {
	for i := range t.SiacoinInputs {
		t.SiacoinInputs[i].Parent.StateElement = types.StateElement{LeafIndex: types.UnassignedLeafIndex}
	}
	for i := range t.SiafundInputs {
		t.SiafundInputs[i].Parent.StateElement = types.StateElement{LeafIndex: types.UnassignedLeafIndex}
	}
	for i := range t.FileContractRevisions {
		t.FileContractRevisions[i].Parent.StateElement = types.StateElement{LeafIndex: types.UnassignedLeafIndex}
	}
	for i := range t.FileContractResolutions {
		t.FileContractResolutions[i].Parent.StateElement = types.StateElement{LeafIndex: types.UnassignedLeafIndex}
		if sp, ok := t.FileContractResolutions[i].Resolution.(*types.V2StorageProof); ok {
			sp.ProofIndex.StateElement = types.StateElement{LeafIndex: types.UnassignedLeafIndex}
		}
	}
}

func buildGateway(t *sim.Tape) []gwExchange {
	var out []gwExchange
	mk := []func() gateway.Object{
		func() gateway.Object { return new(gateway.RPCShareNodes) },
		func() gateway.Object { return new(gateway.RPCDiscoverIP) },
		func() gateway.Object { return new(gateway.RPCSendHeaders) },
		func() gateway.Object { return new(gateway.RPCSendV2Blocks) },
		func() gateway.Object { return new(gateway.RPCSendTransactions) },
		func() gateway.Object { return new(gateway.RPCSendCheckpoint) },
		func() gateway.Object { return new(gateway.RPCRelayV2Header) },
		func() gateway.Object { return new(gateway.RPCRelayV2BlockOutline) },
		func() gateway.Object { return new(gateway.RPCRelayV2TransactionSet) },
	}
	if t.Chance(1, 25) {
		// a block of exactly the maximum weight, relayed in full: the heaviest
		// outline the consensus rules allow must fit the relay's own limit
		var cs consensus.State
		txn := types.V2Transaction{ArbitraryData: []byte{1}}
		base := cs.V2TransactionWeight(txn)
		asSet := t.Chance(1, 2)
		if asSet {
			// (the proofs of what a transaction spends weigh nothing: a set that can be
			// mined whole may be a good deal longer than it is heavy)
			pol := types.PolicyPublicKey(types.PublicKey{1})
			for j := 0; j < t.Range(1, 300); j++ {
				proof := make([]types.Hash256, t.Range(0, 60))
				for k := range proof {
					proof[k] = types.Hash256{byte(j), byte(k), 1}
				}
				txn.SiacoinInputs = append(txn.SiacoinInputs, types.V2SiacoinInput{
					Parent:          types.SiacoinElement{ID: types.SiacoinOutputID{byte(j), byte(j >> 8), 7}, StateElement: types.StateElement{LeafIndex: uint64(j) * 1000003, MerkleProof: proof}, SiacoinOutput: types.SiacoinOutput{Value: types.Siacoins(1), Address: pol.Address()}},
					SatisfiedPolicy: types.SatisfiedPolicy{Policy: pol, Signatures: []types.Signature{{byte(j)}}},
				})
			}
			base = cs.V2TransactionWeight(txn)
		}
		txn.ArbitraryData = sim.HashBytes("heavy", 1, 2, int(cs.MaxBlockWeight()-base)+1)
		if asSet && cs.V2TransactionWeight(txn) == cs.MaxBlockWeight() {
			req := &gateway.RPCRelayV2TransactionSet{Index: types.ChainIndex{Height: 5, ID: types.BlockID{5}}, Transactions: []types.V2Transaction{txn}}
			ex := gwExchange{name: "RPCRelayV2TransactionSet(set of maximum weight)", obj: req, resp: new(gateway.RPCRelayV2TransactionSet), mustFit: true}
			if guardPanic(func() { ex.reqEnc, ex.respEnc = gwReqBytes(req), gwRespBytes(ex.resp) }) == "" {
				return []gwExchange{ex}
			}
		} else if cs.V2TransactionWeight(txn) == cs.MaxBlockWeight() {
			blk := types.Block{Timestamp: time.Unix(1e9, 0), MinerPayouts: []types.SiacoinOutput{{Value: types.Siacoins(1)}}, V2: &types.V2BlockData{Height: 5, Transactions: []types.V2Transaction{txn}}}
			req := &gateway.RPCRelayV2BlockOutline{Block: gateway.OutlineBlock(blk, nil, nil)}
			ex := gwExchange{name: "RPCRelayV2BlockOutline(block of maximum weight)", obj: req, resp: new(gateway.RPCRelayV2BlockOutline), mustFit: true}
			if guardPanic(func() { ex.reqEnc, ex.respEnc = gwReqBytes(req), gwRespBytes(ex.resp) }) == "" {
				return []gwExchange{ex}
			}
		}
	}
	n := t.Range(1, 4)
	sameRPC := t.Chance(1, 3) // one RPC called again and again (a peer syncing)
	m0 := mk[t.Choose(len(mk))]
	if sameRPC {
		n = t.Range(2, 4)
	}
	for i := 0; i < n; i++ {
		m := mk[t.Choose(len(mk))]
		if sameRPC {
			m = m0
		}
		req, resp := m(), m()
		fillObject(t, req, 0, uint64(2*i))
		fillObject(t, resp, 0, uint64(2*i+1))
		for _, o := range []gateway.Object{req, resp} {
			switch r := o.(type) {
			case *gateway.RPCSendV2Blocks:
				r.Max = uint64(1 + t.Choose(4))
				if t.Chance(1, 3) {
					r.History = make([]types.BlockID, pick(t, 32, 32, 31))
					for k := range r.History {
						r.History[k] = types.BlockID{byte(k), byte(i), 7}
					}
				}
				if len(r.History) > 32 {
					r.History = r.History[:32]
				}
				if uint64(len(r.Blocks)) > r.Max {
					r.Blocks = r.Blocks[:r.Max]
				}
				for j := range r.Blocks {
					if r.Blocks[j].V2 != nil {
						for k := range r.Blocks[j].V2.Transactions {
							sanitizeV2(&r.Blocks[j].V2.Transactions[k])
						}
					}
				}
			case *gateway.RPCSendHeaders:
				r.Max = uint64(1 + len(r.Headers))
			case *gateway.RPCSendTransactions:
				if t.Chance(1, 3) {
					// as many hashes as one request may name, and one fewer
					r.Hashes = make([]types.Hash256, pick(t, 100, 100, 99))
					for k := range r.Hashes {
						r.Hashes[k] = types.Hash256{byte(k), byte(i), 9}
					}
				}
				if len(r.Hashes) > 100 {
					r.Hashes = r.Hashes[:100]
				}
				for k := range r.V2Transactions {
					sanitizeV2(&r.V2Transactions[k])
				}
			case *gateway.RPCSendCheckpoint:
				if r.Block.V2 != nil {
					for k := range r.Block.V2.Transactions {
						sanitizeV2(&r.Block.V2.Transactions[k])
					}
				}
			case *gateway.RPCRelayV2BlockOutline:
				for k := range r.Block.Transactions {
					ot := &r.Block.Transactions[k]
					if ot.V2Transaction != nil {
						sanitizeV2(ot.V2Transaction)
						ot.Transaction = nil
						ot.Hash = ot.V2Transaction.MerkleLeafHash()
					} else if ot.Transaction != nil {
						ot.Hash = ot.Transaction.MerkleLeafHash()
					}
				}
			case *gateway.RPCRelayV2TransactionSet:
				for k := range r.Transactions {
					sanitizeV2(&r.Transactions[k])
				}
			case *gateway.RPCShareNodes:
				if len(r.Peers) > 90 {
					r.Peers = r.Peers[:90]
				}
			}
		}
		// the response limit of SendHeaders / SendV2Blocks depends on the request's Max
		switch r := resp.(type) {
		case *gateway.RPCSendHeaders:
			r.Max = req.(*gateway.RPCSendHeaders).Max
			if uint64(len(r.Headers)) > r.Max {
				r.Headers = r.Headers[:r.Max]
			}
		case *gateway.RPCSendV2Blocks:
			r.Max = req.(*gateway.RPCSendV2Blocks).Max
			if uint64(len(r.Blocks)) > r.Max {
				r.Blocks = r.Blocks[:r.Max]
			}
		}
		ex := gwExchange{name: fmt.Sprintf("%T", req), obj: req, resp: resp}
		if p := guardPanic(func() { ex.reqEnc, ex.respEnc = gwReqBytes(req), gwRespBytes(resp) }); p != "" {
			continue
		}
		out = append(out, ex)
	}
	return out
}

func guardPanic(fn func()) (p string) {
	defer func() {
		if r := recover(); r != nil {
			p = fmt.Sprint(r)
		}
	}()
	fn()
	return ""
}

// runGateway: handshake (matching or mismatching headers), then RPC objects
// over mux streams.
func runGateway(s *Session, exs []gwExchange, mismatch string, addrLen [2]int) {
	genesis := types.BlockID{1, 2, 3}
	netAddr := func(host string, n int) string {
		if n > len(host)+5 {
			host = strings.Repeat("n", n-len(host)-6) + "." + host
		}
		return host + ":9981"
	}
	ha := gateway.Header{GenesisID: genesis, UniqueID: gateway.UniqueID{1}, NetAddress: netAddr("10.0.0.1", addrLen[0])}
	hb := gateway.Header{GenesisID: genesis, UniqueID: gateway.UniqueID{2}, NetAddress: netAddr("10.0.0.2", addrLen[1])}
	if addrLen[0] > 13 || addrLen[1] > 13 {
		s.ea.inc("gateway.long-net-address")
	}
	switch mismatch {
	case "genesis":
		hb.GenesisID[5] ^= 1
	case "unique-id":
		hb.UniqueID = ha.UniqueID
	case "net-address":
		hb.NetAddress = "not-an-address"
	}
	gwPrev := map[reflect.Type]gateway.Object{} // (the dialer's alone)
	dialer := func(e *endpoint, c *Conn) {
		defer close(e.done)
		defer c.Close()
		c.SetDeadline(time.Now().Add(10 * time.Minute))
		tr, err := gateway.Dial(c, ha)
		if err != nil {
			e.inc("gateway.handshake-refused")
			if mismatch == "" && !s.anyFault() {
				e.violate("C19", "gateway-handshake-failed", fmt.Sprintf("gateway handshake failed without any fault or mismatch: %v", err))
			}
			e.logf("handshake refused")
			return
		}
		if mismatch != "" {
			e.violate("C19", "gateway-mismatch-accepted", "dialer completed the handshake although the peer's header mismatches ("+mismatch+")")
		}
		defer tr.Close()
		c.SetDeadline(time.Time{})
		for i := range exs {
			ex := &exs[i]
			st, _ := tr.DialStream()
			st.SetDeadline(time.Now().Add(5 * time.Minute))
			if err := st.WriteID(ex.obj); err != nil {
				e.logf("ex %d write id failed", i)
				return
			}
			if err := st.WriteRequest(ex.obj); err != nil {
				e.logf("ex %d write request failed", i)
				return
			}
			// the response is read into a new object, or (every other exchange) into the
			// one this peer used for its last call of the same RPC
			got, held := gwPrev[reflect.TypeOf(ex.obj)]
			if !held || i%2 == 0 {
				got = reflect.New(reflect.TypeOf(ex.obj).Elem()).Interface().(gateway.Object)
				gwPrev[reflect.TypeOf(ex.obj)] = got
			} else {
				e.inc("gateway.response-into-used-object")
			}
			copyRequestPart(got, ex.obj)
			err := st.ReadResponse(got)
			e.inc("rpc.read")
			if err != nil {
				if !s.anyFault() && len(ex.respEnc) <= gateway.VerifMaxResponseLen(ex.obj) {
					e.violate("C19", "gateway-valid-message-rejected", fmt.Sprintf("exchange %d: %s response (%d bytes, limit %d) could not be read: %v", i, ex.name, len(ex.respEnc), gateway.VerifMaxResponseLen(ex.obj), err))
				}
				e.logf("ex %d %s read error", i, ex.name)
				st.Close()
				return
			}
			if gateway.VerifMaxResponseLen(ex.obj) > 0 && !bytes.Equal(gwRespBytes(got), ex.respEnc) {
				e.violate("C19", "gateway-object-altered", fmt.Sprintf("exchange %d: %s response decoded to a different object than the one written", i, ex.name))
			}
			if strings.Contains(ex.name, "maximum weight") {
				e.inc("gateway.heaviest-outline-delivered")
			}
			e.logf("ex %d %s response ok", i, ex.name)
			st.Close()
		}
		// relay RPCs have no response: give the peer time to read them before
		// the deferred Close tears the multiplexer down
		time.Sleep(2 * time.Minute)
		e.inc("gateway.completed")
	}
	accepter := func(e *endpoint, c *Conn) {
		defer close(e.done)
		defer c.Close()
		c.SetDeadline(time.Now().Add(10 * time.Minute))
		tr, err := gateway.Accept(c, hb)
		if err != nil {
			e.inc("gateway.handshake-refused")
			e.logf("handshake refused")
			return
		}
		if mismatch == "genesis" || mismatch == "unique-id" {
			e.violate("C19", "gateway-mismatch-accepted", "accepter completed the handshake although the peer's header mismatches ("+mismatch+")")
		}
		defer tr.Close()
		c.SetDeadline(time.Time{})
		for i := range exs {
			ex := &exs[i]
			st, err := tr.AcceptStream()
			if err != nil {
				e.logf("ex %d accept failed", i)
				return
			}
			st.SetDeadline(time.Now().Add(5 * time.Minute))
			id, err := st.ReadID()
			if err != nil {
				e.logf("ex %d read id failed", i)
				return
			}
			got := gateway.ObjectForID(id)
			if got == nil || reflect.TypeOf(got) != reflect.TypeOf(ex.obj) {
				if !s.tamperedDir(0) {
					e.violate("C19", "gateway-id-altered", fmt.Sprintf("exchange %d: id %v does not name %s", i, id, ex.name))
				}
				return
			}
			if err := st.ReadRequest(got); err != nil {
				if !s.anyFault() && (ex.mustFit || len(ex.reqEnc) <= gateway.VerifMaxRequestLen(ex.obj)) {
					e.violate("C19", "gateway-valid-message-rejected", fmt.Sprintf("exchange %d: %s request (%d bytes, limit %d) could not be read: %v", i, ex.name, len(ex.reqEnc), gateway.VerifMaxRequestLen(ex.obj), err))
				}
				e.logf("ex %d read request failed", i)
				st.Close()
				return
			}
			if gateway.VerifMaxRequestLen(ex.obj) > 0 && !bytes.Equal(gwReqBytes(got), ex.reqEnc) {
				e.violate("C19", "gateway-object-altered", fmt.Sprintf("exchange %d: %s request decoded to a different object than the one written", i, ex.name))
			}
			e.inc("rpc.read")
			if ex.mustFit {
				e.inc("gateway.heaviest-read." + strings.SplitN(ex.name, "(", 2)[0])
			}
			if err := st.WriteResponse(ex.resp); err != nil {
				e.logf("ex %d write response failed", i)
				return
			}
			e.logf("ex %d %s request ok", i, ex.name)
			st.Close()
		}
		e.inc("gateway.completed")
		tr.AcceptStream()
	}
	go dialer(s.ea, s.a)
	go accepter(s.eb, s.b)
}

// copyRequestPart copies the request fields the response limit depends on.
func copyRequestPart(dst, src gateway.Object) {
	switch d := dst.(type) {
	case *gateway.RPCSendHeaders:
		d.Max = src.(*gateway.RPCSendHeaders).Max
	case *gateway.RPCSendV2Blocks:
		d.Max = src.(*gateway.RPCSendV2Blocks).Max
	}
}
