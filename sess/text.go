package sess

import (
	"bytes"
	"encoding/binary"
	"encoding/json"
	"fmt"
	"io"
	"reflect"
	"regexp"
	"strings"
	"time"

	rhp2 "go.sia.tech/core/rhp/v2"
	rhp3 "go.sia.tech/core/rhp/v3"
	rhp4 "go.sia.tech/core/rhp/v4"
	"go.sia.tech/core/types"
	"verif/sim"
)

// API text session (C20, engine E2): a host daemon publishes protocol objects
// (settings, prices, accounts, tokens, requests) as JSON to a client over the
// simulated connection, as the HTTP APIs built on this library do. The
// channel's fault alters, drops or adds one character inside an identifier.
// Unharmed, the value must parse back equal; harmed, the parser must refuse
// or return the unchanged value - and never panic.

var textKinds = []struct {
	name string
	mk   func() any
}{
	{"rhp4.HostSettings", func() any { return new(rhp4.HostSettings) }},
	{"rhp4.HostPrices", func() any { return new(rhp4.HostPrices) }},
	{"rhp4.AccountToken", func() any { return new(rhp4.AccountToken) }},
	{"rhp4.Usage", func() any { return new(rhp4.Usage) }},
	{"rhp4.RPCFundAccountsRequest", func() any { return new(rhp4.RPCFundAccountsRequest) }},
	{"rhp4.RPCReplenishAccountsRequest", func() any { return new(rhp4.RPCReplenishAccountsRequest) }},
	{"rhp4.RPCFormContractRequest", func() any { return new(rhp4.RPCFormContractRequest) }},
	{"rhp4.RPCRenewContractRequest", func() any { return new(rhp4.RPCRenewContractRequest) }},
	{"rhp4.RPCFreeSectorsRequest", func() any { return new(rhp4.RPCFreeSectorsRequest) }},
	{"rhp4.RPCSettingsResponse", func() any { return new(rhp4.RPCSettingsResponse) }},
	{"rhp4.RPCLatestRevisionResponse", func() any { return new(rhp4.RPCLatestRevisionResponse) }},
	{"rhp3.HostPriceTable", func() any { return new(rhp3.HostPriceTable) }},
	{"rhp3.Account", func() any { return new(rhp3.Account) }},
	{"rhp2.HostSettings", func() any { return new(rhp2.HostSettings) }},
	{"rhp2.ContractRevision", func() any { return new(rhp2.ContractRevision) }},
	{"types.V2FileContract", func() any { return new(types.V2FileContract) }},
	{"types.SpendPolicy", func() any { return new(types.SpendPolicy) }},
	{"types.ChainIndex", func() any { return new(types.ChainIndex) }},
}

var (
	reTokAcct = regexp.MustCompile(`"ed25519:[0-9a-f]{64}"`)
	reTokAddr = regexp.MustCompile(`"[0-9a-f]{76}"`)
	reTokHash = regexp.MustCompile(`"[0-9a-f]{64}"`)
	reTokSig  = regexp.MustCompile(`"[0-9a-f]{128}"`)
	reTokVer  = regexp.MustCompile(`"v[0-9]+\.[0-9]+\.[0-9]+"`)
)

func runText(s *Session) string {
	t := s.t
	k := textKinds[t.Choose(len(textKinds))]
	v := k.mk()
	fillObject(t, v, 0, 5)
	// JSON cannot carry sub-second or out-of-range times: keep what it can represent
	normaliseTimes(reflect.ValueOf(v).Elem())
	var js []byte
	var merr error
	if p := guardPanic(func() { js, merr = json.Marshal(v) }); p != "" {
		// the filler left an interface member empty: not a value a decoder can produce
		close(s.ea.done)
		close(s.eb.done)
		return "text-skipped"
	}
	if merr != nil {
		s.violate("C20", "json-marshal", fmt.Sprintf("%s: json.Marshal failed: %v", k.name, merr))
		close(s.ea.done)
		close(s.eb.done)
		return "text"
	}
	// the fault: one identifier harmed (drawn now; applied by the sender)
	sent := js
	how := ""
	kind := ""
	var control []byte // the same text with the identifier altered in place (same length)
	if t.Chance(1, 2) {
		type cand struct {
			kind     string
			from, to int
		}
		var cands []cand
		for _, r := range []struct {
			kind string
			re   *regexp.Regexp
		}{{"account / public key", reTokAcct}, {"address", reTokAddr}, {"hash", reTokHash}, {"signature", reTokSig}, {"protocol version", reTokVer}} {
			for _, m := range r.re.FindAllIndex(js, 6) {
				cands = append(cands, cand{r.kind, m[0] + 1, m[1] - 1})
			}
		}
		if len(cands) > 0 {
			c := cands[t.Choose(len(cands))]
			tok := js[c.from:c.to]
			var mut []byte
			switch mode := t.Choose(5); {
			case c.kind == "address" || mode == 0:
				i := t.Choose(len(tok))
				mut = append([]byte(nil), tok...)
				mut[i] = "0123456789abcdef"[(bytes.IndexByte([]byte("0123456789abcdef"), tok[i])+1+t.Choose(15)+16)%16]
				how = fmt.Sprintf("character %d altered", i)
			case mode == 1:
				mut, how = tok[:len(tok)-1], "last character lost"
			case mode == 2:
				mut, how = append(append([]byte(nil), tok...), 'a'), "one character added"
			case mode == 3:
				mut, how = append(append([]byte(nil), tok...), 'a', 'b'), "two characters added"
			default:
				mut, how = append(append([]byte(nil), tok...), bytes.Repeat([]byte("0"), 64)...), "64 characters added"
			}
			kind = c.kind
			if kind == "account / public key" && !reFixedKey.Match(js[:c.from-1]) {
				kind = "unlock key" // inside unlock conditions: algorithm and key length are free
			}
			sent = append(append(append([]byte(nil), js[:c.from]...), mut...), js[c.to:]...)
			control = append([]byte(nil), js...)
			control[c.to-1] = "0123456789abcdef"[(bytes.IndexByte([]byte("0123456789abcdef"), js[c.to-1])+1)%16]
			how = fmt.Sprintf("%s %s after %s: %s (%s -> %s)", kind, "identifier", js[max(0, c.from-24):c.from], how, tok, mut)
		}
	}
	if how == "" && t.Chance(1, 4) {
		// another fault of a text channel: a value replaced by null
		if i := nthObjectStart(js, t.Choose(40)); i > 0 {
			if j := matchingBrace(js, i); j > i {
				sent = append(append(append([]byte(nil), js[:i]...), []byte("null")...), js[j+1:]...)
				how, kind = fmt.Sprintf("the object value at offset %d replaced by null", i), "null"
			}
		}
	}
	s.plan.chunk = pick(t, "all", "random", "small")
	server := func(e *endpoint, c *Conn) {
		defer close(e.done)
		defer c.Close()
		var hdr [8]byte
		binary.LittleEndian.PutUint64(hdr[:], uint64(len(sent)))
		c.Write(append(hdr[:], sent...))
		e.logf("published %s (%d bytes) %s", k.name, len(sent), how)
	}
	client := func(e *endpoint, c *Conn) {
		defer close(e.done)
		defer c.Close()
		c.SetDeadline(time.Now().Add(time.Minute))
		var hdr [8]byte
		if _, err := io.ReadFull(c, hdr[:]); err != nil {
			return
		}
		buf := make([]byte, binary.LittleEndian.Uint64(hdr[:]))
		if _, err := io.ReadFull(c, buf); err != nil {
			return
		}
		got := k.mk()
		var err error
		if p := guardPanic(func() { err = json.Unmarshal(buf, got) }); p != "" {
			e.violate("C20", "json-unmarshal-panic", fmt.Sprintf("%s: json.Unmarshal panicked (%s): %s", k.name, how, p))
			return
		}
		e.inc("text.parsed")
		var back []byte
		if err == nil {
			// (a value that failed to parse may be half-filled; only parsed values are compared)
			if p := guardPanic(func() { back, _ = json.Marshal(got) }); p != "" {
				e.violate("C20", "json-marshal-panic", fmt.Sprintf("%s: json.Marshal of a value that json.Unmarshal returned without error panicked (%s): %s", k.name, how, p))
				return
			}
		}
		if how == "" {
			if err != nil {
				e.violate("C20", "json-unmarshal-own-output", fmt.Sprintf("%s does not parse back from its own JSON: %v (%.300s)", k.name, err, buf))
			} else if !bytes.Equal(back, js) {
				e.violate("C20", "json-roundtrip-differs", fmt.Sprintf("%s parsed back from its own JSON differs: %.200s vs %.200s", k.name, js, back))
			} else if where := valueDiff(reflect.ValueOf(v).Elem(), reflect.ValueOf(got).Elem(), k.name); where != "" {
				// the text agrees with itself; the value it stands for must be the one that was printed
				e.violate("C20", "json-roundtrip-differs", fmt.Sprintf("%s parsed back from its own JSON is another value: %s differs (the JSON prints the same again)", k.name, where))
			}
			e.inc("text.roundtrip")
			return
		}
		e.inc("text.harmed")
		if kind == "null" {
			// whatever the parser makes of it, the value it returns must be usable
			return
		}
		fixedLength := kind != "unlock key" && kind != "protocol version"
		switch {
		case err != nil:
		case fixedLength && len(sent) != len(js) && bytes.Equal(back, js) && informational(k.mk(), control, js):
			// the member is printed for the reader's benefit and ignored by the
			// parser (a derived ID inside a transaction): not an identifier parse
			e.inc("text.informational-member")
		case fixedLength && len(sent) != len(js):
			// an identifier of the wrong length names no value at all; taking it
			// for one (even for the value it was cut from or grown out of) is silent
			// acceptance of text the type itself would never print
			e.violate("C20", "corrupted-identifier-accepted", fmt.Sprintf("%s: %s was parsed without error (as %.80s...)", k.name, how, back))
		case kind == "address" && !bytes.Equal(back, js):
			// a checksummed address with any character altered was taken for another value
			e.violate("C20", "corrupted-identifier-accepted", fmt.Sprintf("%s: %s was parsed without error into a different value", k.name, how))
		}
	}
	go client(s.ea, s.a)
	go server(s.eb, s.b)
	s.run(20000)
	return "text"
}

// informational reports whether text with one identifier altered in place
// still parses to the value that prints as js: the member is not part of the value.
func informational(into any, control, js []byte) (same bool) {
	guardPanic(func() {
		if json.Unmarshal(control, into) == nil {
			back, err := json.Marshal(into)
			same = err == nil && bytes.Equal(back, js)
		}
	})
	return
}

var tEncoderTo = reflect.TypeOf((*types.EncoderTo)(nil)).Elem()

// valueDiff walks two values of one type in parallel and names the first place
// where they differ. Values with a binary encoding are compared by it (nil and
// empty lists, and the sub-second part of times, are not distinguished there).
func valueDiff(a, b reflect.Value, path string) string {
	if a.Type() == tTimeT {
		if a.Interface().(time.Time).Unix() != b.Interface().(time.Time).Unix() {
			return path
		}
		return ""
	}
	// (only the consensus types: the protocol objects' own encoders are what is being judged)
	if a.CanInterface() && a.Type().Implements(tEncoderTo) && strings.HasSuffix(a.Type().PkgPath(), "core/types") && !(a.Kind() == reflect.Ptr && (a.IsNil() || b.IsNil())) && !(a.Kind() == reflect.Interface) {
		var ea, eb []byte
		if guardPanic(func() { ea, eb = encObj(a.Interface().(types.EncoderTo)), encObj(b.Interface().(types.EncoderTo)) }) == "" {
			if !bytes.Equal(ea, eb) {
				return path
			}
			return ""
		}
	}
	switch a.Kind() {
	case reflect.Struct:
		for i := 0; i < a.NumField(); i++ {
			if a.Type().Field(i).IsExported() {
				if d := valueDiff(a.Field(i), b.Field(i), path+"."+a.Type().Field(i).Name); d != "" {
					return d
				}
			}
		}
	case reflect.Slice, reflect.Array:
		if a.Len() != b.Len() {
			return path + " (length)"
		}
		for i := 0; i < a.Len(); i++ {
			if d := valueDiff(a.Index(i), b.Index(i), fmt.Sprintf("%s[%d]", path, i)); d != "" {
				return d
			}
		}
	case reflect.Ptr, reflect.Interface:
		if a.IsNil() != b.IsNil() {
			return path + " (nil)"
		}
		if a.Kind() == reflect.Interface && !a.IsNil() && a.CanInterface() {
			// an error travels as its text: whatever type it comes back as
			if ea, ok := a.Interface().(error); ok {
				if eb, ok := b.Interface().(error); !ok || ea.Error() != eb.Error() {
					return path + " (error text)"
				}
				return ""
			}
		}
		if !a.IsNil() {
			if a.Elem().Type() != b.Elem().Type() {
				return path + " (kind)"
			}
			return valueDiff(a.Elem(), b.Elem(), path)
		}
	case reflect.Map:
		// (none of the published types has one)
	default:
		if a.CanInterface() && !reflect.DeepEqual(a.Interface(), b.Interface()) {
			return path
		}
	}
	return ""
}

func encObj(o types.EncoderTo) []byte {
	var buf bytes.Buffer
	e := types.NewEncoder(&buf)
	o.EncodeTo(e)
	e.Flush()
	return buf.Bytes()
}

var tTimeT = reflect.TypeOf(time.Time{})

func normaliseTimes(v reflect.Value) {
	switch v.Kind() {
	case reflect.Struct:
		if v.Type() == tTimeT {
			if v.CanSet() {
				t := v.Interface().(time.Time)
				v.Set(reflect.ValueOf(time.Unix(t.Unix()%(1<<32), 0).UTC()))
			}
			return
		}
		for i := 0; i < v.NumField(); i++ {
			if v.Type().Field(i).IsExported() {
				normaliseTimes(v.Field(i))
			}
		}
	case reflect.Slice, reflect.Array:
		for i := 0; i < v.Len(); i++ {
			normaliseTimes(v.Index(i))
		}
	case reflect.Ptr, reflect.Interface:
		if !v.IsNil() {
			normaliseTimes(v.Elem())
		}
	}
}

// JSON members whose value is a fixed-length key (types.PublicKey, rhp Account)
var reFixedKey = regexp.MustCompile(`"(account|accounts|hostKey|renterKey|renterPublicKey|hostPublicKey|publicKey|pool)":(\[("[^"]*",)*)?$`)

var _ = sim.HashU64

// nthObjectStart returns the offset of the n-th '{' (modulo their number) that
// is not the first byte and not inside a string.
func nthObjectStart(js []byte, n int) int {
	var starts []int
	in := false
	for i := 0; i < len(js); i++ {
		switch c := js[i]; {
		case in && c == '\\':
			i++
		case c == '"':
			in = !in
		case !in && c == '{' && i > 0:
			starts = append(starts, i)
		}
	}
	if len(starts) == 0 {
		return -1
	}
	return starts[n%len(starts)]
}

func matchingBrace(js []byte, i int) int {
	depth, in := 0, false
	for ; i < len(js); i++ {
		switch c := js[i]; {
		case in && c == '\\':
			i++
		case c == '"':
			in = !in
		case !in && c == '{':
			depth++
		case !in && c == '}':
			depth--
			if depth == 0 {
				return i
			}
		}
	}
	return -1
}
