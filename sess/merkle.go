package sess

import (
	"bytes"
	"encoding/binary"
	"fmt"
	"io"

	rhp2 "go.sia.tech/core/rhp/v2"
	rhp4 "go.sia.tech/core/rhp/v4"
	"go.sia.tech/core/types"
	"verif/ref"
	"verif/sim"
)

// Host/renter Merkle session (C16): the host holds real sectors and a list of
// sector roots; the renter asks for ranges, leaf proofs, root ranges, appends
// and frees; data and proofs travel over the simulated stream (arbitrary
// chunking) into the real streaming verifiers; RefMerkle is the oracle.

func fastBytes(seed uint64, n int) []byte {
	out := make([]byte, n)
	x := seed*0x9e3779b97f4a7c15 + 1
	for i := 0; i+8 <= n; i += 8 {
		x ^= x << 13
		x ^= x >> 7
		x ^= x << 17
		binary.LittleEndian.PutUint64(out[i:], x)
	}
	return out
}

type merkleOp struct {
	kind       string
	start, end uint64 // leaf or sector range
	n          int    // number of sector roots
	freed      []uint64
	appended   int
	sectorSeed uint64
	short      int // bytes of sector data for reader-root ops (multiple of 64)
	cacheLog   int // read-range: the host keeps the roots of all aligned subtrees of 2^cacheLog leaves (0: no cache)
}

func refRootOfData(data []byte) types.Hash256 { return ref.TreeRoot(ref.FileLeaves(data)) }

// refRangeProof is the range proof by definition: the roots of the maximal
// aligned subtrees left of start and right of end, left to right.
func refRangeProof(leaves []types.Hash256, start, end uint64) []types.Hash256 {
	var proof []types.Hash256
	var rec func(lo, hi uint64)
	n := uint64(len(leaves))
	rec = func(lo, hi uint64) {
		if lo >= n {
			return
		}
		if hi > n {
			hi = n
		}
		if lo >= start && hi <= end {
			return
		}
		if hi <= start || lo >= end {
			proof = append(proof, ref.TreeRoot(leaves[lo:hi]))
			return
		}
		size := uint64(1)
		for size*2 < hi-lo {
			size *= 2
		}
		rec(lo, lo+size)
		rec(lo+size, hi)
	}
	rec(0, n)
	return proof
}

func readHashes(r io.Reader, k int) ([]types.Hash256, error) {
	out := make([]types.Hash256, k)
	for i := range out {
		if _, err := io.ReadFull(r, out[i][:]); err != nil {
			return nil, err
		}
	}
	return out, nil
}

func writeHashes(w io.Writer, hs []types.Hash256) error {
	buf := make([]byte, 0, 32*len(hs))
	for _, h := range hs {
		buf = append(buf, h[:]...)
	}
	_, err := w.Write(buf)
	return err
}

func drawMerkleOps(t *sim.Tape) []merkleOp {
	var ops []merkleOp
	k := t.Range(2, 6)
	for i := 0; i < k; i++ {
		op := merkleOp{sectorSeed: uint64(t.Choose(4) + 1)}
		switch t.Weighted(3, 3, 2, 3, 2, 3, 2) {
		case 0:
			op.kind = "sector-root"
			op.short = pick(t, rhp4.SectorSize, 64, 128, 64*3, 64*64, 64*1000, rhp4.SectorSize/2, 64*17)
			if t.Chance(1, 2) {
				// any whole number of leaves, not only the round ones: the streaming
				// root hashes leaves in groups and has to get every remainder right
				op.short = 64 * pick(t, t.Range(1, 40), t.Range(41, 300), 1000+t.Range(1, 40), rhp4.LeavesPerSector-t.Range(1, 20))
			}
		case 1:
			op.kind = "read-range"
			op.cacheLog = pick(t, 0, 0, 6, 1, 4, 10, 15)
			n := uint64(rhp4.LeavesPerSector)
			switch t.Choose(4) {
			case 0:
				op.start = uint64(t.Choose(int(n)))
				op.end = op.start + 1
			case 1:
				op.start = uint64(t.Choose(32))
				op.end = op.start + uint64(t.Range(1, 64))
			case 2:
				op.start = n - uint64(t.Range(1, 200))
				op.end = op.start + uint64(t.Range(1, int(n-op.start)))
			default:
				op.start = uint64(t.Choose(int(n - 1)))
				op.end = op.start + uint64(t.Range(1, int(min(n-op.start, 4096))))
			}
		case 2:
			op.kind = "verify-leaf"
			op.start = uint64(t.Choose(rhp4.LeavesPerSector))
		case 3:
			op.kind = "sector-roots"
			op.n = pick(t, t.Range(1, 33), t.Range(1, 33), t.Range(1, 300), t.Range(300, 5000), 1<<uint(t.Range(0, 12)), t.Range(1, 33),
				pick(t, 65535, 65536, 65537, 65542, t.Range(65537, 70100))) // more roots than a sector has leaves
			op.start = uint64(t.Choose(op.n))
			op.end = op.start + uint64(t.Range(1, op.n-int(op.start)))
			if t.Chance(1, 3) {
				op.end = op.start + 1
			}
		case 4:
			op.kind = "append"
			op.n = pick(t, t.Range(0, 33), t.Range(0, 300), 1<<uint(t.Range(0, 10)))
			op.appended = t.Range(1, 9)
		case 5:
			op.kind = "free"
			op.n = pick(t, t.Range(1, 33), t.Range(1, 33), t.Range(1, 400))
			seen := map[uint64]bool{}
			for j := 0; j < t.Range(1, min(op.n, 12)); j++ {
				x := uint64(t.Choose(op.n))
				if !seen[x] {
					seen[x] = true
					op.freed = append(op.freed, x)
				}
			}
		default:
			op.kind = "diff"
			op.n = t.Range(2, 64)
		}
		ops = append(ops, op)
	}
	return ops
}

var sectorCache = map[uint64]*[rhp4.SectorSize]byte{}
var sectorLeafCache = map[uint64][]types.Hash256{}

func sector(seed uint64) (*[rhp4.SectorSize]byte, []types.Hash256) {
	if s, ok := sectorCache[seed]; ok {
		return s, sectorLeafCache[seed]
	}
	var s [rhp4.SectorSize]byte
	copy(s[:], fastBytes(seed, rhp4.SectorSize))
	sectorCache[seed] = &s
	sectorLeafCache[seed] = ref.FileLeaves(s[:])
	return &s, sectorLeafCache[seed]
}

// runMerkle runs the session; the renter (A) verifies, the host (B) builds.
func runMerkle(s *Session, ops []merkleOp) {
	t := s.t
	// corruption choices are drawn up front (tasks never touch the tape)
	type corr struct{ which, pos, bit int }
	corrs := make([][]corr, len(ops))
	for i := range ops {
		for j := 0; j < 6; j++ {
			corrs[i] = append(corrs[i], corr{t.Choose(1 << 20), t.Choose(1 << 20), t.Choose(8)})
		}
	}
	flipHash := func(hs []types.Hash256, c corr) []types.Hash256 {
		out := append([]types.Hash256(nil), hs...)
		if len(out) > 0 {
			out[c.which%len(out)][c.pos%32] ^= 1 << c.bit
		}
		return out
	}
	// what the host sends for each op is computed before the tasks start, so
	// the renter can tell an in-flight change from a builder fault
	payload := make([][]byte, len(ops))
	prebad := make([]string, len(ops))
	cat := func(parts ...[]types.Hash256) []byte {
		var buf []byte
		for _, hs := range parts {
			for _, h := range hs {
				buf = append(buf, h[:]...)
			}
		}
		return buf
	}
	for i, op := range ops {
		sec, _ := sector(op.sectorSeed)
		switch op.kind {
		case "sector-root":
			payload[i] = sec[:op.short]
		case "read-range":
			var precalc func(i, j uint64) types.Hash256
			if op.cacheLog > 0 {
				// a host that keeps subtree roots: by definition, for exactly the aligned subtrees of one size
				_, leafHashes := sector(op.sectorSeed)
				size := uint64(1) << op.cacheLog
				precalc = func(i, j uint64) (h types.Hash256) {
					if j-i == size && i%size == 0 {
						return ref.TreeRoot(leafHashes[i:j])
					}
					return
				}
			}
			payload[i] = append(append([]byte(nil), sec[op.start*64:op.end*64]...), cat(rhp2.BuildProof(sec, op.start, op.end, precalc))...)
		case "verify-leaf":
			cache := rhp4.CachedSectorSubtrees(sec)
			ss, se := rhp4.SectorSubtreeRange(op.start, op.start+1)
			proof := rhp4.BuildSectorProof(sec[ss*64:se*64], op.start, op.start+1, cache)
			payload[i] = append(append([]byte(nil), sec[op.start*64:op.start*64+64]...), cat(proof)...)
		case "sector-roots":
			roots := hashes(op.n, op.sectorSeed)
			proof := rhp4.BuildSectorRootsProof(roots, op.start, op.end)
			if want := refRangeProof(roots, op.start, op.end); rhp2.RangeProofSize(uint64(op.n), op.start, op.end) != uint64(len(want)) {
				prebad[i] = fmt.Sprintf("RangeProofSize(n=%d,[%d,%d)) = %d, the range proof by definition has %d hashes", op.n, op.start, op.end, rhp2.RangeProofSize(uint64(op.n), op.start, op.end), len(want))
			} else if fmt.Sprint(proof) != fmt.Sprint(want) {
				// (the renter would read the wrong number of hashes: reported where it is built)
				prebad[i] = fmt.Sprintf("BuildSectorRootsProof(n=%d,[%d,%d)) has %d hashes and differs from the range proof by definition (%d hashes)", op.n, op.start, op.end, len(proof), len(want))
			}
			payload[i] = cat(roots[op.start:op.end], proof)
		case "append":
			sub, newRoot := rhp4.BuildAppendProof(hashes(op.n, op.sectorSeed), hashes(op.appended, op.sectorSeed+100))
			payload[i] = cat(sub, []types.Hash256{newRoot})
		case "free":
			th, lh := rhp4.BuildFreeSectorsProof(hashes(op.n, op.sectorSeed), op.freed)
			var cnt [16]byte
			binary.LittleEndian.PutUint64(cnt[:8], uint64(len(th)))
			binary.LittleEndian.PutUint64(cnt[8:], uint64(len(lh)))
			payload[i] = append(cnt[:], cat(th, lh)...)
		}
	}
	host := func(e *endpoint, c *Conn) {
		defer close(e.done)
		defer c.Close()
		for i, op := range ops {
			if prebad[i] != "" {
				e.violate("C16", "roots-proof-differs", prebad[i])
				return
			}
			if len(payload[i]) > 0 {
				if _, err := c.Write(payload[i]); err != nil {
					e.logf("op %d %s: write failed", i, op.kind)
					return
				}
			}
			e.logf("op %d %s served (%d bytes)", i, op.kind, len(payload[i]))
		}
	}
	renter := func(e *endpoint, c *Conn) {
		defer close(e.done)
		defer c.Close()
		bad := func(inv, f string, a ...any) { e.violate("C16", inv, fmt.Sprintf(f, a...)) }
		for i, op := range ops {
			sec, leaves := sector(op.sectorSeed)
			cs := corrs[i]
			var got bytes.Buffer
			tr := io.TeeReader(c, &got)
			// decide compares what arrived with what was sent: accepted must
			// mean unchanged, unchanged must mean accepted. It reports whether
			// the session goes on.
			decide := func(what string, accepted bool) bool {
				changed := !bytes.Equal(got.Bytes(), payload[i])
				switch {
				case changed && !s.tamperedDir(1):
					bad("harness-stream", "op %d %s: received bytes differ from the bytes sent without an injected fault", i, what)
				case changed && accepted:
					bad("tampered-accepted", "%s accepted although the stream was changed in flight (flip at byte %d bit %d)", what, s.plan.flipAt, s.plan.flipBit)
				case changed:
					e.inc("merkle.tamper-detected")
				case !accepted:
					bad("honest-rejected", "%s: honest data and proof rejected (chunking %s)", what, s.plan.chunk)
					return false
				}
				return !changed
			}
			e.inc("merkle.ops")
			e.inc("merkle." + op.kind)
			switch op.kind {
			case "sector-root":
				want := refRootOfData(sec[:op.short])
				var gotRoot types.Hash256
				var err error
				lr := io.LimitReader(tr, int64(op.short))
				mode := cs[0].which % 3
				if pn := guardPanic(func() {
					switch {
					case op.short == rhp4.SectorSize && mode == 0:
						var data *[rhp4.SectorSize]byte
						gotRoot, data, err = rhp4.ReadSector(lr)
						if err == nil && !bytes.Equal(data[:], got.Bytes()) {
							bad("read-sector-data", "ReadSector returned different sector data than arrived")
						}
					case op.short == rhp4.SectorSize && mode == 1:
						gotRoot, err = rhp4.ReadSectorRoot(lr)
					default:
						gotRoot, err = rhp4.ReaderRoot(lr)
					}
				}); pn != "" {
					// whatever the connection did to the stream, a reader answers with a root or an error
					bad("reader-root-panic", "streaming root of %d bytes (delivery %s) panicked: %s", op.short, s.plan.chunk, pn)
					return
				}
				if err != nil {
					if !s.anyFault() {
						bad("reader-root-error", "streaming root of %d bytes failed: %v", op.short, err)
					}
					return
				}
				if got.Len() < op.short && s.plan.cutHard && s.cutDone {
					// the connection failed in mid-stream (no end of stream was ever seen):
					// there is no root of such a stream
					bad("reader-root-swallowed-error", "the connection was reset after %d of %d bytes of the stream and the reader returned a root (%v) without an error", got.Len(), op.short, gotRoot)
					return
				}
				if got.Len() < op.short && s.anyFault() {
					// the stream ended early on a leaf boundary: the root of a stream is the
					// root of what it held
					held := got.Bytes()
					if op.short == rhp4.SectorSize && mode == 1 {
						// (ReadSectorRoot reads a sector: what did not arrive counts as zeros)
						held = append(append([]byte(nil), held...), make([]byte, rhp4.SectorSize-len(held))...)
					}
					if bytes.HasPrefix(payload[i], got.Bytes()) && got.Len()%64 == 0 && got.Len() > 0 && gotRoot != refRootOfData(held) {
						bad("reader-root", "streaming root of a stream that ended after %d bytes = %v, plain Merkle tree = %v", got.Len(), gotRoot, refRootOfData(held))
					}
					e.inc("merkle.stream-ended-on-leaf-boundary")
					return
				}
				if !decide(fmt.Sprintf("streaming root of %d bytes", op.short), gotRoot == want) {
					return
				}
				if op.short == rhp4.SectorSize {
					if r := rhp4.SectorRoot(sec); r != want {
						bad("sector-root", "SectorRoot = %v, plain Merkle tree = %v", r, want)
					}
				}
			case "read-range":
				v := rhp4.NewRangeProofVerifier(op.start, op.end)
				var rerr error
				if pn := guardPanic(func() { _, rerr = v.ReadFrom(tr) }); pn != "" {
					bad("reader-root-panic", "RangeProofVerifier.ReadFrom over [%d,%d) (delivery %s) panicked: %s", op.start, op.end, s.plan.chunk, pn)
					return
				}
				if err := rerr; err != nil {
					if !s.anyFault() {
						bad("range-read-error", "RangeProofVerifier.ReadFrom failed: %v", err)
					}
					return
				}
				k := int(rhp2.RangeProofSize(rhp4.LeavesPerSector, op.start, op.end))
				proof, err := readHashes(tr, k)
				defer func(v *rhp4.RangeProofVerifier, start, end uint64, sec *[rhp4.SectorSize]byte) {
					// the verifier once more, for another reading of the same range (a
					// retry): it judges what it read this time
					if s.anyFault() || len(e.viols) > 0 || err != nil {
						return
					}
					good := sec[start*64 : end*64]
					altered := append([]byte(nil), good...)
					altered[len(altered)/2] ^= 4
					_, r := sector(op.sectorSeed)
					root := ref.TreeRoot(r)
					if pn := guardPanic(func() {
						v.ReadFrom(bytes.NewReader(altered))
						if v.Verify(proof, root) {
							bad("range-proof-unsound", "a verifier used a second time accepted altered data for [%d,%d) (it had verified the genuine data before)", start, end)
						}
						v.ReadFrom(bytes.NewReader(good))
						if !v.Verify(proof, root) {
							bad("honest-rejected", "a verifier used a third time rejected the genuine data for [%d,%d)", start, end)
						}
					}); pn != "" {
						bad("range-verifier-panic", "second use of a range proof verifier: %s", pn)
					}
					e.inc("merkle.verifier-reused")
				}(v, op.start, op.end, sec)
				if err != nil {
					return
				}
				root := ref.TreeRoot(leaves)
				if !decide(fmt.Sprintf("range [%d,%d) via streaming verifier", op.start, op.end), v.Verify(proof, root)) {
					return
				}
				wantProof := refRangeProof(leaves, op.start, op.end)
				if fmt.Sprint(proof) != fmt.Sprint(wantProof) {
					bad("range-proof-differs", "BuildProof(%d,%d) differs from the range proof by definition (%d vs %d hashes)", op.start, op.end, len(proof), len(wantProof))
				}
				rangeRoots := leaves[op.start:op.end]
				if !rhp2.VerifySectorRangeProof(proof, rangeRoots, op.start, op.end, rhp4.LeavesPerSector, root) {
					bad("honest-rejected", "honest range proof [%d,%d) rejected by VerifySectorRangeProof", op.start, op.end)
				}
				// single-element corruptions, count held true
				check := func(name string, p []types.Hash256, rr []types.Hash256, st, en uint64, rt types.Hash256) {
					if en > rhp4.LeavesPerSector || st >= en || uint64(len(rr)) != en-st {
						return
					}
					if rhp2.VerifySectorRangeProof(p, rr, st, en, rhp4.LeavesPerSector, rt) {
						bad("range-proof-unsound", "range proof [%d,%d) accepted after corruption: %s", op.start, op.end, name)
					}
					e.inc("merkle.corruptions")
				}
				if len(proof) > 0 {
					check("proof hash bit", flipHash(proof, cs[1]), rangeRoots, op.start, op.end, root)
					check("proof shortened", proof[:len(proof)-1], rangeRoots, op.start, op.end, root)
				}
				check("proof lengthened", append(append([]types.Hash256(nil), proof...), types.Hash256{1}), rangeRoots, op.start, op.end, root)
				check("datum bit", proof, flipHash(rangeRoots, cs[2]), op.start, op.end, root)
				check("root bit", proof, rangeRoots, op.start, op.end, flipHash([]types.Hash256{root}, cs[3])[0])
				if op.end < rhp4.LeavesPerSector && leaves[op.start] != leaves[op.end] {
					check("range shifted right", proof, rangeRoots, op.start+1, op.end+1, root)
				}
				if op.start > 0 {
					check("range shifted left", proof, rangeRoots, op.start-1, op.end-1, root)
				}
				if len(proof) > 0 {
					v2 := rhp4.NewRangeProofVerifier(op.start, op.end)
					v2.ReadFrom(bytesReader(sec[op.start*64 : op.end*64]))
					if v2.Verify(flipHash(proof, cs[4]), root) {
						bad("range-proof-unsound", "streaming verifier accepted a range proof [%d,%d) with a corrupted hash", op.start, op.end)
					}
					v3 := rhp4.NewRangeProofVerifier(op.start, op.end)
					v3.ReadFrom(bytesReader(sec[op.start*64 : op.end*64]))
					if v3.Verify(proof[:len(proof)-1], root) {
						bad("range-proof-unsound", "streaming verifier accepted a shortened range proof [%d,%d)", op.start, op.end)
					}
				}
				v4 := rhp4.NewRangeProofVerifier(op.start, op.end)
				v4.ReadFrom(bytesReader(sec[op.start*64 : op.end*64]))
				if v4.Verify(append(append([]types.Hash256(nil), proof...), types.Hash256{7}), root) {
					bad("range-proof-unsound", "streaming verifier accepted a lengthened range proof [%d,%d)", op.start, op.end)
				}
				e.reachAdd(fmt.Sprintf("range proof=%d len=%d", len(proof), min(op.end-op.start, 40)))
			case "verify-leaf":
				var leaf [64]byte
				if _, err := io.ReadFull(tr, leaf[:]); err != nil {
					return
				}
				k := int(rhp2.RangeProofSize(rhp4.LeavesPerSector, op.start, op.start+1))
				proof, err := readHashes(tr, k)
				if err != nil {
					return
				}
				root := ref.TreeRoot(leaves)
				if !decide(fmt.Sprintf("leaf proof for leaf %d (cached-subtree builder)", op.start), rhp4.VerifyLeafProof(proof, leaf, op.start, root)) {
					return
				}
				// the consensus ordering of the same proof is the bottom-up audit path
				conv := rhp2.ConvertProofOrdering(proof, op.start)
				if fmt.Sprint(conv) != fmt.Sprint(ref.TreePath(leaves, int(op.start))) {
					bad("proof-ordering", "ConvertProofOrdering of the leaf proof for leaf %d is not the bottom-up audit path", op.start)
				}
				l2 := leaf
				l2[cs[1].pos%64] ^= 1 << cs[1].bit
				if rhp4.VerifyLeafProof(proof, l2, op.start, root) {
					bad("leaf-proof-unsound", "leaf proof for leaf %d accepted with a corrupted leaf", op.start)
				}
				if rhp4.VerifyLeafProof(flipHash(proof, cs[2]), leaf, op.start, root) {
					bad("leaf-proof-unsound", "leaf proof for leaf %d accepted with a corrupted hash", op.start)
				}
				if rhp4.VerifyLeafProof(proof, leaf, op.start^1, root) {
					bad("leaf-proof-unsound", "leaf proof for leaf %d accepted for the sibling index", op.start)
				}
				e.inc("merkle.corruptions")
			case "sector-roots":
				rng, err := readHashes(tr, int(op.end-op.start))
				if err != nil {
					return
				}
				k := int(rhp2.RangeProofSize(uint64(op.n), op.start, op.end))
				proof, err := readHashes(tr, k)
				if err != nil {
					return
				}
				roots := hashes(op.n, op.sectorSeed)
				root := ref.TreeRoot(roots)
				if m := rhp4.MetaRoot(roots); m != root {
					bad("meta-root", "MetaRoot of %d roots = %v, plain Merkle tree = %v", op.n, m, root)
				}
				if !decide(fmt.Sprintf("sector roots proof (n=%d,[%d,%d))", op.n, op.start, op.end), rhp4.VerifySectorRootsProof(proof, rng, uint64(op.n), op.start, op.end, root)) {
					return
				}
				if fmt.Sprint(proof) != fmt.Sprint(refRangeProof(roots, op.start, op.end)) {
					bad("roots-proof-differs", "BuildSectorRootsProof(n=%d,[%d,%d)) differs from the range proof by definition", op.n, op.start, op.end)
				}
				if len(proof) > 0 && rhp4.VerifySectorRootsProof(flipHash(proof, cs[1]), rng, uint64(op.n), op.start, op.end, root) {
					bad("roots-proof-unsound", "sector roots proof (n=%d,[%d,%d)) accepted with a corrupted hash", op.n, op.start, op.end)
				}
				if rhp4.VerifySectorRootsProof(proof, flipHash(rng, cs[2]), uint64(op.n), op.start, op.end, root) {
					bad("roots-proof-unsound", "sector roots proof (n=%d,[%d,%d)) accepted with a corrupted root in the range", op.n, op.start, op.end)
				}
				if len(proof) > 0 && rhp4.VerifySectorRootsProof(proof[:len(proof)-1], rng, uint64(op.n), op.start, op.end, root) {
					bad("roots-proof-unsound", "shortened sector roots proof accepted (n=%d,[%d,%d))", op.n, op.start, op.end)
				}
				if rhp4.VerifySectorRootsProof(append(append([]types.Hash256(nil), proof...), types.Hash256{}), rng, uint64(op.n), op.start, op.end, root) {
					bad("roots-proof-unsound", "lengthened sector roots proof accepted (n=%d,[%d,%d))", op.n, op.start, op.end)
				}
				if op.end == op.start+1 {
					// a single root: the consensus ordering of its proof is the bottom-up audit path
					conv := rhp2.ConvertProofOrdering(proof, op.start)
					if fmt.Sprint(conv) != fmt.Sprint(ref.TreePath(roots, int(op.start))) {
						bad("proof-ordering", "ConvertProofOrdering of the proof for root %d of %d is not the bottom-up audit path (%d hashes in, %d out)", op.start, op.n, len(proof), len(conv))
					}
					e.inc("merkle.ordering-checked")
				}
				e.inc("merkle.corruptions")
				e.reachAdd(fmt.Sprintf("roots n=%d s=%d e=%d", min(op.n, 40), min(op.start, 40), min(op.end, 40)))
			case "append":
				roots := hashes(op.n, op.sectorSeed)
				app := hashes(op.appended, op.sectorSeed+100)
				nsub := 0
				for b := op.n; b > 0; b &= b - 1 {
					nsub++
				}
				sub, err := readHashes(tr, nsub)
				if err != nil {
					return
				}
				nr, err := readHashes(tr, 1)
				if err != nil {
					return
				}
				oldRoot := ref.TreeRoot(roots)
				newRoot := ref.TreeRoot(append(append([]types.Hash256(nil), roots...), app...))
				if !decide(fmt.Sprintf("append proof (%d+%d sectors)", op.n, op.appended), nr[0] == newRoot && rhp4.VerifyAppendSectorsProof(uint64(op.n), sub, app, oldRoot, newRoot)) {
					return
				}
				// subtree roots by definition: the maximal aligned subtrees, smallest first
				pos := op.n
				var wantSub []types.Hash256
				for bit := 0; pos > 0; bit++ {
					if op.n&(1<<bit) != 0 {
						pos -= 1 << bit
						wantSub = append(wantSub, ref.TreeRoot(roots[pos:pos+1<<bit]))
					}
				}
				if fmt.Sprint(sub) != fmt.Sprint(wantSub) {
					bad("append-proof-differs", "BuildAppendProof subtree roots for %d sectors differ from the definition", op.n)
				}
				if len(sub) > 0 && rhp4.VerifyAppendSectorsProof(uint64(op.n), flipHash(sub, cs[1]), app, oldRoot, newRoot) {
					bad("append-proof-unsound", "append proof (%d+%d) accepted with a corrupted subtree root", op.n, op.appended)
				}
				if rhp4.VerifyAppendSectorsProof(uint64(op.n), sub, flipHash(app, cs[2]), oldRoot, newRoot) {
					bad("append-proof-unsound", "append proof (%d+%d) accepted with a corrupted appended root", op.n, op.appended)
				}
				if rhp4.VerifyAppendSectorsProof(uint64(op.n), sub, app, flipHash([]types.Hash256{oldRoot}, cs[3])[0], newRoot) {
					bad("append-proof-unsound", "append proof (%d+%d) accepted with a corrupted old root", op.n, op.appended)
				}
				if rhp4.VerifyAppendSectorsProof(uint64(op.n), sub, app, oldRoot, flipHash([]types.Hash256{newRoot}, cs[4])[0]) {
					bad("append-proof-unsound", "append proof (%d+%d) accepted with a corrupted new root", op.n, op.appended)
				}
				if len(sub) > 0 && rhp4.VerifyAppendSectorsProof(uint64(op.n), sub[:len(sub)-1], app, oldRoot, newRoot) {
					bad("append-proof-unsound", "shortened append proof (%d+%d) accepted", op.n, op.appended)
				}
				one := ref.TreeRoot(append(append([]types.Hash256(nil), roots...), app[0]))
				if !rhp2.VerifyAppendProof(uint64(op.n), sub, app[0], oldRoot, one) {
					bad("honest-rejected", "honest rhp/v2 append proof (%d+1) rejected", op.n)
				}
				if rhp2.VerifyAppendProof(uint64(op.n), sub, app[0], flipHash([]types.Hash256{oldRoot}, cs[3])[0], one) {
					bad("append-proof-unsound", "rhp/v2 append proof (%d+1) accepted with a corrupted old root", op.n)
				}
				if rhp2.VerifyAppendProof(uint64(op.n), sub, app[0], oldRoot, flipHash([]types.Hash256{one}, cs[4])[0]) {
					bad("append-proof-unsound", "rhp/v2 append proof (%d+1) accepted with a corrupted new root", op.n)
				}
				if rhp2.VerifyAppendProof(uint64(op.n), sub, flipHash(app[:1], cs[2])[0], oldRoot, one) {
					bad("append-proof-unsound", "rhp/v2 append proof (%d+1) accepted with a corrupted appended root", op.n)
				}
				if len(sub) > 0 && rhp2.VerifyAppendProof(uint64(op.n), flipHash(sub, cs[1]), app[0], oldRoot, one) {
					bad("append-proof-unsound", "rhp/v2 append proof (%d+1) accepted with a corrupted subtree root", op.n)
				}
				e.inc("merkle.corruptions")
				e.reachAdd(fmt.Sprintf("append n=%d k=%d", min(op.n, 40), op.appended))
			case "free":
				var cnt [16]byte
				if _, err := io.ReadFull(tr, cnt[:]); err != nil {
					return
				}
				nt, nl := binary.LittleEndian.Uint64(cnt[:8]), binary.LittleEndian.Uint64(cnt[8:])
				if nt > 1<<16 || nl > 1<<16 {
					if !s.tamperedDir(1) {
						bad("harness-stream", "free-sectors counts %d/%d without a fault", nt, nl)
					}
					return
				}
				th, err := readHashes(tr, int(nt))
				if err != nil {
					return
				}
				lh, err := readHashes(tr, int(nl))
				if err != nil {
					return
				}
				roots := hashes(op.n, op.sectorSeed)
				oldRoot := ref.TreeRoot(roots)
				// swap each freed index with the last remaining one, then trim
				after := append([]types.Hash256(nil), roots...)
				for j, f := range op.freed {
					k := len(roots) - j - 1
					after[f], after[k] = after[k], after[f]
				}
				after = after[:len(roots)-len(op.freed)]
				newRoot := ref.TreeRoot(after)
				accepted := false
				if p := guardPanic(func() { accepted = rhp4.VerifyFreeSectorsProof(th, lh, op.freed, uint64(op.n), oldRoot, newRoot) }); p != "" {
					if !s.tamperedDir(1) {
						bad("free-proof-panic", "VerifyFreeSectorsProof panicked on an honest proof: %s", p)
					}
					return
				}
				if !decide(fmt.Sprintf("free-sectors proof (n=%d, freed %v)", op.n, op.freed), accepted) {
					return
				}
				if len(th) > 0 && rhp4.VerifyFreeSectorsProof(flipHash(th, cs[1]), lh, op.freed, uint64(op.n), oldRoot, newRoot) {
					bad("free-proof-unsound", "free-sectors proof (n=%d, freed %v) accepted with a corrupted subtree hash", op.n, op.freed)
				}
				if rhp4.VerifyFreeSectorsProof(th, flipHash(lh, cs[2]), op.freed, uint64(op.n), oldRoot, newRoot) {
					bad("free-proof-unsound", "free-sectors proof (n=%d, freed %v) accepted with a corrupted leaf hash", op.n, op.freed)
				}
				if rhp4.VerifyFreeSectorsProof(th, lh, op.freed, uint64(op.n), oldRoot, flipHash([]types.Hash256{newRoot}, cs[3])[0]) {
					bad("free-proof-unsound", "free-sectors proof (n=%d, freed %v) accepted with a corrupted new root", op.n, op.freed)
				}
				if rhp4.VerifyFreeSectorsProof(th, lh, op.freed, uint64(op.n), flipHash([]types.Hash256{oldRoot}, cs[4])[0], newRoot) {
					bad("free-proof-unsound", "free-sectors proof (n=%d, freed %v) accepted with a corrupted old root", op.n, op.freed)
				}
				if len(th) > 0 && rhp4.VerifyFreeSectorsProof(th[:len(th)-1], lh, op.freed, uint64(op.n), oldRoot, newRoot) {
					bad("free-proof-unsound", "shortened free-sectors proof (n=%d, freed %v) accepted", op.n, op.freed)
				}
				if rhp4.VerifyFreeSectorsProof(append(append([]types.Hash256(nil), th...), types.Hash256{}), lh, op.freed, uint64(op.n), oldRoot, newRoot) {
					bad("free-proof-unsound", "lengthened free-sectors proof (n=%d, freed %v) accepted", op.n, op.freed)
				}
				e.inc("merkle.corruptions")
				e.reachAdd(fmt.Sprintf("free n=%d k=%d", min(op.n, 40), len(op.freed)))
			case "diff":
				// rhp/v2 diff proofs for a sequence of swap / trim / append actions, no stream involved
				roots := hashes(op.n, op.sectorSeed)
				model := append([]types.Hash256(nil), roots...)
				var actions []rhp2.RPCWriteAction
				var appendRoots []types.Hash256
				trimmedAppend := false // an appended root may have been trimmed away again: no longer a covered datum
				desc := ""
				for j := 0; j < 1+cs[0].bit%4; j++ {
					c := cs[j%len(cs)]
					switch k := (c.which + j) % 3; {
					case k == 0 && len(model) >= 2:
						a, b := uint64(c.which%len(model)), uint64(c.pos%len(model))
						actions = append(actions, rhp2.RPCWriteAction{Type: rhp2.RPCWriteActionSwap, A: a, B: b})
						model[a], model[b] = model[b], model[a]
						desc += fmt.Sprintf(" swap(%d,%d)", a, b)
					case k == 1 && len(model) >= 1:
						tr := uint64(1 + c.pos%min(len(model), 3))
						trimmedAppend = trimmedAppend || len(appendRoots) > 0
						actions = append(actions, rhp2.RPCWriteAction{Type: rhp2.RPCWriteActionTrim, A: tr})
						model = model[:uint64(len(model))-tr]
						desc += fmt.Sprintf(" trim(%d)", tr)
					default:
						r := hashes(1, op.sectorSeed+uint64(200+j))[0]
						actions = append(actions, rhp2.RPCWriteAction{Type: rhp2.RPCWriteActionAppend})
						appendRoots = append(appendRoots, r)
						model = append(model, r)
						desc += " append"
					}
				}
				desc = fmt.Sprintf("n=%d%s", op.n, desc)
				var th, lh []types.Hash256
				if p := guardPanic(func() { th, lh = rhp2.BuildDiffProof(actions, roots) }); p != "" {
					bad("diff-proof-panic", "BuildDiffProof panicked for %s: %s", desc, p)
					continue
				}
				oldRoot, newRoot := ref.TreeRoot(roots), ref.TreeRoot(model)
				if uint64(len(th)+len(lh)) != rhp2.DiffProofSize(actions, uint64(op.n)) {
					bad("diff-proof-size", "DiffProofSize disagrees with BuildDiffProof for %s", desc)
				}
				accepted := false
				if p := guardPanic(func() { accepted = rhp2.VerifyDiffProof(actions, uint64(op.n), th, lh, oldRoot, newRoot, appendRoots) }); p != "" {
					bad("diff-proof-panic", "VerifyDiffProof panicked on an honest proof for %s: %s", desc, p)
					continue
				}
				if !accepted {
					bad("honest-rejected", "honest diff proof rejected: %s", desc)
				}
				if len(th) > 0 && rhp2.VerifyDiffProof(actions, uint64(op.n), flipHash(th, cs[2]), lh, oldRoot, newRoot, appendRoots) {
					bad("diff-proof-unsound", "diff proof accepted with a corrupted tree hash: %s", desc)
				}
				if len(lh) > 0 && rhp2.VerifyDiffProof(actions, uint64(op.n), th, flipHash(lh, cs[3]), oldRoot, newRoot, appendRoots) {
					bad("diff-proof-unsound", "diff proof accepted with a corrupted leaf hash: %s", desc)
				}
				if rhp2.VerifyDiffProof(actions, uint64(op.n), th, lh, oldRoot, flipHash([]types.Hash256{newRoot}, cs[4])[0], appendRoots) {
					bad("diff-proof-unsound", "diff proof accepted with a corrupted new root: %s", desc)
				}
				if op.n > 0 && rhp2.VerifyDiffProof(actions, uint64(op.n), th, lh, flipHash([]types.Hash256{oldRoot}, cs[1])[0], newRoot, appendRoots) {
					bad("diff-proof-unsound", "diff proof accepted against a different old root: %s", desc)
				}
				if len(appendRoots) > 0 && !trimmedAppend && rhp2.VerifyDiffProof(actions, uint64(op.n), th, lh, oldRoot, newRoot, flipHash(appendRoots, cs[5])) {
					bad("diff-proof-unsound", "diff proof accepted with a corrupted appended root: %s", desc)
				}
				e.inc("merkle.corruptions")
				e.reachAdd(fmt.Sprintf("diff n=%d actions=%d", min(op.n, 40), len(actions)))
			}
			e.logf("op %d %s verified", i, op.kind)
		}
	}
	go renter(s.ea, s.a)
	go host(s.eb, s.b)
}

type sliceReader struct {
	b []byte
}

func (r *sliceReader) Read(p []byte) (int, error) {
	if len(r.b) == 0 {
		return 0, io.EOF
	}
	n := copy(p, r.b)
	r.b = r.b[n:]
	return n, nil
}

func bytesReader(b []byte) io.Reader { return &sliceReader{b} }
