package sess

import (
	"bytes"
	"encoding/binary"
	"errors"
	"fmt"
	"io"
	"math/big"
	"strings"
	"time"

	"go.sia.tech/core/consensus"
	rhp2 "go.sia.tech/core/rhp/v2"
	rhp3 "go.sia.tech/core/rhp/v3"
	rhp4 "go.sia.tech/core/rhp/v4"
	"go.sia.tech/core/types"
	"verif/ref"
	"verif/sim"
)

// Contract-life session (C17): a renter and a host task run a v2 contract
// through formation, revisions, renewals and refreshes over the simulated
// connection with the real request objects, Validate methods, constructors and
// cost functions; every resulting transaction is validated and mined on a
// private chain with the real consensus code. The oracle is big-integer
// accounting written from the property's identities.

type cop struct {
	kind string
	r    [6]int // raw choices; the renter resolves them against the contract as it stands
}

type party struct {
	sk   types.PrivateKey
	pk   types.PublicKey
	pol  types.SpendPolicy
	addr types.Address
}

func newParty(label string, salt uint64) *party {
	sk := types.NewPrivateKeyFromSeed(sim.HashBytes(label, salt, 0, 32))
	p := &party{sk: sk, pk: sk.PublicKey()}
	p.pol = types.PolicyPublicKey(p.pk)
	p.addr = p.pol.Address()
	return p
}

func (p *party) signInputs(cs consensus.State, txn *types.V2Transaction) {
	h := cs.InputSigHash(*txn)
	for i := range txn.SiacoinInputs {
		if txn.SiacoinInputs[i].Parent.SiacoinOutput.Address == p.addr {
			txn.SiacoinInputs[i].SatisfiedPolicy = types.SatisfiedPolicy{Policy: p.pol, Signatures: []types.Signature{p.sk.SignHash(h)}}
		}
	}
}

// fund adds inputs of p worth at least amount and a change output; false if p cannot.
func (c *miniChain) fund(txn *types.V2Transaction, p *party, amount types.Currency) bool {
	if amount.IsZero() {
		return true
	}
	var got types.Currency
	for _, e := range c.ownedBy(p.addr) {
		txn.SiacoinInputs = append(txn.SiacoinInputs, types.V2SiacoinInput{Parent: e.Copy()})
		got = got.Add(e.SiacoinOutput.Value)
		if got.Cmp(amount) >= 0 {
			if ch := got.Sub(amount); !ch.IsZero() {
				txn.SiacoinOutputs = append(txn.SiacoinOutputs, types.SiacoinOutput{Value: ch, Address: p.addr})
			}
			return true
		}
	}
	return false
}

var curScale = []types.Currency{types.ZeroCurrency, types.NewCurrency64(1), types.NewCurrency64(1000), types.NewCurrency64(1e9), types.NewCurrency64(1e15), types.Siacoins(1).Div64(1000), types.Siacoins(1), types.Siacoins(50)}

func drawCur(t *sim.Tape, lo, hi int) types.Currency {
	c := curScale[t.Range(lo, hi)]
	return c.Mul64(uint64(t.Range(1, 9))).Add(types.NewCurrency64(uint64(t.Choose(3))))
}

func drawContractOps(t *sim.Tape) []cop {
	ops := []cop{{kind: "form"}}
	n := t.Range(3, 10)
	for i := 0; i < n; i++ {
		k := pick(t, "append", "append", "append", "free", "roots", "fund", "fund", "replenish", "renew", "refresh-full", "refresh-partial", "fund-exact", "fund-over", "replenish-exact", "replenish-over", "expired-prices", "bad-prices-sig", "append-big", "hostile", "hostile-host")
		if i == n-1 && t.Chance(1, 4) {
			// the last thing that happens: the renter comes back with a stale price
			// table and basis when the chain has (nearly or fully) reached the proof height
			k = pick(t, "late-renew", "late-refresh-full", "late-refresh-partial")
		}
		ops = append(ops, cop{kind: k})
	}
	for i := range ops {
		for j := range ops[i].r {
			ops[i].r[j] = t.Choose(1 << 20)
		}
	}
	return ops
}

// ack is what the host answers with.
type ack struct {
	sig types.Signature // over the contract / renewal the host derived
	err *rhp4.RPCError
}

func runContractV2(s *Session, ops []cop) {
	t := s.t
	renter, host := newParty("c17-renter", uint64(t.Choose(1<<16))), newParty("c17-host", uint64(t.Choose(1<<16)))
	gifts := []types.SiacoinOutput{}
	for i := 0; i < 12; i++ {
		gifts = append(gifts, types.SiacoinOutput{Value: types.Siacoins(uint32(2000 + 500*i)), Address: renter.addr}, types.SiacoinOutput{Value: types.Siacoins(uint32(30000 + 500*i)), Address: host.addr})
	}
	chain, cerr := newMiniChain(true, gifts)
	if cerr != nil {
		s.violate("HARNESS", "mini-chain", cerr.Error())
		return
	}
	// the host's price table
	base := rhp4.HostPrices{
		ContractPrice:   drawCur(t, 0, 6),
		Collateral:      drawCur(t, 0, 4).Div64(uint64(pick(t, 1, 1, 1000, 1<<22))), // per byte and block: up to ~1e15 H, where a few sectors risk whole siacoins
		StoragePrice:    drawCur(t, 0, 4).Div64(uint64(pick(t, 1, 1, 1000, 1<<22))),
		IngressPrice:    drawCur(t, 0, 2),
		EgressPrice:     drawCur(t, 0, 2),
		FreeSectorPrice: drawCur(t, 0, 4),
	}
	validFor := time.Duration(t.Range(600, 7200)) * time.Second
	maxCollateral := types.Siacoins(uint32(pick(t, 1, 100, 5000, 20000)))
	maxDuration := uint64(pick(t, 200, 1000, 50000))
	minerFee := drawCur(t, 1, 5)
	prices := func(kind string) rhp4.HostPrices {
		p := base
		p.TipHeight = chain.s.Index.Height
		p.ValidUntil = time.Now().Add(validFor)
		if kind == "expired-prices" {
			p.ValidUntil = time.Now().Add(-time.Second)
		}
		p.Signature = host.sk.SignHash(p.SigHash())
		if kind == "bad-prices-sig" {
			p.Signature[7] ^= 1
		}
		return p
	}

	// ---- shared between the tasks, guarded by the request/response alternation
	var fcid types.FileContractID
	roots := []types.Hash256{}

	hostTask := func(e *endpoint, c *Conn) {
		defer close(e.done)
		defer c.Close()
		bad := func(inv, f string, a ...any) { e.violate("C17", inv, fmt.Sprintf(f, a...)) }
		reply := func(o rhp4.Object, err error) bool {
			if err != nil {
				var re *rhp4.RPCError
				if !errors.As(err, &re) {
					re = rhp4.NewRPCError(rhp4.ErrorCodeBadRequest, err.Error()).(*rhp4.RPCError)
				}
				return rhp4.WriteResponse(c, re) == nil
			}
			return rhp4.WriteResponse(c, o) == nil
		}
		sigResp := func(sig types.Signature) rhp4.Object { return &rhp4.RPCFundAccountsResponse{HostSignature: sig} }
		// validate + mine one transaction; a refusal by consensus is the violation
		settle := func(what string, txn types.V2Transaction) bool {
			ms := consensus.NewMidState(chain.s)
			if err := consensus.ValidateV2Transaction(ms, txn); err != nil {
				bad("consensus-rejects", "%s: the transaction built from the constructor's result is rejected by ValidateV2Transaction: %v", what, err)
				return false
			}
			if err := chain.mine(nil, []types.V2Transaction{txn}); err != nil {
				bad("consensus-rejects", "%s: block with the transaction rejected: %v", what, err)
				return false
			}
			e.inc("c17.mined")
			return true
		}
		revise := func(what string, rev types.V2FileContract) (types.Signature, bool) {
			el, ok := chain.v2fcs[fcid]
			if !ok {
				return types.Signature{}, false
			}
			h := chain.s.ContractSigHash(rev)
			rev.RenterSignature, rev.HostSignature = renter.sk.SignHash(h), host.sk.SignHash(h)
			txn := types.V2Transaction{FileContractRevisions: []types.V2FileContractRevision{{Parent: el.Copy(), Revision: rev}}}
			return rev.HostSignature, settle(what, txn)
		}
		// a request is untrusted input: Validate must come back with a verdict
		validate := func(what string, fn func() error) (err error) {
			if pn := guardPanic(func() { err = fn() }); pn != "" {
				bad("validate-panic", "%s: Validate panicked on a request a renter can send: %s", what, pn)
				return rhp4.NewRPCError(rhp4.ErrorCodeBadRequest, "panic")
			}
			return err
		}
		for {
			id, err := rhp4.ReadID(c)
			if err != nil {
				return
			}
			cur := chain.v2fcs[fcid].V2FileContract
			tip := chain.s.Index
			switch id {
			case rhp4.RPCFormContractID:
				var req rhp4.RPCFormContractRequest
				if rhp4.ReadRequest(c, &req) != nil {
					return
				}
				if err := validate(fmt.Sprintf("form request (allowance %v, collateral %v, proof height %d)", req.Contract.Allowance, req.Contract.Collateral, req.Contract.ProofHeight), func() error { return req.Validate(host.pk, tip, maxCollateral, maxDuration) }); err != nil {
					e.inc("c17.rejected-by-validate")
					if !reply(nil, err) {
						return
					}
					continue
				}
				var fc types.V2FileContract
				var rc, hc types.Currency
				if pn := guardPanic(func() {
					fc, _ = rhp4.NewContract(req.Prices, req.Contract, host.pk, host.addr)
					rc, hc = rhp4.ContractCost(chain.s, fc, req.MinerFee)
				}); pn != "" {
					bad("constructor-panic", "form request (allowance %v, collateral %v, fee %v) passed Validate, then NewContract / ContractCost panicked: %s", req.Contract.Allowance, req.Contract.Collateral, req.MinerFee, pn)
					reply(nil, rhp4.NewRPCError(rhp4.ErrorCodeHostError, "panic"))
					return
				}
				h := chain.s.ContractSigHash(fc)
				fc.RenterSignature, fc.HostSignature = renter.sk.SignHash(h), host.sk.SignHash(h)
				txn := types.V2Transaction{FileContracts: []types.V2FileContract{fc}, MinerFee: req.MinerFee}
				if !chain.fund(&txn, renter, rc) || !chain.fund(&txn, host, hc) {
					reply(nil, rhp4.NewRPCError(rhp4.ErrorCodeHostError, "cannot fund"))
					continue
				}
				renter.signInputs(chain.s, &txn)
				host.signInputs(chain.s, &txn)
				if !settle(fmt.Sprintf("formation (allowance %v, collateral %v, contract price %v)", req.Contract.Allowance, req.Contract.Collateral, req.Prices.ContractPrice), txn) {
					reply(nil, rhp4.NewRPCError(rhp4.ErrorCodeHostError, "consensus"))
					return
				}
				fcid = txn.V2FileContractID(txn.ID(), 0)
				if !reply(sigResp(fc.HostSignature), nil) {
					return
				}
			case rhp4.RPCAppendSectorsID:
				var req rhp4.RPCAppendSectorsRequest
				if rhp4.ReadRequest(c, &req) != nil {
					return
				}
				if err := req.Validate(host.pk); err != nil {
					e.inc("c17.rejected-by-validate")
					if !reply(nil, err) {
						return
					}
					continue
				}
				nr := append(append([]types.Hash256(nil), roots...), req.Sectors...)
				rev, _, err := rhp4.ReviseForAppendSectors(cur, req.Prices, rhp4.MetaRoot(nr), uint64(len(req.Sectors)))
				if err != nil {
					e.inc("c17.insufficient")
					if !reply(nil, err) {
						return
					}
					continue
				}
				sig, ok := revise(fmt.Sprintf("append of %d sectors (filesize %d capacity %d)", len(req.Sectors), cur.Filesize, cur.Capacity), rev)
				if !ok {
					reply(nil, rhp4.NewRPCError(rhp4.ErrorCodeHostError, "consensus"))
					return
				}
				roots = nr
				if !reply(sigResp(sig), nil) {
					return
				}
			case rhp4.RPCFreeSectorsID:
				var req rhp4.RPCFreeSectorsRequest
				if rhp4.ReadRequest(c, &req) != nil {
					return
				}
				if err := req.Validate(host.pk, cur); err != nil {
					e.inc("c17.rejected-by-validate")
					if !reply(nil, err) {
						return
					}
					continue
				}
				nr := append([]types.Hash256(nil), roots...)
				for j, f := range req.Indices {
					k := len(roots) - j - 1
					nr[f], nr[k] = nr[k], nr[f]
				}
				nr = nr[:len(roots)-len(req.Indices)]
				rev, _, err := rhp4.ReviseForFreeSectors(cur, req.Prices, rhp4.MetaRoot(nr), len(req.Indices))
				if err != nil {
					e.inc("c17.insufficient")
					if !reply(nil, err) {
						return
					}
					continue
				}
				sig, ok := revise(fmt.Sprintf("free of %d sectors", len(req.Indices)), rev)
				if !ok {
					reply(nil, rhp4.NewRPCError(rhp4.ErrorCodeHostError, "consensus"))
					return
				}
				roots = nr
				if !reply(sigResp(sig), nil) {
					return
				}
			case rhp4.RPCSectorRootsID:
				var req rhp4.RPCSectorRootsRequest
				if rhp4.ReadRequest(c, &req) != nil {
					return
				}
				if err := req.Validate(host.pk, cur); err != nil {
					e.inc("c17.rejected-by-validate")
					if !reply(nil, err) {
						return
					}
					continue
				}
				rev, _, err := rhp4.ReviseForSectorRoots(cur, req.Prices, req.Length)
				if err != nil {
					e.inc("c17.insufficient")
					if !reply(nil, err) {
						return
					}
					continue
				}
				sig, ok := revise(fmt.Sprintf("sector roots (%d)", req.Length), rev)
				if !ok {
					reply(nil, rhp4.NewRPCError(rhp4.ErrorCodeHostError, "consensus"))
					return
				}
				if !reply(sigResp(sig), nil) {
					return
				}
			case rhp4.RPCFundAccountsID, rhp4.RPCReplenishAccountsID:
				var amount types.Currency
				if id == rhp4.RPCFundAccountsID {
					var req rhp4.RPCFundAccountsRequest
					if rhp4.ReadRequest(c, &req) != nil {
						return
					}
					if err := req.Validate(); err != nil {
						e.inc("c17.rejected-by-validate")
						if !reply(nil, err) {
							return
						}
						continue
					}
					for _, d := range req.Deposits {
						amount = amount.Add(d.Amount)
					}
				} else {
					var req rhp4.RPCReplenishAccountsRequest
					if rhp4.ReadRequest(c, &req) != nil {
						return
					}
					if err := req.Validate(); err != nil {
						e.inc("c17.rejected-by-validate")
						if !reply(nil, err) {
							return
						}
						continue
					}
					for _, a := range req.Accounts {
						if a[0] != 255 { // accounts marked 255 are already at the target, the others empty
							amount = amount.Add(req.Target)
						}
					}
				}
				var rev types.V2FileContract
				var err error
				if id == rhp4.RPCFundAccountsID {
					rev, _, err = rhp4.ReviseForFundAccounts(cur, amount)
				} else {
					rev, _, err = rhp4.ReviseForReplenish(cur, amount)
				}
				if err != nil {
					e.inc("c17.insufficient")
					if !reply(nil, err) {
						return
					}
					continue
				}
				sig, ok := revise(fmt.Sprintf("account funding of %v", amount), rev)
				if !ok {
					reply(nil, rhp4.NewRPCError(rhp4.ErrorCodeHostError, "consensus"))
					return
				}
				if !reply(sigResp(sig), nil) {
					return
				}
			case rhp4.RPCRenewContractID, rhp4.RPCRefreshContractID, rhp4.RPCRefreshPartialID:
				var renewal types.V2FileContractRenewal
				var fee types.Currency
				var rc, hc types.Currency
				what := ""
				if id == rhp4.RPCRenewContractID {
					var req rhp4.RPCRenewContractRequest
					if rhp4.ReadRequest(c, &req) != nil {
						return
					}
					if err := validate(fmt.Sprintf("renew request (allowance %v, collateral %v, proof height %d; contract filesize %d)", req.Renewal.Allowance, req.Renewal.Collateral, req.Renewal.ProofHeight, cur.Filesize), func() error { return req.Validate(host.pk, tip, cur, maxCollateral, maxDuration) }); err != nil {
						e.inc("c17.rejected-by-validate")
						if !reply(nil, err) {
							return
						}
						continue
					}
					if pn := guardPanic(func() {
						renewal, _ = rhp4.RenewContract(cur, req.Prices, host.addr, req.Renewal)
						rc, hc = rhp4.RenewalCost(chain.s, renewal, req.MinerFee)
					}); pn != "" {
						bad("constructor-panic", "renew request (allowance %v, collateral %v, proof height %d) passed Validate, then RenewContract / RenewalCost panicked: %s", req.Renewal.Allowance, req.Renewal.Collateral, req.Renewal.ProofHeight, pn)
						reply(nil, rhp4.NewRPCError(rhp4.ErrorCodeHostError, "panic"))
						return
					}
					fee = req.MinerFee
					what = fmt.Sprintf("renewal (allowance %v, collateral %v, proof height %d; old renter %v host %v total collateral %v filesize %d)", req.Renewal.Allowance, req.Renewal.Collateral, req.Renewal.ProofHeight, cur.RenterOutput.Value, cur.HostOutput.Value, cur.TotalCollateral, cur.Filesize)
				} else {
					partial := id == rhp4.RPCRefreshPartialID
					var req rhp4.RPCRefreshContractRequest
					if rhp4.ReadRequest(c, &req) != nil {
						return
					}
					if err := validate(fmt.Sprintf("refresh request partial=%v (allowance %v, collateral %v; contract total collateral %v missed %v)", partial, req.Refresh.Allowance, req.Refresh.Collateral, cur.TotalCollateral, cur.MissedHostValue), func() error { return req.Validate(host.pk, tip, cur, maxCollateral, partial) }); err != nil {
						e.inc("c17.rejected-by-validate")
						if !reply(nil, err) {
							return
						}
						continue
					}
					if pn := guardPanic(func() {
						if partial {
							renewal, _ = rhp4.RefreshContractPartialRollover(cur, req.Prices, host.addr, req.Refresh)
						} else {
							renewal, _ = rhp4.RefreshContractFullRollover(cur, req.Prices, host.addr, req.Refresh)
						}
						rc, hc = rhp4.RefreshCost(chain.s, req.Prices, renewal, req.MinerFee)
					}); pn != "" {
						bad("constructor-panic", "refresh request partial=%v (allowance %v, collateral %v) passed Validate, then the refresh constructor / RefreshCost panicked: %s", partial, req.Refresh.Allowance, req.Refresh.Collateral, pn)
						reply(nil, rhp4.NewRPCError(rhp4.ErrorCodeHostError, "panic"))
						return
					}
					fee = req.MinerFee
					what = fmt.Sprintf("refresh partial=%v (allowance %v, collateral %v; old renter %v host %v missed %v total collateral %v)", partial, req.Refresh.Allowance, req.Refresh.Collateral, cur.RenterOutput.Value, cur.HostOutput.Value, cur.MissedHostValue, cur.TotalCollateral)
				}
				el := chain.v2fcs[fcid]
				h := chain.s.ContractSigHash(renewal.NewContract)
				renewal.NewContract.RenterSignature, renewal.NewContract.HostSignature = renter.sk.SignHash(h), host.sk.SignHash(h)
				rh := chain.s.RenewalSigHash(renewal)
				renewal.RenterSignature, renewal.HostSignature = renter.sk.SignHash(rh), host.sk.SignHash(rh)
				txn := types.V2Transaction{FileContractResolutions: []types.V2FileContractResolution{{Parent: el.Copy(), Resolution: &renewal}}, MinerFee: fee}
				if !chain.fund(&txn, renter, rc) || !chain.fund(&txn, host, hc) {
					reply(nil, rhp4.NewRPCError(rhp4.ErrorCodeHostError, "cannot fund"))
					continue
				}
				renter.signInputs(chain.s, &txn)
				host.signInputs(chain.s, &txn)
				if !settle(what, txn) {
					reply(nil, rhp4.NewRPCError(rhp4.ErrorCodeHostError, "consensus"))
					return
				}
				fcid = fcid.V2RenewalID()
				if !reply(sigResp(renewal.HostSignature), nil) {
					return
				}
			default:
				return
			}
		}
	}

	renterTask := func(e *endpoint, c *Conn) {
		defer close(e.done)
		defer c.Close()
		bad := func(inv, f string, a ...any) { e.violate("C17", inv, fmt.Sprintf(f, a...)) }
		// call sends the request and reads the host's answer
		call := func(id types.Specifier, req rhp4.Object) (types.Signature, *rhp4.RPCError, bool) {
			if rhp4.WriteRequest(c, id, req) != nil {
				return types.Signature{}, nil, false
			}
			var resp rhp4.RPCFundAccountsResponse
			err := rhp4.ReadResponse(c, &resp)
			var re *rhp4.RPCError
			if errors.As(err, &re) {
				return types.Signature{}, re, true
			} else if err != nil {
				return types.Signature{}, nil, false
			}
			return resp.HostSignature, nil, true
		}
		// revision accounting by definition
		checkRevision := func(what string, old, rev types.V2FileContract, usage rhp4.Usage) {
			cost, risk := usage.RenterCost(), usage.RiskedCollateral
			if sumBig(rev.RenterOutput.Value, rev.HostOutput.Value).Cmp(sumBig(old.RenterOutput.Value, old.HostOutput.Value)) != 0 {
				bad("revision-total", "%s: renter+host outputs changed from %v to %v", what, sumBig(old.RenterOutput.Value, old.HostOutput.Value), sumBig(rev.RenterOutput.Value, rev.HostOutput.Value))
			}
			if new(big.Int).Sub(bi(old.RenterOutput.Value), bi(rev.RenterOutput.Value)).Cmp(bi(cost)) != 0 {
				bad("revision-renter-charge", "%s: renter output went from %v to %v, reported usage costs %v", what, old.RenterOutput.Value, rev.RenterOutput.Value, cost)
			}
			if new(big.Int).Sub(bi(old.MissedHostValue), bi(rev.MissedHostValue)).Cmp(bi(risk)) != 0 {
				bad("revision-collateral-risk", "%s: missed host value went from %v to %v, reported risked collateral %v", what, old.MissedHostValue, rev.MissedHostValue, risk)
			}
			if rev.MissedHostValue.Cmp(old.MissedHostValue) > 0 {
				bad("revision-raises-missed-host", "%s: missed host value raised from %v to %v", what, old.MissedHostValue, rev.MissedHostValue)
			}
			if rev.TotalCollateral != old.TotalCollateral {
				bad("revision-total-collateral", "%s: total collateral changed from %v to %v", what, old.TotalCollateral, rev.TotalCollateral)
			}
			if rev.RevisionNumber != old.RevisionNumber+1 {
				bad("revision-number", "%s: revision number %d -> %d", what, old.RevisionNumber, rev.RevisionNumber)
			}
			e.inc("c17.revision-checked")
		}
		// what a failed constructor must mean
		checkInsufficient := func(what string, old types.V2FileContract, cost, risk *big.Int, err error) {
			short := bi(old.RenterOutput.Value).Cmp(cost) < 0 || bi(old.MissedHostValue).Cmp(risk) < 0
			if err != nil && !short {
				bad("spurious-insufficient-funds", "%s: constructor failed (%v) although renter output %v covers %v and missed host value %v covers %v", what, err, old.RenterOutput.Value, cost, old.MissedHostValue, risk)
			} else if err == nil && short {
				bad("overdraft-accepted", "%s: constructor succeeded although renter output %v / missed host value %v do not cover %v / %v", what, old.RenterOutput.Value, old.MissedHostValue, cost, risk)
			}
		}
		mul := func(c types.Currency, xs ...uint64) *big.Int {
			r := bi(c)
			for _, x := range xs {
				r.Mul(r, new(big.Int).SetUint64(x))
			}
			return r
		}
		fits := func(xs ...*big.Int) bool {
			lim := new(big.Int).Lsh(big.NewInt(1), 127)
			for _, x := range xs {
				if x.Cmp(lim) >= 0 {
					return false
				}
			}
			return true
		}
		for i, op := range ops {
			cur := chain.v2fcs[fcid].V2FileContract
			tip := chain.s.Index
			p := prices(op.kind)
			wantValidateErr := op.kind == "expired-prices" || op.kind == "bad-prices-sig"
			kind := op.kind
			if wantValidateErr {
				kind = "append"
			}
			basis := tip
			if strings.HasPrefix(kind, "late-") {
				kind = strings.TrimPrefix(kind, "late-")
				target := cur.ProofHeight - min(cur.ProofHeight, 24) + uint64(op.r[5]%30)
				for chain.s.Index.Height < target && chain.s.Index.Height < tip.Height+400 {
					if chain.mine(nil, nil) != nil {
						return
					}
				}
				tip = chain.s.Index // what the parties see now; p and basis are the renter's stale ones
				e.inc("c17.late-request")
			}
			e.inc("c17.op." + op.kind)
			{
				// a payment out of the contract as it stands, with one side or the other
				// possibly short: it happens whole or not at all
				fc := cur
				part := func(c types.Currency, r int) types.Currency {
					switch r % 5 {
					case 0:
						return c
					case 1:
						return c.Add(types.NewCurrency64(1))
					case 2:
						return types.ZeroCurrency
					}
					return c.Div64(uint64(2 + r%7))
				}
				u := rhp4.Usage{RPC: part(cur.RenterOutput.Value, op.r[4]).Div64(2), Storage: part(cur.RenterOutput.Value, op.r[4]).Sub(part(cur.RenterOutput.Value, op.r[4]).Div64(2)), RiskedCollateral: part(cur.MissedHostValue, op.r[5])}
				cost, risk := sumBig(u.RPC, u.Storage), bi(u.RiskedCollateral)
				before := encObj(fc)
				var perr error
				if pn := guardPanic(func() { perr = rhp4.PayWithContract(&fc, u) }); pn != "" {
					bad("constructor-panic", "PayWithContract(%+v): %s", u, pn)
				} else {
					checkInsufficient("PayWithContract", cur, cost, risk, perr)
					if perr != nil && !bytes.Equal(encObj(fc), before) {
						bad("failed-payment-changed-contract", "PayWithContract refused a usage of %v with %v at risk (renter output %v, missed host value %v: %v) and left the contract changed: renter %v host %v missed %v revision %d", cost, risk, cur.RenterOutput.Value, cur.MissedHostValue, perr, fc.RenterOutput.Value, fc.HostOutput.Value, fc.MissedHostValue, fc.RevisionNumber)
					} else if perr == nil {
						checkRevision("PayWithContract", cur, fc, u)
					} else {
						e.inc("c17.payment-refused-whole")
					}
				}
			}
			switch kind {
			case "form":
				cp := rhp4.RPCFormContractParams{RenterPublicKey: renter.pk, RenterAddress: renter.addr,
					Allowance: types.Siacoins(uint32(1 + op.r[0]%400)).Add(types.NewCurrency64(uint64(op.r[1] % 7))), ProofHeight: tip.Height + rhp4.MinContractDuration + uint64(op.r[2]%150)}
				cp.Collateral = safeMaxCollateral(p, cp.Allowance)
				switch op.r[3] % 4 {
				case 0:
					cp.Collateral = types.ZeroCurrency
				case 1:
					cp.Collateral = cp.Collateral.Div64(2)
				}
				if cp.Collateral.Cmp(maxCollateral) > 0 {
					cp.Collateral = maxCollateral
				}
				ins := chain.ownedBy(renter.addr)
				req := &rhp4.RPCFormContractRequest{Prices: p, Contract: cp, MinerFee: minerFee, Basis: tip, RenterInputs: ins[:1]}
				verr := req.Validate(host.pk, tip, maxCollateral, maxDuration)
				fc, usage := rhp4.NewContract(p, cp, host.pk, host.addr)
				rc, hc := rhp4.ContractCost(chain.s, fc, minerFee)
				// costs fund the contract, its tax and the fee exactly
				need := sumBig(fc.RenterOutput.Value, fc.HostOutput.Value, chain.s.V2FileContractTax(fc), minerFee)
				if sumBig(rc, hc).Cmp(need) != 0 {
					bad("formation-cost", "ContractCost renter %v + host %v != contract %v + tax + fee = %v", rc, hc, sumBig(fc.RenterOutput.Value, fc.HostOutput.Value), need)
				}
				if usage.RenterCost() != p.ContractPrice || fc.HostOutput.Value != cp.Collateral.Add(p.ContractPrice) || fc.RenterOutput.Value != cp.Allowance || fc.TotalCollateral != cp.Collateral || fc.MissedHostValue != cp.Collateral {
					bad("formation-fields", "NewContract(allowance %v, collateral %v, contract price %v) = renter %v host %v missed %v total collateral %v usage %v", cp.Allowance, cp.Collateral, p.ContractPrice, fc.RenterOutput.Value, fc.HostOutput.Value, fc.MissedHostValue, fc.TotalCollateral, usage.RenterCost())
				}
				sig, rerr, ok := call(rhp4.RPCFormContractID, req)
				if !ok {
					return
				}
				if (rerr != nil) != (verr != nil) && (rerr == nil || rerr.Description != "cannot fund") {
					bad("validate-disagreement", "formation: renter-side Validate says %v, host answered %v", verr, rerr)
				}
				if rerr != nil {
					e.logf("op %d form refused: %s", i, rerr.Description)
					return
				}
				if !host.pk.VerifyHash(chain.s.ContractSigHash(fc), sig) {
					bad("parties-disagree", "formation: the host signed a different contract than the renter derived from the same request")
				}
				e.logf("op %d formed allowance=%v collateral=%v", i, cp.Allowance, cp.Collateral)
			case "append", "append-big":
				n := 1 + op.r[0]%3
				if kind == "append-big" {
					n = 1 + op.r[0]%40
				}
				if op.r[1]%5 == 0 && cur.Capacity > cur.Filesize {
					n = int((cur.Capacity - cur.Filesize) / rhp4.SectorSize) // exactly the free capacity
					if n == 0 {
						n = 1
					}
				}
				req := &rhp4.RPCAppendSectorsRequest{Prices: p, Sectors: hashes(n, uint64(i+1)*1000), ContractID: fcid}
				verr := req.Validate(host.pk)
				if wantValidateErr != (verr != nil) {
					bad("prices-validate", "append with %s: Validate returned %v", op.kind, verr)
				}
				var rev types.V2FileContract
				var usage rhp4.Usage
				var cerr error
				if verr == nil {
					nr := append(append([]types.Hash256(nil), roots...), req.Sectors...)
					growth := uint64(n) - min(uint64(n), (cur.Capacity-cur.Filesize)/rhp4.SectorSize)
					dur := cur.ExpirationHeight - p.TipHeight
					wantStorage, wantRisk := mul(p.StoragePrice, rhp4.SectorSize, growth, dur), mul(p.Collateral, rhp4.SectorSize, growth, dur)
					if !fits(wantStorage, wantRisk) {
						continue
					}
					if pn := guardPanic(func() { rev, usage, cerr = rhp4.ReviseForAppendSectors(cur, p, rhp4.MetaRoot(nr), uint64(n)) }); pn != "" {
						bad("constructor-panic", "ReviseForAppendSectors: %s", pn)
						return
					}
					// what the price table's cost function asks for the capacity growth
					cost := bi(p.RPCAppendSectorsCost(growth, dur).RenterCost())
					checkInsufficient(fmt.Sprintf("append of %d sectors", n), cur, cost, wantRisk, cerr)
					if cerr == nil {
						if bi(usage.Storage).Cmp(wantStorage) != 0 || bi(usage.RiskedCollateral).Cmp(wantRisk) != 0 {
							bad("append-usage", "append of %d sectors (free capacity %d sectors, %d blocks left): storage %v risked %v, by the price table %v / %v", n, (cur.Capacity-cur.Filesize)/rhp4.SectorSize, dur, usage.Storage, usage.RiskedCollateral, wantStorage, wantRisk)
						}
						checkRevision(fmt.Sprintf("append of %d sectors", n), cur, rev, usage)
						if rev.Filesize != cur.Filesize+uint64(n)*rhp4.SectorSize || rev.Capacity < rev.Filesize || rev.Capacity != max(cur.Capacity, rev.Filesize) {
							bad("append-size", "append of %d sectors: filesize %d -> %d, capacity %d -> %d", n, cur.Filesize, rev.Filesize, cur.Capacity, rev.Capacity)
						}
					}
				}
				sig, rerr, ok := call(rhp4.RPCAppendSectorsID, req)
				if !ok {
					return
				}
				if (rerr != nil) != (verr != nil || cerr != nil) {
					bad("parties-disagree", "append: renter expects failure=%v (validate %v, constructor %v), host answered %v", verr != nil || cerr != nil, verr, cerr, rerr)
				}
				if rerr == nil && !host.pk.VerifyHash(chain.s.ContractSigHash(rev), sig) {
					bad("parties-disagree", "append: the host signed a different revision than the renter derived")
				}
			case "free":
				sectors := int(cur.Filesize / rhp4.SectorSize)
				if sectors == 0 {
					continue
				}
				k := 1 + op.r[0]%min(sectors, 4)
				var idx []uint64
				for j := 0; j < k; j++ {
					idx = append(idx, uint64((op.r[1]+j*7)%sectors))
				}
				outOfRange := false
				if op.r[2]%4 == 0 {
					// one index names a sector the contract does not hold: at or past
					// its size, within or beyond capacity that earlier frees left unused
					capSectors := int(cur.Capacity / rhp4.SectorSize)
					idx[op.r[3]%k] = uint64([]int{sectors, (sectors + capSectors) / 2, max(capSectors, 1) - 1, capSectors}[op.r[4]%4])
					outOfRange = idx[op.r[3]%k] >= uint64(sectors)
					if outOfRange {
						e.inc("c17.free-out-of-range")
					}
				}
				req := &rhp4.RPCFreeSectorsRequest{ContractID: fcid, Prices: p, Indices: idx}
				verr := req.Validate(host.pk, cur) // duplicates are refused here
				if outOfRange && verr == nil {
					bad("free-index-out-of-range-accepted", "free of sectors %v passes the request's Validate although the contract holds %d sectors (capacity %d)", idx, sectors, cur.Capacity/rhp4.SectorSize)
					continue
				}
				var rev types.V2FileContract
				var usage rhp4.Usage
				var cerr error
				if verr == nil {
					nr := append([]types.Hash256(nil), roots...)
					for j, f := range idx {
						kk := len(roots) - j - 1
						nr[f], nr[kk] = nr[kk], nr[f]
					}
					nr = nr[:len(roots)-len(idx)]
					rev, usage, cerr = rhp4.ReviseForFreeSectors(cur, p, rhp4.MetaRoot(nr), len(idx))
					checkInsufficient(fmt.Sprintf("free of %d sectors", k), cur, mul(p.FreeSectorPrice, uint64(k)), new(big.Int), cerr)
					if cerr == nil {
						checkRevision(fmt.Sprintf("free of %d sectors", k), cur, rev, usage)
						if rev.Filesize != cur.Filesize-uint64(k)*rhp4.SectorSize || rev.Capacity != cur.Capacity {
							bad("free-size", "free of %d sectors: filesize %d -> %d, capacity %d -> %d", k, cur.Filesize, rev.Filesize, cur.Capacity, rev.Capacity)
						}
					}
				}
				sig, rerr, ok := call(rhp4.RPCFreeSectorsID, req)
				if !ok {
					return
				}
				if (rerr != nil) != (verr != nil || cerr != nil) {
					bad("parties-disagree", "free: renter expects failure=%v, host answered %v", verr != nil || cerr != nil, rerr)
				}
				if rerr == nil && !host.pk.VerifyHash(chain.s.ContractSigHash(rev), sig) {
					bad("parties-disagree", "free: the host signed a different revision than the renter derived")
				}
			case "roots":
				sectors := cur.Filesize / rhp4.SectorSize
				if sectors == 0 {
					continue
				}
				off := uint64(op.r[0]) % sectors
				ln := 1 + uint64(op.r[1])%(sectors-off)
				req := &rhp4.RPCSectorRootsRequest{Prices: p, ContractID: fcid, Offset: off, Length: ln}
				verr := req.Validate(host.pk, cur)
				rev, usage, cerr := rhp4.ReviseForSectorRoots(cur, p, ln)
				if verr == nil && cerr == nil {
					checkRevision(fmt.Sprintf("sector roots %d", ln), cur, rev, usage)
				}
				sig, rerr, ok := call(rhp4.RPCSectorRootsID, req)
				if !ok {
					return
				}
				if (rerr != nil) != (verr != nil || cerr != nil) {
					bad("parties-disagree", "sector roots: renter expects failure=%v, host answered %v", verr != nil || cerr != nil, rerr)
				}
				if rerr == nil && !host.pk.VerifyHash(chain.s.ContractSigHash(rev), sig) {
					bad("parties-disagree", "sector roots: the host signed a different revision than the renter derived")
				}
			case "fund", "fund-exact", "fund-over", "replenish", "replenish-exact", "replenish-over":
				amount := cur.RenterOutput.Value.Div64(uint64(2 + op.r[0]%9))
				switch kind {
				case "fund-exact":
					amount = cur.RenterOutput.Value // the whole remaining allowance, to the hasting
				case "fund-over":
					amount = cur.RenterOutput.Value.Add(types.NewCurrency64(1))
				}
				// replenishing accounts up to the whole remaining allowance, and one hasting past it
				edge := kind == "replenish-exact" || kind == "replenish-over"
				if edge {
					amount = cur.RenterOutput.Value
					if kind == "replenish-over" {
						amount = amount.Add(types.NewCurrency64(uint64(1 + op.r[3]%1000)))
					}
					kind = "replenish"
					e.inc("c17.replenish-at-the-allowance")
				}
				noop := kind == "replenish" && !edge && op.r[2]%4 == 0 // every account is already at its target: nothing to deposit
				if amount.IsZero() && !noop {
					continue
				}
				var rev types.V2FileContract
				var usage rhp4.Usage
				var cerr error
				var verr error
				var req rhp4.Object
				id := rhp4.RPCFundAccountsID
				if kind == "replenish" {
					k := uint64(1 + op.r[1]%3)
					if edge {
						k = 1
					}
					target := amount.Div64(k)
					if target.IsZero() {
						if !noop {
							continue
						}
						target = types.NewCurrency64(1)
					}
					amount = target.Mul64(k)
					r := &rhp4.RPCReplenishAccountsRequest{Target: target, ContractID: fcid, ChallengeSignature: types.Signature{1}}
					for j := uint64(0); j < k; j++ {
						r.Accounts = append(r.Accounts, rhp4.Account{byte(j + 1)})
					}
					if noop {
						for j := range r.Accounts {
							r.Accounts[j][0] = 255
						}
						amount = types.ZeroCurrency
					}
					verr = r.Validate()
					req, id = r, rhp4.RPCReplenishAccountsID
					rev, usage, cerr = rhp4.ReviseForReplenish(cur, amount)
				} else {
					half := amount.Div64(2)
					r := &rhp4.RPCFundAccountsRequest{ContractID: fcid, RenterSignature: types.Signature{1}, Deposits: []rhp4.AccountDeposit{{Account: rhp4.Account{1}, Amount: amount.Sub(half)}}}
					if !half.IsZero() {
						r.Deposits = append(r.Deposits, rhp4.AccountDeposit{Account: rhp4.Account{2}, Amount: half})
					}
					verr = r.Validate()
					req = r
					rev, usage, cerr = rhp4.ReviseForFundAccounts(cur, amount)
				}
				checkInsufficient(fmt.Sprintf("%s of %v", kind, amount), cur, bi(amount), new(big.Int), cerr)
				if cerr == nil {
					if usage.RenterCost() != amount {
						bad("fund-usage", "%s of %v reports usage %v", kind, amount, usage.RenterCost())
					}
					checkRevision(fmt.Sprintf("%s of %v", kind, amount), cur, rev, usage)
				}
				sig, rerr, ok := call(id, req)
				if !ok {
					return
				}
				if (rerr != nil) != (verr != nil || cerr != nil) {
					bad("parties-disagree", "%s: renter expects failure=%v, host answered %v", kind, verr != nil || cerr != nil, rerr)
				}
				if rerr == nil && !host.pk.VerifyHash(chain.s.ContractSigHash(rev), sig) {
					bad("parties-disagree", "%s: the host signed a different revision than the renter derived", kind)
				}
			case "hostile-host":
				// a host that signs extreme prices: they pass the price table's own
				// validation, so the renter's constructors run on them - and must fail
				// cleanly (the contract cannot pay) rather than crash the renter
				ext := []types.Currency{types.MaxCurrency, types.MaxCurrency.Div64(rhp4.SectorSize), types.MaxCurrency.Div64(rhp4.SectorSize).Add(types.NewCurrency64(1)), types.NewCurrency(0, 1<<40), types.NewCurrency(^uint64(0), 0), types.Siacoins(1)}
				hp := p
				hp.StoragePrice, hp.Collateral = ext[op.r[0]%len(ext)], ext[op.r[1]%len(ext)]
				hp.IngressPrice, hp.EgressPrice = ext[op.r[2]%len(ext)], ext[op.r[3]%len(ext)]
				hp.FreeSectorPrice = ext[op.r[4]%len(ext)]
				if op.r[5]%3 == 0 {
					hp.TipHeight = cur.ExpirationHeight + uint64(op.r[5]%5) // a tip the host claims, at or past the contract's end
				}
				hp.Signature = host.sk.SignHash(hp.SigHash())
				if hp.Validate(host.pk) != nil {
					continue
				}
				e.inc("c17.hostile-host-prices")
				ins := chain.ownedBy(renter.addr)
				rnw := rhp4.RPCRenewContractParams{ContractID: fcid, Allowance: types.Siacoins(10), Collateral: types.Siacoins(1), ProofHeight: max(cur.ProofHeight+1, tip.Height+rhp4.MinContractDuration) + 10}
				rfr := rhp4.RPCRefreshContractParams{ContractID: fcid, Allowance: types.Siacoins(10), Collateral: types.Siacoins(1)}
				for name, fn := range map[string]func() error{
					"RPCRenewContractRequest.Validate (then RenewContract / RenewalCost)": func() error {
						if len(ins) == 0 {
							return nil
						}
						r := &rhp4.RPCRenewContractRequest{Prices: hp, Renewal: rnw, MinerFee: minerFee, Basis: tip, RenterInputs: ins[:1]}
						if err := r.Validate(host.pk, tip, cur, types.MaxCurrency, ^uint64(0)>>1); err != nil {
							return err
						}
						renewal, _ := rhp4.RenewContract(cur, hp, host.addr, rnw)
						rhp4.RenewalCost(chain.s, renewal, minerFee)
						return nil
					},
					"RPCRefreshContractRequest.Validate (then RefreshContract* / RefreshCost)": func() error {
						if len(ins) == 0 {
							return nil
						}
						for _, partial := range []bool{false, true} {
							r := &rhp4.RPCRefreshContractRequest{Prices: hp, Refresh: rfr, MinerFee: minerFee, Basis: tip, RenterInputs: ins[:1]}
							if err := r.Validate(host.pk, tip, cur, types.MaxCurrency, partial); err != nil {
								continue
							}
							var renewal types.V2FileContractRenewal
							if partial {
								renewal, _ = rhp4.RefreshContractPartialRollover(cur, hp, host.addr, rfr)
							} else {
								renewal, _ = rhp4.RefreshContractFullRollover(cur, hp, host.addr, rfr)
							}
							rhp4.RefreshCost(chain.s, hp, renewal, minerFee)
						}
						return nil
					},
					"ReviseForAppendSectors": func() error {
						_, _, err := rhp4.ReviseForAppendSectors(cur, hp, types.Hash256{1}, uint64(1+op.r[0]%3))
						return err
					},
					"ReviseForFreeSectors": func() error {
						_, _, err := rhp4.ReviseForFreeSectors(cur, hp, types.Hash256{1}, 1+op.r[1]%3)
						return err
					},
					"ReviseForSectorRoots": func() error { _, _, err := rhp4.ReviseForSectorRoots(cur, hp, uint64(1+op.r[2]%1000)); return err },
					"RPCReadSectorCost":    func() error { hp.RPCReadSectorCost(rhp4.SectorSize); return nil },
					"RPCWriteSectorCost":   func() error { hp.RPCWriteSectorCost(rhp4.SectorSize); return nil },
					"RPCVerifySectorCost":  func() error { hp.RPCVerifySectorCost(); return nil },
				} {
					if pn := guardPanic(func() { fn() }); pn != "" {
						bad("constructor-panic", "%s with host-signed prices that pass HostPrices.Validate (storage %v, collateral %v, ingress %v, egress %v, free sector %v per unit; tip height %d, contract expiration %d) panicked instead of failing cleanly: %s", name, hp.StoragePrice, hp.Collateral, hp.IngressPrice, hp.EgressPrice, hp.FreeSectorPrice, hp.TipHeight, cur.ExpirationHeight, pn)
						break
					}
				}
				// what such prices add up to: the renter's cost of a usage is the sum of its
				// parts, or the largest amount there is when the sum is beyond that
				{
					small := []types.Currency{types.ZeroCurrency, types.NewCurrency64(1), types.Siacoins(1), types.NewCurrency(0, 1<<62)}
					var parts [5]types.Currency
					for i := range parts {
						if op.r[i%len(op.r)]>>(3+i)&1 == 0 {
							parts[i] = ext[(op.r[i%len(op.r)]>>8)%len(ext)]
						} else {
							parts[i] = small[(op.r[i%len(op.r)]>>8)%len(small)]
						}
					}
					u := rhp4.Usage{RPC: parts[0], Storage: parts[1], Egress: parts[2], Ingress: parts[3], AccountFunding: parts[4], RiskedCollateral: types.MaxCurrency}
					want := sumBig(parts[0], parts[1], parts[2], parts[3], parts[4])
					if want.Cmp(bi(types.MaxCurrency)) > 0 {
						want = bi(types.MaxCurrency)
						e.inc("c17.usage-beyond-range")
					}
					var got types.Currency
					if pn := guardPanic(func() { got = u.RenterCost() }); pn != "" {
						bad("constructor-panic", "RenterCost of usage %+v panicked: %s", u, pn)
					} else if bi(got).Cmp(want) != 0 {
						bad("usage-cost-sum", "RenterCost of usage (rpc %v, storage %v, egress %v, ingress %v, account funding %v) = %v; its parts add up to %v", parts[0], parts[1], parts[2], parts[3], parts[4], got, want)
					}
				}
			case "hostile":
				// a renter that sends extreme numbers: the host must answer, whatever it answers
				ext := []types.Currency{types.MaxCurrency, types.MaxCurrency.Sub(types.NewCurrency64(1)), types.NewCurrency(0, 1<<63), types.NewCurrency(^uint64(0), 0), types.ZeroCurrency, types.NewCurrency64(1)}
				a, cl := ext[op.r[0]%len(ext)], ext[op.r[1]%len(ext)]
				// (proof heights so late that the expiration height, a proof window later, would pass the end of the range)
				ph := []uint64{^uint64(0), ^uint64(0) - rhp4.ProofWindow, ^uint64(0) - rhp4.ProofWindow - 1, 0, tip.Height + 30, cur.ProofHeight + 1,
					^uint64(0) - rhp4.ProofWindow + 1, ^uint64(0) - rhp4.ProofWindow/2, ^uint64(0) - rhp4.MinContractDuration, ^uint64(0) - rhp4.MinContractDuration - 1, ^uint64(0) - 1}[op.r[2]%11]
				fee := []types.Currency{minerFee, types.MaxCurrency, types.ZeroCurrency}[op.r[3]%3]
				if op.r[2]%11 >= 6 && op.r[5]%2 == 0 {
					// ... asked for with amounts the parties can fund, so that the answer is about the height
					a, cl, fee = types.Siacoins(uint32(1+op.r[0]%20)), types.ZeroCurrency, minerFee
				}
				ins := chain.ownedBy(renter.addr)
				var req rhp4.Object
				var id types.Specifier
				switch op.r[4] % 4 {
				case 0:
					req, id = &rhp4.RPCRenewContractRequest{Prices: p, Renewal: rhp4.RPCRenewContractParams{ContractID: fcid, Allowance: a, Collateral: cl, ProofHeight: ph}, MinerFee: fee, Basis: tip, RenterInputs: ins[:1]}, rhp4.RPCRenewContractID
				case 1:
					req, id = &rhp4.RPCRefreshContractRequest{Prices: p, Refresh: rhp4.RPCRefreshContractParams{ContractID: fcid, Allowance: a, Collateral: cl}, MinerFee: fee, Basis: tip, RenterInputs: ins[:1]}, rhp4.RPCRefreshContractID
				case 2:
					req, id = &rhp4.RPCRefreshContractRequest{Prices: p, Refresh: rhp4.RPCRefreshContractParams{ContractID: fcid, Allowance: a, Collateral: cl}, MinerFee: fee, Basis: tip, RenterInputs: ins[:1]}, rhp4.RPCRefreshPartialID
				default:
					req, id = &rhp4.RPCFormContractRequest{Prices: p, Contract: rhp4.RPCFormContractParams{RenterPublicKey: renter.pk, RenterAddress: renter.addr, Allowance: a, Collateral: cl, ProofHeight: ph}, MinerFee: fee, Basis: tip, RenterInputs: ins[:1]}, rhp4.RPCFormContractID
				}
				_, rerr, ok := call(id, req)
				if !ok {
					return
				}
				if rerr == nil {
					// accepted: the session's contract is no longer the one the renter tracks
					e.logf("op %d hostile request accepted", i)
					return
				}
				e.inc("c17.hostile-refused")
			case "renew", "refresh-full", "refresh-partial":
				allowance := types.Siacoins(uint32(1 + op.r[0]%300)).Add(types.NewCurrency64(uint64(op.r[1] % 5)))
				switch op.r[2] % 4 {
				case 0:
					allowance = cur.RenterOutput.Value // exactly what is left
				case 1:
					if !cur.RenterOutput.Value.IsZero() {
						allowance = cur.RenterOutput.Value.Sub(types.NewCurrency64(1))
					}
				}
				if allowance.IsZero() {
					allowance = types.NewCurrency64(1)
				}
				collateral := safeMaxCollateral(p, allowance)
				switch op.r[3] % 7 {
				case 0:
					collateral = types.ZeroCurrency
				case 1:
					collateral = collateral.Div64(3)
				case 2:
					collateral = cur.MissedHostValue // what the host has left unrisked
				case 3:
					collateral = cur.TotalCollateral
				case 4:
					collateral = cur.MissedHostValue.Add(cur.TotalCollateral.Sub(cur.MissedHostValue).Div64(2)) // between the two
				case 5:
					collateral = cur.MissedHostValue.Div64(2)
				}
				if collateral.Cmp(maxCollateral) > 0 {
					collateral = maxCollateral
				}
				ins := chain.ownedBy(renter.addr)
				var renewal types.V2FileContractRenewal
				var usage rhp4.Usage
				var rc, hc types.Currency
				var verr error
				var req rhp4.Object
				var id types.Specifier
				pn := guardPanic(func() {
					if kind == "renew" {
						rp := rhp4.RPCRenewContractParams{ContractID: fcid, Allowance: allowance, Collateral: collateral, ProofHeight: max(cur.ProofHeight+1, tip.Height+rhp4.MinContractDuration) + uint64(op.r[4]%100)}
						r := &rhp4.RPCRenewContractRequest{Prices: p, Renewal: rp, MinerFee: minerFee, Basis: basis, RenterInputs: ins[:1]}
						verr = r.Validate(host.pk, tip, cur, maxCollateral, maxDuration)
						req, id = r, rhp4.RPCRenewContractID
						if verr == nil {
							renewal, usage = rhp4.RenewContract(cur, p, host.addr, rp)
							rc, hc = rhp4.RenewalCost(chain.s, renewal, minerFee)
						}
					} else {
						rp := rhp4.RPCRefreshContractParams{ContractID: fcid, Allowance: allowance, Collateral: collateral}
						r := &rhp4.RPCRefreshContractRequest{Prices: p, Refresh: rp, MinerFee: minerFee, Basis: basis, RenterInputs: ins[:1]}
						partial := kind == "refresh-partial"
						verr = r.Validate(host.pk, tip, cur, maxCollateral, partial)
						req, id = r, rhp4.RPCRefreshContractID
						if partial {
							id = rhp4.RPCRefreshPartialID
						}
						if verr == nil {
							if partial {
								renewal, usage = rhp4.RefreshContractPartialRollover(cur, p, host.addr, rp)
							} else {
								renewal, usage = rhp4.RefreshContractFullRollover(cur, p, host.addr, rp)
							}
							rc, hc = rhp4.RefreshCost(chain.s, p, renewal, minerFee)
						}
					}
				})
				what := fmt.Sprintf("%s (allowance %v, collateral %v; old contract renter %v host %v missed %v total collateral %v filesize %d; contract price %v)", kind, allowance, collateral, cur.RenterOutput.Value, cur.HostOutput.Value, cur.MissedHostValue, cur.TotalCollateral, cur.Filesize, p.ContractPrice)
				if pn != "" {
					bad("constructor-panic", "%s: %s", what, pn)
					return
				}
				if verr == nil {
					nc := renewal.NewContract
					// the old contract's value is split exactly
					if sumBig(renewal.FinalRenterOutput.Value, renewal.FinalHostOutput.Value, renewal.RenterRollover, renewal.HostRollover).Cmp(sumBig(cur.RenterOutput.Value, cur.HostOutput.Value)) != 0 {
						bad("renewal-split", "%s: final outputs %v + %v and rollovers %v + %v do not add up to the old contract's %v + %v", what, renewal.FinalRenterOutput.Value, renewal.FinalHostOutput.Value, renewal.RenterRollover, renewal.HostRollover, cur.RenterOutput.Value, cur.HostOutput.Value)
					}
					cost := sumBig(nc.RenterOutput.Value, nc.HostOutput.Value, chain.s.V2FileContractTax(nc))
					if sumBig(renewal.RenterRollover, renewal.HostRollover).Cmp(cost) > 0 {
						bad("renewal-rollover", "%s: rollover %v + %v exceeds the new contract's cost %v", what, renewal.RenterRollover, renewal.HostRollover, cost)
					}
					// reported costs + rollover fund contract, tax and fee exactly
					if sumBig(rc, hc, renewal.RenterRollover, renewal.HostRollover).Cmp(new(big.Int).Add(cost, bi(minerFee))) != 0 {
						bad("renewal-cost", "%s: renter cost %v + host cost %v + rollovers %v + %v != new contract %v + %v + tax %v + fee %v", what, rc, hc, renewal.RenterRollover, renewal.HostRollover, nc.RenterOutput.Value, nc.HostOutput.Value, chain.s.V2FileContractTax(nc), minerFee)
					}
					if nc.MissedHostValue.Cmp(nc.HostOutput.Value) > 0 || nc.TotalCollateral.Cmp(nc.HostOutput.Value) > 0 {
						bad("renewal-new-contract", "%s: new contract host %v missed %v total collateral %v", what, nc.HostOutput.Value, nc.MissedHostValue, nc.TotalCollateral)
					}
					if usage.RPC != p.ContractPrice {
						bad("renewal-usage", "%s: usage reports contract price %v", what, usage.RPC)
					}
					if usage.RiskedCollateral != nc.TotalCollateral.Sub(nc.MissedHostValue) {
						bad("renewal-usage", "%s: usage reports risked collateral %v, new contract risks %v", what, usage.RiskedCollateral, nc.TotalCollateral.Sub(nc.MissedHostValue))
					}
					e.inc("c17.renewal-checked")
				}
				sig, rerr, ok := call(id, req)
				if !ok {
					return
				}
				if (rerr != nil) != (verr != nil) && (rerr == nil || rerr.Description != "cannot fund") {
					bad("parties-disagree", "%s: renter-side Validate says %v, host answered %v", kind, verr, rerr)
				}
				if rerr == nil {
					if !host.pk.VerifyHash(chain.s.RenewalSigHash(renewal), sig) {
						bad("parties-disagree", "%s: the host signed a different renewal than the renter derived", kind)
					}
					// the sector list carries over; a renewal sets capacity to the file size
					e.logf("op %d %s done", i, kind)
				}
			}
			e.logf("op %d %s processed", i, op.kind)
		}
	}
	go renterTask(s.ea, s.a)
	go hostTask(s.eb, s.b)
}

// ---- v1 contracts: rhp/v2 formation and renewal, rhp/v3 renewal and pay-by-contract

func runContractV1(s *Session) {
	t := s.t
	renterSK := types.NewPrivateKeyFromSeed(sim.HashBytes("c17-v1-renter", uint64(t.Choose(1<<16)), 0, 32))
	hostSK := types.NewPrivateKeyFromSeed(sim.HashBytes("c17-v1-host", uint64(t.Choose(1<<16)), 0, 32))
	rUC, hUC := types.StandardUnlockConditions(renterSK.PublicKey()), types.StandardUnlockConditions(hostSK.PublicKey())
	rAddr, hAddr := rUC.UnlockHash(), hUC.UnlockHash()
	var gifts []types.SiacoinOutput
	for i := 0; i < 10; i++ {
		gifts = append(gifts, types.SiacoinOutput{Value: types.Siacoins(uint32(5000 + 100*i)), Address: rAddr}, types.SiacoinOutput{Value: types.Siacoins(uint32(5000 + 100*i)), Address: hAddr})
	}
	chain, cerr := newMiniChain(false, gifts)
	if cerr != nil {
		s.violate("HARNESS", "mini-chain", cerr.Error())
		return
	}
	contractUC := types.UnlockConditions{PublicKeys: []types.UnlockKey{renterSK.PublicKey().UnlockKey(), hostSK.PublicKey().UnlockKey()}, SignaturesRequired: 2}
	// everything the renter task needs from the tape, drawn now
	hs := rhp2.HostSettings{WindowSize: uint64(t.Range(1, 20)), ContractPrice: drawCur(t, 0, 6), Address: hAddr,
		Collateral: drawCur(t, 0, 2).Div64(uint64(pick(t, 1, 1000, 1<<22))), StoragePrice: drawCur(t, 0, 2).Div64(uint64(pick(t, 1, 1000, 1<<22))), MaxCollateral: types.Siacoins(uint32(pick(t, 1, 100, 4000)))}
	renterPayout := types.Siacoins(uint32(t.Range(1, 300))).Add(types.NewCurrency64(uint64(t.Choose(20000))))
	if t.Chance(1, 6) {
		renterPayout = types.NewCurrency64(uint64(t.Range(1, 30000)))
	}
	hostCollateral := pick(t, types.ZeroCurrency, types.Siacoins(uint32(t.Range(1, 200))), types.NewCurrency64(uint64(t.Choose(30000))))
	endOff := uint64(t.Range(20, 200))
	filesize := uint64(pick(t, 0, 1, 64, 4096, 1<<22, 3<<22))
	nPay := t.Range(0, 4)
	var payRaw []int
	for i := 0; i < nPay; i++ {
		payRaw = append(payRaw, t.Choose(1<<20))
	}
	renewVia := pick(t, "rhp2", "rhp3", "none")
	renewPayout := types.Siacoins(uint32(t.Range(1, 300))).Add(types.NewCurrency64(uint64(t.Choose(20000))))
	newCollateral := pick(t, types.ZeroCurrency, types.Siacoins(uint32(t.Range(1, 100))), types.NewCurrency64(uint64(t.Choose(30000))))
	extend := uint64(t.Range(0, 300))
	hostAhead := uint64(0) // the host may know of blocks beyond the renewal's end height: such a renewal is late
	if t.Chance(1, 4) {
		hostAhead = uint64(pick(t, 1, t.Range(1, 4), t.Range(1, 20), t.Range(1, 400))) // by one block, within a proof window, far
	}
	expectedNewStorage := uint64(pick(t, 0, 1<<22, 10<<22))
	if t.Chance(1, 5) {
		// small contracts: payouts between 2^64 and 10000 x 2^64 hastings, where
		// the tax inversion works on both 64-bit halves
		band := func() types.Currency {
			return types.NewCurrency(uint64(t.Choose(1<<30))<<20|uint64(t.Choose(1<<20)), uint64(t.Range(1, 9999)))
		}
		renterPayout, renewPayout = band(), band()
		hs.ContractPrice = types.NewCurrency64(uint64(t.Choose(30000)))
		hostCollateral, newCollateral = types.NewCurrency64(uint64(t.Choose(30000))), types.NewCurrency64(uint64(t.Choose(30000)))
		if t.Chance(1, 2) {
			hs.StoragePrice, hs.Collateral = types.ZeroCurrency, types.ZeroCurrency
		}
	}
	fee := drawCur(t, 1, 5)
	s.drawPlan(false, 0)

	signAll := func(txn *types.Transaction) {
		add := func(id types.Hash256, idx uint64) {
			txn.Signatures = append(txn.Signatures, types.TransactionSignature{ParentID: id, PublicKeyIndex: idx, CoveredFields: types.CoveredFields{WholeTransaction: true}})
		}
		txn.Signatures = nil
		for _, in := range txn.SiacoinInputs {
			add(types.Hash256(in.ParentID), 0)
		}
		for _, r := range txn.FileContractRevisions {
			add(types.Hash256(r.ParentID), 0)
			add(types.Hash256(r.ParentID), 1)
		}
		for i := range txn.Signatures {
			sg := &txn.Signatures[i]
			h := chain.s.WholeSigHash(*txn, sg.ParentID, sg.PublicKeyIndex, 0, nil)
			sk := renterSK
			for _, in := range txn.SiacoinInputs {
				if types.Hash256(in.ParentID) == sg.ParentID && in.UnlockConditions.UnlockHash() == hAddr {
					sk = hostSK
				}
			}
			for _, r := range txn.FileContractRevisions {
				if types.Hash256(r.ParentID) == sg.ParentID && sg.PublicKeyIndex == 1 {
					sk = hostSK
				}
			}
			sig := sk.SignHash(h)
			sg.Signature = sig[:]
		}
	}
	fundV1 := func(txn *types.Transaction, addr types.Address, uc types.UnlockConditions, amount types.Currency) bool {
		if amount.IsZero() {
			return true
		}
		var got types.Currency
		for _, e := range chain.ownedBy(addr) {
			txn.SiacoinInputs = append(txn.SiacoinInputs, types.SiacoinInput{ParentID: e.ID, UnlockConditions: uc})
			got = got.Add(e.SiacoinOutput.Value)
			if got.Cmp(amount) >= 0 {
				if ch := got.Sub(amount); !ch.IsZero() {
					txn.SiacoinOutputs = append(txn.SiacoinOutputs, types.SiacoinOutput{Value: ch, Address: addr})
				}
				return true
			}
		}
		return false
	}

	hostTask := func(e *endpoint, c *Conn) {
		defer close(e.done)
		defer c.Close()
		for {
			var hdr [8]byte
			if _, err := io.ReadFull(c, hdr[:]); err != nil {
				return
			}
			n := binary.LittleEndian.Uint64(hdr[:])
			if n > 1<<20 {
				return
			}
			buf := make([]byte, n)
			if _, err := io.ReadFull(c, buf); err != nil {
				return
			}
			var txn types.Transaction
			d := types.NewBufDecoder(buf)
			txn.DecodeFrom(d)
			verdict := byte(1)
			if d.Err() != nil {
				verdict = 0
			} else {
				bs := chain.supplement([]types.Transaction{txn})
				ms := consensus.NewMidState(chain.s)
				if err := consensus.ValidateTransaction(ms, txn, bs.Transactions[0]); err != nil {
					e.logf("host: transaction refused")
					verdict = 0
				} else if err := chain.mine([]types.Transaction{txn}, nil); err != nil {
					e.logf("host: block refused")
					verdict = 0
				}
			}
			if _, err := c.Write([]byte{verdict}); err != nil {
				return
			}
		}
	}
	renterTask := func(e *endpoint, c *Conn) {
		defer close(e.done)
		defer c.Close()
		bad := func(inv, f string, a ...any) { e.violate("C17", inv, fmt.Sprintf(f, a...)) }
		submit := func(what string, txn types.Transaction) (ok, alive bool) {
			var buf bytes.Buffer
			enc := types.NewEncoder(&buf)
			txn.EncodeTo(enc)
			enc.Flush()
			var hdr [8]byte
			binary.LittleEndian.PutUint64(hdr[:], uint64(buf.Len()))
			if _, err := c.Write(append(hdr[:], buf.Bytes()...)); err != nil {
				return false, false
			}
			var v [1]byte
			if _, err := io.ReadFull(c, v[:]); err != nil {
				return false, false
			}
			if v[0] != 1 {
				bad("consensus-rejects", "%s: the transaction built from the constructor's result is rejected by ValidateTransaction / ValidateBlock", what)
				return false, true
			}
			e.inc("c17.v1-validated")
			e.inc("c17.mined")
			return true, true
		}
		taxOK := func(what string, fc types.FileContract) {
			valid, missed := new(big.Int), new(big.Int)
			for _, o := range fc.ValidProofOutputs {
				valid.Add(valid, bi(o.Value))
			}
			for _, o := range fc.MissedProofOutputs {
				missed.Add(missed, bi(o.Value))
			}
			// the tax by definition (3.9% of the payout, down to a multiple of the
			// siafund count), not by the library's own tax function
			tax := (&ref.Params{TaxHeight: chain.s.Network.HardforkTax.Height}).V1Tax(chain.child(), fc.Payout)
			if lib := bi(chain.s.FileContractTax(fc)); lib.Cmp(tax) != 0 {
				bad("v1-tax-definition", "%s: payout %v is taxed %v by State.FileContractTax, 3.9%% rounded down to a multiple of 10000 is %v", what, fc.Payout, lib, tax)
			}
			// ... and for the smallest larger payout whose tax reaches the next multiple
			m := new(big.Int).Add(tax, big.NewInt(10000))
			edge := m.Mul(m, big.NewInt(1000))
			edge.Add(edge, big.NewInt(38)).Quo(edge, big.NewInt(39))
			if edge.BitLen() <= 128 {
				lo, hi := new(big.Int).And(edge, new(big.Int).SetUint64(^uint64(0))).Uint64(), new(big.Int).Rsh(edge, 64).Uint64()
				efc := types.FileContract{Payout: types.NewCurrency(lo, hi)}
				want := (&ref.Params{TaxHeight: chain.s.Network.HardforkTax.Height}).V1Tax(chain.child(), efc.Payout)
				if lib := bi(chain.s.FileContractTax(efc)); lib.Cmp(want) != 0 {
					bad("v1-tax-definition", "payout %v is taxed %v by State.FileContractTax, 3.9%% rounded down to a multiple of 10000 is %v", efc.Payout, lib, want)
				}
				e.inc("c17.v1-tax-edge")
			}
			if new(big.Int).Add(valid, tax).Cmp(bi(fc.Payout)) != 0 || valid.Cmp(missed) != 0 {
				bad("v1-tax-equation", "%s: payout %v, valid outputs %v, missed outputs %v, tax %v", what, fc.Payout, valid, missed, tax)
			}
		}
		// ---- formation
		end := chain.child() + endOff
		var fc types.FileContract
		if pn := guardPanic(func() {
			fc = rhp2.PrepareContractFormation(renterSK.PublicKey(), hostSK.PublicKey(), renterPayout, hostCollateral, end, hs, rAddr)
		}); pn != "" {
			bad("constructor-panic", "PrepareContractFormation(renter payout %v, collateral %v): %s", renterPayout, hostCollateral, pn)
			return
		}
		what := fmt.Sprintf("rhp/v2 formation (renter payout %v, host collateral %v, contract price %v)", renterPayout, hostCollateral, hs.ContractPrice)
		taxOK(what, fc)
		// the same formation for other amounts (the tax comes in steps of 10000
		// hastings: which side of a step the payout lands on depends on the last
		// digits of what is to be paid out)
		for j := 1; j <= 48 && len(e.viols) == 0; j++ {
			rp := renterPayout.Add(types.NewCurrency64(uint64(j) * 7919 * 1000003 % 999999937))
			var fcj types.FileContract
			if guardPanic(func() {
				fcj = rhp2.PrepareContractFormation(renterSK.PublicKey(), hostSK.PublicKey(), rp, hostCollateral, end, hs, rAddr)
			}) != "" {
				break
			}
			taxOK(fmt.Sprintf("rhp/v2 formation (renter payout %v, host collateral %v, contract price %v)", rp, hostCollateral, hs.ContractPrice), fcj)
		}
		if fc.UnlockHash != contractUC.UnlockHash() {
			bad("v1-unlock-hash", "%s: contract unlock hash is not the 2-of-2 of renter and host key", what)
		}
		rCost := rhp2.ContractFormationCost(chain.s, fc, hs.ContractPrice)
		if sumBig(rCost, hostCollateral).Cmp(bi(fc.Payout)) != 0 {
			bad("v1-formation-cost", "%s: renter cost %v + host collateral %v != payout %v", what, rCost, hostCollateral, fc.Payout)
		}
		fc.Filesize = filesize // as after uploads: renewal prices depend on it
		txn := types.Transaction{FileContracts: []types.FileContract{fc}, MinerFees: []types.Currency{fee}}
		if !fundV1(&txn, rAddr, rUC, rCost.Add(fee)) || !fundV1(&txn, hAddr, hUC, hostCollateral) {
			return
		}
		signAll(&txn)
		ok, alive := submit(what, txn)
		if !ok || !alive {
			return
		}
		fcid := txn.FileContractID(0)
		cur := chain.fcs[fcid].FileContract
		// ---- payments by contract (again on the renewed contract, whose void output is not zero)
		payments := func() bool {
			for _, raw := range payRaw {
				rev := types.FileContractRevision{ParentID: fcid, UnlockConditions: contractUC, FileContract: cur}
				rev.FileContract.ValidProofOutputs = append([]types.SiacoinOutput(nil), cur.ValidProofOutputs...)
				rev.FileContract.MissedProofOutputs = append([]types.SiacoinOutput(nil), cur.MissedProofOutputs...)
				amount := cur.ValidProofOutputs[0].Value.Div64(uint64(2 + raw%7))
				switch raw % 5 {
				case 0:
					amount = cur.ValidProofOutputs[0].Value
				case 1:
					amount = cur.ValidProofOutputs[0].Value.Add(types.NewCurrency64(1))
				}
				_, paid := rhp3.PayByContract(&rev, amount, rhp3.Account{}, renterSK)
				can := cur.ValidProofOutputs[0].Value.Cmp(amount) >= 0 && cur.MissedProofOutputs[0].Value.Cmp(amount) >= 0
				if paid != can {
					bad("pay-by-contract", "PayByContract(%v) on renter payout %v returned ok=%v", amount, cur.ValidProofOutputs[0].Value, paid)
				}
				if !paid {
					e.inc("c17.insufficient")
					continue
				}
				if amount.IsZero() {
					continue
				}
				nf := rev.FileContract
				if new(big.Int).Sub(bi(cur.ValidProofOutputs[0].Value), bi(nf.ValidProofOutputs[0].Value)).Cmp(bi(amount)) != 0 ||
					new(big.Int).Sub(bi(nf.ValidProofOutputs[1].Value), bi(cur.ValidProofOutputs[1].Value)).Cmp(bi(amount)) != 0 ||
					new(big.Int).Sub(bi(cur.MissedProofOutputs[0].Value), bi(nf.MissedProofOutputs[0].Value)).Cmp(bi(amount)) != 0 ||
					new(big.Int).Sub(bi(nf.MissedProofOutputs[1].Value), bi(cur.MissedProofOutputs[1].Value)).Cmp(bi(amount)) != 0 || nf.RevisionNumber != cur.RevisionNumber+1 {
					bad("pay-by-contract", "PayByContract(%v): outputs moved from %v/%v to %v/%v", amount, cur.ValidProofOutputs, cur.MissedProofOutputs, nf.ValidProofOutputs, nf.MissedProofOutputs)
				}
				ptx := types.Transaction{FileContractRevisions: []types.FileContractRevision{rev}}
				signAll(&ptx)
				ok, alive := submit(fmt.Sprintf("pay-by-contract revision of %v", amount), ptx)
				if !alive {
					return false
				}
				if ok {
					cur = chain.fcs[fcid].FileContract
					e.inc("c17.revision-checked")
				}
			}
			return true
		}
		if !payments() {
			return
		}
		// ---- renewal
		if renewVia == "none" {
			return
		}
		newEnd := cur.WindowStart + extend
		final := types.FileContractRevision{ParentID: fcid, UnlockConditions: contractUC, FileContract: cur}
		final.FileContract.RevisionNumber = types.MaxRevisionNumber
		final.FileContract.Filesize, final.FileContract.FileMerkleRoot = 0, types.Hash256{}
		final.FileContract.MissedProofOutputs = append([]types.SiacoinOutput(nil), cur.ValidProofOutputs...)
		var nfc types.FileContract
		var basePrice, renterCost types.Currency
		var perr error
		cr := types.FileContractRevision{ParentID: fcid, UnlockConditions: contractUC, FileContract: cur}
		contractPrice := hs.ContractPrice
		if pn := guardPanic(func() {
			if renewVia == "rhp2" {
				nfc, basePrice = rhp2.PrepareContractRenewal(cr, rAddr, renewPayout, newCollateral, hs, newEnd)
				renterCost = rhp2.ContractRenewalCost(chain.s, nfc, hs.ContractPrice, fee, basePrice)
			} else {
				pt := rhp3.HostPriceTable{HostBlockHeight: chain.s.Index.Height, ContractPrice: hs.ContractPrice, CollateralCost: hs.Collateral, MaxCollateral: hs.MaxCollateral,
					WindowSize: hs.WindowSize, WriteStoreCost: hs.StoragePrice, RenewContractCost: types.NewCurrency64(uint64(extend) * 1000)}
				if hostAhead > 0 {
					pt.HostBlockHeight = newEnd + hostAhead
				}
				nfc, basePrice, perr = rhp3.PrepareContractRenewal(cr, hAddr, rAddr, renewPayout, types.ZeroCurrency, pt, expectedNewStorage, newEnd)
				if hostAhead > 0 && perr == nil {
					// a window starting below the host's height starts in the past for any block the host could still see mined
					bad("v1-late-renewal", "rhp3 renewal to end height %d prepared without error against a price table at host height %d: window start %d is in the past", newEnd, pt.HostBlockHeight, nfc.WindowStart)
					perr = errors.New("late")
				} else if hostAhead > 0 {
					e.inc("c17.late-renewal-refused")
				}
				if perr == nil {
					renterCost = rhp3.ContractRenewalCost(chain.s, pt, nfc, fee, basePrice)
				}
			}
		}); pn != "" {
			bad("constructor-panic", "%s renewal (filesize %d, extension %d): %s", renewVia, cur.Filesize, extend, pn)
			return
		}
		if perr != nil {
			e.inc("c17.rejected-by-validate")
			return
		}
		what = fmt.Sprintf("%s renewal (renter payout %v, filesize %d, window end %d -> %d, base price %v)", renewVia, renewPayout, cur.Filesize, cur.WindowEnd, nfc.WindowEnd, basePrice)
		taxOK(what, nfc)
		// the host adds whatever the renter's cost leaves open: its collateral
		need := sumBig(nfc.Payout, fee)
		if bi(renterCost).Cmp(need) > 0 {
			bad("v1-renewal-cost", "%s: renter cost %v exceeds payout %v + fee %v", what, renterCost, nfc.Payout, fee)
			return
		}
		hostShare := new(big.Int).Sub(need, bi(renterCost))
		// by definition the host funds its valid payout minus contract price and base price
		wantHost := new(big.Int).Sub(bi(nfc.ValidProofOutputs[1].Value), sumBig(contractPrice, basePrice))
		if hostShare.Cmp(wantHost) != 0 {
			bad("v1-renewal-cost", "%s: renter cost %v leaves %v to the host, whose payout %v minus contract price %v and base price %v is %v", what, renterCost, hostShare, nfc.ValidProofOutputs[1].Value, contractPrice, basePrice, wantHost)
		}
		lo := hostShare.Uint64()
		hi := new(big.Int).Rsh(hostShare, 64).Uint64()
		rtx := types.Transaction{FileContractRevisions: []types.FileContractRevision{final}, FileContracts: []types.FileContract{nfc}, MinerFees: []types.Currency{fee}}
		if !fundV1(&rtx, rAddr, rUC, renterCost) || !fundV1(&rtx, hAddr, hUC, types.NewCurrency(lo, hi)) {
			return
		}
		signAll(&rtx)
		if ok, _ := submit(what, rtx); ok {
			e.inc("c17.renewal-checked")
			fcid = rtx.FileContractID(0)
			if el, in := chain.fcs[fcid]; in {
				cur = el.FileContract
				if len(cur.MissedProofOutputs) == 3 && !cur.MissedProofOutputs[2].Value.IsZero() {
					e.inc("c17.pay-after-renewal-with-void-output")
				}
				payments()
			}
		}
	}
	go renterTask(s.ea, s.a)
	go hostTask(s.eb, s.b)
	s.run(4000)
}

// safeMaxCollateral is MaxHostCollateral where its result fits, else the largest currency.
func safeMaxCollateral(p rhp4.HostPrices, allowance types.Currency) (c types.Currency) {
	c = types.MaxCurrency
	if p.StoragePrice.IsZero() {
		return
	}
	if v, over := p.Collateral.MulWithOverflow(allowance.Div(p.StoragePrice)); !over {
		c = v
	}
	return
}
