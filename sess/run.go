package sess

import (
	"fmt"
	"testing"
	"time"

	"verif/sim"
)

// Run executes one simulated session of the given profile inside a bubble.
func Run(tt *testing.T) func(t *sim.Tape, profile, tier string) *sim.RunResult {
	return func(t *sim.Tape, profile, tier string) *sim.RunResult {
		start := time.Now()
		res := &sim.RunResult{Engine: "E2", Profile: profile, Stats: sim.Stats{}}
		var s *Session
		kind := ""
		herr := bubble(tt, func() {
			s = newSession(t)
			switch profile {
			case "C19":
				kind = runC19(s, tier)
			case "C16":
				kind = runC16(s, tier)
			case "C17":
				kind = runC17(s, tier)
			case "C10":
				if t.Chance(1, 4) {
					s.countSweep = true
					kind = runCodec(s)
				} else {
					kind = runHostile(s)
				}
			case "C20":
				kind = runText(s)
			case "C11":
				kind = runCodec(s)
			default:
				kind = runC19(s, tier)
			}
			s.merge()
		})
		res.HarnessErr = herr
		if s != nil {
			res.TapeLen, res.Events, res.LogHash = t.Len(), s.log.N(), s.log.Hash()
			res.Stats, res.Violations = s.stats, s.viols
			res.Stats.Inc("session." + kind)
			res.Nontrivial = s.stats["net.deliveries"] > 0 || s.stats["merkle.ops"] > 0
			if profile == "C11" {
				res.Nontrivial = s.stats["codec.objects"] > 0
			}
			if profile == "C20" {
				res.Nontrivial = s.stats["text.parsed"] > 0
			}
			if profile == "C10" {
				res.Nontrivial = s.stats["hostile.decoded"] > 0 || s.stats["codec.objects"] > 0
			}
			if profile == "C17" {
				res.Nontrivial = s.stats["c17.mined"] > 0 || s.stats["c17.v1-validated"] > 0
			}
			res.Sample = append([]string{fmt.Sprintf("session kind=%s chunk=%s flip=%d cut=%d stall=%d", kind, s.plan.chunk, s.plan.flipAt, s.plan.cutAt, s.plan.stallAt)}, s.log.Head()...)
			if len(res.Sample) > 30 {
				res.Sample = res.Sample[:30]
			}
			res.Reach = append([]string{fmt.Sprintf("%s chunk=%s fault=%s", kind, s.plan.chunk, s.faultKind())}, s.reach...)
		}
		res.WallMs = float64(time.Since(start).Microseconds()) / 1000
		return res
	}
}

func (s *Session) faultKind() string {
	switch {
	case s.plan.flipAt >= 0:
		return "flip"
	case s.plan.cutAt >= 0:
		return "cut"
	case s.plan.stallAt >= 0:
		return "stall"
	}
	return "none"
}

// runC19 draws a transport and a script and runs the session.
func runC19(s *Session, tier string) string {
	t := s.t
	kind := pick(t, "rhp4", "rhp2", "rhp3", "gateway", "rhp4-overlimit", "rhp2-overlimit", "rhp3-overlimit", "rhp4", "rhp2", "rhp3", "gateway",
		"rhp4-maxima", "rhp4-free-sectors", "rhp4-batch", "rhp2-wrongkey", "rhp3-wrongkey", "gateway-mismatch")
	switch kind {
	case "rhp4", "rhp4-overlimit":
		mode := "random"
		if kind == "rhp4-overlimit" {
			mode = "overlimit"
		}
		steps := buildScript4(t, mode)
		var total int64
		for _, st := range steps {
			total += int64(len(st.enc))
		}
		s.drawPlan(kind == "rhp4" && t.Chance(1, 2), total)
		runRHP4(s, steps)
		s.run(20000)
	case "rhp4-maxima":
		steps := buildScript4(t, "maxima")
		s.plan.chunk = pick(t, "all", "random")
		runRHP4(s, steps)
		s.run(2000)
	case "rhp4-batch":
		steps := buildScript4(t, "batch")
		if len(steps) == 0 {
			s.ea.inc("rpc4.batch-refused-by-validate")
		}
		s.plan.chunk = pick(t, "all", "random")
		runRHP4(s, steps)
		s.run(2000)
	case "rhp4-free-sectors":
		steps := buildScript4(t, "free-sectors")
		s.plan.chunk = "all"
		runRHP4(s, steps)
		s.run(2000)
	case "rhp2", "rhp2-overlimit", "rhp2-wrongkey":
		exs := buildExchanges(t, 2, kind == "rhp2-overlimit")
		var total int64 = 300
		for _, ex := range exs {
			total += int64(len(ex.reqEnc)+len(ex.respEnc)) + 3*4200
		}
		s.drawPlan(kind == "rhp2" && t.Chance(2, 3), total/2)
		if kind == "rhp2" && t.Chance(1, 5) {
			// the one fault of this session is a flipped bit in the plaintext length
			// prefix of one of the host's frames (the first write is the handshake reply)
			s.plan.flipAt, s.plan.cutAt, s.plan.stallAt = -1, -1, -1
			s.plan.flipDir, s.plan.flipWrite, s.plan.flipWriteOff, s.plan.flipBit = 1, 1+t.Choose(len(exs)), t.Choose(8), t.Choose(8)
		}
		runRHP2(s, exs, kind == "rhp2-wrongkey")
		s.run(20000)
	case "rhp3", "rhp3-overlimit", "rhp3-wrongkey":
		exs := buildExchanges(t, 3, kind == "rhp3-overlimit")
		var total int64 = 3000
		for _, ex := range exs {
			total += int64(len(ex.reqEnc)+len(ex.respEnc)) + 3000
			if len(ex.respErr) > 2000 {
				total += 2 * int64(len(ex.respErr)) // (the error travels instead of the response)
			}
		}
		s.drawPlan(kind == "rhp3" && t.Chance(2, 3), total/2)
		if s.plan.chunk == "byte" {
			s.plan.chunk = "small"
		}
		if s.plan.flipAt == 0 && s.plan.flipDir == 0 {
			// the first byte the dialer sends is the multiplexer's plaintext
			// version number (go.sia.tech/mux, a dependency): not an encrypted frame
			s.plan.flipAt = 1
		}
		runRHP3(s, exs, kind == "rhp3-wrongkey")
		s.run(40000)
	case "gateway", "gateway-mismatch":
		exs := buildGateway(t)
		mismatch := ""
		if kind == "gateway-mismatch" {
			mismatch = pick(t, "genesis", "unique-id", "net-address")
		}
		// announced addresses: usually short, sometimes as long as the handshake's
		// header limit (32+8+128 bytes of header, 8 of them the string prefix) allows
		addrLen := [2]int{13, 13}
		for i := range addrLen {
			if t.Chance(1, 3) {
				addrLen[i] = []int{64, 112, 113, 119, 120}[t.Choose(5)]
			}
		}
		var total int64 = 3000
		for _, ex := range exs {
			total += int64(len(ex.reqEnc)+len(ex.respEnc)) + 3000
		}
		s.drawPlan(kind == "gateway" && t.Chance(2, 3), total/2)
		if plain := int64(160 + addrLen[0] + addrLen[1]); s.plan.flipAt >= 0 && s.plan.flipAt < plain {
			// the version/header exchange before the mux is plaintext and makes
			// no integrity claim; keep bit flips to the encrypted part
			s.plan.flipAt += plain
		}
		if s.plan.chunk == "byte" {
			s.plan.chunk = "small"
		}
		runGateway(s, exs, mismatch, addrLen)
		s.run(40000)
		if mismatch != "" {
			kind += "-" + mismatch
		}
	}
	return kind
}

// runC16 draws a host/renter Merkle session.
func runC16(s *Session, tier string) string {
	ops := drawMerkleOps(s.t)
	var total int64
	for _, op := range ops {
		switch op.kind {
		case "sector-root":
			total += int64(op.short)
		case "read-range":
			total += int64(op.end-op.start)*64 + 600
		default:
			total += 600
		}
	}
	s.drawPlan(s.t.Chance(1, 3), total)
	s.plan.stallAt, s.plan.cutDir = -1, 1 // no deadlines in this session; only the host sends
	if s.plan.flipDir == 0 {
		s.plan.flipDir = 1 // only the host sends
	}
	if total > 100000 && (s.plan.chunk == "small" || s.plan.chunk == "byte") {
		s.plan.chunk = "random"
	}
	runMerkle(s, ops)
	s.run(200000)
	return "merkle"
}

// runC17 draws a contract-life session.
func runC17(s *Session, tier string) string {
	kind := pick(s.t, "contract-v2", "contract-v2", "contract-v2", "contract-v1")
	switch kind {
	case "contract-v2":
		ops := drawContractOps(s.t)
		s.drawPlan(s.t.Chance(1, 4), 4000)
		s.plan.flipAt = -1 // the plain RHP4 stream makes no integrity claim; C19 covers altered bytes
		runContractV2(s, ops)
		s.run(20000)
	case "contract-v1":
		runContractV1(s)
	}
	return kind
}
