package sess

import (
	"fmt"
	"math/big"
	"sort"
	"time"

	"go.sia.tech/core/consensus"
	"go.sia.tech/core/types"
)

// miniChain is a one-node chain for the contract sessions (C17): real
// consensus validation and application, a stub element store that keeps
// proofs current, trivial proof of work.
type miniChain struct {
	net   *consensus.Network
	s     consensus.State
	sc    map[types.SiacoinOutputID]types.SiacoinElement
	fcs   map[types.FileContractID]types.FileContractElement
	v2fcs map[types.FileContractID]types.V2FileContractElement
	gts   time.Time
	mined int
}

var allOnes = func() (t types.BlockID) {
	for i := range t {
		t[i] = 0xff
	}
	return
}()

func newMiniChain(v2 bool, gifts []types.SiacoinOutput) (*miniChain, error) {
	n := &consensus.Network{Name: "sess"}
	n.InitialCoinbase = types.Siacoins(300000)
	n.MinimumCoinbase = types.Siacoins(30000)
	n.BlockInterval = 10 * time.Minute
	n.MaturityDelay = 1
	n.InitialTarget = allOnes
	n.HardforkDevAddr.Height = 1
	n.HardforkTax.Height = 1
	n.HardforkStorageProof.Height = 1
	n.HardforkOak.Height = 1
	n.HardforkOak.FixHeight = 1
	n.HardforkOak.GenesisTimestamp = time.Date(2000, 1, 1, 0, 0, 0, 0, time.UTC)
	n.HardforkASIC.Height = 1
	n.HardforkASIC.OakTime = 10000 * time.Second
	n.HardforkASIC.OakTarget = allOnes
	n.HardforkASIC.NonceFactor = 1
	n.HardforkFoundation.Height = 1
	n.HardforkFoundation.PrimaryAddress = types.Address{1}
	n.HardforkFoundation.FailsafeAddress = types.Address{2}
	if v2 {
		n.HardforkV2.AllowHeight, n.HardforkV2.RequireHeight, n.HardforkV2.FinalCutHeight, n.HardforkV2.EphemeralOutputHeight = 1, 2, 3, 0
	} else {
		n.HardforkV2.AllowHeight, n.HardforkV2.RequireHeight, n.HardforkV2.FinalCutHeight, n.HardforkV2.EphemeralOutputHeight = 1<<40, 1<<41, 1<<42, 1<<42
	}
	c := &miniChain{net: n, sc: map[types.SiacoinOutputID]types.SiacoinElement{}, fcs: map[types.FileContractID]types.FileContractElement{}, v2fcs: map[types.FileContractID]types.V2FileContractElement{}}
	c.gts = n.HardforkOak.GenesisTimestamp
	genesis := types.Block{Timestamp: c.gts, Transactions: []types.Transaction{{SiacoinOutputs: gifts, SiafundOutputs: []types.SiafundOutput{{Value: 10000, Address: types.Address{3}}}}}}
	c.s = n.GenesisState()
	bs := consensus.V1BlockSupplement{Transactions: make([]consensus.V1TransactionSupplement, 1)}
	ns, au := consensus.ApplyBlock(c.s, genesis, bs, time.Time{})
	c.absorb(ns, au)
	for i := 0; i < 4; i++ {
		if err := c.mine(nil, nil); err != nil {
			return nil, fmt.Errorf("empty block %d: %w", i, err)
		}
	}
	return c, nil
}

func (c *miniChain) absorb(ns consensus.State, au consensus.ApplyUpdate) {
	for id, e := range c.sc {
		au.UpdateElementProof(&e.StateElement)
		c.sc[id] = e
	}
	for id, e := range c.fcs {
		au.UpdateElementProof(&e.StateElement)
		c.fcs[id] = e
	}
	for id, e := range c.v2fcs {
		au.UpdateElementProof(&e.StateElement)
		c.v2fcs[id] = e
	}
	for _, d := range au.SiacoinElementDiffs() {
		switch {
		case d.Spent:
			delete(c.sc, d.SiacoinElement.ID)
		case d.Created:
			c.sc[d.SiacoinElement.ID] = d.SiacoinElement.Copy()
		}
	}
	for _, d := range au.FileContractElementDiffs() {
		switch {
		case d.Resolved:
			delete(c.fcs, d.FileContractElement.ID)
		default:
			e := d.FileContractElement.Copy()
			if d.Revision != nil {
				e.FileContract = *d.Revision
			}
			c.fcs[e.ID] = e
		}
	}
	for _, d := range au.V2FileContractElementDiffs() {
		switch {
		case d.Resolution != nil:
			delete(c.v2fcs, d.V2FileContractElement.ID)
		default:
			e := d.V2FileContractElement.Copy()
			if d.Revision != nil {
				e.V2FileContract = *d.Revision
			}
			c.v2fcs[e.ID] = e
		}
	}
	c.s = ns
}

func (c *miniChain) child() uint64 { return c.s.Index.Height + 1 }

func (c *miniChain) supplement(v1 []types.Transaction) consensus.V1BlockSupplement {
	bs := consensus.V1BlockSupplement{Transactions: make([]consensus.V1TransactionSupplement, len(v1))}
	if c.child() >= c.net.HardforkV2.RequireHeight {
		return bs
	}
	for i, t := range v1 {
		for _, in := range t.SiacoinInputs {
			if e, ok := c.sc[in.ParentID]; ok {
				bs.Transactions[i].SiacoinInputs = append(bs.Transactions[i].SiacoinInputs, e.Copy())
			}
		}
		for _, r := range t.FileContractRevisions {
			if e, ok := c.fcs[r.ParentID]; ok {
				bs.Transactions[i].RevisedFileContracts = append(bs.Transactions[i].RevisedFileContracts, e.Copy())
			}
		}
	}
	var ids []types.FileContractID
	for id, e := range c.fcs {
		if e.FileContract.WindowEnd == c.child() {
			ids = append(ids, id)
		}
	}
	sort.Slice(ids, func(i, j int) bool { return string(ids[i][:]) < string(ids[j][:]) })
	for _, id := range ids {
		bs.ExpiringFileContracts = append(bs.ExpiringFileContracts, c.fcs[id].Copy())
	}
	return bs
}

// mine seals the transactions into the next block; a validation error leaves
// the chain unchanged.
func (c *miniChain) mine(v1 []types.Transaction, v2 []types.V2Transaction) error {
	reward := c.s.BlockReward()
	for i := range v1 {
		for _, f := range v1[i].MinerFees {
			reward = reward.Add(f)
		}
	}
	for i := range v2 {
		reward = reward.Add(v2[i].MinerFee)
	}
	c.mined++
	b := types.Block{ParentID: c.s.Index.ID, Timestamp: c.gts.Add(time.Duration(c.mined) * c.net.BlockInterval), Transactions: v1,
		MinerPayouts: []types.SiacoinOutput{{Value: reward, Address: types.Address{9}}}}
	if c.child() >= c.net.HardforkV2.AllowHeight {
		b.V2 = &types.V2BlockData{Height: c.child(), Transactions: v2}
		b.V2.Commitment = c.s.Commitment(b.MinerPayouts[0].Address, b.Transactions, b.V2Transactions())
	}
	f := c.s.NonceFactor()
	hdr := b.Header()
	hdr.Nonce -= hdr.Nonce % f
	for hdr.ID().CmpWork(c.s.PoWTarget()) < 0 {
		hdr.Nonce += f
	}
	b.Nonce = hdr.Nonce
	bs := c.supplement(v1)
	if err := consensus.ValidateBlock(c.s, b, bs); err != nil {
		c.mined--
		return err
	}
	ns, au := consensus.ApplyBlock(c.s, b, bs, c.gts)
	c.absorb(ns, au)
	return nil
}

// ownedBy lists the unspent, mature outputs of addr, largest first.
func (c *miniChain) ownedBy(addr types.Address) []types.SiacoinElement {
	var out []types.SiacoinElement
	for _, e := range c.sc {
		if e.SiacoinOutput.Address == addr && e.MaturityHeight <= c.child() {
			out = append(out, e)
		}
	}
	sort.Slice(out, func(i, j int) bool {
		if c := out[i].SiacoinOutput.Value.Cmp(out[j].SiacoinOutput.Value); c != 0 {
			return c > 0
		}
		return string(out[i].ID[:]) < string(out[j].ID[:])
	})
	return out
}

func bi(c types.Currency) *big.Int { return c.Big() }

func sumBig(cs ...types.Currency) *big.Int {
	t := new(big.Int)
	for _, c := range cs {
		t.Add(t, c.Big())
	}
	return t
}
