package sess

import (
	"testing"

	"verif/sim"
)

// TestWorker is the entry point of the E2 engine binary (go test -c).
func TestWorker(t *testing.T) {
	j, err := sim.LoadJob()
	if err != nil {
		t.Skip("no VERIF_JOB")
	}
	if err := sim.RunJob(j, Run(t)); err != nil {
		t.Fatal(err)
	}
}
