// Package sess is engine E2 ("simsess"): protocol endpoints (gateway, RHP2,
// RHP3, RHP4, host/renter Merkle sessions) run as tasks inside a
// testing/synctest bubble over a simulated byte-stream connection whose every
// delivery, delay and fault is decided by the seeded scheduler.
package sess

import (
	"errors"
	"io"
	"net"
	"os"
	"sync"
	"time"
)

type simAddr string

func (a simAddr) Network() string { return "sim" }
func (a simAddr) String() string  { return string(a) }

// half is one direction of a simulated connection.
type half struct {
	mu          sync.Mutex
	pending     []byte // written, not yet delivered (the "wire")
	inbox       []byte // delivered, readable
	wclosed     bool   // writer closed: EOF after inbox drains and pending is delivered
	rclosed     bool   // reader closed
	reset       bool   // connection reset by the scheduler
	notify      chan struct{}
	written     int64   // total bytes ever written
	consumed    int64   // total bytes ever returned by Read
	deliv       int64   // total bytes ever delivered
	writeStarts []int64 // stream offset at which each Write call began
}

// writeStart returns the stream offset of the k-th Write call (-1 if it has not happened yet).
func (h *half) writeStart(k int) int64 {
	h.mu.Lock()
	defer h.mu.Unlock()
	if k < 0 || k >= len(h.writeStarts) {
		return -1
	}
	return h.writeStarts[k]
}

func newHalf() *half { return &half{notify: make(chan struct{}, 1)} }

func (h *half) wake() {
	select {
	case h.notify <- struct{}{}:
	default:
	}
}

// Conn is one endpoint of the simulated connection.
type Conn struct {
	in, out       *half
	local, remote simAddr
	rdMu          sync.Mutex
	rdDeadline    time.Time
	wrDeadline    time.Time
}

// Pipe returns the two endpoints of a simulated connection with host:port
// addresses (gateway needs them).
func Pipe() (a, b *Conn) {
	ab, ba := newHalf(), newHalf()
	a = &Conn{in: ba, out: ab, local: "10.0.0.1:9981", remote: "10.0.0.2:9981"}
	b = &Conn{in: ab, out: ba, local: "10.0.0.2:9981", remote: "10.0.0.1:9981"}
	return
}

func (c *Conn) Write(p []byte) (int, error) {
	h := c.out
	h.mu.Lock()
	defer h.mu.Unlock()
	if h.wclosed || h.reset || h.rclosed {
		return 0, io.ErrClosedPipe
	}
	c.rdMu.Lock()
	dl := c.wrDeadline
	c.rdMu.Unlock()
	if !dl.IsZero() && !time.Now().Before(dl) {
		return 0, os.ErrDeadlineExceeded
	}
	h.writeStarts = append(h.writeStarts, h.written)
	h.pending = append(h.pending, p...)
	h.written += int64(len(p))
	return len(p), nil
}

func (c *Conn) Read(p []byte) (int, error) {
	if len(p) == 0 {
		return 0, nil
	}
	h := c.in
	for {
		h.mu.Lock()
		if len(h.inbox) > 0 {
			n := copy(p, h.inbox)
			h.inbox = h.inbox[n:]
			h.consumed += int64(n)
			h.mu.Unlock()
			return n, nil
		}
		if h.reset {
			h.mu.Unlock()
			return 0, errors.New("connection reset by peer")
		}
		if h.rclosed {
			h.mu.Unlock()
			return 0, io.ErrClosedPipe
		}
		if h.wclosed && len(h.pending) == 0 {
			h.mu.Unlock()
			return 0, io.EOF
		}
		h.mu.Unlock()
		c.rdMu.Lock()
		dl := c.rdDeadline
		c.rdMu.Unlock()
		if dl.IsZero() {
			<-h.notify
			continue
		}
		d := time.Until(dl)
		if d <= 0 {
			return 0, os.ErrDeadlineExceeded
		}
		t := time.NewTimer(d)
		select {
		case <-h.notify:
			t.Stop()
		case <-t.C:
			return 0, os.ErrDeadlineExceeded
		}
	}
}

// Close closes both directions as seen from this endpoint.
func (c *Conn) Close() error {
	c.out.mu.Lock()
	c.out.wclosed = true
	c.out.mu.Unlock()
	c.out.wake()
	c.in.mu.Lock()
	c.in.rclosed = true
	c.in.mu.Unlock()
	c.in.wake()
	return nil
}

func (c *Conn) LocalAddr() net.Addr  { return c.local }
func (c *Conn) RemoteAddr() net.Addr { return c.remote }
func (c *Conn) SetDeadline(t time.Time) error {
	c.rdMu.Lock()
	c.rdDeadline, c.wrDeadline = t, t
	c.rdMu.Unlock()
	c.in.wake()
	return nil
}
func (c *Conn) SetReadDeadline(t time.Time) error {
	c.rdMu.Lock()
	c.rdDeadline = t
	c.rdMu.Unlock()
	c.in.wake()
	return nil
}
func (c *Conn) SetWriteDeadline(t time.Time) error {
	c.rdMu.Lock()
	c.wrDeadline = t
	c.rdMu.Unlock()
	return nil
}

// ---- scheduler side ----

func (h *half) pendingLen() int {
	h.mu.Lock()
	defer h.mu.Unlock()
	return len(h.pending)
}

// deliver moves n pending bytes to the reader.
func (h *half) deliver(n int) {
	h.mu.Lock()
	if n > len(h.pending) {
		n = len(h.pending)
	}
	h.inbox = append(h.inbox, h.pending[:n]...)
	h.pending = h.pending[n:]
	h.deliv += int64(n)
	h.mu.Unlock()
	h.wake()
}

// flip flips bit `bit` of pending byte i.
func (h *half) flip(i, bit int) {
	h.mu.Lock()
	if i < len(h.pending) {
		h.pending[i] ^= 1 << bit
	}
	h.mu.Unlock()
}

// cut delivers n bytes and then closes the direction (peer vanished mid-message).
func (h *half) cut(n int, hard bool) {
	h.mu.Lock()
	if n > len(h.pending) {
		n = len(h.pending)
	}
	h.inbox = append(h.inbox, h.pending[:n]...)
	h.deliv += int64(n)
	h.pending = nil
	if hard {
		// the connection is reset rather than closed: what was delivered can
		// still be read, then reads fail with an error that is not EOF
		h.reset = true
	} else {
		h.wclosed = true
	}
	h.mu.Unlock()
	h.wake()
}

// kill resets the direction.
func (h *half) kill() {
	h.mu.Lock()
	h.reset = true
	h.pending = nil
	h.mu.Unlock()
	h.wake()
}

func (h *half) stats() (written, delivered, consumed int64) {
	h.mu.Lock()
	defer h.mu.Unlock()
	return h.written, h.deliv, h.consumed
}

func (h *half) isClosed() bool {
	h.mu.Lock()
	defer h.mu.Unlock()
	return h.wclosed || h.reset || h.rclosed
}

// isDead reports whether this direction can carry nothing more: closed by
// either end or reset by the scheduler.
func (h *half) isDead() bool {
	h.mu.Lock()
	defer h.mu.Unlock()
	return h.wclosed || h.rclosed || h.reset
}
