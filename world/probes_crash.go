package world

import (
	"fmt"
	"sort"
	"strings"
	"time"

	"go.sia.tech/core/consensus"
	"go.sia.tech/core/types"
)

// P-crash (C10): structure-aware rewrites with extreme values. The expectation
// is only: no panic, bounded work, any verdict; blocks that pass are applied
// and reverted.

func (w *World) crashOffer(sc *scratch, name string, v1 []types.Transaction, v2 []types.V2Transaction) {
	// only decodable inputs are in the quantifier: go through the wire first
	var b types.Block
	if p := guard(func() { b = w.assembleOpt(sc.s, sc.nextTimestamp(), w.miners[0].addr, v1, v2, len(v2) > 0) }); p != "" {
		// the fees do not total: a hostile peer seals the block all the same,
		// with whatever payout it likes
		b = w.assembleHostile(sc.s, sc.nextTimestamp(), w.miners[0].addr, v1, v2, len(v2) > 0)
		w.stats.Inc("probe.crash-untotalled-fees")
	}
	// the transaction-level entry points (what a transaction pool calls), each
	// transaction alone against the fork's state
	for i := range v1 {
		var ts consensus.V1TransactionSupplement
		if bs := sc.supplement(types.Block{Transactions: v1[i : i+1]}); len(bs.Transactions) == 1 {
			ts = bs.Transactions[0]
		}
		if p := guard(func() { consensus.ValidateTransaction(consensus.NewMidState(sc.s), v1[i], ts) }); p != "" {
			w.violate("C10", "validate-txn-panic", fmt.Sprintf("row %s: ValidateTransaction: %s", name, p))
			return
		}
	}
	for i := range v2 {
		if p := guard(func() { consensus.ValidateV2Transaction(consensus.NewMidState(sc.s), v2[i]) }); p != "" {
			w.violate("C10", "validate-txn-panic", fmt.Sprintf("row %s: ValidateV2Transaction: %s", name, p))
			return
		}
		if p := guard(func() { _ = sc.s.Elements.ValidateTransactionElements(v2[i]) }); p != "" {
			w.violate("C10", "validate-txn-panic", fmt.Sprintf("row %s: ValidateTransactionElements: %s", name, p))
			return
		}
	}
	var enc []byte
	if p := guard(func() { enc = encodeBlock(b) }); p != "" {
		return // not encodable: cannot arrive from a peer
	}
	var db types.Block
	var derr error
	if p := guard(func() { db, derr = decodeBlock(enc) }); p != "" {
		w.violate("C10", "decode-block-panic", fmt.Sprintf("row %s: %s", name, p))
		return
	}
	w.stats.Inc("probe.Z1-" + name)
	w.stats.Inc("probe.crash")
	w.stats.Inc("probe.rows-run")
	if derr != nil {
		return
	}
	// re-seal after the round trip (commitment covers the decoded form)
	if p := guard(func() { sc.offer(db.Transactions, db.V2Transactions(), offerOpt{forceV2: db.V2 != nil}) }); p != "" && !strings.Contains(p, "go.sia.tech/core") {
		return
	}
}

func init() {
	registerRows("C10",
		probeRow{"Z1-v2-extremes", func(w *World, n *Node) {
			sc := n.fork()
			if !sc.v2ok() {
				return
			}
			e, ok := pickSC(w, sc.ownedSC(false, true))
			if !ok {
				return
			}
			max := types.MaxCurrency
			t1, ok := w.spendV2(sc.s, []types.SiacoinElement{e}, w.advAddr())
			if !ok {
				return
			}
			half := e.SiacoinOutput.Value.Div64(2)
			t1.SiacoinOutputs = []types.SiacoinOutput{{Value: half, Address: w.advAddr()}, {Value: e.SiacoinOutput.Value.Sub(half), Address: w.advAddr()}}
			if !w.signAllV2(sc.s, &t1) {
				return
			}
			eph := func(i int, v types.Currency) types.SiacoinElement {
				x := t1.EphemeralSiacoinOutput(i)
				x.SiacoinOutput.Value = v
				return x
			}
			// two ephemeral parents claiming the maximum currency each
			if t2, ok := w.spendV2(sc.s, []types.SiacoinElement{eph(0, half)}, w.advAddr()); ok {
				t2.SiacoinInputs = append(t2.SiacoinInputs, types.V2SiacoinInput{Parent: eph(1, max)})
				t2.SiacoinInputs[0].Parent.SiacoinOutput.Value = max
				t2.SiacoinOutputs[0].Value = max
				w.signAllV2(sc.s, &t2)
				w.crashOffer(sc, "ephemeral-parents-max-currency", nil, []types.V2Transaction{t1, t2})
			}
			// parents whose proofs are as long as the accumulator has trees, and longer
			for _, k := range []int{62, 63, 64, 65, 66, 128, 1000} {
				t := t1.DeepCopy()
				t.SiacoinInputs[0].Parent.StateElement.MerkleProof = make([]types.Hash256, k)
				if k%2 == 0 {
					t.SiacoinInputs[0].Parent.StateElement.LeafIndex = ^uint64(0) - 1
				}
				w.crashOffer(sc, fmt.Sprintf("parent-proof-of-%d-hashes", k), nil, []types.V2Transaction{t})
			}
			// outputs that overflow when summed
			t := t1.DeepCopy()
			t.SiacoinOutputs = []types.SiacoinOutput{{Value: max, Address: w.advAddr()}, {Value: max, Address: w.advAddr()}}
			w.signAllV2(sc.s, &t)
			w.crashOffer(sc, "outputs-overflow", nil, []types.V2Transaction{t})
			t = t1.DeepCopy()
			t.MinerFee = max
			w.signAllV2(sc.s, &t)
			w.crashOffer(sc, "fee-max", nil, []types.V2Transaction{t})
			// siafund output beyond the siafund count; ephemeral siafund with forged claim start
			t = t1.DeepCopy()
			t.SiafundOutputs = []types.SiafundOutput{{Value: 1 << 40, Address: w.advAddr()}}
			w.signAllV2(sc.s, &t)
			w.crashOffer(sc, "siafund-output-huge", nil, []types.V2Transaction{t})
			for _, id := range sc.store.sortedSF() {
				sfe := sc.store.SF[id]
				if o, ai := w.ownerOf(sfe.SiafundOutput.Address); o != nil && o.canSatisfyNow(sc.s, ai) {
					a := types.V2Transaction{SiafundInputs: []types.V2SiafundInput{{Parent: sfe.Copy(), ClaimAddress: w.advAddr()}}, SiafundOutputs: []types.SiafundOutput{{Value: sfe.SiafundOutput.Value, Address: w.advAddr()}}}
					if !w.signAllV2(sc.s, &a) {
						break
					}
					ephSF := a.EphemeralSiafundOutput(0)
					ephSF.ClaimStart = max
					bx := types.V2Transaction{SiafundInputs: []types.V2SiafundInput{{Parent: ephSF, ClaimAddress: w.advAddr()}}, SiafundOutputs: []types.SiafundOutput{{Value: sfe.SiafundOutput.Value, Address: w.advAddr()}}}
					w.signAllV2(sc.s, &bx)
					w.crashOffer(sc, "ephemeral-siafund-forged-claim-start", nil, []types.V2Transaction{a, bx})
					cx := bx.DeepCopy()
					cx.SiafundInputs[0].Parent.SiafundOutput.Value = ^uint64(0)
					cx.SiafundOutputs[0].Value = ^uint64(0)
					w.signAllV2(sc.s, &cx)
					w.crashOffer(sc, "ephemeral-siafund-forged-value", nil, []types.V2Transaction{a, cx})
					break
				}
			}
			// contracts with extreme fields
			c := &Contract{renter: w.wallets[0], host: w.wallets[len(w.wallets)-1]}
			tbl1 := map[string]func(fc *types.V2FileContract){
				"contract-values-max":   func(fc *types.V2FileContract) { fc.RenterOutput.Value, fc.HostOutput.Value = max, max },
				"contract-missed-max":   func(fc *types.V2FileContract) { fc.MissedHostValue, fc.TotalCollateral = max, max },
				"contract-heights-max":  func(fc *types.V2FileContract) { fc.ProofHeight, fc.ExpirationHeight = ^uint64(0)-1, ^uint64(0) },
				"contract-filesize-max": func(fc *types.V2FileContract) { fc.Filesize, fc.Capacity = ^uint64(0), ^uint64(0) },
				"contract-revision-max": func(fc *types.V2FileContract) { fc.RevisionNumber = types.MaxRevisionNumber },
			}
			for _, name := range sortedKeys(tbl1) {
				mut := tbl1[name]
				fc := types.V2FileContract{ProofHeight: sc.child() + 2, ExpirationHeight: sc.child() + 4, RenterOutput: types.SiacoinOutput{Value: types.Siacoins(1)}, HostOutput: types.SiacoinOutput{Value: types.Siacoins(1)},
					RenterPublicKey: c.renterKey().PublicKey(), HostPublicKey: c.hostKey().PublicKey()}
				mut(&fc)
				w.signContractV2(sc.s, &fc, c.renterKey(), c.hostKey())
				t := t1.DeepCopy()
				t.FileContracts = []types.V2FileContract{fc}
				w.signAllV2(sc.s, &t)
				w.crashOffer(sc, name, nil, []types.V2Transaction{t})
			}
			// resolutions of a live contract with degenerate proofs
			if lc := sc.pickLive(true, nil); lc != nil {
				el := sc.store.V2FC[lc.id]
				tbl2 := map[string]*types.V2StorageProof{
					"v2-proof-empty":    {ProofIndex: sc.store.CI[len(sc.store.CI)-1].Copy()},
					"v2-proof-64":       {ProofIndex: sc.store.CI[len(sc.store.CI)-1].Copy(), Proof: make([]types.Hash256, 64)},
					"v2-proof-10000":    {ProofIndex: sc.store.CI[len(sc.store.CI)-1].Copy(), Proof: make([]types.Hash256, 10000)},
					"v2-proof-no-index": {},
				}
				for _, name := range sortedKeys(tbl2) {
					sp := tbl2[name]
					t := types.V2Transaction{FileContractResolutions: []types.V2FileContractResolution{{Parent: el.Copy(), Resolution: sp}}}
					w.crashOffer(sc, name, nil, []types.V2Transaction{t})
				}
				ren := &types.V2FileContractRenewal{NewContract: el.V2FileContract, RenterRollover: max, HostRollover: max, FinalRenterOutput: types.SiacoinOutput{Value: max}, FinalHostOutput: types.SiacoinOutput{Value: max}}
				t := types.V2Transaction{FileContractResolutions: []types.V2FileContractResolution{{Parent: el.Copy(), Resolution: ren}}}
				w.crashOffer(sc, "renewal-values-max", nil, []types.V2Transaction{t})
				// a parent whose leaf index is the ephemeral sentinel
				t = types.V2Transaction{FileContractRevisions: []types.V2FileContractRevision{{Parent: el.Copy(), Revision: el.V2FileContract}}}
				t.FileContractRevisions[0].Parent.StateElement.LeafIndex = types.UnassignedLeafIndex
				w.crashOffer(sc, "revision-parent-unassigned-leaf", nil, []types.V2Transaction{t})
			}
			// policies: deep nesting, threshold beyond its children, many children
			deep := types.PolicyPublicKey(w.wallets[0].keys[0].PublicKey())
			for i := 0; i < 31; i++ {
				deep = types.PolicyThreshold(1, []types.SpendPolicy{deep})
			}
			wide := make([]types.SpendPolicy, 255)
			for i := range wide {
				wide[i] = types.PolicyAbove(uint64(i))
			}
			tbl3 := map[string]types.SpendPolicy{
				"policy-depth-32":         deep,
				"policy-threshold-beyond": types.PolicyThreshold(200, []types.SpendPolicy{types.PolicyAbove(0)}),
				"policy-255-children":     types.PolicyThreshold(255, wide),
				"policy-nested-uc":        types.PolicyThreshold(1, []types.SpendPolicy{{Type: types.PolicyTypeUnlockConditions(*w.wallets[0].addrs[0].uc)}}),
				"policy-uc-huge-required": {Type: types.PolicyTypeUnlockConditions{SignaturesRequired: ^uint64(0), PublicKeys: w.wallets[0].addrs[0].uc.PublicKeys}},
			}
			for _, name := range sortedKeys(tbl3) {
				pol := tbl3[name]
				t := t1.DeepCopy()
				t.SiacoinInputs[0].SatisfiedPolicy = types.SatisfiedPolicy{Policy: pol, Signatures: make([]types.Signature, 3)}
				w.crashOffer(sc, name, nil, []types.V2Transaction{t})
			}
		}},
		probeRow{"Z1-v1-extremes", func(w *World, n *Node) {
			sc := n.fork()
			if !sc.v1ok() {
				return
			}
			e, ok := pickSC(w, sc.ownedSC(true, true))
			if !ok {
				return
			}
			base, ok := w.spendV1(sc.s, []types.SiacoinElement{e}, w.wallets[0].addrs[0].addr)
			if !ok {
				return
			}
			max := types.MaxCurrency
			clone := func() types.Transaction {
				d := types.NewBufDecoder(encV1(base))
				var t types.Transaction
				t.DecodeFrom(d)
				return t
			}
			tbl4 := map[string]func(t *types.Transaction){
				"v1-outputs-overflow": func(t *types.Transaction) { t.SiacoinOutputs = []types.SiacoinOutput{{Value: max}, {Value: max}} },
				"v1-fees-overflow":    func(t *types.Transaction) { t.MinerFees = []types.Currency{max, max} },
				"v1-siafund-huge":     func(t *types.Transaction) { t.SiafundOutputs = []types.SiafundOutput{{Value: ^uint64(0)}} },
				"v1-pubkey-index": func(t *types.Transaction) {
					t.Signatures[0].PublicKeyIndex = uint64(len(t.SiacoinInputs[0].UnlockConditions.PublicKeys))
				},
				"v1-pubkey-index-huge": func(t *types.Transaction) { t.Signatures[0].PublicKeyIndex = ^uint64(0) },
				"v1-covered-sig-self":  func(t *types.Transaction) { t.Signatures[0].CoveredFields.Signatures = []uint64{0, 0, 1 << 62} },
				"v1-covered-index-len": func(t *types.Transaction) {
					t.Signatures[0].CoveredFields = types.CoveredFields{SiacoinInputs: []uint64{uint64(len(t.SiacoinInputs))}}
				},
				"v1-sig-parent-unknown": func(t *types.Transaction) { t.Signatures[0].ParentID[0] ^= 1 },
				"v1-short-key":          func(t *types.Transaction) { t.SiacoinInputs[0].UnlockConditions.PublicKeys[0].Key = []byte{1, 2, 3} },
				"v1-short-signature":    func(t *types.Transaction) { t.Signatures[0].Signature = []byte{1} },
				"v1-contract-extremes": func(t *types.Transaction) {
					t.FileContracts = []types.FileContract{{Filesize: ^uint64(0), WindowStart: ^uint64(0) - 1, WindowEnd: ^uint64(0), Payout: max, ValidProofOutputs: []types.SiacoinOutput{{Value: max}}, MissedProofOutputs: []types.SiacoinOutput{{Value: max}}}}
				},
				"v1-contract-no-outputs": func(t *types.Transaction) {
					t.FileContracts = []types.FileContract{{WindowStart: sc.child() + 1, WindowEnd: sc.child() + 2, Payout: types.NewCurrency64(1)}}
				},
				"v1-proof-unknown-contract": func(t *types.Transaction) {
					t.SiacoinOutputs = nil
					t.StorageProofs = []types.StorageProof{{ParentID: types.FileContractID{1}, Proof: make([]types.Hash256, 70)}}
				},
				"v1-foundation-update-short": func(t *types.Transaction) { t.ArbitraryData = [][]byte{types.SpecifierFoundation[:]} },
				"v1-duplicate-input":         func(t *types.Transaction) { t.SiacoinInputs = append(t.SiacoinInputs, t.SiacoinInputs[0]) },
				"v1-missing-parent":          func(t *types.Transaction) { t.SiacoinInputs[0].ParentID[5] ^= 9 },
			}
			for _, name := range sortedKeys(tbl4) {
				mut := tbl4[name]
				t := clone()
				mut(&t)
				w.crashOffer(sc, name, []types.Transaction{t}, nil)
			}
			// storage proofs of a live contract with degenerate proof lengths
			if lc := sc.pickLive(false, nil); lc != nil {
				tbl5 := map[string]types.StorageProof{
					"v1-proof-empty": {ParentID: lc.id},
					"v1-proof-64":    {ParentID: lc.id, Proof: make([]types.Hash256, 64)},
					"v1-proof-70":    {ParentID: lc.id, Proof: make([]types.Hash256, 70)},
					"v1-proof-10000": {ParentID: lc.id, Proof: make([]types.Hash256, 10000)},
				}
				for _, name := range sortedKeys(tbl5) {
					sp := tbl5[name]
					w.crashOffer(sc, name, []types.Transaction{{StorageProofs: []types.StorageProof{sp}}}, nil)
				}
			}
		}},
	)
	_ = consensus.State{}
}

// assembleHostile seals a block over any transactions: the payout is the
// reward plus the fees as far as they can be totalled.
func (w *World) assembleHostile(s consensus.State, ts time.Time, addr types.Address, v1 []types.Transaction, v2 []types.V2Transaction, forceV2 bool) types.Block {
	reward := s.BlockReward()
	add := func(c types.Currency) {
		if sum, over := reward.AddWithOverflow(c); !over {
			reward = sum
		}
	}
	for i := range v1 {
		for _, f := range v1[i].MinerFees {
			add(f)
		}
	}
	for i := range v2 {
		add(v2[i].MinerFee)
	}
	b := types.Block{ParentID: s.Index.ID, Timestamp: ts, Transactions: v1, MinerPayouts: []types.SiacoinOutput{{Value: reward, Address: addr}}}
	if child := s.Index.Height + 1; forceV2 || child >= w.net.HardforkV2.AllowHeight {
		b.V2 = &types.V2BlockData{Height: child, Transactions: v2}
		b.V2.Commitment = s.Commitment(addr, b.Transactions, b.V2Transactions())
	}
	sealBlock(s, &b)
	return b
}

// sortedKeys returns the keys of m in sorted order (map iteration order must
// never reach the choice tape).
func sortedKeys[V any](m map[string]V) []string {
	ks := make([]string, 0, len(m))
	for k := range m {
		ks = append(ks, k)
	}
	sort.Strings(ks)
	return ks
}
