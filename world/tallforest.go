package world

import (
	"fmt"
	"math/bits"
	"time"

	"go.sia.tech/core/consensus"
	"go.sia.tech/core/types"
	"verif/ref"
	"verif/sim"
)

// tallForestProbe (C05): leaf counts no simulated chain reaches. A synthetic
// accumulator with one tree of height 31..40 (and a few small ones) holds two
// fabricated siacoin outputs with mutually consistent proofs; a block spending
// one of them is applied and reverted on it, and the other output's proof is
// carried through both updates. Every root is recomputed here from the leaf
// hash by definition and the proof, never by the library's proof functions.
func (w *World) tallForestProbe(tip consensus.State) {
	t := w.tape
	H := pick(t, 31, 32, 33, 34, 40)
	n := uint64(1)<<H | uint64(t.Choose(8))
	hi := uint64(1) << (H - 1)
	a := hi | uint64(t.Choose(1<<10)) | uint64(t.Choose(2))<<(H-2)
	b := a
	for b == a {
		b = pick(t, a^1, a^(1<<uint(t.Range(1, 9))), a^hi, uint64(t.Choose(1<<10)), hi|uint64(t.Choose(1<<10)))
	}
	mk := func(i uint64, salt byte) types.SiacoinElement {
		return types.SiacoinElement{ID: types.SiacoinOutputID{salt, 0x7a, byte(H)}, StateElement: types.StateElement{LeafIndex: i},
			SiacoinOutput: types.SiacoinOutput{Value: types.Siacoins(uint32(1 + salt)), Address: w.advAddr()}}
	}
	ea, eb := mk(a, 1), mk(b, 2)
	leaf := func(e types.SiacoinElement, spent bool) types.Hash256 {
		return ref.LeafHash(ref.SiacoinElemHash(e.ID, e.SiacoinOutput, e.MaturityHeight), e.StateElement.LeafIndex, spent)
	}
	// consistent paths: below the merge level each leaf has siblings of its
	// own, at the merge level each is the other's subtree, above they share
	m := bits.Len64(a ^ b) // the two paths join at level m (node of height m)
	filler := func(tag string, lvl int) (h types.Hash256) {
		copy(h[:], sim.HashBytes("tall-"+tag, uint64(H), uint64(lvl), 32))
		return
	}
	pa, pb := make([]types.Hash256, H), make([]types.Hash256, H)
	ha, hb := leaf(ea, false), leaf(eb, false)
	for lvl := 0; lvl < H; lvl++ {
		switch {
		case lvl < m-1:
			pa[lvl], pb[lvl] = filler("a", lvl), filler("b", lvl)
			ha = ref.ProofRoot(ha, a>>uint(lvl), pa[lvl:lvl+1])
			hb = ref.ProofRoot(hb, b>>uint(lvl), pb[lvl:lvl+1])
		case lvl == m-1:
			pa[lvl], pb[lvl] = hb, ha
			ha = ref.ProofRoot(ha, a>>uint(lvl), pa[lvl:lvl+1])
			hb = ha
		default:
			pa[lvl] = filler("shared", lvl)
			pb[lvl] = pa[lvl]
			ha = ref.ProofRoot(ha, a>>uint(lvl), pa[lvl:lvl+1])
			hb = ha
		}
	}
	ea.StateElement.MerkleProof, eb.StateElement.MerkleProof = pa, pb
	s := tip
	s.Elements = consensus.ElementAccumulator{NumLeaves: n}
	s.Elements.Trees[H] = ha
	for bit := 0; bit < 3; bit++ {
		if n&(1<<bit) != 0 {
			s.Elements.Trees[bit] = filler("small", bit)
		}
	}
	verify := func(e types.SiacoinElement, spent bool, st consensus.State) bool {
		h := len(e.StateElement.MerkleProof)
		return h < 64 && st.Elements.NumLeaves&(1<<h) != 0 && ref.ProofRoot(leaf(e, spent), e.StateElement.LeafIndex, e.StateElement.MerkleProof) == st.Elements.Trees[h]
	}
	what := fmt.Sprintf("synthetic accumulator of %d leaves (tree of height %d), outputs at leaves %d and %d", n, H, a, b)
	if !verify(ea, false, s) || !verify(eb, false, s) {
		w.harnessErr("tall forest: fabricated proofs do not verify (%s)", what)
		return
	}
	// a v2 block spending b
	txn := types.V2Transaction{SiacoinInputs: []types.V2SiacoinInput{{Parent: eb.Copy(), SatisfiedPolicy: types.SatisfiedPolicy{Policy: types.AnyoneCanSpend()}}},
		SiacoinOutputs: []types.SiacoinOutput{{Value: eb.SiacoinOutput.Value, Address: w.advAddr()}}}
	blk := types.Block{ParentID: s.Index.ID, Timestamp: s.PrevTimestamps[0].Add(time.Second), MinerPayouts: []types.SiacoinOutput{{Value: s.BlockReward(), Address: w.advAddr()}},
		V2: &types.V2BlockData{Height: s.Index.Height + 1, Transactions: []types.V2Transaction{txn}}}
	var ns consensus.State
	var au consensus.ApplyUpdate
	if p := guard(func() { ns, au = consensus.ApplyBlock(s, blk, consensus.V1BlockSupplement{}, s.PrevTimestamps[0]) }); p != "" {
		w.violate("C05", "tall-forest-apply-panic", what+": ApplyBlock panicked: "+p)
		return
	}
	tracked := ea.Copy()
	au.UpdateElementProof(&tracked.StateElement)
	if !verify(tracked, false, ns) {
		w.violate("C05", "tall-forest-proof", fmt.Sprintf("%s: after applying a block that spends the second, the first output's updated proof (%d hashes) does not fold to the root of its tree", what, len(tracked.StateElement.MerkleProof)))
		return
	}
	for _, d := range au.SiacoinElementDiffs() {
		if d.SiacoinElement.ID == eb.ID && !verify(d.SiacoinElement, true, ns) {
			w.violate("C05", "tall-forest-proof", what+": the spent output as the update reports it does not verify as spent against the new state")
			return
		}
	}
	var ru consensus.RevertUpdate
	if p := guard(func() { ru = consensus.RevertBlock(s, blk, consensus.V1BlockSupplement{}) }); p != "" {
		w.violate("C05", "tall-forest-revert-panic", what+": RevertBlock panicked: "+p)
		return
	}
	ru.UpdateElementProof(&tracked.StateElement)
	if !verify(tracked, false, s) || fmt.Sprint(tracked.StateElement.MerkleProof) != fmt.Sprint(pa) {
		w.violate("C05", "tall-forest-proof", what+": after reverting the block again, the first output's proof is not the one it had before")
		return
	}
	w.stats.Inc("probe.tall-forest")
}
