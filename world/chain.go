package world

import (
	"fmt"
	"runtime/debug"
	"strings"

	"go.sia.tech/core/consensus"
	"go.sia.tech/core/types"
)

// guard runs fn and converts a panic into an error string.
func guard(fn func()) (panicked string) {
	defer func() {
		if r := recover(); r != nil {
			panicked = fmt.Sprint(r) + " @ " + panicSite(debug.Stack())
		}
	}()
	fn()
	return ""
}

// panicSite extracts the library frames nearest to the panic from a stack
// trace ("pkg.Func < pkg.Func < ..."), so that a finding can be identified by
// its call site.
func panicSite(stack []byte) string {
	var frames []string
	for _, line := range strings.Split(string(stack), "\n") {
		if !strings.HasPrefix(line, "go.sia.tech/core/") {
			continue
		}
		f := strings.TrimPrefix(line, "go.sia.tech/core/")
		if i := strings.LastIndex(f, "("); i > 0 {
			f = f[:i]
		}
		frames = append(frames, f)
		if len(frames) == 4 {
			break
		}
	}
	if len(frames) == 0 {
		return "outside the library"
	}
	return strings.Join(frames, " < ")
}

// txnSupplement builds the supplement of a single v1 transaction from the
// store (used for mempool validation).
func (n *Node) txnSupplement(txn types.Transaction) consensus.V1TransactionSupplement {
	b := types.Block{Transactions: []types.Transaction{txn}}
	return n.store.supplementFor(b, n.tip.Index.Height+1, n.best).Transactions[0]
}

// applyToTip validates and applies b as a child of the current tip.
func (n *Node) applyToTip(e *blockEntry) error {
	w := n.w
	parentState := n.tip
	var supp consensus.V1BlockSupplement
	if e.applied {
		// re-application after a reorg: the supplement must be rebuilt from the
		// store (proofs have moved); its content must equal the stored one.
		supp = n.supplement(e.b)
	} else {
		supp = n.supplement(e.b)
	}
	var verr error
	snap := w.preValidate(n, parentState, e.b, supp)
	if p := guard(func() { verr = consensus.ValidateBlock(parentState, e.b, supp) }); p != "" {
		w.violate("C10", "validate-panic", fmt.Sprintf("ValidateBlock panicked on block %s at height %d: %s", short(e.id), e.height, p))
		return fmt.Errorf("panic: %s", p)
	}
	w.postValidate(n, snap, parentState, e.b, supp, verr)
	ats := n.ancestorTimestamp(n.blocks[e.parent])
	w.concRecord(parentState, e.b, supp, ats, verr, fmt.Sprintf("block %s at height %d", short(e.id), e.height))
	if verr != nil {
		return verr
	}
	var ns consensus.State
	var au consensus.ApplyUpdate
	if p := guard(func() { ns, au = consensus.ApplyBlock(parentState, e.b, supp, ats) }); p != "" {
		w.violate("C10", "apply-panic", fmt.Sprintf("ApplyBlock panicked on validated block %s at height %d: %s", short(e.id), e.height, p))
		return fmt.Errorf("panic: %s", p)
	}
	w.postApply(n, snap, parentState, e, supp, ns, au)
	first := !e.applied
	enc := encodeState(ns)
	if w.tape.Choose(w.wireRate()*3) == 0 {
		w.onWire("state", ns, enc)
	}
	sig := diffDigest(au.SiacoinElementDiffs(), au.SiafundElementDiffs(), au.FileContractElementDiffs(), au.V2FileContractElementDiffs())
	if prev, ok := w.stateByBlock[e.id]; ok {
		if prev != string(enc)+sig {
			w.violate("C09", "state-depends-on-history", fmt.Sprintf("node %d applying block %s at height %d reached a different state or diffs than another node did for the same block", n.idx, short(e.id), e.height))
		}
	} else {
		w.stateByBlock[e.id] = string(enc) + sig
	}
	if first {
		e.applied, e.state, e.stateEnc, e.diffSig = true, ns, enc, sig
	} else {
		if string(enc) != string(e.stateEnc) {
			w.violate("C06", "reapply-state", fmt.Sprintf("re-applying block %s at height %d after a reorg gave a different state encoding", short(e.id), e.height))
		}
		if sig != e.diffSig {
			w.violate("C06", "reapply-diffs", fmt.Sprintf("re-applying block %s at height %d after a reorg gave different diffs", short(e.id), e.height))
		}
		w.stats.Inc("reach.reapply")
	}
	e.supp = supp
	e.applyDiffs = noProofDiffs(au.SiacoinElementDiffs(), au.SiafundElementDiffs(), au.FileContractElementDiffs(), au.V2FileContractElementDiffs())
	e.preStore, e.preStoreNoProof = n.store.digest(true), n.store.digest(false)
	n.store.apply(au)
	n.best = append(n.best, e.id)
	n.tip = ns
	n.poolApplied(e, au)
	w.onApplied(n, e, au, first)
	return nil
}

// revertTip reverts the tip block.
func (n *Node) revertTip() {
	w := n.w
	e := n.tipEntry()
	parent := n.blocks[e.parent]
	var ru consensus.RevertUpdate
	pre := w.preRevert(n, e)
	if p := guard(func() { ru = consensus.RevertBlock(parent.state, e.b, e.supp) }); p != "" {
		w.violate("C10", "revert-panic", fmt.Sprintf("RevertBlock panicked on applied block %s at height %d: %s", short(e.id), e.height, p))
		w.fatal = true
		return
	}
	n.poolReverting(e, parent.state.Elements.NumLeaves)
	n.store.revert(ru)
	n.best = n.best[:len(n.best)-1]
	n.tip = parent.state
	n.poolReverted(e, ru)
	w.onReverted(n, e, ru, pre)
}

// chainTo returns the path from the fork point (exclusive) to e (inclusive).
func (n *Node) pathTo(e *blockEntry) (fork *blockEntry, path []*blockEntry) {
	cur := e
	for {
		if cur.height < uint64(len(n.best)) && n.best[cur.height] == cur.id {
			return cur, path
		}
		path = append([]*blockEntry{cur}, path...)
		cur = n.blocks[cur.parent]
	}
}

// considerTip switches to the branch ending in e if it is sufficiently
// heavier and fully valid.
func (n *Node) considerTip(e *blockEntry) {
	w := n.w
	if e.invalid || !e.hstate.SufficientlyHeavierThan(n.tip) {
		return
	}
	fork, path := n.pathTo(e)
	for _, p := range path {
		if p.invalid {
			return
		}
	}
	oldTip := n.tipEntry()
	var undone []*blockEntry
	for n.tip.Index.ID != fork.id {
		undone = append(undone, n.tipEntry())
		n.revertTip()
		if w.fatal {
			return
		}
	}
	if len(undone) > 0 {
		n.reorgs++
		w.stats.Inc("reach.reorg")
		w.stats.Inc(fmt.Sprintf("reach.reorg.depth%d", min(len(undone), 9)))
		w.log.Addf("t=%d node=%d ev=reorg depth=%d from=%s to=%s", w.now, n.idx, len(undone), short(oldTip.id), short(e.id))
		if len(undone) > w.maxReorg {
			w.maxReorg = len(undone)
		}
	}
	for _, p := range path {
		if err := n.applyToTip(p); err != nil {
			// invalid block on the new branch: mark it and its known
			// descendants, restore the old branch.
			w.log.Addf("t=%d node=%d ev=reject id=%s h=%d err=%q", w.now, n.idx, short(p.id), p.height, errClass(err))
			w.stats.Inc("node.reject")
			if debugHook != nil {
				for _, o := range w.nodes {
					if oe, ok := o.blocks[p.id]; ok && o != n {
						pe := o.blocks[p.parent]
						w.log.Addf("DBG reject at node %d: node %d has it applied=%v invalid=%v sameFull=%v sameWire=%v parentStateSame=%v", n.idx, o.idx, oe.applied, oe.invalid, string(fullBlockBytes(oe.b)) == string(fullBlockBytes(p.b)), string(encodeBlock(oe.b)) == string(encodeBlock(p.b)), pe != nil && pe.applied && string(pe.stateEnc) == string(encodeState(n.tip)))
					}
				}
			}
			p.invalid = true
			if w.fatal {
				return
			}
			for n.tip.Index.ID != fork.id {
				n.revertTip()
				if w.fatal {
					return
				}
			}
			for j := len(undone) - 1; j >= 0; j-- {
				if err := n.applyToTip(undone[j]); err != nil {
					w.violate("C06", "reapply-rejected", fmt.Sprintf("block %s at height %d, accepted earlier, was rejected when re-applied after a failed reorg: %v", short(undone[j].id), undone[j].height, err))
					w.fatal = true
					return
				}
			}
			return
		}
		w.log.Addf("t=%d node=%d ev=accept id=%s h=%d txns=%d/%d", w.now, n.idx, short(p.id), p.height, len(p.b.Transactions), len(p.b.V2Transactions()))
	}
	n.revalidatePool()
}

func errClass(err error) string {
	s := errStr(err)
	if len(s) > 60 {
		s = s[:60]
	}
	return s
}

// receiveBlock handles a decoded block from the network or the local miner.
// It returns false if the parent is unknown (orphan).
func (n *Node) receiveBlock(b types.Block) (known bool) {
	w := n.w
	id := b.ID()
	if old, ok := n.blocks[id]; ok {
		if debugHook != nil && old.invalid {
			w.log.Addf("DBG node=%d again invalid-marked %s applied=%v same=%v full-same=%v", n.idx, short(id), old.applied, string(encodeBlock(old.b)) == string(encodeBlock(b)), string(fullBlockBytes(old.b)) == string(fullBlockBytes(b)))
		}
		// A block marked invalid may have been a damaged copy that kept its ID
		// (Merkle proofs and v2 witnesses are not covered by the ID). Do not let
		// it poison the ID: a different encoding gets a fresh evaluation.
		if old.invalid && !old.applied && string(encodeBlock(old.b)) != string(encodeBlock(b)) {
			w.stats.Inc("node.replace-invalid")
			delete(n.blocks, id)
		} else {
			w.stats.Inc("node.dup-block")
			return true
		}
	}
	parent, ok := n.blocks[b.ParentID]
	if !ok {
		return false
	}
	if parent.invalid {
		return true
	}
	var herr error
	hdr := b.Header()
	if p := guard(func() { herr = consensus.ValidateHeader(parent.hstate, hdr) }); p != "" {
		w.violate("C10", "validate-header-panic", p)
		return true
	}
	if herr != nil {
		w.stats.Inc("node.reject-header")
		w.log.Addf("t=%d node=%d ev=reject-header id=%s parent=%s ph=%d ts=%d err=%q", w.now, n.idx, short(id), short(b.ParentID), parent.height, b.Timestamp.Unix(), errClass(herr))
		return true
	}
	e := &blockEntry{b: b, id: id, height: parent.height + 1, parent: b.ParentID}
	if p := guard(func() { e.hstate = consensus.ApplyHeader(parent.hstate, hdr, n.ancestorTimestamp(parent)) }); p != "" {
		w.violate("C13", "apply-header-panic", fmt.Sprintf("ApplyHeader panicked at height %d: %s", e.height, p))
		return true
	}
	n.blocks[id] = e
	n.considerTip(e)
	// adopt orphans waiting for this block
	if kids := n.orphans[id]; len(kids) > 0 {
		delete(n.orphans, id)
		for _, k := range kids {
			n.receiveBlock(k)
		}
	}
	return true
}

// ---- mempool ----

func v2Parents(txn *types.V2Transaction, fn func(se *types.StateElement)) {
	for i := range txn.SiacoinInputs {
		fn(&txn.SiacoinInputs[i].Parent.StateElement)
	}
	for i := range txn.SiafundInputs {
		fn(&txn.SiafundInputs[i].Parent.StateElement)
	}
	for i := range txn.FileContractRevisions {
		fn(&txn.FileContractRevisions[i].Parent.StateElement)
	}
	for i := range txn.FileContractResolutions {
		fn(&txn.FileContractResolutions[i].Parent.StateElement)
		if sp, ok := txn.FileContractResolutions[i].Resolution.(*types.V2StorageProof); ok {
			fn(&sp.ProofIndex.StateElement)
		}
	}
}

func (n *Node) poolApplied(e *blockEntry, au consensus.ApplyUpdate) {
	inBlock := map[types.TransactionID]bool{}
	for i := range e.b.Transactions {
		inBlock[e.b.Transactions[i].ID()] = true
	}
	for _, t := range e.b.V2Transactions() {
		inBlock[t.ID()] = true
	}
	oldLeaves := n.blocks[e.parent].state.Elements.NumLeaves
	kept := n.pool[:0]
	for _, pt := range n.pool {
		if inBlock[pt.ID] {
			continue
		}
		if pt.V2 != nil {
			idBefore := pt.V2.ID()
			ok := true
			v2Parents(pt.V2, func(se *types.StateElement) {
				if se.LeafIndex != types.UnassignedLeafIndex && se.LeafIndex >= oldLeaves {
					ok = false
				}
			})
			if !ok {
				continue
			}
			v2Parents(pt.V2, func(se *types.StateElement) {
				if se.LeafIndex != types.UnassignedLeafIndex {
					au.UpdateElementProof(se)
				}
			})
			if pt.V2.ID() != idBefore {
				n.w.violate("C12", "id-changed-by-proof-refresh", fmt.Sprintf("v2 transaction %v changed ID when only its Merkle proofs were refreshed", idBefore))
			}
		}
		kept = append(kept, pt)
	}
	n.pool = kept
}

func (n *Node) poolReverting(e *blockEntry, parentLeaves uint64) {
	kept := n.pool[:0]
	for _, pt := range n.pool {
		ok := true
		if pt.V2 != nil {
			v2Parents(pt.V2, func(se *types.StateElement) {
				if se.LeafIndex != types.UnassignedLeafIndex && se.LeafIndex >= parentLeaves {
					ok = false
				}
			})
		}
		if ok {
			kept = append(kept, pt)
		}
	}
	n.pool = kept
}

func (n *Node) poolReverted(e *blockEntry, ru consensus.RevertUpdate) {
	for _, pt := range n.pool {
		if pt.V2 != nil {
			v2Parents(pt.V2, func(se *types.StateElement) {
				if se.LeafIndex != types.UnassignedLeafIndex {
					ru.UpdateElementProof(se)
				}
			})
		}
	}
	// the reverted block's transactions go back to the front of the pool;
	// their proofs are valid for the parent state.
	var back []*PoolTxn
	for i := range e.b.Transactions {
		t := e.b.Transactions[i]
		back = append(back, &PoolTxn{V1: &t, ID: t.ID(), From: -1, Kind: "reverted"})
	}
	for _, t := range e.b.V2Transactions() {
		c := t.DeepCopy()
		back = append(back, &PoolTxn{V2: &c, ID: c.ID(), From: -1, Kind: "reverted"})
	}
	n.pool = append(back, n.pool...)
}

// revalidatePool drops pool entries that are no longer valid on the tip.
func (n *Node) revalidatePool() {
	ms := consensus.NewMidState(n.tip)
	kept := n.pool[:0]
	seen := map[types.TransactionID]bool{}
	for _, pt := range n.pool {
		if seen[pt.ID] {
			continue
		}
		if n.validateInto(ms, pt) == nil {
			kept = append(kept, pt)
			seen[pt.ID] = true
		} else {
			n.w.stats.Inc("pool.dropped")
		}
	}
	n.pool = kept
}

// validateInto validates pt on ms and, if valid, applies it to ms.
func (n *Node) validateInto(ms *consensus.MidState, pt *PoolTxn) (err error) {
	w := n.w
	if pt.V1 != nil {
		ts := n.txnSupplement(*pt.V1)
		if p := guard(func() { err = consensus.ValidateTransaction(ms, *pt.V1, ts) }); p != "" {
			w.violate("C10", "validate-txn-panic", p)
			return fmt.Errorf("panic")
		}
		if err == nil {
			if p := guard(func() { ms.ApplyTransaction(*pt.V1, ts) }); p != "" {
				w.violate("C10", "apply-txn-panic", p)
				return fmt.Errorf("panic")
			}
		}
		return err
	}
	if p := guard(func() { err = consensus.ValidateV2Transaction(ms, *pt.V2) }); p != "" {
		w.violate("C10", "validate-v2txn-panic", p)
		return fmt.Errorf("panic")
	}
	if err == nil {
		if p := guard(func() { ms.ApplyV2Transaction(*pt.V2) }); p != "" {
			w.violate("C10", "apply-v2txn-panic", p)
			return fmt.Errorf("panic")
		}
	}
	return err
}

// submit offers a transaction to the node's pool.
func (n *Node) submit(pt *PoolTxn) error {
	for _, q := range n.pool {
		if q.ID == pt.ID {
			return fmt.Errorf("duplicate")
		}
	}
	if w := n.w; w.cfg.Profile == "C09" || w.tape.Choose(8) == 0 {
		var v1 []types.Transaction
		var v2 []types.V2Transaction
		if pt.V1 != nil {
			v1 = append(v1, *pt.V1)
		}
		if pt.V2 != nil {
			v2 = append(v2, *pt.V2)
		}
		_ = guard(func() {
			w.checkPure(n.tip, v1, v2, fmt.Sprintf("%s transaction %s offered to node %d's pool", pt.Kind, short(pt.ID), n.idx))
		})
	}
	ms := consensus.NewMidState(n.tip)
	for _, q := range n.pool {
		if err := n.validateInto(ms, q); err != nil {
			// stale entry; will be dropped at the next revalidation
			continue
		}
	}
	if err := n.validateInto(ms, pt); err != nil {
		return err
	}
	n.pool = append(n.pool, pt)
	return nil
}

// hasInvalidAncestor reports whether the (unapplied) branch ending in id hangs
// off a block this node marked invalid.
func (n *Node) hasInvalidAncestor(id types.BlockID) bool {
	for i := 0; i < 200; i++ {
		e, ok := n.blocks[id]
		if !ok || e.applied {
			return false
		}
		if e.invalid {
			return true
		}
		id = e.parent
	}
	return false
}
