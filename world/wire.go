package world

import (
	"bytes"
	"fmt"
	"math/big"
	"strings"
	"time"

	"go.sia.tech/core/consensus"
	"go.sia.tech/core/types"
	"verif/ref"
)

func encV1(t types.Transaction) []byte {
	var buf bytes.Buffer
	e := types.NewEncoder(&buf)
	t.EncodeTo(e)
	e.Flush()
	return buf.Bytes()
}

func workBytes(w consensus.Work) (out [32]byte) {
	x, _ := new(big.Int).SetString(w.String(), 10)
	x.FillBytes(out[:])
	return
}

func stateFields(s consensus.State) ref.StateFields {
	n := int(s.Index.Height + 1)
	if n > 11 {
		n = 11
	}
	return ref.StateFields{
		Index: s.Index, Timestamps: s.PrevTimestamps[:n], Depth: s.Depth, ChildTarget: s.ChildTarget, TaxRevenue: s.SiafundTaxRevenue,
		OakTime: s.OakTime, OakTarget: s.OakTarget, FoundationSubsidy: s.FoundationSubsidyAddress, FoundationManagement: s.FoundationManagementAddress,
		TotalWork: workBytes(s.TotalWork), Difficulty: workBytes(s.Difficulty), OakWork: workBytes(s.OakWork),
		NumLeaves: s.Elements.NumLeaves, Trees: s.Elements.Trees, Attestations: s.Attestations,
	}
}

// wireRate: how often the per-object wire oracles run (1 = always).
func (w *World) wireRate() int {
	switch w.cfg.Profile {
	case "C11", "C12", "C18":
		return 1
	}
	return 5
}

// truncations feeds sampled proper prefixes of enc to decode; each must fail.
func (w *World) truncations(kind string, enc []byte, decode func([]byte) error) {
	if len(enc) == 0 {
		return
	}
	cuts := []int{0, 1, len(enc) - 1, len(enc) / 2}
	for i := 0; i < 6; i++ {
		cuts = append(cuts, w.tape.Choose(len(enc)))
	}
	if len(enc) <= 400 && w.tape.Chance(1, 4) {
		cuts = cuts[:0]
		for i := 0; i < len(enc); i++ {
			cuts = append(cuts, i)
		}
	}
	for _, c := range cuts {
		if c < 0 || c >= len(enc) {
			continue
		}
		var err error
		if p := guard(func() { err = decode(enc[:c]) }); p != "" {
			w.violate("C10", "decode-truncated-panic", fmt.Sprintf("decoding a %s truncated to %d of %d bytes panicked: %s", kind, c, len(enc), p))
			return
		}
		w.stats.Inc("probe.wire.truncation")
		if err == nil {
			w.violate("C11", "truncated-decodes", fmt.Sprintf("a %s encoding truncated to %d of %d bytes decoded without error", kind, c, len(enc)))
			return
		}
	}
}

// onWire is called for every object at the moment it is put on the simulated
// network: C11 / C12 / C18 oracles on real traffic.
func (w *World) onWire(kind string, v any, enc []byte) {
	switch kind {
	case "block":
		b := v.(types.Block)
		w.stats.Inc("probe.wire.block")
		db, err := decodeBlockSafe(enc)
		if err != nil {
			if strings.HasPrefix(err.Error(), "decode panicked") {
				w.violate("C10", "decode-panic", fmt.Sprintf("decoding block %s from its own encoding: %v", short(b.ID()), err))
			}
			w.violate("C11", "block-roundtrip-decode", fmt.Sprintf("decode(encode(block %s)) failed: %v", short(b.ID()), err))
			if b.V2 != nil && len(b.V2.Transactions) > 0 {
				w.violate("C18", "multiproof-roundtrip-decode", fmt.Sprintf("block %s in compressed (multiproof) form cannot be decoded again: %v", short(b.ID()), err))
			}
			return
		}
		if !bytes.Equal(encodeBlock(db), enc) {
			w.violate("C11", "block-reencode", fmt.Sprintf("re-encoding the decoded block %s gave different bytes", short(b.ID())))
		}
		if !bytes.Equal(encodeBlock(b), enc) {
			w.violate("C11", "block-encode-nondeterministic", fmt.Sprintf("encoding block %s twice gave different bytes", short(b.ID())))
		}
		if db.ID() != b.ID() {
			w.violate("C18", "block-id-after-roundtrip", fmt.Sprintf("block %s has ID %s after decode(encode())", short(b.ID()), short(db.ID())))
		}
		// the same block as its miner holds it, stamped by a clock that knows
		// fractions of a second: its ID (which is over whole seconds) is the ID of what arrives
		if w.tape.Chance(1, 3) {
			mb := b
			mb.Timestamp = b.Timestamp.Add(time.Duration(w.tape.Range(1, 999999999)))
			if mb.ID() == b.ID() {
				if sb, err := decodeBlockSafe(encodeBlock(mb)); err != nil || sb.ID() != b.ID() {
					w.violate(w.propAmong("C18", "C11"), "block-id-after-roundtrip", fmt.Sprintf("block %s stamped %v: after decode(encode()) it has ID %s and timestamp %v (%v)", short(b.ID()), mb.Timestamp.UTC().Format("15:04:05.000000000"), short(sb.ID()), sb.Timestamp.UTC().Format("15:04:05.000000000"), err))
				}
				w.stats.Inc("probe.wire.sub-second-block")
			}
		}
		if b.V2 != nil && len(b.V2.Transactions) > 0 {
			// the proofs a decoder hands out are each their own: growing one (as a proof
			// update does, by appending) leaves the others as they are
			{
				var proofs []*types.StateElement
				for i := range db.V2.Transactions {
					v2Parents(&db.V2.Transactions[i], func(se *types.StateElement) { proofs = append(proofs, se) })
				}
				snap := make([]string, len(proofs))
				for i, se := range proofs {
					snap[i] = fmt.Sprint(se.MerkleProof)
				}
				for i, se := range proofs {
					if len(se.MerkleProof) == 0 {
						continue
					}
					grown := append(se.MerkleProof, types.Hash256{0xee, byte(i)}, types.Hash256{0xef})
					_ = grown
					for j, other := range proofs {
						if j != i && fmt.Sprint(other.MerkleProof) != snap[j] {
							w.violate(w.propAmong("C09", "C18"), "decoded-proofs-share-memory", fmt.Sprintf("block %s decoded from its compressed form: appending to the proof of parent %d changed the proof of parent %d", short(b.ID()), i, j))
							break
						}
					}
				}
			}
			w.stats.Inc("probe.wire.multiproof")
			if b.V2.Commitment != db.V2.Commitment {
				w.violate("C18", "commitment-after-roundtrip", fmt.Sprintf("block %s: commitment changed by the multiproof round trip", short(b.ID())))
			}
			if !bytes.Equal(fullBlockBytes(db), fullBlockBytes(b)) {
				detail := "transactions differ"
				for i := range b.V2.Transactions {
					if i < len(db.V2.Transactions) && !bytes.Equal(fullTxnBytes(db.V2.Transactions[i]), fullTxnBytes(b.V2.Transactions[i])) {
						detail = fmt.Sprintf("v2 transaction %d differs after the multiproof round trip", i)
						var la, lb []string
						v2Parents(&b.V2.Transactions[i], func(se *types.StateElement) {
							la = append(la, fmt.Sprintf("%d/%d", se.LeafIndex, len(se.MerkleProof)))
						})
						v2Parents(&db.V2.Transactions[i], func(se *types.StateElement) {
							lb = append(lb, fmt.Sprintf("%d/%d", se.LeafIndex, len(se.MerkleProof)))
						})
						detail += fmt.Sprintf(" (leaf/prooflen before %v, after %v)", la, lb)
						break
					}
				}
				w.violate("C18", "multiproof-roundtrip", fmt.Sprintf("block %s at height %d: %s", short(b.ID()), b.V2.Height, detail))
			}
			// duplicate leaves: several inputs sharing one parent proof element
			seen := map[uint64]int{}
			for i := range b.V2.Transactions {
				v2Parents(&b.V2.Transactions[i], func(se *types.StateElement) {
					if se.LeafIndex != types.UnassignedLeafIndex {
						seen[se.LeafIndex]++
					}
				})
			}
			for _, c := range seen {
				if c > 1 {
					w.stats.Inc("reach.multiproof-duplicate-leaf")
					break
				}
			}
		}
		if w.tape.Choose(w.wireRate()) != 0 {
			return
		}
		// RefWire: byte layout by definition (C11), IDs by definition (C12)
		var rw ref.W
		rw.Header(b.Header())
		var hb bytes.Buffer
		he := types.NewEncoder(&hb)
		b.Header().EncodeTo(he)
		he.Flush()
		if !bytes.Equal(rw.B, hb.Bytes()) {
			w.violate("C11", "refwire-header", fmt.Sprintf("block %s: header bytes differ from the specified layout", short(b.ID())))
		}
		if ref.HeaderID(b.Header()) != b.ID() {
			w.violate("C12", "refwire-block-id", fmt.Sprintf("block %s: ID differs from the hash of the specified header layout", short(b.ID())))
		}
		// the timestamp is a 64-bit field of the header: times far from today bind too
		far := b.Header()
		far.Timestamp = time.Unix(far.Timestamp.Unix()+int64(w.tape.Range(1, 1<<20))<<32, 0)
		if w.tape.Chance(1, 4) {
			far.Timestamp = time.Unix(-int64(w.tape.Range(1, 1<<30)), 0)
		}
		if ref.HeaderID(far) != far.ID() || far.ID() == b.ID() {
			w.violate("C12", "refwire-block-id", fmt.Sprintf("block %s with its timestamp moved to %d: ID %v differs from the hash of the specified header layout (or equals the original block's)", short(b.ID()), far.Timestamp.Unix(), far.ID()))
		}
		if w.tape.Chance(1, 8) {
			// a caller that asked for the ID of a half-built transaction and
			// recovered from the panic must not disturb the IDs computed afterwards
			_ = guard(func() {
				(&types.V2Transaction{FileContractResolutions: []types.V2FileContractResolution{{}}}).ID()
			})
			// (the very next thing hashed is the one a left-over would spoil)
			for k := 0; k < 3; k++ {
				if got := (&types.V2Transaction{ArbitraryData: []byte{byte(k)}}).ID(); got != ref.V2TxnID(types.V2Transaction{ArbitraryData: []byte{byte(k)}}) {
					w.violate(w.propAmong("C12", "C09"), "id-after-recovered-panic", fmt.Sprintf("after a caller recovered from a panic inside an ID computation, the ID of the next transaction hashed is %v; by the specified layout it is %v", got, ref.V2TxnID(types.V2Transaction{ArbitraryData: []byte{byte(k)}})))
					break
				}
			}
			w.stats.Inc("probe.wire.recovered-hash-panic")
		}
		if b.V2 == nil {
			var vb ref.W
			vb.V1Block(b)
			var lb bytes.Buffer
			le := types.NewEncoder(&lb)
			types.V1Block(b).EncodeTo(le)
			le.Flush()
			if !bytes.Equal(vb.B, lb.Bytes()) {
				w.violate("C11", "refwire-v1-block", fmt.Sprintf("block %s: v1 block bytes differ from the specified layout", short(b.ID())))
			}
		}
		for i, t := range b.Transactions {
			w.wireV1Txn(t, fmt.Sprintf("block %s txn %d", short(b.ID()), i))
		}
		for i, t := range b.V2Transactions() {
			w.wireV2Txn(t, fmt.Sprintf("block %s v2 txn %d", short(b.ID()), i))
		}
		w.truncations("block", enc, func(p []byte) error { _, err := decodeBlockSafe(p); return err })
	case "state":
		s := v.(consensus.State)
		var rw ref.W
		rw.State(stateFields(s))
		w.stats.Inc("probe.wire.state")
		if !bytes.Equal(rw.B, enc) {
			w.violate("C11", "refwire-state", fmt.Sprintf("state at height %d: bytes differ from the specified layout", s.Index.Height))
		}
		var ds consensus.State
		d := types.NewBufDecoder(enc)
		ds.DecodeFrom(d)
		ds.Network = s.Network
		if d.Err() != nil || !bytes.Equal(encodeState(ds), enc) {
			w.violate("C11", "state-roundtrip", fmt.Sprintf("state at height %d does not survive decode(encode())", s.Index.Height))
		}
		w.truncations("state", enc, func(p []byte) error {
			var x consensus.State
			d := types.NewBufDecoder(p)
			x.DecodeFrom(d)
			return d.Err()
		})
	}
}

func (w *World) wireV1Txn(t types.Transaction, where string) {
	w.stats.Inc("probe.wire.v1txn")
	enc := encV1(t)
	var rw ref.W
	rw.Txn(t)
	if !bytes.Equal(rw.B, enc) {
		w.violate("C11", "refwire-v1-txn", where+": v1 transaction bytes differ from the specified layout")
	}
	var dt types.Transaction
	d := types.NewBufDecoder(enc)
	dt.DecodeFrom(d)
	if d.Err() != nil || !bytes.Equal(encV1(dt), enc) {
		w.violate("C11", "v1-txn-roundtrip", where+": v1 transaction does not survive decode(encode())")
	}
	if ref.TxnID(t) != t.ID() {
		w.violate("C12", "refwire-v1-txid", where+": transaction ID differs from the hash of the signature-less layout")
	}
	for i := range t.SiacoinOutputs {
		if ref.V1SiacoinOutputID(t, i) != t.SiacoinOutputID(i) {
			w.violate("C12", "refwire-v1-output-id", where+": siacoin output ID differs from its definition")
		}
	}
	for i := range t.SiafundOutputs {
		if ref.V1SiafundOutputID(t, i) != t.SiafundOutputID(i) {
			w.violate("C12", "refwire-v1-output-id", where+": siafund output ID differs from its definition")
		}
	}
	for i := range t.FileContracts {
		if ref.V1FileContractID(t, i) != t.FileContractID(i) {
			w.violate("C12", "refwire-v1-contract-id", where+": contract ID differs from its definition")
		}
		id := t.FileContractID(i)
		if ref.V1ProofOutputID(id, true, 1) != id.ValidOutputID(1) || ref.V1ProofOutputID(id, false, 0) != id.MissedOutputID(0) {
			w.violate("C12", "refwire-v1-proof-output-id", where+": proof output ID differs from its definition")
		}
	}
	for _, in := range t.SiafundInputs {
		if ref.V1ClaimID(in.ParentID) != in.ParentID.ClaimOutputID() {
			w.violate("C12", "refwire-v1-claim-id", where+": claim output ID differs from its definition")
		}
	}
	if len(enc) < 3000 {
		w.truncations("v1 transaction", enc, func(p []byte) error {
			var x types.Transaction
			d := types.NewBufDecoder(p)
			x.DecodeFrom(d)
			return d.Err()
		})
	}
}

func (w *World) wireV2Txn(t types.V2Transaction, where string) {
	w.stats.Inc("probe.wire.v2txn")
	enc := fullTxnBytes(t)
	var rw ref.W
	rw.V2Txn(t)
	if !bytes.Equal(rw.B, enc) {
		w.violate("C11", "refwire-v2-txn", where+": v2 transaction bytes differ from the specified layout")
	}
	var dt types.V2Transaction
	d := types.NewBufDecoder(enc)
	dt.DecodeFrom(d)
	if d.Err() != nil || !bytes.Equal(fullTxnBytes(dt), enc) {
		w.violate("C11", "v2-txn-roundtrip", where+": v2 transaction does not survive decode(encode())")
	}
	txid := t.ID()
	if ref.V2TxnID(t) != txid {
		w.violate("C12", "refwire-v2-txid", where+": v2 transaction ID differs from the hash of the specified semantic layout")
	}
	if dt.ID() != txid {
		w.violate("C12", "v2-txid-after-roundtrip", where+": v2 transaction ID changes across decode(encode())")
	}
	for i := range t.SiacoinOutputs {
		if ref.V2SiacoinOutputID(txid, i) != t.SiacoinOutputID(txid, i) {
			w.violate("C12", "refwire-v2-output-id", where+": siacoin output ID differs from its definition")
		}
	}
	for i := range t.SiafundOutputs {
		if ref.V2SiafundOutputID(txid, i) != t.SiafundOutputID(txid, i) {
			w.violate("C12", "refwire-v2-output-id", where+": siafund output ID differs from its definition")
		}
	}
	for i := range t.FileContracts {
		if ref.V2FileContractID(txid, i) != t.V2FileContractID(txid, i) {
			w.violate("C12", "refwire-v2-contract-id", where+": contract ID differs from its definition")
		}
	}
	for i := range t.Attestations {
		if ref.V2AttestationID(txid, i) != t.AttestationID(txid, i) {
			w.violate("C12", "refwire-v2-attestation-id", where+": attestation ID differs from its definition")
		}
	}
	for _, in := range t.SiafundInputs {
		if ref.V2ClaimID(in.Parent.ID) != in.Parent.ID.V2ClaimOutputID() {
			w.violate("C12", "refwire-v2-claim-id", where+": claim output ID differs from its definition")
		}
	}
	for _, r := range t.FileContractResolutions {
		id := r.Parent.ID
		if ref.V2ContractOutputID(id, false) != id.V2RenterOutputID() || ref.V2ContractOutputID(id, true) != id.V2HostOutputID() || ref.V2RenewalID(id) != id.V2RenewalID() {
			w.violate("C12", "refwire-v2-resolution-id", where+": resolution output / renewal ID differs from its definition")
		}
	}
	if len(enc) < 3000 {
		w.truncations("v2 transaction", enc, func(p []byte) error {
			var x types.V2Transaction
			d := types.NewBufDecoder(p)
			x.DecodeFrom(d)
			return d.Err()
		})
	}
}
