package world

import (
	"bytes"
	"fmt"

	"go.sia.tech/core/types"
)

// onWire is called for every object at the moment it is put on the simulated
// network: C11 / C18 round-trip oracles on real traffic.
func (w *World) onWire(kind string, v any, enc []byte) {
	switch kind {
	case "block":
		b := v.(types.Block)
		w.stats.Inc("probe.wire.block")
		db, err := decodeBlock(enc)
		if err != nil {
			w.violate("C11", "block-roundtrip-decode", fmt.Sprintf("decode(encode(block %s)) failed: %v", short(b.ID()), err))
			return
		}
		if !bytes.Equal(encodeBlock(db), enc) {
			w.violate("C11", "block-reencode", fmt.Sprintf("re-encoding the decoded block %s gave different bytes", short(b.ID())))
		}
		if db.ID() != b.ID() {
			w.violate("C18", "block-id-after-roundtrip", fmt.Sprintf("block %s has ID %s after decode(encode())", short(b.ID()), short(db.ID())))
		}
		if b.V2 != nil && len(b.V2.Transactions) > 0 {
			w.stats.Inc("probe.wire.multiproof")
			if !bytes.Equal(fullBlockBytes(db), fullBlockBytes(b)) {
				// find the first differing proof for the report
				detail := "transactions differ"
				for i := range b.V2.Transactions {
					if i < len(db.V2.Transactions) && !bytes.Equal(fullTxnBytes(db.V2.Transactions[i]), fullTxnBytes(b.V2.Transactions[i])) {
						detail = fmt.Sprintf("v2 transaction %d differs after the multiproof round trip", i)
						var la, lb []string
						v2Parents(&b.V2.Transactions[i], func(se *types.StateElement) { la = append(la, fmt.Sprintf("%d/%d", se.LeafIndex, len(se.MerkleProof))) })
						v2Parents(&db.V2.Transactions[i], func(se *types.StateElement) { lb = append(lb, fmt.Sprintf("%d/%d", se.LeafIndex, len(se.MerkleProof))) })
						detail += fmt.Sprintf(" (leaf/prooflen before %v, after %v)", la, lb)
						break
					}
				}
				w.violate("C18", "multiproof-roundtrip", fmt.Sprintf("block %s at height %d: %s", short(b.ID()), b.V2.Height, detail))
			}
		}
	}
}
