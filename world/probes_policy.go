package world

import (
	"bytes"
	"crypto/sha256"
	"encoding/hex"
	"encoding/json"
	"fmt"
	"math"
	"time"

	"go.sia.tech/core/types"
	"verif/ref"
	"verif/sim"
)

// C14: policy-guarded outputs are created on private forks of reachable
// states and spent with witness assignments drawn from the tape (valid,
// invalid, missing, surplus, reordered; branches revealed or made opaque), at
// heights and median times placed around each lock. ValidateBlock's verdict
// and SpendPolicy.Verify must agree with RefPolicy; opaque substitution must
// keep the address.

type polCtx struct {
	w      *World
	keys   []types.PrivateKey // keys the spender holds
	alien  []types.PrivateKey // keys it does not
	pre    [][32]byte         // known preimages
	height uint64
	median time.Time
}

func (c *polCtx) draw(depth int, top bool) types.SpendPolicy {
	t := c.w.tape
	k := t.Weighted(3, 3, 4, 3, 4, 1, 2)
	if depth >= 3 && k == 4 {
		k = 2
	}
	switch k {
	case 0:
		return types.PolicyAbove(uint64(int64(c.height) + int64(t.Range(-2, 2))))
	case 1:
		if t.Chance(1, 6) {
			// lock times long past: before the epoch, the zero time, the first second of year 1
			return types.PolicyAfter(pick(t, time.Unix(-int64(t.Range(1, 1<<30)), 0), time.Time{}, time.Unix(0, 0), time.Unix(-62135596800, 0)))
		}
		return types.PolicyAfter(c.median.Truncate(time.Second).Add(time.Duration(t.Range(-2, 2)) * time.Second))
	case 2:
		if t.Chance(1, 5) {
			return types.PolicyPublicKey(c.alien[t.Choose(len(c.alien))].PublicKey())
		}
		return types.PolicyPublicKey(c.keys[t.Choose(len(c.keys))].PublicKey())
	case 3:
		if t.Chance(1, 5) {
			return types.PolicyHash(types.Hash256{byte(t.Choose(250)), 9})
		}
		p := c.pre[t.Choose(len(c.pre))]
		return types.PolicyHash(sha256.Sum256(p[:]))
	case 4:
		n := t.Range(0, 4)
		of := make([]types.SpendPolicy, n)
		for i := range of {
			of[i] = c.draw(depth+1, false)
		}
		return types.PolicyThreshold(uint8(t.Range(0, n+1)), of)
	case 5:
		return types.PolicyOpaque(c.draw(depth+1, false))
	default:
		if !top {
			return types.PolicyPublicKey(c.keys[0].PublicKey())
		}
		uc := types.UnlockConditions{Timelock: uint64(max(0, int64(c.height)+int64(t.Range(-2, 2)))), SignaturesRequired: uint64(t.Range(0, 3))}
		if t.Chance(1, 6) {
			// counts that only differ from small ones in their upper bytes
			uc.SignaturesRequired = pick(t, uint64(256), 257, 258, 1<<32, 1<<32+1, 1<<63, 512+2)
		}
		for i := 0; i < t.Range(0, 4); i++ {
			switch t.Weighted(6, 2, 1, 1) {
			case 0:
				uc.PublicKeys = append(uc.PublicKeys, c.keys[t.Choose(len(c.keys))].PublicKey().UnlockKey())
			case 1:
				uc.PublicKeys = append(uc.PublicKeys, c.alien[t.Choose(len(c.alien))].PublicKey().UnlockKey())
			case 2:
				uc.PublicKeys = append(uc.PublicKeys, types.UnlockKey{Algorithm: types.NewSpecifier(pick(t, "odd", "a:b c", "x,y", "p(q)", "[z]", "q\"r", "\"\\\n\t\x01\x02\"\\\"\\", "a]b^c_d`e", "\xff\xfe\"\n\\\x00z")), Key: []byte{1, 2, 3}})
			default:
				uc.PublicKeys = append(uc.PublicKeys, types.UnlockKey{Algorithm: types.SpecifierEntropy, Key: make([]byte, 32)})
			}
		}
		return types.SpendPolicy{Type: types.PolicyTypeUnlockConditions(uc)}
	}
}

// reveal makes a tape-chosen subset of threshold children opaque (the honest
// choice reveals exactly N satisfiable ones; the tape also reveals too few or
// too many) and returns the policy as it will be presented.
func (c *polCtx) reveal(p types.SpendPolicy, honest bool) types.SpendPolicy {
	t := c.w.tape
	th, ok := p.Type.(types.PolicyTypeThreshold)
	if !ok {
		return p
	}
	out := types.PolicyTypeThreshold{N: th.N, Of: make([]types.SpendPolicy, len(th.Of))}
	want := int(th.N)
	if !honest {
		want += t.Range(-1, 1)
	}
	shown := 0
	for i, sp := range th.Of {
		_, isOpaque := sp.Type.(types.PolicyTypeOpaque)
		if shown < want && !isOpaque && (honest || t.Chance(3, 4)) && (!honest || c.plausible(sp)) {
			out.Of[i] = c.reveal(sp, honest)
			shown++
		} else {
			out.Of[i] = types.PolicyOpaque(sp)
		}
	}
	return types.SpendPolicy{Type: out}
}

// plausible: could the spender satisfy sp at all (cheap approximation used
// only to steer the honest choice; the oracle is RefPolicy).
func (c *polCtx) plausible(sp types.SpendPolicy) bool {
	switch t := sp.Type.(type) {
	case types.PolicyTypeAbove:
		return c.height >= uint64(t)
	case types.PolicyTypeAfter:
		return c.median.After(time.Time(t))
	case types.PolicyTypePublicKey:
		for _, k := range c.keys {
			if k.PublicKey() == types.PublicKey(t) {
				return true
			}
		}
		return false
	case types.PolicyTypeHash:
		for _, p := range c.pre {
			if sha256.Sum256(p[:]) == [32]byte(t) {
				return true
			}
		}
		return false
	case types.PolicyTypeThreshold:
		n := 0
		for _, x := range t.Of {
			if c.plausible(x) {
				n++
			}
		}
		return n >= int(t.N)
	}
	return false
}

// witnesses walks the presented policy in verification order and produces the
// honest witnesses for it.
func (c *polCtx) witnesses(p types.SpendPolicy, sigHash types.Hash256) (sigs []types.Signature, pre [][32]byte) {
	var walk func(p types.SpendPolicy)
	walk = func(p types.SpendPolicy) {
		switch t := p.Type.(type) {
		case types.PolicyTypePublicKey:
			for _, k := range append(append([]types.PrivateKey(nil), c.keys...), c.alien...) {
				if k.PublicKey() == types.PublicKey(t) {
					sigs = append(sigs, k.SignHash(sigHash))
					return
				}
			}
		case types.PolicyTypeHash:
			for _, pi := range c.pre {
				if sha256.Sum256(pi[:]) == [32]byte(t) {
					pre = append(pre, pi)
					return
				}
			}
			pre = append(pre, [32]byte{7})
		case types.PolicyTypeThreshold:
			for _, sp := range t.Of {
				walk(sp)
			}
		case types.PolicyTypeUnlockConditions:
			need := t.SignaturesRequired
			for _, uk := range t.PublicKeys {
				if need == 0 {
					break
				}
				if uk.Algorithm != types.SpecifierEd25519 {
					if uk.Algorithm != types.SpecifierEntropy {
						sigs = append(sigs, types.Signature{1})
						need--
					}
					continue
				}
				for _, k := range c.keys {
					pk := k.PublicKey()
					if string(uk.Key) == string(pk[:]) {
						sigs = append(sigs, k.SignHash(sigHash))
						need--
						break
					}
				}
			}
		}
	}
	walk(p)
	return
}

func init() {
	registerRows("C14", probeRow{"P2-policy-trees", func(w *World, n *Node) {
		sc := n.fork()
		if !sc.v2ok() || sc.child()+1 < w.net.HardforkV2.AllowHeight {
			return
		}
		funder, ok := pickSC(w, sc.ownedSC(false, true))
		if !ok || funder.SiacoinOutput.Value.Cmp(types.Siacoins(1)) < 0 {
			return
		}
		t := w.tape
		if t.Chance(1, 6) {
			// a caller that asked for the ID of a half-built transaction and recovered
			// from the panic: the addresses computed afterwards are what they always are
			_ = guard(func() {
				(&types.V2Transaction{FileContractResolutions: []types.V2FileContractResolution{{}}}).ID()
			})
			w.stats.Inc("probe.P2-after-recovered-hash-panic")
		}
		c := &polCtx{w: w}
		for i := 0; i < 3; i++ {
			c.keys = append(c.keys, deriveKey("c14-key", uint64(i), 1))
			c.alien = append(c.alien, deriveKey("c14-alien", uint64(i), 1))
			var p [32]byte
			copy(p[:], sim.HashBytes("c14-pre", uint64(i), 0, 32))
			c.pre = append(c.pre, p)
		}
		// the spend is validated against the state after the funding block
		c.height = sc.s.Index.Height + 1
		ts := sc.nextTimestamp()
		c.median = medianAfter(sc, ts)
		pol := c.draw(0, true)
		addr := pol.Address()
		// ---- address commitment: any subset of branches made opaque keeps the address
		for i := 0; i < 4; i++ {
			if q := c.reveal(pol, false); q.Address() != addr {
				w.violate("C14", "opaque-changes-address", fmt.Sprintf("policy %v has address %v, with some branches made opaque (%v) it has %v", pol, addr, q, q.Address()))
				return
			}
			w.stats.Inc("probe.P2-address-checked")
		}
		// legacy conditions as a branch: not spendable, but the address rule still applies
		if th, ok := pol.Type.(types.PolicyTypeThreshold); ok && len(th.Of) > 0 {
			uc := types.SpendPolicy{Type: types.PolicyTypeUnlockConditions(types.StandardUnlockConditions(c.keys[0].PublicKey()))}
			of := append([]types.SpendPolicy(nil), th.Of...)
			of[t.Choose(len(of))] = uc
			full := types.PolicyThreshold(th.N, of)
			hidden := append([]types.SpendPolicy(nil), of...)
			for i := range hidden {
				hidden[i] = types.PolicyOpaque(hidden[i])
			}
			if a, b := full.Address(), types.PolicyThreshold(th.N, hidden).Address(); a != b {
				w.violate("C14", "opaque-changes-address", fmt.Sprintf("threshold with an unlock-conditions branch: address %v, with every branch opaque %v", a, b))
				return
			}
		}
		// the threshold count is part of the policy whatever its value: more
		// required than branches present (never satisfiable) is another policy,
		// with another encoding and address, than any satisfiable count
		{
			of := []types.SpendPolicy{types.PolicyPublicKey(c.keys[0].PublicKey())}
			for i := t.Range(0, 2); i > 0; i-- {
				of = append(of, types.PolicyAbove(uint64(i)))
			}
			ns := []uint8{0, uint8(len(of)), uint8(len(of)) + 1, 200, 255}
			seenAddr := map[types.Address]uint8{}
			for _, nreq := range ns {
				q := types.PolicyThreshold(nreq, of)
				var rw ref.W
				rw.Policy(q)
				enc := encAny(q)
				if !bytes.Equal(enc, rw.B) {
					w.violate("C14", "policy-encoding", fmt.Sprintf("policy %v: encoding differs from the specified layout (threshold count %d of %d branches)", q, nreq, len(of)))
					return
				}
				var back types.SpendPolicy
				d := types.NewBufDecoder(enc)
				back.DecodeFrom(d)
				if d.Err() != nil || !bytes.Equal(encAny(back), enc) || back.String() != q.String() {
					w.violate("C14", "policy-roundtrip", fmt.Sprintf("policy %v does not survive decode(encode()): %v, %v", q, back, d.Err()))
					return
				}
				if other, dup := seenAddr[q.Address()]; dup {
					w.violate("C14", "threshold-count-not-committed", fmt.Sprintf("thresholds requiring %d and %d of the same %d branches have the same address %v", other, nreq, len(of), q.Address()))
					return
				}
				seenAddr[q.Address()] = nreq
			}
			w.stats.Inc("probe.P2-threshold-count")
		}
		// every policy's bytes are the specified layout; a bare leaf's address is the hash of those bytes
		{
			var rw ref.W
			rw.Policy(pol)
			if !bytes.Equal(encAny(pol), rw.B) {
				w.violate("C14", "policy-encoding", fmt.Sprintf("policy %v: encoding differs from the specified layout", pol))
				return
			}
			var h32 types.Hash256
			copy(h32[:], sim.HashBytes("c14-leaf", uint64(t.Choose(1<<16)), 1, 32))
			leaves := []types.SpendPolicy{types.PolicyHash(h32), types.PolicyPublicKey(types.PublicKey(h32)), types.PolicyAbove(uint64(t.Choose(1 << 20))), types.PolicyAfter(time.Unix(int64(t.Choose(1<<31)), 0)), types.PolicyOpaque(types.PolicyHash(h32))}
			seen := map[types.Address]string{}
			for _, lp := range leaves {
				var lw ref.W
				lw.Policy(lp)
				if !bytes.Equal(encAny(lp), lw.B) {
					w.violate("C14", "policy-encoding", fmt.Sprintf("bare policy %v: encoding differs from the specified layout", lp))
					return
				}
				var back types.SpendPolicy
				d := types.NewBufDecoder(lw.B)
				back.DecodeFrom(d)
				if d.Err() != nil || back.String() != lp.String() {
					w.violate("C14", "policy-roundtrip", fmt.Sprintf("bare policy %v decodes as %v (%v)", lp, back, d.Err()))
					return
				}
				if _, opaque := lp.Type.(types.PolicyTypeOpaque); !opaque {
					if want := types.Address(ref.Sum(append([]byte("sia/address|"), lw.B...))); lp.Address() != want {
						w.violate("C14", "leaf-address", fmt.Sprintf("bare policy %v has address %v, the hash of its encoding is %v", lp, lp.Address(), want))
						return
					}
				}
				if other, dup := seen[lp.Address()]; dup && other != lp.String() {
					if _, opaque := lp.Type.(types.PolicyTypeOpaque); !opaque {
						w.violate("C14", "leaf-address", fmt.Sprintf("policies %v and %s have the same address", lp, other))
						return
					}
				}
				seen[lp.Address()] = lp.String()
			}
			w.stats.Inc("probe.P2-leaf-encodings")
		}
		// a satisfied policy as JSON: a preimage cut short is not the preimage
		{
			var pre [32]byte
			copy(pre[:], sim.HashBytes("c14-pre", uint64(t.Choose(1<<16)), 0, 32))
			for i := 32 - t.Range(1, 6); i < 32; i++ {
				pre[i] = 0 // (ends in zero bytes: padding a shortened copy would restore it)
			}
			sp := types.SatisfiedPolicy{Policy: types.PolicyHash(sha256.Sum256(pre[:])), Preimages: [][32]byte{pre}}
			js, err := json.Marshal(sp)
			hexPre := []byte(hex.EncodeToString(pre[:]))
			if err != nil || !bytes.Contains(js, hexPre) {
				w.violate("C20", "json-marshal", fmt.Sprintf("satisfied policy %v: JSON %s (%v) does not carry the preimage in hex", sp.Policy, js, err))
				return
			}
			var same types.SatisfiedPolicy
			if err := json.Unmarshal(js, &same); err != nil || !bytes.Equal(encAny(same), encAny(sp)) {
				w.violate("C20", "json-roundtrip-differs", fmt.Sprintf("satisfied policy does not parse back from its own JSON: %v", err))
				return
			}
			for _, cut := range []int{2, 4, 2 * t.Range(1, 31), 64} {
				short := bytes.Replace(js, hexPre, hexPre[:64-cut], 1)
				var got types.SatisfiedPolicy
				if err := json.Unmarshal(short, &got); err == nil {
					w.violate(w.propAmong("C14", "C20"), "short-preimage-accepted", fmt.Sprintf("a satisfied policy whose preimage is given with %d of its 64 hex characters was parsed without error (preimages %x)", 64-cut, got.Preimages))
					return
				}
			}
			w.stats.Inc("probe.P2-preimage-json")
		}
		// lock times between two seconds: "after T" means after T, wherever the median falls
		{
			for _, d := range []time.Duration{-time.Nanosecond, 0, time.Nanosecond, 250 * time.Millisecond, 500 * time.Millisecond, 999999999 * time.Nanosecond, -500 * time.Millisecond} {
				for _, med := range []time.Time{c.median, c.median.Truncate(time.Second), c.median.Truncate(time.Second).Add(500 * time.Millisecond)} {
					lock := med.Add(d)
					for _, q := range []types.SpendPolicy{types.PolicyAfter(lock), types.PolicyThreshold(1, []types.SpendPolicy{types.PolicyOpaque(types.PolicyAbove(1)), types.PolicyAfter(lock)})} {
						verr := q.Verify(c.height, med, types.Hash256{}, nil, nil)
						// (judged from the lock time the policy was built for, not from what the constructor kept of it)
						if want := med.After(lock); (verr == nil) != want {
							w.violate("C14", "verify-disagrees", fmt.Sprintf("policy %v built for lock time %v (%d ns past the second), median timestamp %v: Verify returned %v, the lock has passed: %v", q, lock.Unix(), lock.Nanosecond(), med.UnixNano(), verr, want))
							return
						}
					}
				}
			}
			// lock times near the end of the 64-bit range ("never"): seconds compared as integers
			extremes := []int64{9223371974719179007, 1 << 62, 253402300800}
			if t.Chance(1, 60) {
				// (the two wrapping values are a recorded finding: visited seldom, since a run stops probing once it has reported)
				extremes = append(extremes, math.MaxInt64, 9223371974719179008)
			}
			for _, sec := range extremes {
				q := types.PolicyAfter(time.Unix(sec, 0))
				verr := q.Verify(c.height, c.median, types.Hash256{}, nil, nil)
				if want := c.median.Unix() > sec; (verr == nil) != want {
					w.violate("C14", "after-lock-beyond-time-range", fmt.Sprintf("policy after(%d), median timestamp %d: Verify returned %v, the lock has passed: %v", sec, c.median.Unix(), verr, want))
					return
				}
			}
			w.stats.Inc("probe.P2-subsecond-locks")
		}
		// legacy conditions far larger than any threshold may be: the limit on sub-policies does not count keys
		if t.Chance(1, 30) {
			k := pick(t, 1024, 1025, 1100)
			uc := types.UnlockConditions{SignaturesRequired: uint64(k)}
			var sigHash types.Hash256
			copy(sigHash[:], sim.HashBytes("c14-big-uc", uint64(k), 0, 32))
			var sigs []types.Signature
			for i := 0; i < k; i++ {
				key := deriveKey("c14-big-uc", uint64(i), 1)
				uc.PublicKeys = append(uc.PublicKeys, key.PublicKey().UnlockKey())
				sigs = append(sigs, key.SignHash(sigHash))
			}
			big := types.SpendPolicy{Type: types.PolicyTypeUnlockConditions(uc)}
			verr := big.Verify(c.height, c.median, sigHash, sigs, nil)
			if want := ref.PolicySatisfied(big, c.height, c.median, sigHash, sigs, nil); (verr == nil) != want {
				w.violate("C14", "verify-disagrees", fmt.Sprintf("legacy conditions with %d keys, all required and all signing: Verify returned %v", k, verr))
				return
			}
			sp := types.SatisfiedPolicy{Policy: big, Signatures: sigs}
			enc := encAny(sp)
			var back types.SatisfiedPolicy
			d := types.NewBufDecoder(enc)
			back.DecodeFrom(d)
			if d.Err() != nil || !bytes.Equal(encAny(back), enc) {
				w.violate("C14", "satisfied-policy-roundtrip", fmt.Sprintf("a satisfied policy that Verify accepts (legacy conditions, %d keys and signatures) does not survive decode(encode()): %v", k, d.Err()))
				return
			}
			w.stats.Inc("probe.P2-big-conditions")
		}
		// the standard single-key forms are shorthands, not other addresses
		{
			var pk types.PublicKey
			copy(pk[:], sim.HashBytes("c14-std", uint64(t.Choose(1<<16)), 0, 32))
			switch t.Choose(6) {
			case 0:
				pk = c.keys[0].PublicKey()
			case 1:
				pk = types.PublicKey{} // no key at all is a key like any other as far as the address goes
			case 2:
				pk = types.PublicKey{31: 1}
			}
			std := types.StandardUnlockConditions(pk)
			if a, b := types.StandardUnlockHash(pk), ref.UnlockHash(std); a != b {
				w.violate("C14", "standard-unlock-hash", fmt.Sprintf("StandardUnlockHash(%v) = %v, the Merkle root of the standard conditions is %v", pk, a, b))
				return
			}
			if a, b := std.UnlockHash(), ref.UnlockHash(std); a != b {
				w.violate("C14", "unlock-conditions-address", fmt.Sprintf("UnlockHash of the standard conditions of %v = %v, their Merkle root is %v", pk, a, b))
				return
			}
			if a, b := types.StandardAddress(pk), ref.Sum(append(append([]byte("sia/address|"), 1, 3), pk[:]...)); a != types.Address(b) || types.PolicyPublicKey(pk).Address() != a {
				w.violate("C14", "standard-address", fmt.Sprintf("StandardAddress(%v) = %v, PolicyPublicKey address %v, by definition %v", pk, a, types.PolicyPublicKey(pk).Address(), b))
				return
			}
			w.stats.Inc("probe.P2-standard-forms")
		}
		// legacy conditions: the address is their Merkle root, whatever the keys' algorithms and lengths
		{
			uc := types.UnlockConditions{Timelock: uint64(t.Choose(3)), SignaturesRequired: uint64(t.Range(0, 2))}
			for i := 0; i < t.Range(0, 3); i++ {
				key := make([]byte, pick(t, 32, 32, 31, 33, 0, 64))
				copy(key, sim.HashBytes("c14-uk", uint64(i), uint64(t.Choose(50)), len(key)))
				uc.PublicKeys = append(uc.PublicKeys, types.UnlockKey{Algorithm: pick(t, types.SpecifierEd25519, types.NewSpecifier("blank"), types.NewSpecifier("ed448"), types.Specifier{}, types.SpecifierEntropy, types.Specifier{'e', 'd', '2', '5', '5', '1', '9', 0, 0, 0, 0, 0, 0, 0, 0, 1}, types.Specifier{'a', 0, 'b'}), Key: key})
			}
			pol := types.SpendPolicy{Type: types.PolicyTypeUnlockConditions(uc)}
			if a, b, c := pol.Address(), uc.UnlockHash(), ref.UnlockHash(uc); a != c || b != c {
				w.violate("C14", "unlock-conditions-address", fmt.Sprintf("legacy conditions %v: policy address %v, UnlockHash %v, Merkle root by definition %v", pol, a, b, c))
				return
			}
			// inside a threshold the conditions count through their opaque form
			if a, b := types.PolicyThreshold(1, []types.SpendPolicy{pol}).Address(), types.PolicyThreshold(1, []types.SpendPolicy{{Type: types.PolicyTypeOpaque(ref.UnlockHash(uc))}}).Address(); a != b {
				w.violate("C14", "opaque-changes-address", fmt.Sprintf("threshold over %v has address %v, over the opaque form of the conditions' Merkle root %v", pol, a, b))
				return
			}
			w.stats.Inc("probe.P2-uc-address")
		}
		// legacy conditions whose ed25519 key is longer than a key: whatever such a key
		// means, a signature nobody made cannot count for it, nor one signature for two keys
		{
			kA, kB := w.wallets[0].keys[0], w.wallets[len(w.wallets)-1].keys[0]
			pA, pB := kA.PublicKey(), kB.PublicKey()
			long := append(append([]byte(nil), pA[:]...), sim.HashBytes("c14-long", uint64(t.Choose(50)), 0, 0)[:1+t.Choose(32)]...)
			var sh types.Hash256
			copy(sh[:], sim.HashBytes("c14-sh", uint64(t.Choose(1000)), 0, 0))
			sigB := kB.SignHash(sh)
			junk := kA.SignHash(sh)
			junk[t.Choose(64)] ^= 1 << t.Choose(8)
			h, med := w.nodes[0].tip.Index.Height, w.nodes[0].tip.PrevTimestamps[0]
			one := types.SpendPolicy{Type: types.PolicyTypeUnlockConditions(types.UnlockConditions{SignaturesRequired: 1, PublicKeys: []types.UnlockKey{{Algorithm: types.SpecifierEd25519, Key: long}}})}
			for i, sg := range []types.Signature{junk, sigB} {
				name := []string{"a corrupted signature", "another key's signature"}[i]
				if one.Verify(h, med, sh, []types.Signature{sg}, nil) == nil {
					w.violate("C14", "long-key-unchecked", fmt.Sprintf("legacy conditions with one ed25519 key of %d bytes accept %s", len(long), name))
					return
				}
			}
			two := types.SpendPolicy{Type: types.PolicyTypeUnlockConditions(types.UnlockConditions{SignaturesRequired: 2, PublicKeys: []types.UnlockKey{{Algorithm: types.SpecifierEd25519, Key: long}, {Algorithm: types.SpecifierEd25519, Key: pB[:]}}})}
			if two.Verify(h, med, sh, []types.Signature{sigB, sigB}, nil) == nil {
				w.violate("C14", "long-key-unchecked", fmt.Sprintf("2-of-2 legacy conditions (an ed25519 key of %d bytes and a key B) accept B's signature twice", len(long)))
				return
			}
			w.stats.Inc("probe.P2-uc-long-key")
		}
		// the encoded form: nesting up to the protocol's depth limit, through the first or a later branch
		{
			depth := pick(t, 31, 32, 33, 34, 5)
			inner := pick(t, types.PolicyAbove(0), types.AnyoneCanSpend(), types.PolicyThreshold(0, []types.SpendPolicy{}))
			via := t.Choose(3)
			p := inner
			for i := 0; i < depth; i++ {
				switch via {
				case 0:
					p = types.PolicyThreshold(1, []types.SpendPolicy{p})
				case 1:
					p = types.PolicyThreshold(1, []types.SpendPolicy{types.PolicyOpaque(types.PolicyAbove(uint64(i + 1))), p})
				default:
					p = types.PolicyThreshold(1, []types.SpendPolicy{types.PolicyOpaque(types.PolicyAbove(7)), types.PolicyOpaque(types.PolicyAbove(8)), p})
				}
			}
			enc := encAny(p)
			var back types.SpendPolicy
			d := types.NewBufDecoder(enc)
			if pn := guard(func() { back.DecodeFrom(d) }); pn != "" {
				w.violate("C10", "decode-policy-panic", pn)
				return
			}
			want := ref.PolicyDepthOK(p)
			if (d.Err() == nil) != want {
				w.violate("C14", "decode-depth-limit", fmt.Sprintf("policy nested %d deep (through branch %d, innermost %v): decoding its encoding returned %v, the nesting limit gives ok=%v", depth, via, inner, d.Err(), want))
				return
			}
			if want && !bytes.Equal(encAny(back), enc) {
				w.violate("C11", "policy-roundtrip", fmt.Sprintf("policy nested %d deep does not re-encode to the same bytes", depth))
				return
			}
			if want {
				var verr error
				if pn := guard(func() { verr = back.Verify(c.height, c.median, types.Hash256{}, nil, nil) }); pn != "" {
					w.violate("C10", "policy-verify-panic", pn)
					return
				}
				if (verr == nil) != ref.PolicySatisfied(p, c.height, c.median, types.Hash256{}, nil, nil) {
					w.violate("C14", "verify-disagrees", fmt.Sprintf("policy nested %d deep (innermost %v): Verify returned %v", depth, inner, verr))
					return
				}
			}
			w.stats.Inc("probe.P2-depth-limit")
			w.deepChainVerify("C14")
			if w.ownViolation() {
				return
			}
		}
		// ---- fund an output guarded by the policy
		fund := types.V2Transaction{SiacoinInputs: []types.V2SiacoinInput{{Parent: funder.Copy()}}, SiacoinOutputs: []types.SiacoinOutput{{Value: funder.SiacoinOutput.Value, Address: addr}}}
		if !w.signAllV2(sc.s, &fund) || sc.mineAt(ts, nil, []types.V2Transaction{fund}) != nil {
			return
		}
		if !medianTimestamp(sc.s).Equal(c.median) || sc.s.Index.Height != c.height {
			w.harnessErr("policy row: predicted height/median differ")
			return
		}
		var el types.SiacoinElement
		for _, d := range sc.last.SiacoinElementDiffs() {
			if d.SiacoinElement.ID == fund.SiacoinOutputID(fund.ID(), 0) {
				el = d.SiacoinElement.Copy()
			}
		}
		// ---- witness assignments
		for round := 0; round < 6; round++ {
			honest := round == 0 || t.Chance(1, 2)
			shown := c.reveal(pol, honest)
			txn := types.V2Transaction{SiacoinInputs: []types.V2SiacoinInput{{Parent: el.Copy()}}, SiacoinOutputs: []types.SiacoinOutput{{Value: el.SiacoinOutput.Value, Address: w.advAddr()}}}
			txn.SiacoinInputs[0].SatisfiedPolicy.Policy = shown
			sigHash := sc.s.InputSigHash(txn)
			sigs, pre := c.witnesses(shown, sigHash)
			how := "honest witnesses"
			if round > 0 {
				switch t.Choose(8) {
				case 0:
					if len(sigs) > 0 {
						sigs[t.Choose(len(sigs))][t.Choose(64)] ^= 1 << t.Choose(8)
						how = "one signature bit flipped"
					}
				case 1:
					if len(pre) > 0 {
						pre[t.Choose(len(pre))][t.Choose(32)] ^= 1 << t.Choose(8)
						how = "one preimage bit flipped"
					}
				case 2:
					if len(sigs) > 0 {
						sigs = sigs[:len(sigs)-1]
						how = "last signature missing"
					}
				case 3:
					sigs = append(sigs, c.keys[0].SignHash(sigHash))
					how = "one surplus signature"
				case 4:
					pre = append(pre, c.pre[0])
					how = "one surplus preimage"
				case 5:
					if len(sigs) > 1 {
						sigs[0], sigs[len(sigs)-1] = sigs[len(sigs)-1], sigs[0]
						how = "first and last signature swapped"
					}
				case 6:
					if len(sigs) > 0 {
						sigs[t.Choose(len(sigs))] = c.alien[0].SignHash(sigHash)
						how = "one signature made by a key that is not in the policy"
					}
				}
			}
			txn.SiacoinInputs[0].SatisfiedPolicy.Signatures, txn.SiacoinInputs[0].SatisfiedPolicy.Preimages = sigs, pre
			want := ref.PolicySatisfied(shown, sc.s.Index.Height, c.median, sigHash, sigs, pre) && shown.Address() == addr
			desc := fmt.Sprintf("policy %v presented as %v with %s (%d signatures, %d preimages) at height %d, median %s", pol, shown, how, len(sigs), len(pre), sc.s.Index.Height, c.median.UTC().Format("15:04:05"))
			// the library's verifier on its own
			var verr error
			if p := guard(func() { verr = shown.Verify(sc.s.Index.Height, c.median, sigHash, sigs, pre) }); p != "" {
				w.violate("C10", "policy-verify-panic", desc+": "+p)
				return
			}
			if (verr == nil) != ref.PolicySatisfied(shown, sc.s.Index.Height, c.median, sigHash, sigs, pre) {
				w.violate("C14", "verify-disagrees", fmt.Sprintf("%s: SpendPolicy.Verify returned %v, the policy's meaning gives %v", desc, verr, verr != nil))
				return
			}
			w.stats.Inc("probe.P2-verify-compared")
			if want {
				w.stats.Inc("probe.P2-satisfied")
			}
			// and inside block validation
			if round < 2 || t.Chance(1, 3) {
				berr, okb := sc.offer(nil, []types.V2Transaction{txn}, offerOpt{})
				if okb {
					w.stats.Inc("probe.P2-policy-in-block.offered")
					w.stats.Inc("probe.rows-run")
					if (berr == nil) != want {
						w.violate("C14", "block-verdict-disagrees", fmt.Sprintf("%s: ValidateBlock returned %v, the policy's meaning gives satisfied=%v", desc, berr, want))
						return
					}
				}
			}
		}
		// ---- size limits: more than 1024 sub-policies spread over sibling thresholds
		if t.Chance(1, 6) {
			inner := func(nOpaque int) types.SpendPolicy {
				of := []types.SpendPolicy{types.PolicyAbove(0)}
				for i := 0; i < nOpaque; i++ {
					of = append(of, types.PolicyOpaque(types.PolicyAbove(uint64(i+1))))
				}
				return types.PolicyThreshold(1, of)
			}
			k := t.Range(3, 6)
			per := t.Range(150, 254)
			var of []types.SpendPolicy
			for i := 0; i < k; i++ {
				of = append(of, inner(per))
			}
			big := types.PolicyThreshold(uint8(k), of)
			want := ref.PolicySatisfied(big, c.height, c.median, types.Hash256{}, nil, nil)
			var verr error
			if p := guard(func() { verr = big.Verify(c.height, c.median, types.Hash256{}, nil, nil) }); p != "" {
				w.violate("C10", "policy-verify-panic", p)
				return
			}
			if (verr == nil) != want {
				w.violate("C14", "size-limit", fmt.Sprintf("threshold of %d thresholds with %d sub-policies each (%d in total): Verify returned %v, limits give satisfied=%v", k, per+1, k+k*(per+1), verr, want))
			}
			w.stats.Inc("probe.P2-size-limit")
		}
	}})
}

// medianAfter predicts the median timestamp of the state after a block stamped ts.
func medianAfter(sc *scratch, ts time.Time) time.Time {
	k := int(sc.s.Index.Height + 1)
	if k > 10 {
		k = 10
	}
	all := append([]time.Time{ts}, sc.s.PrevTimestamps[:k]...)
	for i := 1; i < len(all); i++ {
		for j := i; j > 0 && all[j].Before(all[j-1]); j-- {
			all[j], all[j-1] = all[j-1], all[j]
		}
	}
	if len(all)%2 == 1 {
		return all[len(all)/2]
	}
	l, r := all[len(all)/2-1], all[len(all)/2]
	return l.Add(r.Sub(l) / 2)
}
