package world

import (
	"bytes"
	"fmt"
	"time"

	"go.sia.tech/core/consensus"
	"go.sia.tech/core/gateway"
	"go.sia.tech/core/types"
	"verif/ref"
)

// Rows added after the fourth (mechanism-directed) wave of seeded changes.

func init() {
	// ---- C03: a signed v2 revision retargeted at another contract of the same parties
	registerRows("C03", probeRow{"A3-revision-retargeted", func(w *World, n *Node) {
		sc := n.fork()
		if !sc.v2ok() {
			return
		}
		renter, host := w.wallets[0], w.wallets[len(w.wallets)-1]
		c := &Contract{renter: renter, host: host}
		var funders []types.SiacoinElement
		for _, e := range sc.ownedSC(false, true) {
			if e.SiacoinOutput.Value.Cmp(types.Siacoins(5)) > 0 {
				funders = append(funders, e)
			}
		}
		if len(funders) < 3 {
			return
		}
		// two contracts that differ only in their ID
		form := func(f types.SiacoinElement, salt uint64) (types.V2Transaction, bool) {
			fc := types.V2FileContract{ProofHeight: sc.child() + 20, ExpirationHeight: sc.child() + 25, Capacity: salt,
				RenterOutput: types.SiacoinOutput{Value: types.Siacoins(1), Address: renter.addrs[3].addr}, HostOutput: types.SiacoinOutput{Value: types.Siacoins(1), Address: host.addrs[3].addr},
				MissedHostValue: types.Siacoins(1), TotalCollateral: types.Siacoins(1), RenterPublicKey: c.renterKey().PublicKey(), HostPublicKey: c.hostKey().PublicKey()}
			w.signContractV2(sc.s, &fc, c.renterKey(), c.hostKey())
			need := fc.RenterOutput.Value.Add(fc.HostOutput.Value).Add(sc.s.V2FileContractTax(fc))
			txn := types.V2Transaction{SiacoinInputs: []types.V2SiacoinInput{{Parent: f.Copy()}}, FileContracts: []types.V2FileContract{fc}}
			if ch := f.SiacoinOutput.Value.Sub(need); !ch.IsZero() {
				txn.SiacoinOutputs = []types.SiacoinOutput{{Value: ch, Address: f.SiacoinOutput.Address}}
			}
			return txn, w.signAllV2(sc.s, &txn)
		}
		fa, ok1 := form(funders[0], 0)
		fb, ok2 := form(funders[1], 0)
		if !ok1 || !ok2 || sc.mine(nil, []types.V2Transaction{fa, fb}) != nil {
			return
		}
		ida, idb := fa.V2FileContractID(fa.ID(), 0), fb.V2FileContractID(fb.ID(), 0)
		ea, oka := sc.store.V2FC[ida]
		eb, okb := sc.store.V2FC[idb]
		payer, okp := sc.store.SC[funders[2].ID]
		if !oka || !okb || !okp {
			return
		}
		rev := ea.V2FileContract
		rev.RevisionNumber++
		rev.FileMerkleRoot[0] ^= 1
		w.signContractV2(sc.s, &rev, c.renterKey(), c.hostKey())
		txn := types.V2Transaction{SiacoinInputs: []types.V2SiacoinInput{{Parent: payer.Copy()}}, SiacoinOutputs: []types.SiacoinOutput{{Value: payer.SiacoinOutput.Value, Address: payer.SiacoinOutput.Address}},
			FileContractRevisions: []types.V2FileContractRevision{{Parent: ea.Copy(), Revision: rev}}}
		if !w.signAllV2(sc.s, &txn) || len(txn.SiacoinInputs[0].SatisfiedPolicy.Signatures) == 0 {
			return
		}
		verr, ok := sc.offer(nil, []types.V2Transaction{txn}, offerOpt{})
		w.expect("C03", "A3-revision-retarget-control", verr, ok, true, "transaction with a signed input and a revision of contract A")
		t2 := txn.DeepCopy()
		t2.FileContractRevisions[0].Parent = eb.Copy()
		verr, ok = sc.offer(nil, []types.V2Transaction{t2}, offerOpt{})
		w.expect("C03", "A3-revision-retargeted", verr, ok, false, fmt.Sprintf("the signed transaction's revision of contract %v presented as a revision of contract %v (same parties, same values) without re-signing the input", ida, idb))
	}})

	// ---- C03: a partial signature that covers another signature by its index
	registerRows("C03", probeRow{"A1-v1-covered-signature-index", func(w *World, n *Node) {
		sc := n.fork()
		if !sc.v1ok() || sc.child() < 3 {
			return
		}
		var multi, std []types.SiacoinElement
		for _, e := range sc.ownedSC(true, true) {
			switch _, ai := w.ownerOf(e.SiacoinOutput.Address); ai.kind {
			case "uc-2of3":
				multi = append(multi, e)
			case "uc-std":
				std = append(std, e)
			}
		}
		if len(multi) == 0 || len(std) == 0 {
			return
		}
		a, b := multi[w.tape.Choose(len(multi))], std[w.tape.Choose(len(std))]
		wa, aia := w.ownerOf(a.SiacoinOutput.Address)
		wb, aib := w.ownerOf(b.SiacoinOutput.Address)
		txn := types.Transaction{
			SiacoinInputs:  []types.SiacoinInput{{ParentID: a.ID, UnlockConditions: *aia.uc}, {ParentID: b.ID, UnlockConditions: *aib.uc}},
			SiacoinOutputs: []types.SiacoinOutput{{Value: a.SiacoinOutput.Value.Add(b.SiacoinOutput.Value), Address: w.advAddr()}},
		}
		all := types.CoveredFields{SiacoinInputs: []uint64{0, 1}, SiacoinOutputs: []uint64{0}}
		lock := sc.child() - 1 // already expired: the lock is harmless, its removal must still be noticed
		txn.Signatures = []types.TransactionSignature{
			{ParentID: types.Hash256(a.ID), PublicKeyIndex: 0, CoveredFields: all},
			{ParentID: types.Hash256(a.ID), PublicKeyIndex: 1, CoveredFields: all, Timelock: lock},
			{ParentID: types.Hash256(b.ID), PublicKeyIndex: 0, CoveredFields: types.CoveredFields{SiacoinInputs: []uint64{0, 1}, SiacoinOutputs: []uint64{0}, Signatures: []uint64{1}}},
		}
		ucs := map[types.Hash256]types.UnlockConditions{types.Hash256(a.ID): *aia.uc, types.Hash256(b.ID): *aib.uc}
		wa.finishV1(sc.s, &txn, ucs)
		if wb != wa {
			wb.finishV1(sc.s, &txn, ucs)
		}
		verr, ok := sc.offer([]types.Transaction{txn}, nil, offerOpt{})
		w.expect("C03", "A1-v1-covered-signature-control", verr, ok, true, "three partial signatures, the third covering signature 1")
		d := types.NewBufDecoder(encV1(txn))
		var t2 types.Transaction
		t2.DecodeFrom(d)
		t2.Signatures[1].Timelock = 0
		verr, ok = sc.offer([]types.Transaction{t2}, nil, offerOpt{})
		w.expect("C03", "A1-v1-covered-signature-altered", verr, ok, false, fmt.Sprintf("timelock of signature 1 changed from %d to 0 although signature 2 covers signature 1 (and not signature 0)", lock))
	}})

	// ---- C04: a never-created v1 contract as storage-proof parent in the supplement
	registerRows("C04", probeRow{"M2-v1-invented-contract", func(w *World, n *Node) {
		sc := n.fork()
		if !sc.v1ok() || sc.child() < w.net.HardforkStorageProof.Height || sc.child() < 2 {
			return
		}
		renter := w.wallets[0]
		fc := types.FileContract{WindowStart: sc.child() - 1, WindowEnd: sc.child() + 5, Payout: types.Siacoins(10),
			ValidProofOutputs:  []types.SiacoinOutput{{Value: types.Siacoins(9), Address: w.advAddr()}},
			MissedProofOutputs: []types.SiacoinOutput{{Value: types.Siacoins(9), Address: renter.addrs[0].addr}}}
		id := types.FileContractID{0xfc, byte(sc.child()), 7}
		windowID := sc.best[fc.WindowStart-1]
		for _, leaf := range []uint64{types.UnassignedLeafIndex, 0, sc.s.Elements.NumLeaves - 1, sc.s.Elements.NumLeaves} {
			el := types.FileContractElement{ID: id, StateElement: types.StateElement{LeafIndex: leaf}, FileContract: fc}
			txn := types.Transaction{StorageProofs: []types.StorageProof{{ParentID: id}}}
			verr, ok := sc.offer([]types.Transaction{txn}, nil, offerOpt{mutate: func(b *types.Block, bs *consensus.V1BlockSupplement) {
				bs.Transactions[0].StorageProofs = []consensus.V1StorageProofSupplement{{FileContract: el.Copy(), WindowID: windowID}}
			}})
			w.expect("C04", "M2-v1-invented-contract", verr, ok, false, fmt.Sprintf("storage proof of a contract that was never created (empty file), supplied in the supplement with leaf index %d", leaf))
		}
	}})

	// ---- C08: the v1 gate at the require height, at transaction level (the pool's path)
	registerRows("C08", probeRow{"T1-v1-transaction-level-gate", func(w *World, n *Node) {
		sc := n.fork()
		req := w.net.HardforkV2.RequireHeight
		if !sc.v1ok() || req < sc.child() || req > sc.child()+12 {
			return
		}
		e, ok := pickSC(w, sc.ownedSC(true, true))
		if !ok {
			return
		}
		id := e.ID
		for sc.child() < req-1 {
			if !sc.extend(sc.nextTimestamp()) {
				return
			}
		}
		for _, want := range []bool{true, false} {
			if (sc.child() == req-1) != want && sc.child() != req {
				continue
			}
			cur, ok := sc.store.SC[id]
			if !ok {
				return
			}
			txn, ok := w.spendV1(sc.s, []types.SiacoinElement{cur}, w.wallets[0].addrs[0].addr)
			if !ok {
				return
			}
			ms := consensus.NewMidState(sc.s)
			var err error
			if p := guard(func() {
				err = consensus.ValidateTransaction(ms, txn, consensus.V1TransactionSupplement{SiacoinInputs: []types.SiacoinElement{cur.Copy()}})
			}); p != "" {
				w.violate("C10", "validate-txn-panic", p)
				return
			}
			valid := sc.child() < req
			w.stats.Inc(fmt.Sprintf("probe.T1-v1-txn-gate-valid-%v.offered", valid))
			w.stats.Inc("probe.rows-run")
			if (err == nil) != valid {
				w.violate("C08", "probe-T1-v1-transaction-level-gate", fmt.Sprintf("ValidateTransaction on the state whose child height is %d (v2 require height %d) returned %v for a v1 transaction", sc.child(), req, err))
				return
			}
			if sc.child() == req-1 && !sc.extend(sc.nextTimestamp()) {
				return
			}
		}
	}})

	// ---- C12: derived IDs over the whole index range
	registerRows("C12", probeRow{"I2-derived-id-index-range", func(w *World, n *Node) {
		bid := n.tip.Index.ID
		seen := map[types.SiacoinOutputID]int{}
		for _, i := range []int{0, 1, 2, 255, 256, 257, 511, 512, 65535, 65536, 1 << 24, 1<<31 - 1} {
			if got, want := bid.MinerOutputID(i), ref.MinerOutputID(bid, i); got != want {
				w.violate("C12", "refwire-miner-output-id", fmt.Sprintf("MinerOutputID(%d) of block %s differs from its definition", i, short(bid)))
				return
			}
			if j, dup := seen[bid.MinerOutputID(i)]; dup {
				w.violate("C12", "derived-id-collision", fmt.Sprintf("MinerOutputID(%d) == MinerOutputID(%d) for block %s", i, j, short(bid)))
				return
			}
			seen[bid.MinerOutputID(i)] = i
			var fcid types.FileContractID
			copy(fcid[:], bid[:])
			if fcid.ValidOutputID(i) != ref.V1ProofOutputID(fcid, true, i) || fcid.MissedOutputID(i) != ref.V1ProofOutputID(fcid, false, i) {
				w.violate("C12", "refwire-v1-proof-output-id", fmt.Sprintf("valid / missed output ID %d differs from its definition", i))
				return
			}
			txid := types.TransactionID(bid)
			t2 := types.V2Transaction{}
			if t2.SiacoinOutputID(txid, i) != ref.V2SiacoinOutputID(txid, i) || t2.SiafundOutputID(txid, i) != ref.V2SiafundOutputID(txid, i) ||
				t2.V2FileContractID(txid, i) != ref.V2FileContractID(txid, i) || t2.AttestationID(txid, i) != ref.V2AttestationID(txid, i) {
				w.violate("C12", "refwire-v2-derived-id", fmt.Sprintf("a v2 derived ID with index %d differs from its definition", i))
				return
			}
			t1 := types.Transaction{ArbitraryData: [][]byte{bid[:4]}}
			if t1.SiacoinOutputID(i) != ref.V1SiacoinOutputID(t1, i) || t1.SiafundOutputID(i) != ref.V1SiafundOutputID(t1, i) || t1.FileContractID(i) != ref.V1FileContractID(t1, i) {
				w.violate("C12", "refwire-v1-derived-id", fmt.Sprintf("a v1 derived ID with index %d differs from its definition", i))
				return
			}
		}
		w.stats.Inc("probe.I2-derived-id-index-range")
		w.stats.Inc("probe.rows-run")
	}})

	// ---- C10: outline kind bytes; C14 rows live in probes_policy.go
	registerRows("C10", probeRow{"Z3-outline-kind-bytes", func(w *World, n *Node) {
		sc := n.fork()
		if !sc.v2ok() {
			return
		}
		e, ok := pickSC(w, sc.ownedSC(false, true))
		if !ok {
			return
		}
		t2, ok := w.spendV2(sc.s, []types.SiacoinElement{e}, w.advAddr())
		if !ok {
			return
		}
		var v1 []types.Transaction
		if sc.v1ok() {
			if e1, ok := pickSC(w, sc.ownedSC(true, true)); ok && e1.ID != e.ID {
				if t1, ok := w.spendV1(sc.s, []types.SiacoinElement{e1}, w.wallets[0].addrs[0].addr); ok {
					v1 = append(v1, t1)
				}
			}
		}
		b := w.assemble(sc.s, sc.nextTimestamp(), w.miners[0].addr, v1, []types.V2Transaction{t2}, false)
		with2 := []types.V2Transaction(nil)
		if w.tape.Chance(1, 3) {
			with2 = b.V2.Transactions
		}
		bo := gateway.OutlineBlock(b, nil, with2)
		var buf bytes.Buffer
		enc := types.NewEncoder(&buf)
		gateway.VerifEncodeOutline(enc, &bo)
		enc.Flush()
		raw := buf.Bytes()
		k := len(bo.Transactions)
		// the kinds of the outline's entries are single bytes near the end of
		// the encoding: rewrite each of the last bytes with every small value
		for off := 1; off <= k+8 && off <= len(raw); off++ {
			for _, v := range []byte{0, 1, 2, 3, 255} {
				mut := append([]byte(nil), raw...)
				if mut[len(mut)-off] == v {
					continue
				}
				mut[len(mut)-off] = v
				var got gateway.V2BlockOutline
				d := types.NewBufDecoder(mut)
				if p := guard(func() { gateway.VerifDecodeOutline(d, &got) }); p != "" {
					w.violate("C10", "decode-outline-panic", fmt.Sprintf("decoding an outline of %d entries with byte -%d set to %d panicked: %s", k, off, v, p))
					return
				}
				if d.Err() == nil {
					if p := guard(func() { got.Complete(sc.s, nil, nil); got.Missing() }); p != "" {
						w.violate("C10", "outline-complete-panic", fmt.Sprintf("completing a decoded outline (byte -%d set to %d) panicked: %s", off, v, p))
						return
					}
				}
				w.stats.Inc("probe.Z3-outline-kind-bytes")
			}
		}
		w.stats.Inc("probe.crash")
		w.stats.Inc("probe.rows-run")
	}})
	// ---- C10: policies nested past the decoder's depth limit through any branch
	registerRows("C10", probeRow{"Z4-deep-policy", func(w *World, n *Node) {
		t := w.tape
		depth := pick(t, 33, 34, 40, 64, 200, 1000, 20000)
		// per level: the nested policy sits at position pos among width siblings
		width := t.Range(1, 4)
		pos := t.Choose(width)
		// hand-written encoding: version 1, then per level opThreshold(5), n, count
		var pre, post []byte
		leaf := []byte{1, 0, 0, 0, 0, 0, 0, 0, 0} // above(0)
		for i := 0; i < depth; i++ {
			pre = append(pre, 5, 1, byte(width))
			for j := 0; j < pos; j++ {
				pre = append(pre, leaf...)
			}
			for j := pos + 1; j < width; j++ {
				post = append(post, leaf...)
			}
		}
		enc := append(append(append([]byte{1}, pre...), leaf...), post...)
		var got types.SpendPolicy
		d := types.NewBufDecoder(enc)
		if p := guard(func() { got.DecodeFrom(d) }); p != "" {
			w.violate("C10", "decode-policy-panic", fmt.Sprintf("decoding a policy nested %d deep panicked: %s", depth, p))
			return
		}
		if d.Err() == nil {
			w.violate("C10", "deep-policy-accepted", fmt.Sprintf("a policy nested %d thresholds deep (each nested as child %d of %d) was decoded without error: the decoder's recursion is not bounded by its nesting limit of 32", depth, pos+1, width))
			return
		}
		// built in memory (or parsed from text, where nothing limits nesting): Verify's
		// own bound on the number of sub-policies must stop a long chain of
		// single-branch thresholds
		w.deepChainVerify("C10")
		w.stats.Inc("probe.Z4-deep-policy")
		w.stats.Inc("probe.crash")
		w.stats.Inc("probe.rows-run")
	}})
}

// deepChainVerify: chains of 1-of-1 thresholds around a satisfiable or an
// unsatisfiable leaf. The reference evaluator counts sub-policies as the
// protocol does (at most 1024 in total).
func (w *World) deepChainVerify(prop string) {
	t := w.tape
	depth := pick(t, 1, 32, 1000, 1023, 1024, 1025, 1026, 2048, 5000)
	leaf := pick(t, types.PolicyAbove(0), types.PolicyAbove(^uint64(0)), types.AnyoneCanSpend())
	p := leaf
	for i := 0; i < depth; i++ {
		p = types.PolicyThreshold(1, []types.SpendPolicy{p})
	}
	var verr error
	if pn := guard(func() { verr = p.Verify(10, time.Unix(1e9, 0), types.Hash256{}, nil, nil) }); pn != "" {
		w.violate(prop, "policy-verify-panic", fmt.Sprintf("Verify of a chain of %d single-branch thresholds panicked: %s", depth, pn))
		return
	}
	if want := ref.PolicySatisfied(p, 10, time.Unix(1e9, 0), types.Hash256{}, nil, nil); (verr == nil) != want {
		w.violate(prop, "deep-chain-verify", fmt.Sprintf("Verify of a chain of %d single-branch thresholds around %v returned %v; counting sub-policies as the protocol does (at most 1024 in all) gives satisfied=%v", depth, leaf, verr, want))
		return
	}
	w.stats.Inc("probe.deep-chain-verify")
}
