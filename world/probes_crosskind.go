package world

import (
	"fmt"

	"go.sia.tech/core/consensus"
	"go.sia.tech/core/types"
)

// Rows about element IDs of one kind presented as parents of another kind
// inside one block (the block-local lookup table is shared by all kinds).

func init() {
	crossKind := probeRow{"D6-cross-kind-parent", func(w *World, n *Node) {
		sc := n.fork()
		if !sc.v1ok() || sc.child() < w.net.HardforkTax.Height {
			return
		}
		cands := sc.ownedSC(true, true)
		if len(cands) == 0 {
			return
		}
		p := cands[w.tape.Choose(len(cands))]
		_, ai := w.ownerOf(p.SiacoinOutput.Address)
		if p.SiacoinOutput.Value.Cmp(types.Siacoins(10)) < 0 {
			return
		}
		renter, host := w.wallets[0], w.wallets[len(w.wallets)-1]
		c := &Contract{renter: renter, host: host}
		// txn A: spend P, form k contracts (and, tape-chosen, a change output)
		k := w.tape.Range(1, 3)
		valid := types.Siacoins(1)
		fc := types.FileContract{WindowStart: sc.child() + 3, WindowEnd: sc.child() + 5, UnlockHash: c.uc().UnlockHash(),
			ValidProofOutputs:  []types.SiacoinOutput{{Value: valid, Address: renter.addrs[0].addr}},
			MissedProofOutputs: []types.SiacoinOutput{{Value: valid, Address: renter.addrs[0].addr}}}
		fc.Payout = preTaxPayout(sc.s, fc, valid)
		if fc.Payout.IsZero() {
			return
		}
		a := types.Transaction{SiacoinInputs: []types.SiacoinInput{{ParentID: p.ID, UnlockConditions: *ai.uc}}}
		spent := types.ZeroCurrency
		for i := 0; i < k; i++ {
			f := fc
			f.RevisionNumber = uint64(i)
			a.FileContracts = append(a.FileContracts, f)
			spent = spent.Add(fc.Payout)
		}
		rest := p.SiacoinOutput.Value.Sub(spent)
		withChange := w.tape.Chance(1, 2)
		if withChange {
			a.SiacoinOutputs = []types.SiacoinOutput{{Value: rest, Address: p.SiacoinOutput.Address}}
		} else {
			a.MinerFees = []types.Currency{rest}
		}
		w.signAllV1(sc.s, &a)
		verr, ok := sc.offer([]types.Transaction{a}, nil, offerOpt{})
		w.expect("C02", "D6-control", verr, ok, true, "contract formation alone")
		// txn C: spend "the siacoin output" whose ID is the ID of contract j of txn A.
		// The block-local table maps that ID to index j of the contract list; the
		// same index in the siacoin list holds another element of this block.
		for j := 0; j < k; j++ {
			fake := types.SiacoinOutputID(a.FileContractID(j))
			// what sits at index j of the block's siacoin list: P (index 0), then the change output
			var victim types.SiacoinOutput
			switch {
			case j == 0:
				victim = p.SiacoinOutput
			case j == 1 && withChange:
				victim = a.SiacoinOutputs[0]
			default:
				victim = p.SiacoinOutput // no element there: must not crash
			}
			cx := types.Transaction{
				SiacoinInputs:  []types.SiacoinInput{{ParentID: fake, UnlockConditions: *ai.uc}},
				SiacoinOutputs: []types.SiacoinOutput{{Value: victim.Value, Address: w.advAddr()}},
			}
			w.signAllV1(sc.s, &cx)
			verr, ok = sc.offer([]types.Transaction{a, cx}, nil, offerOpt{})
			w.expect("C02", "D6-v1-contract-id-as-siacoin-parent", verr, ok, false,
				fmt.Sprintf("second transaction spends a 'siacoin output' whose ID is that of contract %d formed by the first transaction of the block (the element at that position of the block's siacoin list is worth %v)", j, victim.Value))
		}
		// the same with a siafund parent
		for _, id := range sc.store.sortedSF() {
			e := sc.store.SF[id]
			wl, sai := w.ownerOf(e.SiafundOutput.Address)
			if wl == nil || !sai.canSpendV1(sc.child()) {
				continue
			}
			a2 := a
			a2.SiafundInputs = []types.SiafundInput{{ParentID: id, UnlockConditions: *sai.uc, ClaimAddress: w.advAddr()}}
			a2.SiafundOutputs = []types.SiafundOutput{{Value: e.SiafundOutput.Value, Address: e.SiafundOutput.Address}}
			w.signAllV1(sc.s, &a2)
			cx := types.Transaction{
				SiafundInputs:  []types.SiafundInput{{ParentID: types.SiafundOutputID(a2.FileContractID(0)), UnlockConditions: *sai.uc, ClaimAddress: w.advAddr()}},
				SiafundOutputs: []types.SiafundOutput{{Value: e.SiafundOutput.Value, Address: w.advAddr()}},
			}
			w.signAllV1(sc.s, &cx)
			verr, ok = sc.offer([]types.Transaction{a2, cx}, nil, offerOpt{})
			w.expect("C02", "D6-v1-contract-id-as-siafund-parent", verr, ok, false, "second transaction spends a 'siafund output' whose ID is that of a contract formed by the first transaction of the block")
			break
		}
		// other kinds as parents: must at least not crash (C10)
		for _, mk := range []func() types.Transaction{
			func() types.Transaction { // revision of a "contract" named by a siacoin output ID
				t := types.Transaction{FileContractRevisions: []types.FileContractRevision{{ParentID: types.FileContractID(p.ID), UnlockConditions: c.uc(), FileContract: fc}}}
				t.FileContractRevisions[0].FileContract.RevisionNumber = 9
				return t
			},
			func() types.Transaction { // storage proof of a "contract" named by a siacoin output ID
				return types.Transaction{StorageProofs: []types.StorageProof{{ParentID: types.FileContractID(p.ID)}}}
			},
			func() types.Transaction { // contract ID beyond the siacoin list
				return types.Transaction{SiacoinInputs: []types.SiacoinInput{{ParentID: types.SiacoinOutputID(a.FileContractID(k - 1)), UnlockConditions: *ai.uc}}, MinerFees: []types.Currency{types.Siacoins(1)}}
			},
		} {
			t := mk()
			if len(t.FileContractRevisions) > 0 {
				cc := *c
				cc.id = t.FileContractRevisions[0].ParentID
				w.signContractV1(sc.s, &t, &cc)
			}
			_, ok := sc.offer([]types.Transaction{a, t}, nil, offerOpt{})
			if ok {
				w.stats.Inc("probe.Z1-cross-kind.offered")
				w.stats.Inc("probe.crash")
			}
		}
	}}
	registerRows("C02", crossKind)
	registerRows("C10", crossKind)
	_ = consensus.State{}
}
