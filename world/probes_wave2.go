package world

import (
	"fmt"

	"go.sia.tech/core/consensus"
	"go.sia.tech/core/types"
)

// Rows added after the second wave of seeded changes.

func init() {
	// ---- C11: rarely used fields and variants through the wire oracles
	rare := probeRow{"W1-rare-fields", func(w *World, n *Node) {
		sc := n.fork()
		addr := w.advAddr()
		void := types.VoidAddress
		other := w.wallets[0].addrs[0].addr
		if e, ok := pickSC(w, sc.ownedSC(false, true)); ok {
			base, _ := w.spendV2(sc.s, []types.SiacoinElement{e}, addr)
			variants := map[string]func(t *types.V2Transaction){
				"foundation-void":      func(t *types.V2Transaction) { t.NewFoundationAddress = &void },
				"foundation-address":   func(t *types.V2Transaction) { t.NewFoundationAddress = &other },
				"arbitrary-data-empty": func(t *types.V2Transaction) { t.ArbitraryData = []byte{} },
				"arbitrary-data-zero":  func(t *types.V2Transaction) { t.ArbitraryData = []byte{0} },
				"zero-fee":             func(t *types.V2Transaction) { t.MinerFee = types.ZeroCurrency },
				"max-fee":              func(t *types.V2Transaction) { t.MinerFee = types.MaxCurrency },
				"zero-value-output": func(t *types.V2Transaction) {
					t.SiacoinOutputs = append(t.SiacoinOutputs, types.SiacoinOutput{Address: void})
				},
				"attestation-empty": func(t *types.V2Transaction) {
					t.Attestations = []types.Attestation{{PublicKey: w.wallets[0].keys[0].PublicKey()}}
				},
				"attestation-full": func(t *types.V2Transaction) {
					t.Attestations = []types.Attestation{{PublicKey: w.wallets[0].keys[0].PublicKey(), Key: "k", Value: []byte{0, 1, 2}, Signature: types.Signature{1}}}
				},
				"siafund-output-zero": func(t *types.V2Transaction) { t.SiafundOutputs = []types.SiafundOutput{{Address: void}} },
				"contract-zero":       func(t *types.V2Transaction) { t.FileContracts = []types.V2FileContract{{}} },
				"contract-max": func(t *types.V2Transaction) {
					t.FileContracts = []types.V2FileContract{{Capacity: ^uint64(0), Filesize: ^uint64(0), ProofHeight: ^uint64(0), ExpirationHeight: ^uint64(0), RevisionNumber: ^uint64(0),
						RenterOutput: types.SiacoinOutput{Value: types.MaxCurrency}, MissedHostValue: types.MaxCurrency, TotalCollateral: types.MaxCurrency}}
				},
				"resolution-expiration": func(t *types.V2Transaction) {
					t.FileContractResolutions = []types.V2FileContractResolution{{Resolution: &types.V2FileContractExpiration{}}}
				},
				"resolution-renewal-zero": func(t *types.V2Transaction) {
					t.FileContractResolutions = []types.V2FileContractResolution{{Resolution: &types.V2FileContractRenewal{}}}
				},
				"resolution-proof-empty": func(t *types.V2Transaction) {
					t.FileContractResolutions = []types.V2FileContractResolution{{Resolution: &types.V2StorageProof{}}}
				},
				"preimage-witness": func(t *types.V2Transaction) {
					t.SiacoinInputs[0].SatisfiedPolicy.Preimages = [][32]byte{{}, {1}}
				},
			}
			for _, name := range sortedKeys(variants) {
				t := base.DeepCopy()
				variants[name](&t)
				w.wireV2Txn(t, "rare-field variant "+name)
				w.stats.Inc("probe.W1-" + name)
			}
			// the Foundation update that disables the subsidy, in a block
			if fe, ok := w.foundationElement(sc); ok {
				t, okb := w.spendV2(sc.s, []types.SiacoinElement{fe}, fe.SiacoinOutput.Address)
				if okb {
					t.NewFoundationAddress = &void
					if w.signAllV2(sc.s, &t) {
						verr, okc := sc.offer(nil, []types.V2Transaction{t}, offerOpt{})
						w.expect("C11", "W1-foundation-void-in-block", verr, okc, true, "Foundation address set to the void address by a transaction signed with the Foundation key")
						b := w.assemble(sc.s, sc.nextTimestamp(), w.miners[0].addr, nil, []types.V2Transaction{t}, false)
						w.onWire("block", b, encodeBlock(b))
					}
				}
			}
		}
		if e, ok := pickSC(w, sc.ownedSC(true, true)); ok {
			base, _ := w.spendV1(sc.s, []types.SiacoinElement{e}, other)
			variants := map[string]func(t *types.Transaction){
				"arbitrary-empty-items": func(t *types.Transaction) { t.ArbitraryData = [][]byte{{}, nil, {0}} },
				"fees-zero":             func(t *types.Transaction) { t.MinerFees = []types.Currency{types.ZeroCurrency, types.ZeroCurrency} },
				"fees-max":              func(t *types.Transaction) { t.MinerFees = []types.Currency{types.MaxCurrency} },
				"contract-empty":        func(t *types.Transaction) { t.FileContracts = []types.FileContract{{}} },
				"contract-outputs": func(t *types.Transaction) {
					t.FileContracts = []types.FileContract{{ValidProofOutputs: []types.SiacoinOutput{{}, {Value: types.MaxCurrency}}, MissedProofOutputs: []types.SiacoinOutput{}}}
				},
				"revision-max": func(t *types.Transaction) {
					t.FileContractRevisions = []types.FileContractRevision{{FileContract: types.FileContract{RevisionNumber: ^uint64(0), Payout: types.MaxCurrency}}}
				},
				"storage-proof": func(t *types.Transaction) {
					t.StorageProofs = []types.StorageProof{{Proof: []types.Hash256{{1}, {2}}}, {}}
				},
				"siafund-in-out": func(t *types.Transaction) {
					t.SiafundInputs = []types.SiafundInput{{ClaimAddress: other}}
					t.SiafundOutputs = []types.SiafundOutput{{Value: ^uint64(0)}}
				},
				"sig-timelock-covered": func(t *types.Transaction) {
					t.Signatures = append(t.Signatures, types.TransactionSignature{Timelock: ^uint64(0), PublicKeyIndex: ^uint64(0), CoveredFields: types.CoveredFields{MinerFees: []uint64{0, 1 << 40}, Signatures: []uint64{}}})
				},
				"sig-whole-and-signatures": func(t *types.Transaction) {
					t.Signatures = append(t.Signatures, types.TransactionSignature{CoveredFields: types.CoveredFields{WholeTransaction: true, Signatures: []uint64{0, 2}}})
				},
				"sig-whole-and-every-list": func(t *types.Transaction) {
					t.Signatures = append(t.Signatures, types.TransactionSignature{CoveredFields: types.CoveredFields{WholeTransaction: true, SiacoinInputs: []uint64{1}, SiacoinOutputs: []uint64{2}, FileContracts: []uint64{3}, FileContractRevisions: []uint64{4},
						StorageProofs: []uint64{5}, SiafundInputs: []uint64{6}, SiafundOutputs: []uint64{7}, MinerFees: []uint64{8}, ArbitraryData: []uint64{9}, Signatures: []uint64{10}}})
				},
				"odd-key": func(t *types.Transaction) {
					t.SiacoinInputs[0].UnlockConditions.PublicKeys = append(t.SiacoinInputs[0].UnlockConditions.PublicKeys, types.UnlockKey{Algorithm: types.NewSpecifier("x y:z"), Key: nil})
				},
			}
			for _, name := range sortedKeys(variants) {
				d := types.NewBufDecoder(encV1(base))
				var t types.Transaction
				t.DecodeFrom(d)
				variants[name](&t)
				w.wireV1Txn(t, "rare-field variant "+name)
				w.stats.Inc("probe.W1-v1-" + name)
			}
		}
		// a siafund output created and spent inside one block, in compressed form
		// (valid below the ephemeral output height; the codec must skip the
		// proof-less parent at any height)
		if sc.v2ok() {
			for _, id := range sc.store.sortedSF() {
				sf := sc.store.SF[id]
				wl, ai := w.ownerOf(sf.SiafundOutput.Address)
				if wl == nil || !wl.canSatisfyNow(sc.s, ai) {
					continue
				}
				t1 := types.V2Transaction{SiafundInputs: []types.V2SiafundInput{{Parent: sf.Copy(), ClaimAddress: addr}}, SiafundOutputs: []types.SiafundOutput{{Value: sf.SiafundOutput.Value, Address: sf.SiafundOutput.Address}}}
				if !w.signAllV2(sc.s, &t1) {
					continue
				}
				eph := types.SiafundElement{ID: t1.SiafundOutputID(t1.ID(), 0), StateElement: types.StateElement{LeafIndex: types.UnassignedLeafIndex}, SiafundOutput: t1.SiafundOutputs[0], ClaimStart: sc.s.SiafundTaxRevenue}
				t2 := types.V2Transaction{SiafundInputs: []types.V2SiafundInput{{Parent: eph, ClaimAddress: addr}}, SiafundOutputs: []types.SiafundOutput{{Value: sf.SiafundOutput.Value, Address: addr}}}
				if !w.signAllV2(sc.s, &t2) {
					break
				}
				txns := []types.V2Transaction{t1, t2}
				if e, ok := pickSC(w, sc.ownedSC(false, true)); ok {
					if t3, ok := w.spendV2(sc.s, []types.SiacoinElement{e}, addr); ok {
						txns = append(txns, t3)
					}
				}
				var b types.Block
				if p := guard(func() { b = w.assembleOpt(sc.s, sc.nextTimestamp(), w.miners[0].addr, nil, txns, true) }); p == "" {
					var enc []byte
					if p := guard(func() { enc = encodeBlock(b) }); p != "" {
						w.violate("C18", "multiproof-encode-panic", "block with an ephemeral siafund parent: "+p)
					} else {
						w.onWire("block", b, enc)
						w.stats.Inc("probe.W1-ephemeral-siafund-multiproof")
					}
				}
				break
			}
		}
		// the state before genesis (height = all ones, no timestamps)
		pre := w.net.GenesisState()
		if p := guard(func() { w.onWire("state", pre, encodeState(pre)) }); p != "" {
			w.violate("C10", "encode-state-panic", p)
		}
		w.stats.Inc("probe.W1-pre-genesis-state")
		w.stats.Inc("probe.rows-run")
	}}
	registerRows("C11", rare)
	registerRows("C18", rare)

	// ---- C12: partial-coverage signature over a siafund input replayed across an era boundary
	registerRows("C12", probeRow{"S2-partial-siafund-replay", func(w *World, n *Node) {
		sc := n.fork()
		if !sc.v1ok() {
			return
		}
		for _, b := range []struct {
			name string
			h    uint64
		}{{"asic", w.net.HardforkASIC.Height}, {"foundation", w.net.HardforkFoundation.Height}, {"v2-allow", w.net.HardforkV2.AllowHeight}} {
			bound := b.h + 1
			if bound <= sc.child() || bound > sc.child()+12 || bound >= w.net.HardforkV2.RequireHeight {
				continue
			}
			if (b.name == "asic" && (b.h >= w.net.HardforkFoundation.Height || b.h >= w.net.HardforkV2.AllowHeight)) || (b.name == "foundation" && b.h >= w.net.HardforkV2.AllowHeight) {
				continue // out-of-order hardforks of a drawn network: the later era's prefix is already in force
			}
			var sfid types.SiafundOutputID
			found := false
			for _, id := range sc.store.sortedSF() {
				e := sc.store.SF[id]
				if wl, ai := w.ownerOf(e.SiafundOutput.Address); wl != nil && ai.uc != nil && ai.canSpendV1(bound) && (ai.kind == "uc-std" || ai.kind == "uc-2of3") {
					sfid, found = id, true
					break
				}
			}
			if !found || !sc.advanceTo(bound-1) {
				return
			}
			e := sc.store.SF[sfid]
			wl, ai := w.ownerOf(e.SiafundOutput.Address)
			txn := types.Transaction{SiafundInputs: []types.SiafundInput{{ParentID: sfid, UnlockConditions: *ai.uc, ClaimAddress: w.advAddr()}},
				SiafundOutputs: []types.SiafundOutput{{Value: e.SiafundOutput.Value, Address: e.SiafundOutput.Address}}}
			wl.signV1(sc.s, &txn, types.Hash256(sfid), *ai.uc)
			kind := "partial"
			if w.tape.Chance(1, 2) {
				w.makePartial(&txn)
			} else {
				kind = "whole" // (a transaction that spends siafunds only: no siacoin input carries the era for it)
			}
			wl.finishV1(sc.s, &txn, map[types.Hash256]types.UnlockConditions{types.Hash256(sfid): *ai.uc})
			b.name = kind + "-" + b.name
			verr, ok := sc.offer([]types.Transaction{txn}, nil, offerOpt{})
			w.expect("C12", "S2-partial-siafund-"+b.name+"-before", verr, ok, true, "siafund transfer with explicit covered fields offered in the era it was signed in")
			if !sc.extend(sc.nextTimestamp()) {
				return
			}
			verr, ok = sc.offer([]types.Transaction{txn}, nil, offerOpt{})
			w.expect("C12", "S2-partial-siafund-"+b.name+"-replayed", verr, ok, false, fmt.Sprintf("siafund transfer whose signature (explicit covered fields) was made below the %s boundary, replayed in the block at height %d", b.name, sc.child()))
			return
		}
	}})

	// ---- C12: a v2 block carrying a v1 transaction binds that transaction's signatures
	registerRows("C12", probeRow{"B2-v1-in-v2-block", func(w *World, n *Node) {
		sc := n.fork()
		if !sc.v1ok() || !sc.v2ok() {
			return
		}
		var cands []types.SiacoinElement
		for _, e := range sc.ownedSC(true, true) {
			if _, ai := w.ownerOf(e.SiacoinOutput.Address); ai.kind == "uc-2of3" {
				cands = append(cands, e)
			}
		}
		e, ok := pickSC(w, cands)
		if !ok {
			return
		}
		wl, ai := w.ownerOf(e.SiacoinOutput.Address)
		build := func(keys [2]uint64) types.Transaction {
			txn := types.Transaction{
				SiacoinInputs:  []types.SiacoinInput{{ParentID: e.ID, UnlockConditions: *ai.uc}},
				SiacoinOutputs: []types.SiacoinOutput{{Value: e.SiacoinOutput.Value, Address: w.advAddr()}},
			}
			for _, i := range keys {
				txn.Signatures = append(txn.Signatures, types.TransactionSignature{ParentID: types.Hash256(e.ID), PublicKeyIndex: i, CoveredFields: types.CoveredFields{WholeTransaction: true}})
			}
			wl.finishV1(sc.s, &txn, map[types.Hash256]types.UnlockConditions{types.Hash256(e.ID): *ai.uc})
			return txn
		}
		t1, t2 := build([2]uint64{0, 1}), build([2]uint64{1, 2})
		good := w.assemble(sc.s, sc.nextTimestamp(), w.miners[0].addr, []types.Transaction{t1}, nil, false)
		if good.V2 == nil || consensus.ValidateBlock(sc.s, good, sc.supplement(good)) != nil {
			return
		}
		alt, err := decodeBlockSafe(encodeBlock(good))
		if err != nil {
			return
		}
		alt.Transactions[0].Signatures = t2.Signatures // header fields, commitment included, kept
		w.stats.Inc("probe.B2-v1-alternative-signatures")
		w.stats.Inc("probe.rows-run")
		var verr error
		if p := guard(func() { verr = consensus.ValidateBlock(sc.s, alt, sc.supplement(alt)) }); p != "" {
			w.violate("C10", "validate-panic", p)
			return
		}
		if verr == nil && alt.ID() == good.ID() {
			w.violate("C12", "block-id-ignores-v1-signatures", fmt.Sprintf("v2 block %s with a v1 transaction: its signatures were replaced by another valid set (keys 1,2 instead of 0,1) with all header fields kept: same ID and still accepted", short(good.ID())))
		}
	}})
}

// foundationElement finds an output the Foundation key can spend on the fork.
func (w *World) foundationElement(sc *scratch) (types.SiacoinElement, bool) {
	for _, e := range sc.ownedSC(false, true) {
		if e.SiacoinOutput.Address == sc.s.FoundationManagementAddress { // v2 rule: the management (failsafe) address authorises
			return e, true
		}
	}
	return types.SiacoinElement{}, false
}
