package world

import (
	"errors"
	"fmt"
	"time"

	"go.sia.tech/core/consensus"
	"go.sia.tech/core/types"
	"verif/ref"
)

// A scratch is a private fork of a node's chain on which the adversary offers
// blocks and mines ahead without disturbing the world.
type scratch struct {
	w      *World
	s      consensus.State
	store  *Store
	best   []types.BlockID
	ledger *ref.Ledger // reference ledger of the scratch tip (nil if unavailable)
	last   consensus.ApplyUpdate
}

func (n *Node) fork() *scratch {
	return &scratch{w: n.w, s: n.tip, store: n.store.clone(), best: append([]types.BlockID(nil), n.best...), ledger: n.w.ledgers[n.tip.Index.ID]}
}

func (sc *scratch) child() uint64 { return sc.s.Index.Height + 1 }

func (sc *scratch) supplement(b types.Block) consensus.V1BlockSupplement {
	if sc.child() >= sc.w.net.HardforkV2.RequireHeight {
		return consensus.V1BlockSupplement{Transactions: make([]consensus.V1TransactionSupplement, len(b.Transactions))}
	}
	return sc.store.supplementFor(b, sc.child(), sc.best)
}

// nextTimestamp is an honest timestamp for the next scratch block.
func (sc *scratch) nextTimestamp() time.Time {
	ts := sc.s.PrevTimestamps[0].Add(sc.w.net.BlockInterval)
	if med := medianTimestamp(sc.s); ts.Before(med) {
		ts = med
	}
	if r := ts.Truncate(time.Second); r.Before(ts) {
		ts = r.Add(time.Second)
	}
	return ts
}

// extend mines an empty block with the given timestamp on the scratch fork.
func (sc *scratch) extend(ts time.Time) bool {
	err := sc.mineAt(ts, nil, nil)
	if err != nil && !sc.w.fatal {
		sc.w.harnessErr("scratch fork: empty block rejected at height %d: %v", sc.child(), err)
	}
	return err == nil
}

// mine validates and applies a block with the given transactions on the
// scratch fork; the reference ledger follows and is compared after the block.
func (sc *scratch) mine(v1 []types.Transaction, v2 []types.V2Transaction) error {
	return sc.mineAt(sc.nextTimestamp(), v1, v2)
}

func (sc *scratch) mineAt(ts time.Time, v1 []types.Transaction, v2 []types.V2Transaction) error {
	w := sc.w
	b := w.assemble(sc.s, ts, w.miners[0].addr, v1, v2, false)
	bs := sc.supplement(b)
	var err error
	if p := guard(func() { err = consensus.ValidateBlock(sc.s, b, bs) }); p != "" {
		w.violate("C10", "validate-panic", "block on a scratch fork: "+p)
		w.fatal = true
		return fmt.Errorf("panic")
	}
	if err != nil {
		return err
	}
	var ns consensus.State
	var au consensus.ApplyUpdate
	if p := guard(func() { ns, au = consensus.ApplyBlock(sc.s, b, bs, w.genesis.Timestamp) }); p != "" {
		w.violate("C10", "apply-panic", "validated block on a scratch fork: "+p)
		w.fatal = true
		return fmt.Errorf("panic")
	}
	sc.store.apply(au)
	sc.best = append(sc.best, b.ID())
	sc.s = ns
	sc.last = au
	w.stats.Inc("probe.scratch-blocks")
	if sc.ledger != nil {
		var exp []types.FileContractID
		for _, fce := range bs.ExpiringFileContracts {
			exp = append(exp, fce.ID)
		}
		l, lerr := sc.ledger.Apply(b, exp)
		if lerr != nil {
			var re *ref.RuleError
			if errors.As(lerr, &re) {
				w.violate(re.Property, "ledger-"+re.Rule, fmt.Sprintf("scratch block at height %d was accepted by ValidateBlock but: %s", ns.Index.Height, re.Detail))
			} else {
				w.harnessErr("scratch ledger: %v", lerr)
			}
			sc.ledger = nil
			return nil
		}
		sc.ledger = l
		w.checkStore(fmt.Sprintf("scratch fork after block at height %d: ", ns.Index.Height), sc.store, sc.s, l, "apply")
	}
	return nil
}

// offerOpt controls how a probe block is sealed.
type offerOpt struct {
	forceV2     bool // wrap in v2 block data even below the allow height
	payoutDelta int  // +1 / -1 hastings on the miner payout
	keepCommit  bool // do not recompute the commitment after mutate
	mutate      func(b *types.Block, bs *consensus.V1BlockSupplement)
	tsOverride  *time.Time
	onApply     func(ns consensus.State) // called with the state an accepted block leads to
	rowVerdict  bool                     // leave an accepted block to the row's own expect() (a recorded finding is identified by its row)
}

// offer seals the transactions into a block on the scratch tip (correct
// payout, commitment, supplement and proof of work, so that nothing else is
// wrong) and returns ValidateBlock's verdict.
func (sc *scratch) offer(v1 []types.Transaction, v2 []types.V2Transaction, opt offerOpt) (verr error, ok bool) {
	w := sc.w
	ts := sc.nextTimestamp()
	if opt.tsOverride != nil {
		ts = *opt.tsOverride
	}
	b := w.assembleOpt(sc.s, ts, w.miners[0].addr, v1, v2, opt.forceV2)
	bs := sc.supplement(b)
	if opt.mutate != nil {
		opt.mutate(&b, &bs)
		if b.V2 != nil && !opt.keepCommit {
			b.V2.Commitment = sc.s.Commitment(b.MinerPayouts[0].Address, b.Transactions, b.V2Transactions())
		}
		sealBlock(sc.s, &b)
	}
	if sc.ledger != nil && sc.ledger.Forest != nil && sc.ledger.Forest.N() == sc.s.Elements.NumLeaves {
		for i := range b.V2Transactions() {
			w.checkTransactionElements(sc, b.V2Transactions()[i])
		}
	}
	snap := w.preValidateProbe(sc.s, b, bs)
	if p := guard(func() { verr = consensus.ValidateBlock(sc.s, b, bs) }); p != "" {
		w.violate("C10", "validate-panic", fmt.Sprintf("ValidateBlock panicked on a probe block at height %d: %s", sc.child(), p))
		return nil, false
	}
	w.postValidate(nil, snap, sc.s, b, bs, verr)
	if w.cfg.Profile == "C09" && w.tape.Choose(4) == 0 {
		w.concRecord(sc.s, b, bs, w.genesis.Timestamp, verr, fmt.Sprintf("probe block at height %d", sc.child()))
	}
	if verr == nil {
		// any block that passes validation can be applied and reverted
		if p := guard(func() {
			ns, _ := consensus.ApplyBlock(sc.s, b, bs, w.genesis.Timestamp)
			if opt.onApply != nil {
				opt.onApply(ns)
			}
		}); p != "" {
			w.violate("C10", "apply-panic", fmt.Sprintf("ApplyBlock panicked on a block that passed ValidateBlock (height %d): %s", sc.child(), p))
		} else if p := guard(func() { consensus.RevertBlock(sc.s, b, bs) }); p != "" {
			w.violate("C10", "revert-panic", fmt.Sprintf("RevertBlock panicked on a block that passed ValidateBlock (height %d): %s", sc.child(), p))
		}
		w.stats.Inc("probe.apply-revert-of-valid-probe")
		// the reference ledger says which rule, if any, an accepted probe block breaks
		if sc.ledger != nil && !opt.rowVerdict {
			var exp []types.FileContractID
			for _, fce := range bs.ExpiringFileContracts {
				exp = append(exp, fce.ID)
			}
			var re *ref.RuleError
			if _, lerr := sc.ledger.Apply(b, exp); lerr != nil && errors.As(lerr, &re) {
				w.violate(re.Property, "ledger-"+re.Rule, fmt.Sprintf("probe block at height %d was accepted by ValidateBlock but: %s", sc.child(), re.Detail))
				switch re.Rule {
				case "double-spend", "spend-nonexistent", "altered-parent", "double-resolution", "resolve-nonexistent", "prove-nonexistent":
					// inputs or payouts backed by nothing: the block creates value
					w.violate("C01", "accepted-block-mints", fmt.Sprintf("probe block at height %d was accepted by ValidateBlock although it pays out value that no unspent element backs: %s", sc.child(), re.Detail))
				}
			}
		}
	}
	return verr, true
}

func (w *World) preValidateProbe(s consensus.State, b types.Block, bs consensus.V1BlockSupplement) *validateSnap {
	// invalid blocks are part of C09's quantifier: sample the inline checks on
	// probe blocks too
	snap := &validateSnap{}
	if w.cfg.Profile != "C09" && w.tape.Choose(12) != 0 {
		return snap
	}
	snap.full = true
	snap.state, snap.block, snap.supp = encodeState(s), fullBlockBytes(b), suppBytes(bs)
	return snap
}

// assembleOpt is assemble with an explicit v2 wrapper decision.
func (w *World) assembleOpt(s consensus.State, ts time.Time, addr types.Address, v1 []types.Transaction, v2 []types.V2Transaction, forceV2 bool) types.Block {
	child := s.Index.Height + 1
	if !forceV2 || child >= w.net.HardforkV2.AllowHeight {
		return w.assemble(s, ts, addr, v1, v2, false)
	}
	reward := s.BlockReward()
	for i := range v1 {
		for _, f := range v1[i].MinerFees {
			reward = reward.Add(f)
		}
	}
	for i := range v2 {
		reward = reward.Add(v2[i].MinerFee)
	}
	b := types.Block{ParentID: s.Index.ID, Timestamp: ts, Transactions: v1, MinerPayouts: []types.SiacoinOutput{{Value: reward, Address: addr}}}
	b.V2 = &types.V2BlockData{Height: child, Transactions: v2}
	b.V2.Commitment = s.Commitment(addr, b.Transactions, b.V2Transactions())
	sealBlock(s, &b)
	return b
}

// expect records a probe verdict and raises a violation when it is not the
// one known by construction.
func (w *World) expect(prop, row string, verr error, ok bool, wantValid bool, detail string) {
	if !ok {
		return
	}
	if w.shareAs != "" {
		prop = w.shareAs
	}
	w.stats.Inc("probe." + row + ".offered")
	w.stats.Inc("probe.rows-run")
	if (verr == nil) == wantValid {
		w.stats.Inc("probe." + row + ".as-expected")
		return
	}
	if wantValid {
		w.violate(prop, "probe-"+row+"-rejected", fmt.Sprintf("row %s: a block that is valid by construction was rejected (%v): %s", row, verr, detail))
	} else {
		w.violate(prop, "probe-"+row+"-accepted", fmt.Sprintf("row %s: a block that must be rejected was accepted by ValidateBlock: %s", row, detail))
	}
}

// ---- low-level transaction constructors (signing with whatever wallet owns the address) ----

func (w *World) ownerOf(a types.Address) (*Wallet, *addrInfo) {
	for _, wl := range w.wallets {
		if ai := wl.byAdr[a]; ai != nil {
			if w.inProbe && ai.kind == "uc-odd-algorithm" {
				// a key of an unknown algorithm accepts any signature: such
				// addresses say nothing about tampering, the adversary rows leave them alone
				return nil, nil
			}
			return wl, ai
		}
	}
	return nil, nil
}

// signAllV1 signs every input of txn (whole-transaction signatures) with the
// owning wallets' keys.
func (w *World) signAllV1(s consensus.State, txn *types.Transaction) {
	txn.Signatures = nil
	ucs := map[types.Hash256]types.UnlockConditions{}
	owners := map[types.Hash256]*Wallet{}
	add := func(id types.Hash256, uc types.UnlockConditions) {
		if _, dup := ucs[id]; dup {
			return
		}
		ucs[id] = uc
		wl, _ := w.ownerOf(uc.UnlockHash())
		owners[id] = wl
		if wl != nil {
			wl.signV1(s, txn, id, uc)
		}
	}
	for _, in := range txn.SiacoinInputs {
		add(types.Hash256(in.ParentID), in.UnlockConditions)
	}
	for _, in := range txn.SiafundInputs {
		add(types.Hash256(in.ParentID), in.UnlockConditions)
	}
	for _, r := range txn.FileContractRevisions {
		add(types.Hash256(r.ParentID), r.UnlockConditions)
	}
	// fill signatures (all slots exist now)
	for i := range txn.Signatures {
		sig := &txn.Signatures[i]
		wl := owners[sig.ParentID]
		if wl == nil {
			continue
		}
		uc := ucs[sig.ParentID]
		uk := uc.PublicKeys[sig.PublicKeyIndex]
		h := s.WholeSigHash(*txn, sig.ParentID, sig.PublicKeyIndex, sig.Timelock, sig.CoveredFields.Signatures)
		for _, k := range wl.keys {
			pk := k.PublicKey()
			if string(uk.Key) == string(pk[:]) {
				sg := k.SignHash(h)
				sig.Signature = sg[:]
			}
		}
	}
}

// signAllV2 satisfies every input of txn with the owning wallets' keys.
func (w *World) signAllV2(s consensus.State, txn *types.V2Transaction) bool {
	sigHash := s.InputSigHash(*txn)
	for i := range txn.SiacoinInputs {
		wl, ai := w.ownerOf(txn.SiacoinInputs[i].Parent.SiacoinOutput.Address)
		if wl == nil {
			return false
		}
		rp, sigs, pre, ok := satisfy(ai.policyFor(), wl.satisfyCtx(s, sigHash))
		if !ok {
			return false
		}
		txn.SiacoinInputs[i].SatisfiedPolicy = types.SatisfiedPolicy{Policy: rp, Signatures: sigs, Preimages: pre}
	}
	for i := range txn.SiafundInputs {
		wl, ai := w.ownerOf(txn.SiafundInputs[i].Parent.SiafundOutput.Address)
		if wl == nil {
			return false
		}
		rp, sigs, pre, ok := satisfy(ai.policyFor(), wl.satisfyCtx(s, sigHash))
		if !ok {
			return false
		}
		txn.SiafundInputs[i].SatisfiedPolicy = types.SatisfiedPolicy{Policy: rp, Signatures: sigs, Preimages: pre}
	}
	return true
}

// spendV1 builds a signed v1 transaction spending ins to a fresh output.
func (w *World) spendV1(s consensus.State, ins []types.SiacoinElement, to types.Address) (types.Transaction, bool) {
	var txn types.Transaction
	var total types.Currency
	for _, e := range ins {
		_, ai := w.ownerOf(e.SiacoinOutput.Address)
		if ai == nil || ai.uc == nil {
			return txn, false
		}
		txn.SiacoinInputs = append(txn.SiacoinInputs, types.SiacoinInput{ParentID: e.ID, UnlockConditions: *ai.uc})
		total = total.Add(e.SiacoinOutput.Value)
	}
	if total.IsZero() {
		return txn, false
	}
	txn.SiacoinOutputs = []types.SiacoinOutput{{Value: total, Address: to}}
	w.signAllV1(s, &txn)
	return txn, true
}

// spendV2 builds a signed v2 transaction spending ins to a fresh output.
func (w *World) spendV2(s consensus.State, ins []types.SiacoinElement, to types.Address) (types.V2Transaction, bool) {
	var txn types.V2Transaction
	var total types.Currency
	for _, e := range ins {
		txn.SiacoinInputs = append(txn.SiacoinInputs, types.V2SiacoinInput{Parent: e.Copy()})
		total = total.Add(e.SiacoinOutput.Value)
	}
	if total.IsZero() {
		return txn, false
	}
	txn.SiacoinOutputs = []types.SiacoinOutput{{Value: total, Address: to}}
	return txn, w.signAllV2(s, &txn)
}

// ownedSC lists elements of the scratch store that some wallet can spend in
// the child block (v1 rules or v2 rules).
func (sc *scratch) ownedSC(v1 bool, mature bool) (out []types.SiacoinElement) {
	w := sc.w
	for _, id := range sc.store.sortedSC() {
		e := sc.store.SC[id]
		wl, ai := w.ownerOf(e.SiacoinOutput.Address)
		if wl == nil || e.SiacoinOutput.Value.IsZero() {
			continue
		}
		if mature != (e.MaturityHeight <= sc.child()) {
			continue
		}
		if v1 {
			if !ai.canSpendV1(sc.child()) {
				continue
			}
		} else if !wl.canSatisfyNow(sc.s, ai) {
			continue
		}
		out = append(out, e.Copy())
	}
	return
}

func (sc *scratch) v1ok() bool { return sc.child() < sc.w.net.HardforkV2.RequireHeight }
func (sc *scratch) v2ok() bool { return sc.child() >= sc.w.net.HardforkV2.AllowHeight }

// ---- entry point ----

type probeRow struct {
	name string
	run  func(w *World, n *Node)
}

var probeCatalogue = map[string][]probeRow{}

func registerRows(prop string, rows ...probeRow) {
	probeCatalogue[prop] = append(probeCatalogue[prop], rows...)
}

// runProbes runs a tape-chosen few rows of the profile's catalogue against
// the node's current (reachable) state.
func (w *World) runProbes(n *Node) {
	rows := probeCatalogue[w.cfg.Profile]
	if len(rows) == 0 || w.fatal {
		return
	}
	w.inProbe = true
	defer func() { w.inProbe = false }()
	k := w.tape.Range(1, 3)
	start := w.tape.Choose(len(rows))
	for i := 0; i < k && !w.ownViolation() && !w.fatal; i++ {
		r := rows[(start+i)%len(rows)]
		w.stats.Inc("probe.row." + r.name)
		r.run(w, n)
	}
}

func (w *World) extrasApplied(n *Node, e *blockEntry, au consensus.ApplyUpdate, first bool) {
	w.advApplied(n, e, au)
	rate := 8
	if w.cfg.Profile == "C06" || w.cfg.Profile == "C07" {
		rate = 1
	}
	if w.tape.Choose(rate) == 0 {
		w.revertProbe(n, e)
	}
	if first && !w.quiet && w.tape.Chance(w.cfg.ProbePM, 1000) && len(w.cfg.ProbeRows) > 0 {
		w.runProbes(n)
	}
}

// checkTransactionElements: ValidateTransactionElements (what a transaction
// pool asks before anything else) accepts exactly the transactions whose
// non-ephemeral parents are leaves of the naive forest - right element hash,
// right index, unspent, right path.
func (w *World) checkTransactionElements(sc *scratch, txn types.V2Transaction) {
	if w.ownViolation() {
		return
	}
	f := sc.ledger.Forest
	genuine := func(elem types.Hash256, se types.StateElement) bool {
		if se.LeafIndex == types.UnassignedLeafIndex {
			return true // ephemeral: not looked at here
		}
		if se.LeafIndex >= f.N() || f.Leaves[se.LeafIndex] != ref.LeafHash(elem, se.LeafIndex, false) {
			return false
		}
		return fmt.Sprint(f.Path(se.LeafIndex)) == fmt.Sprint(se.MerkleProof)
	}
	want, what := true, ""
	note := func(ok bool, kind string, id [32]byte) {
		if !ok && want {
			want, what = false, fmt.Sprintf("%s parent %x", kind, id[:4])
		}
	}
	for _, in := range txn.SiacoinInputs {
		note(genuine(ref.SiacoinElemHash(in.Parent.ID, in.Parent.SiacoinOutput, in.Parent.MaturityHeight), in.Parent.StateElement), "siacoin", in.Parent.ID)
	}
	for _, in := range txn.SiafundInputs {
		note(genuine(ref.SiafundElemHash(in.Parent.ID, in.Parent.SiafundOutput, in.Parent.ClaimStart), in.Parent.StateElement), "siafund", in.Parent.ID)
	}
	for _, r := range txn.FileContractRevisions {
		note(genuine(ref.V2FileContractElemHash(r.Parent.ID, r.Parent.V2FileContract), r.Parent.StateElement), "revised contract", r.Parent.ID)
	}
	for _, r := range txn.FileContractResolutions {
		note(genuine(ref.V2FileContractElemHash(r.Parent.ID, r.Parent.V2FileContract), r.Parent.StateElement), "resolved contract", r.Parent.ID)
		if sp, ok := r.Resolution.(*types.V2StorageProof); ok {
			note(genuine(ref.ChainIndexElemHash(sp.ProofIndex.ID, sp.ProofIndex.ChainIndex), sp.ProofIndex.StateElement), "proof index", sp.ProofIndex.ID)
		}
	}
	var err error
	if p := guard(func() { err = sc.s.Elements.ValidateTransactionElements(txn) }); p != "" {
		w.violate("C10", "validate-elements-panic", p)
		return
	}
	w.stats.Inc("probe.transaction-elements")
	if (err == nil) != want {
		if want {
			w.violate("C04", "transaction-elements-rejected", fmt.Sprintf("ValidateTransactionElements refused (%v) a transaction at height %d all of whose parents are unspent leaves of the forest with their exact paths", err, sc.child()))
		} else {
			w.violate("C04", "transaction-elements-accepted", fmt.Sprintf("ValidateTransactionElements accepted a transaction at height %d whose %s is not an unspent leaf of the forest with its exact path", sc.child(), what))
		}
	}
}
