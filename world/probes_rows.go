package world

import (
	"fmt"
	"time"

	"go.sia.tech/core/consensus"
	"go.sia.tech/core/types"
)

// ---- adversary's stale copies (elements spent earlier, proofs kept current) ----

type staleSC struct {
	e       types.SiacoinElement // proof maintained through every later update
	frozen  types.SiacoinElement // proof as it was before the spend (never updated)
	spentIn types.BlockID
}

type Adversary struct {
	stale map[int][]*staleSC // per node
}

func (w *World) advApplied(n *Node, e *blockEntry, au consensus.ApplyUpdate) {
	if w.adv == nil {
		w.adv = &Adversary{stale: map[int][]*staleSC{}}
	}
	if !w.cfg.ProbeRows["C02"] && !w.cfg.ProbeRows["C04"] {
		return
	}
	list := w.adv.stale[n.idx]
	for _, st := range list {
		au.UpdateElementProof(&st.e.StateElement)
	}
	for _, d := range au.SiacoinElementDiffs() {
		if d.Spent && !d.Created && len(list) < 12 {
			// the pre-spend copy is what the spending block's supplement / input carried
			var frozen types.SiacoinElement
			found := false
			for _, ts := range e.supp.Transactions {
				for _, sce := range ts.SiacoinInputs {
					if sce.ID == d.SiacoinElement.ID {
						frozen, found = sce.Copy(), true
					}
				}
			}
			for _, txn := range e.b.V2Transactions() {
				for _, in := range txn.SiacoinInputs {
					if in.Parent.ID == d.SiacoinElement.ID {
						frozen, found = in.Parent.Copy(), true
					}
				}
			}
			if found {
				list = append(list, &staleSC{e: d.SiacoinElement.Copy(), frozen: frozen, spentIn: e.id})
			}
		}
	}
	w.adv.stale[n.idx] = list
}

func (w *World) advReverted(n *Node, e *blockEntry, ru consensus.RevertUpdate) {
	if w.adv == nil {
		return
	}
	numLeaves := n.blocks[e.parent].state.Elements.NumLeaves
	var kept []*staleSC
	for _, st := range w.adv.stale[n.idx] {
		if st.spentIn == e.id || st.e.StateElement.LeafIndex >= numLeaves {
			continue
		}
		ru.UpdateElementProof(&st.e.StateElement)
		kept = append(kept, st)
	}
	w.adv.stale[n.idx] = kept
}

// ---- helpers ----

func (w *World) advAddr() types.Address { return w.wallets[0].addrs[3].addr } // a pol-pk address

func flipSigBit(sig []byte, w *World) {
	if len(sig) > 0 {
		sig[w.tape.Choose(len(sig))] ^= 1 << w.tape.Choose(8)
	}
}

func pickSC(w *World, xs []types.SiacoinElement) (types.SiacoinElement, bool) {
	if len(xs) == 0 {
		return types.SiacoinElement{}, false
	}
	return xs[w.tape.Choose(len(xs))], true
}

func init() {
	// ------------------------------------------------------------------ C02
	registerRows("C02",
		probeRow{"D1-v1-same-txn", func(w *World, n *Node) {
			sc := n.fork()
			if !sc.v1ok() {
				return
			}
			e, ok := pickSC(w, sc.ownedSC(true, true))
			if !ok {
				return
			}
			txn, ok := w.spendV1(sc.s, []types.SiacoinElement{e}, w.advAddr())
			if !ok {
				return
			}
			verr, ok2 := sc.offer([]types.Transaction{txn}, nil, offerOpt{})
			w.expect("C02", "D1-v1-control", verr, ok2, true, "single v1 spend")
			// same parent twice, outputs doubled so that only the reuse is wrong
			txn.SiacoinInputs = append(txn.SiacoinInputs, txn.SiacoinInputs[0])
			txn.SiacoinOutputs[0].Value = e.SiacoinOutput.Value.Mul64(2)
			w.signAllV1(sc.s, &txn)
			verr, ok2 = sc.offer([]types.Transaction{txn}, nil, offerOpt{})
			w.expect("C02", "D1-v1-same-txn", verr, ok2, false, fmt.Sprintf("v1 transaction spends output %v twice", e.ID))
		}},
		probeRow{"D1-v2-same-txn", func(w *World, n *Node) {
			sc := n.fork()
			if !sc.v2ok() {
				return
			}
			e, ok := pickSC(w, sc.ownedSC(false, true))
			if !ok {
				return
			}
			txn, ok := w.spendV2(sc.s, []types.SiacoinElement{e}, w.advAddr())
			if !ok {
				return
			}
			verr, ok2 := sc.offer(nil, []types.V2Transaction{txn}, offerOpt{})
			w.expect("C02", "D1-v2-control", verr, ok2, true, "single v2 spend")
			txn.SiacoinInputs = append(txn.SiacoinInputs, types.V2SiacoinInput{Parent: e.Copy()})
			txn.SiacoinOutputs[0].Value = e.SiacoinOutput.Value.Mul64(2)
			if !w.signAllV2(sc.s, &txn) {
				return
			}
			verr, ok2 = sc.offer(nil, []types.V2Transaction{txn}, offerOpt{})
			w.expect("C02", "D1-v2-same-txn", verr, ok2, false, fmt.Sprintf("v2 transaction spends output %v twice", e.ID))
		}},
		probeRow{"D2-two-txns", func(w *World, n *Node) {
			sc := n.fork()
			a1, a2 := w.advAddr(), w.wallets[len(w.wallets)-1].addrs[0].addr
			if sc.v1ok() {
				if e, ok := pickSC(w, sc.ownedSC(true, true)); ok {
					t1, ok1 := w.spendV1(sc.s, []types.SiacoinElement{e}, w.wallets[0].addrs[0].addr)
					t2, ok2 := w.spendV1(sc.s, []types.SiacoinElement{e}, a2)
					if ok1 && ok2 {
						verr, ok := sc.offer([]types.Transaction{t1, t2}, nil, offerOpt{})
						w.expect("C02", "D2-v1-v1", verr, ok, false, fmt.Sprintf("two v1 transactions of one block spend %v", e.ID))
					}
				}
			}
			if sc.v2ok() {
				if e, ok := pickSC(w, sc.ownedSC(false, true)); ok {
					t1, ok1 := w.spendV2(sc.s, []types.SiacoinElement{e}, a1)
					t2, ok2 := w.spendV2(sc.s, []types.SiacoinElement{e}, a2)
					if ok1 && ok2 {
						verr, ok := sc.offer(nil, []types.V2Transaction{t1, t2}, offerOpt{})
						w.expect("C02", "D2-v2-v2", verr, ok, false, fmt.Sprintf("two v2 transactions of one block spend %v", e.ID))
					}
				}
			}
			if sc.v1ok() && sc.v2ok() {
				// an element both rule sets can spend: v1-style address
				var both []types.SiacoinElement
				for _, e := range sc.ownedSC(true, true) {
					wl, ai := w.ownerOf(e.SiacoinOutput.Address)
					if wl.canSatisfyNow(sc.s, ai) {
						both = append(both, e)
					}
				}
				if e, ok := pickSC(w, both); ok {
					t1, ok1 := w.spendV1(sc.s, []types.SiacoinElement{e}, w.wallets[0].addrs[0].addr)
					t2, ok2 := w.spendV2(sc.s, []types.SiacoinElement{e}, a2)
					if ok1 && ok2 {
						verr, ok := sc.offer([]types.Transaction{t1}, []types.V2Transaction{t2}, offerOpt{})
						w.expect("C02", "D2-v1-v2", verr, ok, false, fmt.Sprintf("a v1 and a v2 transaction of one block spend %v", e.ID))
						w.stats.Inc("reach.cross-version-double-spend")
					}
				}
			}
		}},
		probeRow{"D3-ephemeral", func(w *World, n *Node) {
			sc := n.fork()
			if !sc.v2ok() {
				return
			}
			e, ok := pickSC(w, sc.ownedSC(false, true))
			if !ok {
				return
			}
			t1, ok := w.spendV2(sc.s, []types.SiacoinElement{e}, w.advAddr())
			if !ok {
				return
			}
			eph := t1.EphemeralSiacoinOutput(0)
			t2, ok2 := w.spendV2(sc.s, []types.SiacoinElement{eph}, w.wallets[0].addrs[0].addr)
			t3, ok3 := w.spendV2(sc.s, []types.SiacoinElement{eph}, w.wallets[len(w.wallets)-1].addrs[0].addr)
			if !ok2 || !ok3 {
				return
			}
			verr, okc := sc.offer(nil, []types.V2Transaction{t1, t2}, offerOpt{})
			w.expect("C02", "D3-ephemeral-control", verr, okc, true, "create and spend an ephemeral output once")
			verr, okc = sc.offer(nil, []types.V2Transaction{t1, t2, t3}, offerOpt{})
			w.expect("C02", "D3-ephemeral-twice", verr, okc, false, fmt.Sprintf("ephemeral output %v created in the block is spent twice", eph.ID))
			// spend an ephemeral output that no transaction of the block creates
			verr, okc = sc.offer(nil, []types.V2Transaction{t2}, offerOpt{})
			w.expect("C02", "D3-ephemeral-missing", verr, okc, false, "ephemeral parent that the block never creates")
		}},
		probeRow{"D4-cross-block", func(w *World, n *Node) {
			if w.adv == nil || len(w.adv.stale[n.idx]) == 0 {
				return
			}
			list := w.adv.stale[n.idx]
			st := list[w.tape.Choose(len(list))]
			sc := n.fork()
			for variant, el := range []types.SiacoinElement{st.e, st.frozen} {
				name := []string{"maintained-proof", "pre-spend-proof"}[variant]
				if sc.v2ok() {
					if txn, ok := w.spendV2(sc.s, []types.SiacoinElement{el}, w.advAddr()); ok {
						verr, ok := sc.offer(nil, []types.V2Transaction{txn}, offerOpt{})
						w.expect("C02", "D4-v2-"+name, verr, ok, false, fmt.Sprintf("v2 input re-spends %v, spent in block %s, with its %s", el.ID, short(st.spentIn), name))
					}
				}
				if sc.v1ok() {
					if txn, ok := w.spendV1(sc.s, []types.SiacoinElement{el}, w.wallets[0].addrs[0].addr); ok {
						verr, ok := sc.offer([]types.Transaction{txn}, nil, offerOpt{mutate: func(b *types.Block, bs *consensus.V1BlockSupplement) {
							bs.Transactions[0].SiacoinInputs = append(bs.Transactions[0].SiacoinInputs, el.Copy())
						}})
						w.expect("C02", "D4-v1-"+name, verr, ok, false, fmt.Sprintf("v1 input re-spends %v (spent in block %s), supplement carries its %s", el.ID, short(st.spentIn), name))
					}
				}
			}
		}},
		probeRow{"D1-siafund", func(w *World, n *Node) {
			sc := n.fork()
			for _, id := range sc.store.sortedSF() {
				e := sc.store.SF[id]
				wl, ai := w.ownerOf(e.SiafundOutput.Address)
				if wl == nil {
					continue
				}
				if sc.v2ok() && wl.canSatisfyNow(sc.s, ai) {
					mk := func(to types.Address) (types.V2Transaction, bool) {
						t := types.V2Transaction{SiafundInputs: []types.V2SiafundInput{{Parent: e.Copy(), ClaimAddress: to}}, SiafundOutputs: []types.SiafundOutput{{Value: e.SiafundOutput.Value, Address: to}}}
						return t, w.signAllV2(sc.s, &t)
					}
					t1, ok1 := mk(w.advAddr())
					t2, ok2 := mk(w.wallets[0].addrs[0].addr)
					if ok1 && ok2 {
						verr, ok := sc.offer(nil, []types.V2Transaction{t1}, offerOpt{})
						w.expect("C02", "D-sf-v2-control", verr, ok, true, "single v2 siafund spend")
						verr, ok = sc.offer(nil, []types.V2Transaction{t1, t2}, offerOpt{})
						w.expect("C02", "D2-sf-v2-v2", verr, ok, false, fmt.Sprintf("two v2 transactions spend siafund output %v", id))
						d := t1
						d.SiafundInputs = append(d.SiafundInputs, types.V2SiafundInput{Parent: e.Copy(), ClaimAddress: w.advAddr()})
						d.SiafundOutputs = []types.SiafundOutput{{Value: e.SiafundOutput.Value, Address: w.advAddr()}, {Value: e.SiafundOutput.Value, Address: w.advAddr()}}
						if e.SiafundOutput.Value*2 <= 10000 && w.signAllV2(sc.s, &d) {
							verr, ok = sc.offer(nil, []types.V2Transaction{d}, offerOpt{})
							w.expect("C02", "D1-sf-v2-same-txn", verr, ok, false, fmt.Sprintf("one v2 transaction spends siafund output %v twice", id))
						}
					}
					return
				}
				if sc.v1ok() && ai.canSpendV1(sc.child()) {
					mk := func(to types.Address) types.Transaction {
						t := types.Transaction{SiafundInputs: []types.SiafundInput{{ParentID: id, UnlockConditions: *ai.uc, ClaimAddress: to}}, SiafundOutputs: []types.SiafundOutput{{Value: e.SiafundOutput.Value, Address: to}}}
						w.signAllV1(sc.s, &t)
						return t
					}
					t1, t2 := mk(w.wallets[0].addrs[0].addr), mk(w.wallets[len(w.wallets)-1].addrs[1].addr)
					verr, ok := sc.offer([]types.Transaction{t1}, nil, offerOpt{})
					w.expect("C02", "D-sf-v1-control", verr, ok, true, "single v1 siafund spend")
					verr, ok = sc.offer([]types.Transaction{t1, t2}, nil, offerOpt{})
					w.expect("C02", "D2-sf-v1-v1", verr, ok, false, fmt.Sprintf("two v1 transactions spend siafund output %v", id))
					// the output t1 creates, spent by the next transaction of the block, and by a third
					if wl2, ai2 := w.ownerOf(t1.SiafundOutputs[0].Address); wl2 != nil && ai2.uc != nil && ai2.canSpendV1(sc.child()) {
						mk2 := func(to types.Address) types.Transaction {
							t := types.Transaction{SiafundInputs: []types.SiafundInput{{ParentID: t1.SiafundOutputID(0), UnlockConditions: *ai2.uc, ClaimAddress: to}}, SiafundOutputs: []types.SiafundOutput{{Value: e.SiafundOutput.Value, Address: to}}}
							w.signAllV1(sc.s, &t)
							return t
						}
						e1, e2 := mk2(w.wallets[len(w.wallets)-1].addrs[1].addr), mk2(w.advAddr())
						verr, ok = sc.offer([]types.Transaction{t1, e1}, nil, offerOpt{})
						w.expect("C02", "D3-sf-v1-ephemeral-control", verr, ok, true, "v1 siafund output created and spent once in one block")
						if ok {
							verr, ok = sc.offer([]types.Transaction{t1, e1, e2}, nil, offerOpt{})
							w.expect("C02", "D3-sf-v1-ephemeral-twice", verr, ok, false, fmt.Sprintf("siafund output %v created in the block is spent by two later transactions of it", t1.SiafundOutputID(0)))
							w.stats.Inc("probe.D3-sf-v1-ephemeral-twice")
						}
					}
					return
				}
			}
		}},
	)

	// ------------------------------------------------------------------ C03
	registerRows("C03",
		probeRow{"A1-v1", func(w *World, n *Node) {
			sc := n.fork()
			if !sc.v1ok() {
				return
			}
			cands := sc.ownedSC(true, true)
			if len(cands) == 0 {
				return
			}
			k := w.tape.Range(1, min(2, len(cands)))
			st := w.tape.Choose(len(cands))
			var ins []types.SiacoinElement
			for i := 0; i < k; i++ {
				ins = append(ins, cands[(st+i)%len(cands)])
			}
			base, ok := w.spendV1(sc.s, ins, w.wallets[0].addrs[0].addr)
			if !ok {
				return
			}
			base.MinerFees = []types.Currency{types.NewCurrency64(1000)}
			base.SiacoinOutputs[0].Value = base.SiacoinOutputs[0].Value.Sub(types.NewCurrency64(1000))
			base.ArbitraryData = [][]byte{[]byte("probe")}
			partial := w.tape.Chance(1, 2)
			w.signAllV1(sc.s, &base)
			if partial {
				w.makePartial(&base)
				w.resignV1(sc.s, &base)
			}
			verr, okc := sc.offer([]types.Transaction{base}, nil, offerOpt{})
			w.expect("C03", "A1-v1-control", verr, okc, true, fmt.Sprintf("untampered v1 transaction (partial=%v)", partial))
			clone := func() types.Transaction {
				var buf types.Transaction
				b := encodeTxns([]types.Transaction{base}, nil)
				d := types.NewBufDecoder(b)
				var v1 []types.Transaction
				types.DecodeSlice(d, &v1)
				buf = v1[0]
				return buf
			}
			try := func(row string, mut func(t *types.Transaction) bool, what string) {
				t := clone()
				if !mut(&t) {
					return
				}
				verr, ok := sc.offer([]types.Transaction{t}, nil, offerOpt{})
				w.expect("C03", row, verr, ok, false, fmt.Sprintf("%s (partial=%v, inputs=%d)", what, partial, len(ins)))
			}
			try("A1-v1-output-address", func(t *types.Transaction) bool { t.SiacoinOutputs[0].Address = w.advAddr(); return true }, "output address changed after signing")
			try("A1-v1-fee-shift", func(t *types.Transaction) bool {
				t.MinerFees[0] = t.MinerFees[0].Add(types.NewCurrency64(1))
				t.SiacoinOutputs[0].Value = t.SiacoinOutputs[0].Value.Sub(types.NewCurrency64(1))
				return true
			}, "one hasting moved from an output to the fee after signing")
			try("A1-v1-arbitrary-data", func(t *types.Transaction) bool { t.ArbitraryData[0][0] ^= 1; return true }, "arbitrary data changed after signing")
			try("A1-v1-sig-bitflip", func(t *types.Transaction) bool {
				flipSigBit(t.Signatures[w.tape.Choose(len(t.Signatures))].Signature, w)
				return true
			}, "one signature bit flipped")
			try("A1-v1-sig-dropped", func(t *types.Transaction) bool {
				t.Signatures = t.Signatures[:len(t.Signatures)-1]
				if partial {
					return false // earlier signatures do not cover later ones; dropping changes coverage semantics
				}
				return true
			}, "last signature dropped")
			try("A1-v1-sig-added", func(t *types.Transaction) bool {
				t.Signatures = append(t.Signatures, t.Signatures[0])
				return true
			}, "a signature duplicated")
			try("A1-v1-key-index", func(t *types.Transaction) bool {
				s := &t.Signatures[0]
				uc := t.SiacoinInputs[0].UnlockConditions
				if len(uc.PublicKeys) < 2 {
					return false
				}
				for cand := uint64(0); cand < uint64(len(uc.PublicKeys)); cand++ {
					free := true
					for _, o := range t.Signatures {
						if o.ParentID == s.ParentID && o.PublicKeyIndex == cand {
							free = false
						}
					}
					// (a key of an unknown algorithm accepts any signature: only a
					// recognised key type makes the misattribution detectable)
					if free && uc.PublicKeys[cand].Algorithm == types.SpecifierEd25519 {
						s.PublicKeyIndex = cand
						return true
					}
				}
				return false
			}, "signature attributed to another key of the unlock conditions")
			try("A1-v1-other-conditions", func(t *types.Transaction) bool {
				other := w.wallets[len(w.wallets)-1]
				if own, _ := w.ownerOf(ins[0].SiacoinOutput.Address); own == other {
					other = w.wallets[0]
					if own == other {
						return false
					}
				}
				t.SiacoinInputs[0].UnlockConditions = *other.addrs[0].uc
				w.signAllV1(sc.s, t)
				return true
			}, "input claims another wallet's unlock conditions, signed by that wallet")
			try("A1-v1-parent-swap", func(t *types.Transaction) bool {
				if len(t.SiacoinInputs) < 2 {
					return false
				}
				t.SiacoinInputs[0].ParentID, t.SiacoinInputs[1].ParentID = t.SiacoinInputs[1].ParentID, t.SiacoinInputs[0].ParentID
				return t.SiacoinInputs[0].UnlockConditions.UnlockHash() != t.SiacoinInputs[1].UnlockConditions.UnlockHash()
			}, "parent IDs of two inputs swapped after signing")
		}},
		probeRow{"A2-v2", func(w *World, n *Node) {
			sc := n.fork()
			if !sc.v2ok() {
				return
			}
			cands := sc.ownedSC(false, true)
			if len(cands) == 0 {
				return
			}
			k := w.tape.Range(1, min(2, len(cands)))
			st := w.tape.Choose(len(cands))
			var ins []types.SiacoinElement
			for i := 0; i < k; i++ {
				ins = append(ins, cands[(st+i)%len(cands)])
			}
			base, ok := w.spendV2(sc.s, ins, w.wallets[0].addrs[0].addr)
			if !ok {
				return
			}
			base.MinerFee = types.NewCurrency64(1000)
			base.SiacoinOutputs[0].Value = base.SiacoinOutputs[0].Value.Sub(types.NewCurrency64(1000))
			base.ArbitraryData = []byte("probe")
			if !w.signAllV2(sc.s, &base) {
				return
			}
			_, ai0 := w.ownerOf(ins[0].SiacoinOutput.Address)
			kind := ai0.kind
			// content is bound by signatures; an input satisfied by preimages
			// alone (hash lock) binds nothing, so content rows need a signature
			anySig := false
			for _, in := range base.SiacoinInputs {
				anySig = anySig || len(in.SatisfiedPolicy.Signatures) > 0
			}
			verr, okc := sc.offer(nil, []types.V2Transaction{base}, offerOpt{})
			w.expect("C03", "A2-v2-control", verr, okc, true, "untampered v2 transaction, first input "+kind)
			try := func(row string, mut func(t *types.V2Transaction) bool, what string) {
				t := base.DeepCopy()
				if !mut(&t) {
					return
				}
				verr, ok := sc.offer(nil, []types.V2Transaction{t}, offerOpt{})
				w.expect("C03", row, verr, ok, false, fmt.Sprintf("%s (first input %s, inputs=%d)", what, kind, len(ins)))
			}
			try("A2-v2-output-address", func(t *types.V2Transaction) bool { t.SiacoinOutputs[0].Address = w.advAddr(); return anySig }, "output address changed after signing")
			try("A2-v2-fee-shift", func(t *types.V2Transaction) bool {
				t.MinerFee = t.MinerFee.Add(types.NewCurrency64(1))
				t.SiacoinOutputs[0].Value = t.SiacoinOutputs[0].Value.Sub(types.NewCurrency64(1))
				return anySig
			}, "one hasting moved from an output to the fee after signing")
			try("A2-v2-arbitrary-data", func(t *types.V2Transaction) bool { t.ArbitraryData[0] ^= 1; return anySig }, "arbitrary data changed after signing")
			try("A2-v2-new-foundation", func(t *types.V2Transaction) bool {
				// adding a Foundation update changes the semantics hash; if the
				// input is not the management address the update itself is refused
				a := w.advAddr()
				t.NewFoundationAddress = &a
				return anySig
			}, "Foundation address update added after signing")
			try("A2-v2-sig-bitflip", func(t *types.V2Transaction) bool {
				sp := &t.SiacoinInputs[0].SatisfiedPolicy
				if len(sp.Signatures) == 0 {
					return false
				}
				i := w.tape.Choose(len(sp.Signatures))
				sp.Signatures[i][w.tape.Choose(64)] ^= 1 << w.tape.Choose(8)
				return true
			}, "one signature bit flipped")
			try("A2-v2-sig-dropped", func(t *types.V2Transaction) bool {
				sp := &t.SiacoinInputs[0].SatisfiedPolicy
				if len(sp.Signatures) == 0 {
					return false
				}
				sp.Signatures = sp.Signatures[:len(sp.Signatures)-1]
				return true
			}, "last signature dropped")
			try("A2-v2-sig-added", func(t *types.V2Transaction) bool {
				sp := &t.SiacoinInputs[0].SatisfiedPolicy
				if len(sp.Signatures) == 0 {
					return false
				}
				sp.Signatures = append(sp.Signatures, sp.Signatures[0])
				return true
			}, "a surplus signature added")
			try("A2-v2-sig-reordered", func(t *types.V2Transaction) bool {
				sp := &t.SiacoinInputs[0].SatisfiedPolicy
				if len(sp.Signatures) < 2 || sp.Signatures[0] == sp.Signatures[1] {
					return false
				}
				sp.Signatures[0], sp.Signatures[1] = sp.Signatures[1], sp.Signatures[0]
				return true
			}, "two signatures swapped")
			try("A2-v2-preimage-flip", func(t *types.V2Transaction) bool {
				sp := &t.SiacoinInputs[0].SatisfiedPolicy
				if len(sp.Preimages) == 0 {
					return false
				}
				sp.Preimages[0][w.tape.Choose(32)] ^= 1 << w.tape.Choose(8)
				return true
			}, "one preimage bit flipped")
			try("A2-v2-preimage-added", func(t *types.V2Transaction) bool {
				sp := &t.SiacoinInputs[0].SatisfiedPolicy
				sp.Preimages = append(sp.Preimages, [32]byte{1})
				return true
			}, "a surplus preimage added")
			try("A2-v2-other-policy", func(t *types.V2Transaction) bool {
				other := w.wallets[len(w.wallets)-1]
				if own, _ := w.ownerOf(ins[0].SiacoinOutput.Address); own == other {
					other = w.wallets[0]
					if own == other {
						return false
					}
				}
				sigHash := sc.s.InputSigHash(*t)
				rp, sigs, pre, ok := satisfy(other.addrs[3].policyFor(), other.satisfyCtx(sc.s, sigHash))
				if !ok {
					return false
				}
				t.SiacoinInputs[0].SatisfiedPolicy = types.SatisfiedPolicy{Policy: rp, Signatures: sigs, Preimages: pre}
				return true
			}, "input satisfied with another wallet's policy and valid signatures for it")
			try("A2-v2-needed-branch-opaque", func(t *types.V2Transaction) bool {
				sp := &t.SiacoinInputs[0].SatisfiedPolicy
				th, isT := sp.Policy.Type.(types.PolicyTypeThreshold)
				if !isT {
					return false
				}
				of := append([]types.SpendPolicy(nil), th.Of...)
				for i := range of {
					if _, op := of[i].Type.(types.PolicyTypeOpaque); !op {
						of[i] = types.PolicyOpaque(of[i])
						sp.Policy = types.PolicyThreshold(th.N, of)
						return th.N > 0
					}
				}
				return false
			}, "a revealed, needed sub-policy replaced by its opaque form")
			try("A2-v2-parent-swap", func(t *types.V2Transaction) bool {
				if len(t.SiacoinInputs) < 2 || t.SiacoinInputs[0].Parent.SiacoinOutput.Address == t.SiacoinInputs[1].Parent.SiacoinOutput.Address {
					return false
				}
				t.SiacoinInputs[0].SatisfiedPolicy, t.SiacoinInputs[1].SatisfiedPolicy = t.SiacoinInputs[1].SatisfiedPolicy, t.SiacoinInputs[0].SatisfiedPolicy
				return true
			}, "satisfied policies of two inputs swapped")
		}},
		probeRow{"A2-v2-siafund", func(w *World, n *Node) {
			sc := n.fork()
			if !sc.v2ok() {
				return
			}
			for _, id := range sc.store.sortedSF() {
				e := sc.store.SF[id]
				wl, ai := w.ownerOf(e.SiafundOutput.Address)
				if wl == nil || !wl.canSatisfyNow(sc.s, ai) {
					continue
				}
				base := types.V2Transaction{SiafundInputs: []types.V2SiafundInput{{Parent: e.Copy(), ClaimAddress: w.advAddr()}}, SiafundOutputs: []types.SiafundOutput{{Value: e.SiafundOutput.Value, Address: w.advAddr()}}}
				if !w.signAllV2(sc.s, &base) || len(base.SiafundInputs[0].SatisfiedPolicy.Signatures) == 0 {
					continue
				}
				verr, ok := sc.offer(nil, []types.V2Transaction{base}, offerOpt{})
				w.expect("C03", "A2-v2-sf-control", verr, ok, true, "signed v2 siafund transfer")
				t := base.DeepCopy()
				t.SiafundOutputs[0].Address[1] ^= 1
				verr, ok = sc.offer(nil, []types.V2Transaction{t}, offerOpt{})
				w.expect("C03", "A2-v2-sf-output-address", verr, ok, false, "siafund output address changed after signing")
				t = base.DeepCopy()
				t.SiafundInputs[0].SatisfiedPolicy.Signatures[0][5] ^= 2
				verr, ok = sc.offer(nil, []types.V2Transaction{t}, offerOpt{})
				w.expect("C03", "A2-v2-sf-sig-bitflip", verr, ok, false, "siafund input signature bit flipped")
				t = base.DeepCopy()
				t.SiafundInputs[0].ClaimAddress[1] ^= 1
				verr, ok = sc.offer(nil, []types.V2Transaction{t}, offerOpt{})
				w.expect("C03", "A2-v2-sf-claim-address", verr, ok, false, "claim address of a signed v2 siafund input changed after signing")
				return
			}
		}},
		probeRow{"A4-attestation", func(w *World, n *Node) {
			sc := n.fork()
			if !sc.v2ok() {
				return
			}
			e, ok := pickSC(w, sc.ownedSC(false, true))
			if !ok {
				return
			}
			wl := w.wallets[w.tape.Choose(len(w.wallets))]
			mk := func(mut func(a *types.Attestation)) (types.V2Transaction, bool) {
				a := types.Attestation{PublicKey: wl.keys[0].PublicKey(), Key: "HostAnnouncement", Value: []byte("host.example:9982")}
				a.Signature = wl.keys[0].SignHash(sc.s.AttestationSigHash(a))
				if mut != nil {
					mut(&a)
				}
				t := types.V2Transaction{SiacoinInputs: []types.V2SiacoinInput{{Parent: e.Copy()}}, SiacoinOutputs: []types.SiacoinOutput{{Value: e.SiacoinOutput.Value, Address: w.advAddr()}}, Attestations: []types.Attestation{a}}
				return t, w.signAllV2(sc.s, &t)
			}
			rows := []struct {
				row   string
				mut   func(a *types.Attestation)
				valid bool
				what  string
			}{
				{"A4-control", nil, true, "signed attestation"},
				{"A4-value", func(a *types.Attestation) { a.Value[0] ^= 1 }, false, "attestation value changed after signing"},
				{"A4-key", func(a *types.Attestation) { a.Key = "HostAnnouncemenu" }, false, "attestation key changed after signing"},
				{"A4-pubkey", func(a *types.Attestation) { a.PublicKey = wl.keys[1].PublicKey() }, false, "attestation public key replaced"},
				{"A4-sig", func(a *types.Attestation) { a.Signature[w.tape.Choose(64)] ^= 1 << w.tape.Choose(8) }, false, "attestation signature bit flipped"},
				{"A4-key-value-boundary", func(a *types.Attestation) {
					// the same bytes, divided differently between key and value
					k := 1 + w.tape.Choose(len(a.Key)-1)
					a.Value = append([]byte(a.Key[k:]), a.Value...)
					a.Key = a.Key[:k]
				}, false, "bytes moved from the end of the attestation key to the front of its value after signing"},
				{"A4-value-key-boundary", func(a *types.Attestation) {
					k := 1 + w.tape.Choose(len(a.Value)-1)
					a.Key += string(a.Value[:k])
					a.Value = a.Value[k:]
				}, false, "bytes moved from the front of the attestation value to the end of its key after signing"},
				{"A4-empty-key", func(a *types.Attestation) {
					a.Key = ""
					a.Signature = wl.keys[0].SignHash(sc.s.AttestationSigHash(*a))
				}, false, "attestation with empty key"},
			}
			for _, r := range rows {
				if t, ok := mk(r.mut); ok {
					verr, ok := sc.offer(nil, []types.V2Transaction{t}, offerOpt{})
					w.expect("C03", r.row, verr, ok, r.valid, r.what)
				}
			}
		}},
		probeRow{"A5-foundation", func(w *World, n *Node) {
			sc := n.fork()
			newAddr := w.wallets[len(w.wallets)-1].addrs[3].addr
			if sc.v2ok() {
				var mgmt, other *types.SiacoinElement
				for _, e := range sc.ownedSC(false, true) {
					e := e
					if e.SiacoinOutput.Address == sc.s.FoundationManagementAddress {
						mgmt = &e
					} else if e.SiacoinOutput.Address != sc.s.FoundationSubsidyAddress {
						other = &e
					}
				}
				if other != nil {
					t, ok := w.spendV2(sc.s, []types.SiacoinElement{*other}, w.advAddr())
					if ok {
						t.NewFoundationAddress = &newAddr
						if w.signAllV2(sc.s, &t) {
							verr, ok := sc.offer(nil, []types.V2Transaction{t}, offerOpt{})
							w.expect("C03", "A5-v2-unauthorized", verr, ok, false, "v2 Foundation address update that spends no input of the management address")
						}
					}
				}
				if mgmt != nil {
					t, ok := w.spendV2(sc.s, []types.SiacoinElement{*mgmt}, w.advAddr())
					if ok {
						t.NewFoundationAddress = &newAddr
						if w.signAllV2(sc.s, &t) {
							verr, ok := sc.offer(nil, []types.V2Transaction{t}, offerOpt{})
							w.expect("C03", "A5-v2-authorized", verr, ok, true, "v2 Foundation address update spending an input of the management address")
							w.stats.Inc("reach.foundation-update-v2")
						}
					}
				}
			}
			if sc.v1ok() && sc.child() < w.net.HardforkFoundation.Height {
				// before the Foundation exists its addresses are nobody's to set: whatever
				// a transaction's arbitrary data says, the block leaves them alone (the
				// first subsidy, at the hardfork height, goes where the network says)
				if e, ok := pickSC(w, sc.ownedSC(true, true)); ok {
					if t, ok := w.spendV1(sc.s, []types.SiacoinElement{e}, w.wallets[0].addrs[0].addr); ok {
						var buf []byte
						buf = append(buf, types.SpecifierFoundation[:]...)
						a1, a2 := w.wallets[0].addrs[1].addr, newAddr
						buf = append(buf, a1[:]...)
						buf = append(buf, a2[:]...)
						t.ArbitraryData = [][]byte{buf}
						w.signAllV1(sc.s, &t)
						before := [2]types.Address{sc.s.FoundationSubsidyAddress, sc.s.FoundationManagementAddress}
						gap := w.net.HardforkFoundation.Height - sc.child()
						sc.offer([]types.Transaction{t}, nil, offerOpt{onApply: func(ns consensus.State) {
							if after := [2]types.Address{ns.FoundationSubsidyAddress, ns.FoundationManagementAddress}; after != before {
								w.violate("C03", "probe-A5-v1-update-before-the-foundation", fmt.Sprintf("row A5: a transaction nobody of the Foundation signed, %d block(s) before the Foundation hardfork height, changed the Foundation addresses from %v to %v", gap, before, after))
							}
							w.stats.Inc("probe.A5-v1-update-before-the-foundation")
							if gap == 1 {
								w.stats.Inc("probe.A5-v1-update-one-block-before-the-foundation")
							}
						}})
					}
				}
			}
			if sc.v1ok() && sc.child() >= w.net.HardforkFoundation.Height {
				var fnd, other *types.SiacoinElement
				for _, e := range sc.ownedSC(true, true) {
					e := e
					if e.SiacoinOutput.Address == sc.s.FoundationManagementAddress || e.SiacoinOutput.Address == sc.s.FoundationSubsidyAddress {
						fnd = &e
					} else {
						other = &e
					}
				}
				upd := func() []byte {
					var buf []byte
					buf = append(buf, types.SpecifierFoundation[:]...)
					a1, a2 := w.wallets[0].addrs[1].addr, newAddr
					buf = append(buf, a1[:]...)
					buf = append(buf, a2[:]...)
					return buf
				}
				if other != nil {
					t, ok := w.spendV1(sc.s, []types.SiacoinElement{*other}, w.wallets[0].addrs[0].addr)
					if ok {
						t.ArbitraryData = [][]byte{upd()}
						w.signAllV1(sc.s, &t)
						verr, ok := sc.offer([]types.Transaction{t}, nil, offerOpt{})
						w.expect("C03", "A5-v1-unauthorized", verr, ok, false, "v1 Foundation update in a transaction not signed by a Foundation key")
					}
				}
				if fnd != nil {
					t, ok := w.spendV1(sc.s, []types.SiacoinElement{*fnd}, w.wallets[0].addrs[0].addr)
					if ok {
						t.ArbitraryData = [][]byte{upd()}
						w.signAllV1(sc.s, &t)
						verr, ok := sc.offer([]types.Transaction{t}, nil, offerOpt{})
						w.expect("C03", "A5-v1-authorized", verr, ok, true, "v1 Foundation update whole-transaction-signed by a current Foundation input")
						w.stats.Inc("reach.foundation-update-v1")
						// partial signature does not authorise
						p := t
						p.Signatures = append([]types.TransactionSignature(nil), t.Signatures...)
						w.makePartial(&p)
						w.resignV1(sc.s, &p)
						verr, ok = sc.offer([]types.Transaction{p}, nil, offerOpt{})
						w.expect("C03", "A5-v1-partial-sig", verr, ok, false, "v1 Foundation update whose Foundation input is signed with explicit covered fields only")
						// truncated update payload
						q := t
						q.ArbitraryData = [][]byte{upd()[:16+40]}
						w.signAllV1(sc.s, &q)
						verr, ok = sc.offer([]types.Transaction{q}, nil, offerOpt{})
						w.expect("C03", "A5-v1-malformed", verr, ok, false, "v1 Foundation update with a truncated payload")
					}
				}
				if fnd != nil && other != nil {
					// two inputs: the Foundation's and a stranger's. Whole-transaction
					// signatures on both authorise the update; the Foundation's input
					// signed over explicit fields only does not, whatever the stranger
					// signs over the whole transaction.
					t, ok := w.spendV1(sc.s, []types.SiacoinElement{*fnd, *other}, w.wallets[0].addrs[0].addr)
					if ok {
						t.ArbitraryData = [][]byte{upd()}
						w.signAllV1(sc.s, &t)
						verr, okc := sc.offer([]types.Transaction{t}, nil, offerOpt{})
						w.expect("C03", "A5-v1-two-inputs-authorized", verr, okc, true, "v1 Foundation update in a two-input transaction, every input whole-transaction-signed")
						if okc {
							p := t
							p.Signatures = append([]types.TransactionSignature(nil), t.Signatures...)
							w.makePartial(&p)
							for i := range p.Signatures {
								if p.Signatures[i].ParentID != types.Hash256(fnd.ID) {
									p.Signatures[i].CoveredFields = types.CoveredFields{WholeTransaction: true}
								}
							}
							w.resignV1(sc.s, &p)
							verr, ok = sc.offer([]types.Transaction{p}, nil, offerOpt{})
							w.expect("C03", "A5-v1-stranger-whole-sig", verr, ok, false, "v1 Foundation update whose Foundation input is signed over explicit fields only while another party's input is signed over the whole transaction")
							w.stats.Inc("probe.A5-v1-stranger-whole-sig")
						}
					}
				}
			}
		}},
	)

	// ------------------------------------------------------------------ C04
	registerRows("C04",
		probeRow{"M1-v2-siacoin", func(w *World, n *Node) {
			sc := n.fork()
			if !sc.v2ok() {
				return
			}
			cands := sc.ownedSC(false, true)
			e, ok := pickSC(w, cands)
			if !ok || len(e.StateElement.MerkleProof) == 0 {
				return
			}
			base, ok := w.spendV2(sc.s, []types.SiacoinElement{e}, w.advAddr())
			if !ok {
				return
			}
			verr, okc := sc.offer(nil, []types.V2Transaction{base}, offerOpt{})
			w.expect("C04", "M-v2-control", verr, okc, true, "live, unmodified element")
			if err := sc.s.Elements.ValidateTransactionElements(base); err != nil {
				w.violate("C04", "elements-reject-live", fmt.Sprintf("ValidateTransactionElements rejected a live element %v: %v", e.ID, err))
			}
			try := func(row string, mut func(p *types.SiacoinElement, t *types.V2Transaction) bool, what string, proofOnly bool) {
				t := base.DeepCopy()
				if !mut(&t.SiacoinInputs[0].Parent, &t) {
					return
				}
				if !w.signAllV2(sc.s, &t) {
					return
				}
				verr, ok := sc.offer(nil, []types.V2Transaction{t}, offerOpt{})
				w.expect("C04", row, verr, ok, false, fmt.Sprintf("%s (element %v, leaf %d of %d)", what, e.ID, e.StateElement.LeafIndex, sc.s.Elements.NumLeaves))
				if err := sc.s.Elements.ValidateTransactionElements(t); err == nil {
					w.violate("C04", "elements-accept-"+row, fmt.Sprintf("ValidateTransactionElements accepted: %s (element %v)", what, e.ID))
				}
			}
			one := types.NewCurrency64(1)
			try("M1-value", func(p *types.SiacoinElement, t *types.V2Transaction) bool {
				p.SiacoinOutput.Value = p.SiacoinOutput.Value.Add(one)
				t.SiacoinOutputs[0].Value = t.SiacoinOutputs[0].Value.Add(one)
				return true
			}, "parent value raised by one hasting, outputs rebalanced and re-signed", false)
			try("M1-address-steal", func(p *types.SiacoinElement, t *types.V2Transaction) bool {
				thief := w.wallets[len(w.wallets)-1]
				if own, _ := w.ownerOf(p.SiacoinOutput.Address); own == thief {
					thief = w.wallets[0]
					if own == thief {
						return false
					}
				}
				p.SiacoinOutput.Address = thief.addrs[3].addr
				return true
			}, "parent address replaced by the spender's own address, policy satisfied for it", false)
			try("M1-id", func(p *types.SiacoinElement, t *types.V2Transaction) bool {
				p.ID[w.tape.Choose(32)] ^= 1 << w.tape.Choose(8)
				return true
			}, "parent ID altered, re-signed", false)
			try("M1-leaf-index", func(p *types.SiacoinElement, t *types.V2Transaction) bool {
				if w.tape.Chance(1, 2) || p.StateElement.LeafIndex == 0 {
					p.StateElement.LeafIndex++
				} else {
					p.StateElement.LeafIndex--
				}
				return true
			}, "leaf index off by one", true)
			try("M1-proof-bitflip", func(p *types.SiacoinElement, t *types.V2Transaction) bool {
				i := w.tape.Choose(len(p.StateElement.MerkleProof))
				p.StateElement.MerkleProof[i][w.tape.Choose(32)] ^= 1 << w.tape.Choose(8)
				return true
			}, "one proof hash bit flipped", true)
			try("M1-proof-short", func(p *types.SiacoinElement, t *types.V2Transaction) bool {
				p.StateElement.MerkleProof = p.StateElement.MerkleProof[:len(p.StateElement.MerkleProof)-1]
				return true
			}, "proof shortened by one hash", true)
			try("M1-proof-long", func(p *types.SiacoinElement, t *types.V2Transaction) bool {
				p.StateElement.MerkleProof = append(p.StateElement.MerkleProof, types.Hash256{})
				return true
			}, "proof lengthened by one hash", true)
			try("M1-other-proof", func(p *types.SiacoinElement, t *types.V2Transaction) bool {
				for _, o := range cands {
					if o.ID != p.ID {
						p.StateElement = o.StateElement.Copy()
						return true
					}
				}
				return false
			}, "proof and position of another live element", true)
			try("M2-never-created", func(p *types.SiacoinElement, t *types.V2Transaction) bool {
				p.ID = types.SiacoinOutputID(types.HashBytes(p.ID[:]))
				return true
			}, "element that was never created, with a borrowed proof", false)
		}},
		probeRow{"M1-v2-immature", func(w *World, n *Node) {
			sc := n.fork()
			if !sc.v2ok() {
				return
			}
			// an immature element claims maturity now: the altered field is
			// part of the leaf, so membership must fail
			for _, id := range sc.store.sortedSC() {
				e := sc.store.SC[id]
				wl, ai := w.ownerOf(e.SiacoinOutput.Address)
				if wl == nil || e.MaturityHeight <= sc.child() || e.SiacoinOutput.Value.IsZero() || !wl.canSatisfyNow(sc.s, ai) {
					continue
				}
				c := e.Copy()
				c.MaturityHeight = 0
				t, ok := w.spendV2(sc.s, []types.SiacoinElement{c}, w.advAddr())
				if !ok {
					return
				}
				verr, ok := sc.offer(nil, []types.V2Transaction{t}, offerOpt{})
				w.expect("C04", "M1-maturity", verr, ok, false, fmt.Sprintf("immature element %v (matures at %d, child height %d) presented with maturity 0", id, e.MaturityHeight, sc.child()))
				return
			}
		}},
		probeRow{"M1-v2-siafund", func(w *World, n *Node) {
			sc := n.fork()
			if !sc.v2ok() {
				return
			}
			for _, id := range sc.store.sortedSF() {
				e := sc.store.SF[id]
				wl, ai := w.ownerOf(e.SiafundOutput.Address)
				if wl == nil || !wl.canSatisfyNow(sc.s, ai) {
					continue
				}
				mk := func(mut func(p *types.SiafundElement, t *types.V2Transaction)) (types.V2Transaction, bool) {
					t := types.V2Transaction{SiafundInputs: []types.V2SiafundInput{{Parent: e.Copy(), ClaimAddress: w.advAddr()}}, SiafundOutputs: []types.SiafundOutput{{Value: e.SiafundOutput.Value, Address: w.advAddr()}}}
					if mut != nil {
						mut(&t.SiafundInputs[0].Parent, &t)
					}
					return t, w.signAllV2(sc.s, &t)
				}
				if t, ok := mk(nil); ok {
					verr, ok := sc.offer(nil, []types.V2Transaction{t}, offerOpt{})
					w.expect("C04", "M-sf-control", verr, ok, true, "live siafund element")
				}
				if e.SiafundOutput.Value < 10000 {
					if t, ok := mk(func(p *types.SiafundElement, t *types.V2Transaction) {
						p.SiafundOutput.Value++
						t.SiafundOutputs[0].Value++
					}); ok {
						verr, ok := sc.offer(nil, []types.V2Transaction{t}, offerOpt{})
						w.expect("C04", "M1-sf-value", verr, ok, false, fmt.Sprintf("siafund element %v presented with one more siafund, outputs rebalanced", id))
					}
				}
				if !e.ClaimStart.IsZero() || !sc.s.SiafundTaxRevenue.IsZero() {
					if t, ok := mk(func(p *types.SiafundElement, t *types.V2Transaction) {
						if p.ClaimStart.IsZero() {
							p.ClaimStart = types.NewCurrency64(1)
						} else {
							p.ClaimStart = types.ZeroCurrency // claim tax collected before the output existed
						}
					}); ok {
						verr, ok := sc.offer(nil, []types.V2Transaction{t}, offerOpt{})
						w.expect("C04", "M1-sf-claimstart", verr, ok, false, fmt.Sprintf("siafund element %v presented with an altered claim start", id))
					}
				}
				if len(e.StateElement.MerkleProof) > 0 {
					if t, ok := mk(func(p *types.SiafundElement, t *types.V2Transaction) {
						p.StateElement.MerkleProof[w.tape.Choose(len(p.StateElement.MerkleProof))][0] ^= 0x80
					}); ok {
						verr, ok := sc.offer(nil, []types.V2Transaction{t}, offerOpt{})
						w.expect("C04", "M1-sf-proof", verr, ok, false, fmt.Sprintf("siafund element %v with one proof hash altered", id))
					}
				}
				return
			}
		}},
		probeRow{"M1-v1-supplement", func(w *World, n *Node) {
			sc := n.fork()
			if !sc.v1ok() {
				return
			}
			cands := sc.ownedSC(true, true)
			e, ok := pickSC(w, cands)
			if !ok || len(e.StateElement.MerkleProof) == 0 {
				return
			}
			base, ok := w.spendV1(sc.s, []types.SiacoinElement{e}, w.wallets[0].addrs[0].addr)
			if !ok {
				return
			}
			verr, okc := sc.offer([]types.Transaction{base}, nil, offerOpt{})
			w.expect("C04", "M-v1-control", verr, okc, true, "v1 spend with a genuine supplement")
			one := types.NewCurrency64(1)
			try := func(row string, txn types.Transaction, mut func(se *types.SiacoinElement) bool, what string) {
				verr, ok := sc.offer([]types.Transaction{txn}, nil, offerOpt{mutate: func(b *types.Block, bs *consensus.V1BlockSupplement) {
					if len(bs.Transactions[0].SiacoinInputs) == 0 {
						return
					}
					mut(&bs.Transactions[0].SiacoinInputs[0])
				}})
				w.expect("C04", row, verr, ok, false, fmt.Sprintf("%s (element %v)", what, e.ID))
			}
			rich := base
			rich.SiacoinOutputs = []types.SiacoinOutput{{Value: e.SiacoinOutput.Value.Add(one), Address: w.wallets[0].addrs[0].addr}}
			w.signAllV1(sc.s, &rich)
			try("M1-v1-supp-value", rich, func(se *types.SiacoinElement) bool {
				se.SiacoinOutput.Value = se.SiacoinOutput.Value.Add(one)
				return true
			}, "supplement element value raised by one hasting, transaction rebalanced")
			try("M1-v1-supp-proof", base, func(se *types.SiacoinElement) bool {
				se.StateElement.MerkleProof[w.tape.Choose(len(se.StateElement.MerkleProof))][3] ^= 4
				return true
			}, "supplement element with one proof hash altered")
			try("M1-v1-supp-leaf", base, func(se *types.SiacoinElement) bool { se.StateElement.LeafIndex ^= 1; return true }, "supplement element with the sibling's leaf index")
			try("M1-v1-supp-maturity", base, func(se *types.SiacoinElement) bool { se.MaturityHeight++; return true }, "supplement element with altered maturity height")
			// supplement with too few / too many entries
			verr, okc = sc.offer([]types.Transaction{base}, nil, offerOpt{mutate: func(b *types.Block, bs *consensus.V1BlockSupplement) {
				bs.Transactions = append(bs.Transactions, consensus.V1TransactionSupplement{})
			}})
			w.expect("C04", "M1-v1-supp-count", verr, okc, false, "supplement with one entry more than the block has transactions")
		}},
		probeRow{"M2-reverted-branch", func(w *World, n *Node) {
			// elements created on a branch this node reverted: they exist in no
			// live set; present them with the proof they had.
			if w.adv == nil || len(w.adv.stale[n.idx]) == 0 {
				return
			}
			sc := n.fork()
			if !sc.v2ok() {
				return
			}
			list := w.adv.stale[n.idx]
			st := list[w.tape.Choose(len(list))]
			// the spent element presented as unspent with the maintained proof is
			// row D4; here: as a *different* element kind of lie — spent flag is
			// not a field, so we alter the element to look fresh
			c := st.e.Copy()
			c.ID = types.SiacoinOutputID(types.HashBytes(c.ID[:]))
			if t, ok := w.spendV2(sc.s, []types.SiacoinElement{c}, w.advAddr()); ok {
				verr, ok := sc.offer(nil, []types.V2Transaction{t}, offerOpt{})
				w.expect("C04", "M2-spent-relabelled", verr, ok, false, "spent element re-labelled with a fresh ID, maintained proof")
			}
		}},
	)

	// ------------------------------------------------------------------ C08
	registerRows("C08",
		probeRow{"T3-maturity", func(w *World, n *Node) {
			sc := n.fork()
			// find an immature, owned element
			for _, id := range sc.store.sortedSC() {
				e := sc.store.SC[id]
				wl, ai := w.ownerOf(e.SiacoinOutput.Address)
				if wl == nil || e.MaturityHeight <= sc.child() || e.SiacoinOutput.Value.IsZero() || e.MaturityHeight > sc.child()+12 {
					continue
				}
				switch ai.kind {
				case "uc-std", "uc-2of3", "pol-pk", "pol-2of3", "pol-hash-or-pk":
				default:
					continue // keep height/time locks out of the maturity row
				}
				if ai.uc == nil && e.MaturityHeight <= w.net.HardforkV2.AllowHeight {
					continue // would be refused for the era, not for maturity
				}
				if ai.uc != nil && e.MaturityHeight-1 < w.net.HardforkV2.RequireHeight && e.MaturityHeight >= w.net.HardforkV2.RequireHeight {
					continue // the two offers would use different transaction versions
				}
				w.boundary(sc, "T3-maturity", e.MaturityHeight, func(sc *scratch) (v1 []types.Transaction, v2 []types.V2Transaction, ok bool) {
					cur := sc.store.SC[id]
					return w.spendEither(sc, cur)
				}, fmt.Sprintf("spend of output %v maturing at height %d", id, e.MaturityHeight))
				return
			}
		}},
		probeRow{"T2-timelock", func(w *World, n *Node) {
			sc := n.fork()
			for _, id := range sc.store.sortedSC() {
				e := sc.store.SC[id]
				wl, ai := w.ownerOf(e.SiacoinOutput.Address)
				if wl == nil || ai.kind != "uc-timelock" || e.SiacoinOutput.Value.IsZero() || e.MaturityHeight > sc.child() {
					continue
				}
				T := ai.uc.Timelock
				if sc.v1ok() && T >= sc.child() && T < sc.child()+12 && T < w.net.HardforkV2.RequireHeight {
					// v1: spendable in the block at height T
					w.boundary(sc, "T2-v1-timelock", T, func(sc *scratch) ([]types.Transaction, []types.V2Transaction, bool) {
						t, ok := w.spendV1Raw(sc.s, sc.store.SC[id], *ai.uc)
						return []types.Transaction{t}, nil, ok
					}, fmt.Sprintf("v1 spend of output %v with unlock-condition timelock %d", id, T))
					return
				}
				if sc.v2ok() && T+1 >= sc.child() && T+1 < sc.child()+12 {
					// v2 (legacy policy): parent height must have reached T
					w.boundary(sc, "T2-v2-uc-timelock", T+1, func(sc *scratch) ([]types.Transaction, []types.V2Transaction, bool) {
						t, ok := w.spendV2Raw(sc.s, sc.store.SC[id])
						return nil, []types.V2Transaction{t}, ok
					}, fmt.Sprintf("v2 spend of output %v under a legacy unlock-condition policy with timelock %d", id, T))
					return
				}
			}
		}},
		probeRow{"P1-above", func(w *World, n *Node) {
			sc := n.fork()
			if sc.child()+12 < w.net.HardforkV2.AllowHeight {
				return
			}
			for _, id := range sc.store.sortedSC() {
				e := sc.store.SC[id]
				wl, ai := w.ownerOf(e.SiacoinOutput.Address)
				if wl == nil || ai.kind != "pol-above-and-pk" || e.SiacoinOutput.Value.IsZero() || e.MaturityHeight > sc.child() {
					continue
				}
				H := uint64(ai.policy.Type.(types.PolicyTypeThreshold).Of[0].Type.(types.PolicyTypeAbove))
				bound := H + 1 // parent height >= H
				if bound < sc.child() || bound > sc.child()+12 || bound <= w.net.HardforkV2.AllowHeight {
					continue
				}
				w.boundary(sc, "P1-above", bound, func(sc *scratch) ([]types.Transaction, []types.V2Transaction, bool) {
					t, ok := w.spendV2Raw(sc.s, sc.store.SC[id])
					return nil, []types.V2Transaction{t}, ok
				}, fmt.Sprintf("v2 spend of output %v under above(%d)", id, H))
				return
			}
		}},
		probeRow{"P1-after", func(w *World, n *Node) {
			sc := n.fork()
			if !sc.v2ok() {
				return
			}
			for _, id := range sc.store.sortedSC() {
				e := sc.store.SC[id]
				wl, ai := w.ownerOf(e.SiacoinOutput.Address)
				if wl == nil || ai.kind != "pol-after-and-1of2" || e.SiacoinOutput.Value.IsZero() || e.MaturityHeight > sc.child() {
					continue
				}
				T := time.Time(ai.policy.Type.(types.PolicyTypeThreshold).Of[0].Type.(types.PolicyTypeAfter))
				w.afterBoundary(sc, id, T)
				return
			}
		}},
		probeRow{"T1-era", func(w *World, n *Node) {
			sc := n.fork()
			allow, require := w.net.HardforkV2.AllowHeight, w.net.HardforkV2.RequireHeight
			if sc.child() <= require && require < sc.child()+12 && sc.child() < require {
				// a v1 transaction is valid in every block below the require height
				var id types.SiacoinOutputID
				found := false
				for _, e := range sc.ownedSC(true, true) {
					id, found = e.ID, true
					break
				}
				if found {
					w.boundaryInv(sc, "T1-v1-after-require", require, func(sc *scratch) ([]types.Transaction, []types.V2Transaction, bool) {
						e, ok := sc.store.SC[id]
						if !ok {
							return nil, nil, false
						}
						t, ok := w.spendV1(sc.s, []types.SiacoinElement{e.Copy()}, w.wallets[0].addrs[0].addr)
						return []types.Transaction{t}, nil, ok
					}, "v1 transaction around the v2 require height")
				}
			}
			if sc.child() < allow && allow < sc.child()+12 {
				// an element whose policy is satisfiable regardless of height
				for _, e := range sc.ownedSC(true, true) {
					_, ai := w.ownerOf(e.SiacoinOutput.Address)
					if ai.kind != "uc-std" && ai.kind != "uc-2of3" {
						continue
					}
					id := e.ID
					w.boundaryOpt(sc, "T1-v2-before-allow", allow, offerOpt{forceV2: true}, func(sc *scratch) ([]types.Transaction, []types.V2Transaction, bool) {
						t, ok := w.spendV2Raw(sc.s, sc.store.SC[id])
						return nil, []types.V2Transaction{t}, ok
					}, "v2 transaction around the v2 allow height")
					break
				}
			}
		}},
	)
}

// spendEither spends e with whichever transaction version the child height
// allows (preferring the one the owner can use).
func (w *World) spendEither(sc *scratch, e types.SiacoinElement) ([]types.Transaction, []types.V2Transaction, bool) {
	wl, ai := w.ownerOf(e.SiacoinOutput.Address)
	if wl == nil {
		return nil, nil, false
	}
	if sc.v2ok() && (ai.uc == nil || !sc.v1ok()) {
		t, ok := w.spendV2Raw(sc.s, e)
		return nil, []types.V2Transaction{t}, ok
	}
	if sc.v1ok() && ai.uc != nil {
		t, ok := w.spendV1Raw(sc.s, e, *ai.uc)
		return []types.Transaction{t}, nil, ok
	}
	return nil, nil, false
}

// spendV1Raw builds and signs a v1 spend without consulting timelocks.
func (w *World) spendV1Raw(s consensus.State, e types.SiacoinElement, uc types.UnlockConditions) (types.Transaction, bool) {
	txn := types.Transaction{
		SiacoinInputs:  []types.SiacoinInput{{ParentID: e.ID, UnlockConditions: uc}},
		SiacoinOutputs: []types.SiacoinOutput{{Value: e.SiacoinOutput.Value, Address: w.wallets[0].addrs[0].addr}},
	}
	w.signAllV1(s, &txn)
	return txn, len(txn.Signatures) > 0
}

// spendV2Raw builds a v2 spend whose witnesses are complete but whose height /
// time locks are NOT consulted: every branch the wallet has keys for is
// revealed as if the locks had passed.
func (w *World) spendV2Raw(s consensus.State, e types.SiacoinElement) (types.V2Transaction, bool) {
	wl, ai := w.ownerOf(e.SiacoinOutput.Address)
	if wl == nil {
		return types.V2Transaction{}, false
	}
	txn := types.V2Transaction{
		SiacoinInputs:  []types.V2SiacoinInput{{Parent: e.Copy()}},
		SiacoinOutputs: []types.SiacoinOutput{{Value: e.SiacoinOutput.Value, Address: w.advAddr()}},
	}
	c := wl.satisfyCtx(s, s.InputSigHash(txn))
	c.height = ^uint64(0) >> 1     // pretend every height lock has passed
	c.median = time.Unix(1<<40, 0) // and every time lock
	rp, sigs, pre, ok := satisfy(ai.policyFor(), c)
	if !ok {
		return txn, false
	}
	txn.SiacoinInputs[0].SatisfiedPolicy = types.SatisfiedPolicy{Policy: rp, Signatures: sigs, Preimages: pre}
	return txn, true
}

type txnMaker func(sc *scratch) ([]types.Transaction, []types.V2Transaction, bool)

// boundary advances a scratch fork so that the transaction built by mk is
// offered in the block at height bound-1 (must be rejected) and at height
// bound (must be accepted).
func (w *World) boundary(sc *scratch, row string, bound uint64, mk txnMaker, what string) {
	w.boundaryOpt(sc, row, bound, offerOpt{}, mk, what)
}

func (w *World) boundaryOpt(sc *scratch, row string, bound uint64, opt offerOpt, mk txnMaker, what string) {
	if bound < sc.child() || bound > sc.child()+14 {
		return
	}
	for sc.child() < bound-1 && bound >= 1 {
		if !sc.extend(sc.nextTimestamp()) {
			return
		}
	}
	if sc.child() == bound-1 {
		if v1, v2, ok := mk(sc); ok {
			verr, ok := sc.offer(v1, v2, opt)
			w.expect("C08", row+"-early", verr, ok, false, fmt.Sprintf("%s offered in the block at height %d (bound %d)", what, sc.child(), bound))
		}
		if !sc.extend(sc.nextTimestamp()) {
			return
		}
	}
	if sc.child() == bound {
		if v1, v2, ok := mk(sc); ok {
			verr, ok := sc.offer(v1, v2, opt)
			w.expect("C08", row+"-at-bound", verr, ok, true, fmt.Sprintf("%s offered in the block at height %d (bound %d)", what, sc.child(), bound))
		}
	}
}

// boundaryInv is boundary for rules that are valid below and invalid from the
// bound on.
func (w *World) boundaryInv(sc *scratch, row string, bound uint64, mk txnMaker, what string) {
	if bound < sc.child() || bound > sc.child()+14 {
		return
	}
	for sc.child() < bound-1 {
		if !sc.extend(sc.nextTimestamp()) {
			return
		}
	}
	if sc.child() == bound-1 {
		if v1, v2, ok := mk(sc); ok {
			verr, ok := sc.offer(v1, v2, offerOpt{})
			w.expect("C08", row+"-last-valid", verr, ok, true, fmt.Sprintf("%s offered in the block at height %d (bound %d)", what, sc.child(), bound))
		}
		if !sc.extend(sc.nextTimestamp()) {
			return
		}
	}
	if sc.child() == bound {
		if v1, v2, ok := mk(sc); ok {
			verr, ok := sc.offer(v1, v2, offerOpt{forceV2: true})
			w.expect("C08", row+"-at-bound", verr, ok, false, fmt.Sprintf("%s offered in the block at height %d (bound %d)", what, sc.child(), bound))
		}
	}
}

// afterBoundary drives the median timestamp of a scratch fork to exactly T and
// then to T+1s: after(T) must be refused at median == T and accepted at T+1s.
func (w *World) afterBoundary(sc *scratch, id types.SiacoinOutputID, T time.Time) {
	mk := func() (types.V2Transaction, bool) { return w.spendV2Raw(sc.s, sc.store.SC[id]) }
	med := medianTimestamp(sc.s)
	if med.After(T) {
		// already past: only the accepting side is reachable
		if t, ok := mk(); ok {
			verr, ok := sc.offer(nil, []types.V2Transaction{t}, offerOpt{})
			w.expect("C08", "P1-after-past", verr, ok, true, fmt.Sprintf("after(%d) with median %d", T.Unix(), med.Unix()))
		}
		return
	}
	if T.Sub(med) > 40*w.net.BlockInterval {
		return
	}
	// blocks stamped exactly T until the median is T (at most 11 needed)
	for i := 0; i < 12 && !medianTimestamp(sc.s).Equal(T); i++ {
		if !sc.extend(T) {
			return
		}
	}
	if !medianTimestamp(sc.s).Equal(T) {
		return
	}
	if t, ok := mk(); ok {
		verr, ok := sc.offer(nil, []types.V2Transaction{t}, offerOpt{})
		w.expect("C08", "P1-after-at-T", verr, ok, false, fmt.Sprintf("after(%d) offered with median timestamp exactly %d", T.Unix(), T.Unix()))
	}
	T1 := T.Add(time.Second)
	for i := 0; i < 12 && !medianTimestamp(sc.s).Equal(T1); i++ {
		if !sc.extend(T1) {
			return
		}
	}
	if !medianTimestamp(sc.s).Equal(T1) {
		return
	}
	if t, ok := mk(); ok {
		verr, ok := sc.offer(nil, []types.V2Transaction{t}, offerOpt{})
		w.expect("C08", "P1-after-T-plus-1", verr, ok, true, fmt.Sprintf("after(%d) offered with median timestamp %d", T.Unix(), T1.Unix()))
	}
}

// resignV1 recomputes every signature of txn (whole or partial) in place.
func (w *World) resignV1(s consensus.State, txn *types.Transaction) {
	ucs := map[types.Hash256]types.UnlockConditions{}
	for _, in := range txn.SiacoinInputs {
		ucs[types.Hash256(in.ParentID)] = in.UnlockConditions
	}
	for _, in := range txn.SiafundInputs {
		ucs[types.Hash256(in.ParentID)] = in.UnlockConditions
	}
	for _, r := range txn.FileContractRevisions {
		ucs[types.Hash256(r.ParentID)] = r.UnlockConditions
	}
	for i := range txn.Signatures {
		sig := &txn.Signatures[i]
		uc := ucs[sig.ParentID]
		if sig.PublicKeyIndex >= uint64(len(uc.PublicKeys)) {
			continue
		}
		wl, _ := w.ownerOf(uc.UnlockHash())
		if wl == nil {
			continue
		}
		uk := uc.PublicKeys[sig.PublicKeyIndex]
		var h types.Hash256
		if sig.CoveredFields.WholeTransaction {
			h = s.WholeSigHash(*txn, sig.ParentID, sig.PublicKeyIndex, sig.Timelock, sig.CoveredFields.Signatures)
		} else {
			h = s.PartialSigHash(*txn, sig.CoveredFields)
		}
		for _, k := range wl.keys {
			pk := k.PublicKey()
			if string(uk.Key) == string(pk[:]) {
				sg := k.SignHash(h)
				sig.Signature = sg[:]
			}
		}
	}
}
