package world

import (
	"fmt"
	"reflect"

	"go.sia.tech/core/types"
)

// Rows added after the fifth wave of seeded changes (and one finding of its
// agents on the unchanged tree: sums that cross field kinds).

var tCurrency = reflect.TypeOf(types.Currency{})

// currencySlots collects every currency value reachable in v (a pointer).
func currencySlots(v reflect.Value, out *[]*types.Currency) {
	switch v.Kind() {
	case reflect.Ptr, reflect.Interface:
		if !v.IsNil() {
			currencySlots(v.Elem(), out)
		}
	case reflect.Struct:
		if v.Type() == tCurrency {
			if v.CanAddr() {
				*out = append(*out, v.Addr().Interface().(*types.Currency))
			}
			return
		}
		for i := 0; i < v.NumField(); i++ {
			if v.Type().Field(i).IsExported() {
				currencySlots(v.Field(i), out)
			}
		}
	case reflect.Slice, reflect.Array:
		for i := 0; i < v.Len(); i++ {
			currencySlots(v.Index(i), out)
		}
	}
}

func init() {
	// ---- C10: sums across field kinds. Two or three currency fields of one
	// transaction, of any kinds, together reach 2^128 while each kind alone
	// stays below it.
	registerRows("C10", probeRow{"Z5-cross-field-sums", func(w *World, n *Node) {
		sc := n.fork()
		t := w.tape
		max := types.MaxCurrency
		extremes := func(slots []*types.Currency) string {
			if len(slots) < 2 {
				return ""
			}
			i := t.Choose(len(slots))
			j := (i + 1 + t.Choose(len(slots)-1)) % len(slots)
			a := pick(t, max, max.Sub(types.NewCurrency64(5)), types.NewCurrency(3, 1<<63), types.NewCurrency(0, 1<<63), max.Sub(types.NewCurrency(0, 1)), max.Div64(3))
			delta := pick(t, types.ZeroCurrency, types.NewCurrency64(1), types.NewCurrency64(2), types.NewCurrency64(10), types.NewCurrency(0, 1), max.Div64(3))
			b, over := max.Sub(a).AddWithOverflow(delta)
			if over {
				b = max
			}
			*slots[i], *slots[j] = a, b
			if len(slots) > 2 && t.Chance(1, 3) {
				k := t.Choose(len(slots))
				if k != i && k != j {
					*slots[k] = max.Div64(3)
				}
			}
			return fmt.Sprintf("%d/%d of %d", i, j, len(slots))
		}
		if sc.v1ok() {
			var txn types.Transaction
			if t.Chance(1, 2) {
				if e, ok := pickSC(w, sc.ownedSC(true, true)); ok {
					if base, ok := w.spendV1(sc.s, []types.SiacoinElement{e}, w.advAddr()); ok {
						txn = base
					}
				}
			}
			for i := t.Range(0, 2); i > 0; i-- {
				txn.SiacoinOutputs = append(txn.SiacoinOutputs, types.SiacoinOutput{Value: types.Siacoins(1), Address: w.advAddr()})
			}
			for i := t.Range(0, 2); i > 0; i-- {
				txn.MinerFees = append(txn.MinerFees, types.NewCurrency64(uint64(t.Range(1, 1000))))
			}
			if t.Chance(1, 2) {
				fc := types.FileContract{WindowStart: sc.child() + 2, WindowEnd: sc.child() + 4, Payout: types.Siacoins(2),
					ValidProofOutputs:  []types.SiacoinOutput{{Value: types.Siacoins(1)}, {Value: types.Siacoins(1)}},
					MissedProofOutputs: []types.SiacoinOutput{{Value: types.Siacoins(1)}, {Value: types.Siacoins(1)}}}
				txn.FileContracts = append(txn.FileContracts, fc)
				if t.Chance(1, 2) {
					txn.FileContractRevisions = append(txn.FileContractRevisions, types.FileContractRevision{ParentID: types.FileContractID{7}, FileContract: fc})
				}
			}
			var slots []*types.Currency
			currencySlots(reflect.ValueOf(&txn), &slots)
			if what := extremes(slots); what != "" {
				if len(txn.SiacoinInputs) > 0 {
					w.signAllV1(sc.s, &txn)
				}
				w.crashOffer(sc, "cross-field-v1", []types.Transaction{txn}, nil)
			}
		}
		if sc.v2ok() {
			var txn types.V2Transaction
			if t.Chance(1, 2) {
				if e, ok := pickSC(w, sc.ownedSC(false, true)); ok {
					if base, ok := w.spendV2(sc.s, []types.SiacoinElement{e}, w.advAddr()); ok {
						txn = base
					}
				}
			}
			for i := t.Range(0, 2); i > 0; i-- {
				txn.SiacoinOutputs = append(txn.SiacoinOutputs, types.SiacoinOutput{Value: types.Siacoins(1), Address: w.advAddr()})
			}
			if t.Chance(1, 2) {
				txn.MinerFee = types.NewCurrency64(uint64(t.Range(1, 1000)))
			}
			c := &Contract{renter: w.wallets[0], host: w.wallets[len(w.wallets)-1]}
			fc := types.V2FileContract{ProofHeight: sc.child() + 2, ExpirationHeight: sc.child() + 4, RenterOutput: types.SiacoinOutput{Value: types.Siacoins(1)}, HostOutput: types.SiacoinOutput{Value: types.Siacoins(1)},
				MissedHostValue: types.Siacoins(1), RenterPublicKey: c.renterKey().PublicKey(), HostPublicKey: c.hostKey().PublicKey()}
			if t.Chance(1, 2) {
				txn.FileContracts = append(txn.FileContracts, fc)
			}
			if lc := sc.pickLive(true, nil); lc != nil && t.Chance(1, 2) {
				el := sc.store.V2FC[lc.id]
				switch t.Choose(2) {
				case 0:
					rev := el.V2FileContract
					rev.RevisionNumber++
					txn.FileContractRevisions = append(txn.FileContractRevisions, types.V2FileContractRevision{Parent: el.Copy(), Revision: rev})
				default:
					txn.FileContractResolutions = append(txn.FileContractResolutions, types.V2FileContractResolution{Parent: el.Copy(), Resolution: &types.V2FileContractRenewal{
						FinalRenterOutput: el.V2FileContract.RenterOutput, FinalHostOutput: el.V2FileContract.HostOutput, NewContract: fc}})
				}
			}
			var slots []*types.Currency
			currencySlots(reflect.ValueOf(&txn), &slots)
			// (the parents' own values are part of what a peer may claim)
			if what := extremes(slots); what != "" {
				for i := range txn.FileContracts {
					w.signContractV2(sc.s, &txn.FileContracts[i], c.renterKey(), c.hostKey())
				}
				w.signAllV2(sc.s, &txn)
				w.crashOffer(sc, "cross-field-v2", nil, []types.V2Transaction{txn})
			}
		}
	}})
}
