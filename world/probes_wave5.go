package world

import (
	"fmt"
	"reflect"

	"go.sia.tech/core/types"
)

// Rows added after the fifth wave of seeded changes (and one finding of its
// agents on the unchanged tree: sums that cross field kinds).

var tCurrency = reflect.TypeOf(types.Currency{})

// currencySlots collects every currency value reachable in v (a pointer).
func currencySlots(v reflect.Value, out *[]*types.Currency) {
	switch v.Kind() {
	case reflect.Ptr, reflect.Interface:
		if !v.IsNil() {
			currencySlots(v.Elem(), out)
		}
	case reflect.Struct:
		if v.Type() == tCurrency {
			if v.CanAddr() {
				*out = append(*out, v.Addr().Interface().(*types.Currency))
			}
			return
		}
		for i := 0; i < v.NumField(); i++ {
			if v.Type().Field(i).IsExported() {
				currencySlots(v.Field(i), out)
			}
		}
	case reflect.Slice, reflect.Array:
		for i := 0; i < v.Len(); i++ {
			currencySlots(v.Index(i), out)
		}
	}
}

func init() {
	// ---- C10: sums across field kinds. Two or three currency fields of one
	// transaction, of any kinds, together reach 2^128 while each kind alone
	// stays below it.
	registerRows("C10", probeRow{"Z5-cross-field-sums", func(w *World, n *Node) {
		sc := n.fork()
		t := w.tape
		max := types.MaxCurrency
		extremes := func(slots []*types.Currency) string {
			if len(slots) < 2 {
				return ""
			}
			i := t.Choose(len(slots))
			j := (i + 1 + t.Choose(len(slots)-1)) % len(slots)
			a := pick(t, max, max.Sub(types.NewCurrency64(5)), types.NewCurrency(3, 1<<63), types.NewCurrency(0, 1<<63), max.Sub(types.NewCurrency(0, 1)), max.Div64(3))
			delta := pick(t, types.ZeroCurrency, types.NewCurrency64(1), types.NewCurrency64(2), types.NewCurrency64(10), types.NewCurrency(0, 1), max.Div64(3))
			b, over := max.Sub(a).AddWithOverflow(delta)
			if over {
				b = max
			}
			*slots[i], *slots[j] = a, b
			if len(slots) > 2 && t.Chance(1, 3) {
				k := t.Choose(len(slots))
				if k != i && k != j {
					*slots[k] = max.Div64(3)
				}
			}
			return fmt.Sprintf("%d/%d of %d", i, j, len(slots))
		}
		if sc.v1ok() {
			var txn types.Transaction
			if t.Chance(1, 2) {
				if e, ok := pickSC(w, sc.ownedSC(true, true)); ok {
					if base, ok := w.spendV1(sc.s, []types.SiacoinElement{e}, w.advAddr()); ok {
						txn = base
					}
				}
			}
			for i := t.Range(0, 2); i > 0; i-- {
				txn.SiacoinOutputs = append(txn.SiacoinOutputs, types.SiacoinOutput{Value: types.Siacoins(1), Address: w.advAddr()})
			}
			for i := t.Range(0, 2); i > 0; i-- {
				txn.MinerFees = append(txn.MinerFees, types.NewCurrency64(uint64(t.Range(1, 1000))))
			}
			if t.Chance(1, 2) {
				fc := types.FileContract{WindowStart: sc.child() + 2, WindowEnd: sc.child() + 4, Payout: types.Siacoins(2),
					ValidProofOutputs:  []types.SiacoinOutput{{Value: types.Siacoins(1)}, {Value: types.Siacoins(1)}},
					MissedProofOutputs: []types.SiacoinOutput{{Value: types.Siacoins(1)}, {Value: types.Siacoins(1)}}}
				txn.FileContracts = append(txn.FileContracts, fc)
				if t.Chance(1, 2) {
					txn.FileContractRevisions = append(txn.FileContractRevisions, types.FileContractRevision{ParentID: types.FileContractID{7}, FileContract: fc})
				}
			}
			var slots []*types.Currency
			currencySlots(reflect.ValueOf(&txn), &slots)
			if what := extremes(slots); what != "" {
				if len(txn.SiacoinInputs) > 0 {
					w.signAllV1(sc.s, &txn)
				}
				w.crashOffer(sc, "cross-field-v1", []types.Transaction{txn}, nil)
			}
		}
		if sc.v2ok() {
			var txn types.V2Transaction
			if t.Chance(1, 2) {
				if e, ok := pickSC(w, sc.ownedSC(false, true)); ok {
					if base, ok := w.spendV2(sc.s, []types.SiacoinElement{e}, w.advAddr()); ok {
						txn = base
					}
				}
			}
			for i := t.Range(0, 2); i > 0; i-- {
				txn.SiacoinOutputs = append(txn.SiacoinOutputs, types.SiacoinOutput{Value: types.Siacoins(1), Address: w.advAddr()})
			}
			if t.Chance(1, 2) {
				txn.MinerFee = types.NewCurrency64(uint64(t.Range(1, 1000)))
			}
			c := &Contract{renter: w.wallets[0], host: w.wallets[len(w.wallets)-1]}
			fc := types.V2FileContract{ProofHeight: sc.child() + 2, ExpirationHeight: sc.child() + 4, RenterOutput: types.SiacoinOutput{Value: types.Siacoins(1)}, HostOutput: types.SiacoinOutput{Value: types.Siacoins(1)},
				MissedHostValue: types.Siacoins(1), RenterPublicKey: c.renterKey().PublicKey(), HostPublicKey: c.hostKey().PublicKey()}
			if t.Chance(1, 2) {
				txn.FileContracts = append(txn.FileContracts, fc)
			}
			if lc := sc.pickLive(true, nil); lc != nil && t.Chance(1, 2) {
				el := sc.store.V2FC[lc.id]
				switch t.Choose(2) {
				case 0:
					rev := el.V2FileContract
					rev.RevisionNumber++
					txn.FileContractRevisions = append(txn.FileContractRevisions, types.V2FileContractRevision{Parent: el.Copy(), Revision: rev})
				default:
					txn.FileContractResolutions = append(txn.FileContractResolutions, types.V2FileContractResolution{Parent: el.Copy(), Resolution: &types.V2FileContractRenewal{
						FinalRenterOutput: el.V2FileContract.RenterOutput, FinalHostOutput: el.V2FileContract.HostOutput, NewContract: fc}})
				}
			}
			var slots []*types.Currency
			currencySlots(reflect.ValueOf(&txn), &slots)
			// (the parents' own values are part of what a peer may claim)
			if what := extremes(slots); what != "" {
				for i := range txn.FileContracts {
					w.signContractV2(sc.s, &txn.FileContracts[i], c.renterKey(), c.hostKey())
				}
				w.signAllV2(sc.s, &txn)
				w.crashOffer(sc, "cross-field-v2", nil, []types.V2Transaction{txn})
			}
		}
	}})
	// ---- C01 / C07: two contracts revised by one transaction, one of them renewed by the next
	twoThenRenew := probeRow{"K6-v2-two-revised-one-renewed", func(w *World, n *Node) {
		sc := n.fork()
		if !sc.v2ok() {
			return
		}
		revisable := func(c *Contract) bool {
			fc := sc.store.V2FC[c.id].V2FileContract
			return fc.ProofHeight > sc.child()+1 && fc.RevisionNumber < types.MaxRevisionNumber-4
		}
		a := sc.pickLive(true, revisable)
		if a == nil {
			return
		}
		sumOf := func(fc types.V2FileContract) types.Currency { return fc.RenterOutput.Value.Add(fc.HostOutput.Value) }
		ea := sc.store.V2FC[a.id]
		b := sc.pickLive(true, func(c *Contract) bool {
			return c.id != a.id && revisable(c) && sumOf(sc.store.V2FC[c.id].V2FileContract) != sumOf(ea.V2FileContract)
		})
		funder, okf := pickSC(w, sc.ownedSC(false, true))
		if b == nil || !okf {
			return
		}
		eb := sc.store.V2FC[b.id]
		rev := func(c *Contract, e types.V2FileContractElement) types.V2FileContractRevision {
			r := e.V2FileContract
			r.RevisionNumber++
			r.FileMerkleRoot[2] ^= 1
			w.signContractV2(sc.s, &r, c.renterKey(), c.hostKey())
			return types.V2FileContractRevision{Parent: e.Copy(), Revision: r}
		}
		ra, rb := rev(a, ea), rev(b, eb)
		t1 := types.V2Transaction{FileContractRevisions: []types.V2FileContractRevision{rb, ra}}
		renewal := func(finalRenter, finalHost types.Currency) (types.V2Transaction, bool) {
			nc := ra.Revision
			nc.RevisionNumber = 0
			nc.ProofHeight = sc.child() + 30
			nc.ExpirationHeight = nc.ProofHeight + 2
			nc.RenterOutput.Value, nc.HostOutput.Value, nc.MissedHostValue, nc.TotalCollateral = types.Siacoins(1), types.ZeroCurrency, types.ZeroCurrency, types.ZeroCurrency
			ren := &types.V2FileContractRenewal{NewContract: nc, FinalRenterOutput: ra.Revision.RenterOutput, FinalHostOutput: ra.Revision.HostOutput}
			ren.FinalRenterOutput.Value, ren.FinalHostOutput.Value = finalRenter, finalHost
			w.signContractV2(sc.s, &ren.NewContract, a.renterKey(), a.hostKey())
			h := sc.s.RenewalSigHash(*ren)
			ren.RenterSignature, ren.HostSignature = a.renterKey().SignHash(h), a.hostKey().SignHash(h)
			cost := nc.RenterOutput.Value.Add(sc.s.V2FileContractTax(nc))
			if funder.SiacoinOutput.Value.Cmp(cost) < 0 {
				return types.V2Transaction{}, false
			}
			t2 := types.V2Transaction{FileContractResolutions: []types.V2FileContractResolution{{Parent: ea.Copy(), Resolution: ren}},
				SiacoinInputs: []types.V2SiacoinInput{{Parent: funder.Copy()}}}
			if ch := funder.SiacoinOutput.Value.Sub(cost); !ch.IsZero() {
				t2.SiacoinOutputs = []types.SiacoinOutput{{Value: ch, Address: funder.SiacoinOutput.Address}}
			}
			return t2, w.signAllV2(sc.s, &t2)
		}
		what := fmt.Sprintf("one transaction revises v2 contracts %v (holding %v) and %v (holding %v), the next transaction of the block renews the second", b.id, sumOf(eb.V2FileContract), a.id, sumOf(ea.V2FileContract))
		if t2, ok := renewal(ra.Revision.RenterOutput.Value, ra.Revision.HostOutput.Value); ok {
			verr, ok := sc.offer(nil, []types.V2Transaction{t1, t2}, offerOpt{})
			w.expect(w.propAmong("C01", "C07"), "K6-two-revised-renewal-honest", verr, ok, true, what+", paying out exactly what it holds")
		}
		// the renewal pays out what the *other* contract holds
		other := sumOf(rb.Revision)
		if t2, ok := renewal(other, types.ZeroCurrency); ok {
			verr, ok := sc.offer(nil, []types.V2Transaction{t1, t2}, offerOpt{})
			w.expect(w.propAmong("C01", "C07"), "K6-two-revised-renewal-other-sum", verr, ok, false, what+", paying out what the first one holds")
		}
	}}
	registerRows("C01", twoThenRenew)
	registerRows("C07", twoThenRenew)

	// ---- C02: one transaction renews the same contract twice
	registerRows("C02", probeRow{"D5-v2-renewed-twice-in-txn", func(w *World, n *Node) {
		sc := n.fork()
		if !sc.v2ok() {
			return
		}
		c := sc.pickLive(true, func(c *Contract) bool { return sc.store.V2FC[c.id].V2FileContract.ProofHeight > sc.child()+1 })
		funder, okf := pickSC(w, sc.ownedSC(false, true))
		if c == nil || !okf {
			return
		}
		e := sc.store.V2FC[c.id]
		cur := e.V2FileContract
		mk := func(salt byte) types.V2FileContractResolution {
			nc := cur
			nc.RevisionNumber = 0
			nc.ProofHeight = sc.child() + 30 + uint64(salt)
			nc.ExpirationHeight = nc.ProofHeight + 2
			nc.RenterOutput.Value, nc.HostOutput.Value, nc.MissedHostValue, nc.TotalCollateral = types.Siacoins(1), types.ZeroCurrency, types.ZeroCurrency, types.ZeroCurrency
			ren := &types.V2FileContractRenewal{NewContract: nc, FinalRenterOutput: cur.RenterOutput, FinalHostOutput: cur.HostOutput}
			w.signContractV2(sc.s, &ren.NewContract, c.renterKey(), c.hostKey())
			h := sc.s.RenewalSigHash(*ren)
			ren.RenterSignature, ren.HostSignature = c.renterKey().SignHash(h), c.hostKey().SignHash(h)
			return types.V2FileContractResolution{Parent: e.Copy(), Resolution: ren}
		}
		one := types.Siacoins(1).Add(sc.s.V2FileContractTax(types.V2FileContract{RenterOutput: types.SiacoinOutput{Value: types.Siacoins(1)}}))
		build := func(res ...types.V2FileContractResolution) (types.V2Transaction, bool) {
			cost := one.Mul64(uint64(len(res)))
			if funder.SiacoinOutput.Value.Cmp(cost) < 0 {
				return types.V2Transaction{}, false
			}
			t := types.V2Transaction{FileContractResolutions: res, SiacoinInputs: []types.V2SiacoinInput{{Parent: funder.Copy()}}}
			if ch := funder.SiacoinOutput.Value.Sub(cost); !ch.IsZero() {
				t.SiacoinOutputs = []types.SiacoinOutput{{Value: ch, Address: funder.SiacoinOutput.Address}}
			}
			return t, w.signAllV2(sc.s, &t)
		}
		if t, ok := build(mk(0)); ok {
			verr, ok := sc.offer(nil, []types.V2Transaction{t}, offerOpt{})
			w.expect("C02", "D5-v2-renewed-once-control", verr, ok, true, fmt.Sprintf("v2 contract %v renewed once", c.id))
		}
		for _, same := range []bool{true, false} {
			second := mk(1)
			if same {
				second = mk(0)
			}
			if t, ok := build(mk(0), second); ok {
				verr, ok := sc.offer(nil, []types.V2Transaction{t}, offerOpt{})
				w.expect("C02", "D5-v2-renewed-twice-in-txn", verr, ok, false, fmt.Sprintf("one transaction carries two renewals of v2 contract %v (identical=%v), each fully signed and funded", c.id, same))
			}
		}
	}})

	// ---- C02 / C04: an element spent on this fork, presented again as unspent with every proof it ever had
	oldProofs := probeRow{"D4-spent-with-older-proofs", func(w *World, n *Node) {
		sc := n.fork()
		if !sc.v2ok() {
			return
		}
		t := w.tape
		prop := w.propAmong("C02", "C04")
		// siafunds: move an owned output to a fresh leaf at the end of the accumulator
		for _, id := range sc.store.sortedSF() {
			e := sc.store.SF[id]
			wl, ai := w.ownerOf(e.SiafundOutput.Address)
			if wl == nil || !wl.canSatisfyNow(sc.s, ai) {
				continue
			}
			spend := func(p types.SiafundElement) (types.V2Transaction, bool) {
				tx := types.V2Transaction{SiafundInputs: []types.V2SiafundInput{{Parent: p, ClaimAddress: e.SiafundOutput.Address}}, SiafundOutputs: []types.SiafundOutput{{Value: p.SiafundOutput.Value, Address: e.SiafundOutput.Address}}}
				return tx, w.signAllV2(sc.s, &tx)
			}
			t0, ok := spend(e.Copy())
			if !ok || sc.mine(nil, []types.V2Transaction{t0}) != nil {
				return
			}
			nid := t0.SiafundOutputID(t0.ID(), 0)
			var history []types.SiafundElement
			for k := t.Range(1, 7); k >= 0; k-- {
				cur, ok := sc.store.SF[nid]
				if !ok {
					return
				}
				history = append(history, cur.Copy())
				if k > 0 && !sc.extend(sc.nextTimestamp()) {
					return
				}
			}
			t1, ok := spend(history[len(history)-1].Copy())
			if !ok || sc.mine(nil, []types.V2Transaction{t1}) != nil {
				return
			}
			for k := t.Range(0, 2); k > 0; k-- {
				if !sc.extend(sc.nextTimestamp()) {
					return
				}
			}
			for i := range history {
				tx, ok := spend(history[i].Copy())
				if !ok {
					return
				}
				verr, ok := sc.offer(nil, []types.V2Transaction{tx}, offerOpt{})
				w.expect(prop, "D4-siafund-spent-older-proof", verr, ok, false, fmt.Sprintf("siafund output %v (leaf %d) was spent on this fork; it is presented again as unspent with the proof it had %d blocks before the spend (%d hashes)", nid, history[i].StateElement.LeafIndex, len(history)-1-i, len(history[i].StateElement.MerkleProof)))
			}
			break
		}
		// the same for a siacoin output
		if e, ok := pickSC(w, sc.ownedSC(false, true)); ok {
			t0, ok := w.spendV2(sc.s, []types.SiacoinElement{e}, e.SiacoinOutput.Address)
			if !ok || sc.mine(nil, []types.V2Transaction{t0}) != nil {
				return
			}
			nid := t0.SiacoinOutputID(t0.ID(), 0)
			var history []types.SiacoinElement
			for k := t.Range(1, 7); k >= 0; k-- {
				cur, ok := sc.store.SC[nid]
				if !ok {
					return
				}
				history = append(history, cur.Copy())
				if k > 0 && !sc.extend(sc.nextTimestamp()) {
					return
				}
			}
			t1, ok := w.spendV2(sc.s, []types.SiacoinElement{history[len(history)-1]}, e.SiacoinOutput.Address)
			if !ok || sc.mine(nil, []types.V2Transaction{t1}) != nil {
				return
			}
			for i := range history {
				tx, ok := w.spendV2(sc.s, []types.SiacoinElement{history[i]}, e.SiacoinOutput.Address)
				if !ok {
					return
				}
				verr, ok := sc.offer(nil, []types.V2Transaction{tx}, offerOpt{})
				w.expect(prop, "D4-siacoin-spent-older-proof", verr, ok, false, fmt.Sprintf("siacoin output %v was spent on this fork; it is presented again as unspent with the proof it had %d blocks before the spend", nid, len(history)-1-i))
			}
		}
	}}
	registerRows("C02", oldProofs)
	registerRows("C04", oldProofs)

	// ---- C02 / C07: an empty v1 contract proven by two transactions of one block
	emptyTwice := probeRow{"K3-v1-empty-contract-proven-twice", func(w *World, n *Node) {
		sc := n.fork()
		if !sc.v1ok() {
			return
		}
		c := sc.pickLive(false, func(c *Contract) bool {
			fc := sc.store.FC[c.id].FileContract
			return fc.Filesize == 0 && fc.WindowStart <= sc.child()+12 && fc.WindowEnd > sc.child() && fc.WindowEnd < w.net.HardforkV2.RequireHeight
		})
		if c == nil {
			return
		}
		fc := sc.store.FC[c.id].FileContract
		if at := max(fc.WindowStart, sc.child()); at >= fc.WindowEnd || !sc.advanceTo(at) || !sc.v1ok() {
			return
		}
		if sc.child() < w.net.HardforkStorageProof.Height {
			return // before that hardfork an empty contract is proven with a leaf like any other
		}
		sp := types.StorageProof{ParentID: c.id}
		verr, ok := sc.offer(v1Txn(sp), nil, offerOpt{})
		w.expect("C07", "K3-v1-empty-contract-control", verr, ok, true, fmt.Sprintf("empty contract %v proven once inside its window", c.id))
		if verr != nil {
			return
		}
		prop := w.propAmong("C02", "C07")
		t2 := types.Transaction{StorageProofs: []types.StorageProof{sp}, ArbitraryData: [][]byte{{1}}}
		verr, ok = sc.offer([]types.Transaction{{StorageProofs: []types.StorageProof{sp}}, t2}, nil, offerOpt{})
		w.expect(prop, "D5-v1-empty-two-proofs-two-txns", verr, ok, false, fmt.Sprintf("two transactions of one block prove the empty contract %v", c.id))
		verr, ok = sc.offer([]types.Transaction{{StorageProofs: []types.StorageProof{sp, sp}}}, nil, offerOpt{})
		w.expect(prop, "D5-v1-empty-two-proofs-one-txn", verr, ok, false, fmt.Sprintf("one transaction proves the empty contract %v twice", c.id))
	}}
	registerRows("C02", emptyTwice)
	registerRows("C07", emptyTwice)
}
