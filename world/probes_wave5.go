package world

import (
	"bytes"
	"fmt"
	"reflect"

	"go.sia.tech/core/consensus"

	"go.sia.tech/core/types"
	"verif/ref"
	"verif/sim"
)

// Rows added after the fifth wave of seeded changes (and one finding of its
// agents on the unchanged tree: sums that cross field kinds).

var tCurrency = reflect.TypeOf(types.Currency{})

// currencySlots collects every currency value reachable in v (a pointer).
func currencySlots(v reflect.Value, out *[]*types.Currency) {
	switch v.Kind() {
	case reflect.Ptr, reflect.Interface:
		if !v.IsNil() {
			currencySlots(v.Elem(), out)
		}
	case reflect.Struct:
		if v.Type() == tCurrency {
			if v.CanAddr() {
				*out = append(*out, v.Addr().Interface().(*types.Currency))
			}
			return
		}
		for i := 0; i < v.NumField(); i++ {
			if v.Type().Field(i).IsExported() {
				currencySlots(v.Field(i), out)
			}
		}
	case reflect.Slice, reflect.Array:
		for i := 0; i < v.Len(); i++ {
			currencySlots(v.Index(i), out)
		}
	}
}

func init() {
	// ---- C10: sums across field kinds. Two or three currency fields of one
	// transaction, of any kinds, together reach 2^128 while each kind alone
	// stays below it.
	registerRows("C10", probeRow{"Z5-cross-field-sums", func(w *World, n *Node) {
		sc := n.fork()
		t := w.tape
		max := types.MaxCurrency
		extremes := func(slots []*types.Currency) string {
			if len(slots) < 2 {
				return ""
			}
			i := t.Choose(len(slots))
			j := (i + 1 + t.Choose(len(slots)-1)) % len(slots)
			a := pick(t, max, max.Sub(types.NewCurrency64(5)), types.NewCurrency(3, 1<<63), types.NewCurrency(0, 1<<63), max.Sub(types.NewCurrency(0, 1)), max.Div64(3))
			delta := pick(t, types.ZeroCurrency, types.NewCurrency64(1), types.NewCurrency64(2), types.NewCurrency64(10), types.NewCurrency(0, 1), max.Div64(3))
			b, over := max.Sub(a).AddWithOverflow(delta)
			if over {
				b = max
			}
			*slots[i], *slots[j] = a, b
			if len(slots) > 2 && t.Chance(1, 3) {
				k := t.Choose(len(slots))
				if k != i && k != j {
					*slots[k] = max.Div64(3)
				}
			}
			return fmt.Sprintf("%d/%d of %d", i, j, len(slots))
		}
		if sc.v1ok() {
			var txn types.Transaction
			if t.Chance(1, 2) {
				if e, ok := pickSC(w, sc.ownedSC(true, true)); ok {
					if base, ok := w.spendV1(sc.s, []types.SiacoinElement{e}, w.advAddr()); ok {
						txn = base
					}
				}
			}
			for i := t.Range(0, 2); i > 0; i-- {
				txn.SiacoinOutputs = append(txn.SiacoinOutputs, types.SiacoinOutput{Value: types.Siacoins(1), Address: w.advAddr()})
			}
			for i := t.Range(0, 2); i > 0; i-- {
				txn.MinerFees = append(txn.MinerFees, types.NewCurrency64(uint64(t.Range(1, 1000))))
			}
			if t.Chance(1, 2) {
				fc := types.FileContract{WindowStart: sc.child() + 2, WindowEnd: sc.child() + 4, Payout: types.Siacoins(2),
					ValidProofOutputs:  []types.SiacoinOutput{{Value: types.Siacoins(1)}, {Value: types.Siacoins(1)}},
					MissedProofOutputs: []types.SiacoinOutput{{Value: types.Siacoins(1)}, {Value: types.Siacoins(1)}}}
				txn.FileContracts = append(txn.FileContracts, fc)
				if t.Chance(1, 2) {
					txn.FileContractRevisions = append(txn.FileContractRevisions, types.FileContractRevision{ParentID: types.FileContractID{7}, FileContract: fc})
				}
			}
			var slots []*types.Currency
			currencySlots(reflect.ValueOf(&txn), &slots)
			if what := extremes(slots); what != "" {
				if len(txn.SiacoinInputs) > 0 {
					w.signAllV1(sc.s, &txn)
				}
				w.crashOffer(sc, "cross-field-v1", []types.Transaction{txn}, nil)
			}
			// a transaction whose siacoins balance (so that validation goes on to the
			// contract rules), with the extremes confined to the proof outputs
			if e, ok := pickSC(w, sc.ownedSC(true, true)); ok && e.SiacoinOutput.Value.Cmp(types.Siacoins(3)) > 0 {
				if bal, ok := w.spendV1(sc.s, []types.SiacoinElement{e}, w.advAddr()); ok {
					payout := types.Siacoins(2)
					bal.SiacoinOutputs[0].Value = e.SiacoinOutput.Value.Sub(payout)
					fc := types.FileContract{WindowStart: sc.child() + 2, WindowEnd: sc.child() + 4, Payout: payout,
						ValidProofOutputs:  []types.SiacoinOutput{{Value: types.Siacoins(1)}, {Value: types.Siacoins(1)}},
						MissedProofOutputs: []types.SiacoinOutput{{Value: types.Siacoins(1)}, {Value: types.Siacoins(1)}}}
					bal.FileContracts = []types.FileContract{fc}
					var ps []*types.Currency
					c0 := &bal.FileContracts[0]
					for i := range c0.ValidProofOutputs {
						ps = append(ps, &c0.ValidProofOutputs[i].Value)
					}
					for i := range c0.MissedProofOutputs {
						ps = append(ps, &c0.MissedProofOutputs[i].Value)
					}
					if t.Chance(1, 2) {
						// one list only: valid = [max], missed = [max]
						c0.ValidProofOutputs, c0.MissedProofOutputs = c0.ValidProofOutputs[:1], c0.MissedProofOutputs[:1]
						c0.ValidProofOutputs[0].Value, c0.MissedProofOutputs[0].Value = max, max
					} else {
						extremes(ps)
					}
					w.signAllV1(sc.s, &bal)
					w.crashOffer(sc, "cross-field-v1-balanced-contract", []types.Transaction{bal}, nil)
				}
			}
		}
		if sc.v2ok() {
			var txn types.V2Transaction
			if t.Chance(1, 2) {
				if e, ok := pickSC(w, sc.ownedSC(false, true)); ok {
					if base, ok := w.spendV2(sc.s, []types.SiacoinElement{e}, w.advAddr()); ok {
						txn = base
					}
				}
			}
			for i := t.Range(0, 2); i > 0; i-- {
				txn.SiacoinOutputs = append(txn.SiacoinOutputs, types.SiacoinOutput{Value: types.Siacoins(1), Address: w.advAddr()})
			}
			if t.Chance(1, 2) {
				txn.MinerFee = types.NewCurrency64(uint64(t.Range(1, 1000)))
			}
			c := &Contract{renter: w.wallets[0], host: w.wallets[len(w.wallets)-1]}
			fc := types.V2FileContract{ProofHeight: sc.child() + 2, ExpirationHeight: sc.child() + 4, RenterOutput: types.SiacoinOutput{Value: types.Siacoins(1)}, HostOutput: types.SiacoinOutput{Value: types.Siacoins(1)},
				MissedHostValue: types.Siacoins(1), RenterPublicKey: c.renterKey().PublicKey(), HostPublicKey: c.hostKey().PublicKey()}
			if t.Chance(1, 2) {
				txn.FileContracts = append(txn.FileContracts, fc)
			}
			if lc := sc.pickLive(true, nil); lc != nil && t.Chance(1, 2) {
				el := sc.store.V2FC[lc.id]
				switch t.Choose(2) {
				case 0:
					rev := el.V2FileContract
					rev.RevisionNumber++
					txn.FileContractRevisions = append(txn.FileContractRevisions, types.V2FileContractRevision{Parent: el.Copy(), Revision: rev})
				default:
					txn.FileContractResolutions = append(txn.FileContractResolutions, types.V2FileContractResolution{Parent: el.Copy(), Resolution: &types.V2FileContractRenewal{
						FinalRenterOutput: el.V2FileContract.RenterOutput, FinalHostOutput: el.V2FileContract.HostOutput, NewContract: fc}})
				}
			}
			var slots []*types.Currency
			currencySlots(reflect.ValueOf(&txn), &slots)
			// (the parents' own values are part of what a peer may claim)
			if what := extremes(slots); what != "" {
				for i := range txn.FileContracts {
					w.signContractV2(sc.s, &txn.FileContracts[i], c.renterKey(), c.hostKey())
				}
				w.signAllV2(sc.s, &txn)
				w.crashOffer(sc, "cross-field-v2", nil, []types.V2Transaction{txn})
			}
		}
	}})
	// ---- C01 / C07: two contracts revised by one transaction, one of them renewed by the next
	twoThenRenew := probeRow{"K6-v2-two-revised-one-renewed", func(w *World, n *Node) {
		sc := n.fork()
		if !sc.v2ok() {
			return
		}
		revisable := func(c *Contract) bool {
			fc := sc.store.V2FC[c.id].V2FileContract
			return fc.ProofHeight > sc.child()+1 && fc.RevisionNumber < types.MaxRevisionNumber-4
		}
		a := sc.pickLive(true, revisable)
		if a == nil {
			return
		}
		sumOf := func(fc types.V2FileContract) types.Currency { return fc.RenterOutput.Value.Add(fc.HostOutput.Value) }
		ea := sc.store.V2FC[a.id]
		b := sc.pickLive(true, func(c *Contract) bool {
			return c.id != a.id && revisable(c) && sumOf(sc.store.V2FC[c.id].V2FileContract) != sumOf(ea.V2FileContract)
		})
		funder, okf := pickSC(w, sc.ownedSC(false, true))
		if b == nil || !okf {
			return
		}
		eb := sc.store.V2FC[b.id]
		rev := func(c *Contract, e types.V2FileContractElement) types.V2FileContractRevision {
			r := e.V2FileContract
			r.RevisionNumber++
			r.FileMerkleRoot[2] ^= 1
			w.signContractV2(sc.s, &r, c.renterKey(), c.hostKey())
			return types.V2FileContractRevision{Parent: e.Copy(), Revision: r}
		}
		ra, rb := rev(a, ea), rev(b, eb)
		t1 := types.V2Transaction{FileContractRevisions: []types.V2FileContractRevision{rb, ra}}
		renewal := func(finalRenter, finalHost types.Currency) (types.V2Transaction, bool) {
			nc := ra.Revision
			nc.RevisionNumber = 0
			nc.ProofHeight = sc.child() + 30
			nc.ExpirationHeight = nc.ProofHeight + 2
			nc.RenterOutput.Value, nc.HostOutput.Value, nc.MissedHostValue, nc.TotalCollateral = types.Siacoins(1), types.ZeroCurrency, types.ZeroCurrency, types.ZeroCurrency
			ren := &types.V2FileContractRenewal{NewContract: nc, FinalRenterOutput: ra.Revision.RenterOutput, FinalHostOutput: ra.Revision.HostOutput}
			ren.FinalRenterOutput.Value, ren.FinalHostOutput.Value = finalRenter, finalHost
			w.signContractV2(sc.s, &ren.NewContract, a.renterKey(), a.hostKey())
			h := sc.s.RenewalSigHash(*ren)
			ren.RenterSignature, ren.HostSignature = a.renterKey().SignHash(h), a.hostKey().SignHash(h)
			cost := nc.RenterOutput.Value.Add(sc.s.V2FileContractTax(nc))
			if funder.SiacoinOutput.Value.Cmp(cost) < 0 {
				return types.V2Transaction{}, false
			}
			t2 := types.V2Transaction{FileContractResolutions: []types.V2FileContractResolution{{Parent: ea.Copy(), Resolution: ren}},
				SiacoinInputs: []types.V2SiacoinInput{{Parent: funder.Copy()}}}
			if ch := funder.SiacoinOutput.Value.Sub(cost); !ch.IsZero() {
				t2.SiacoinOutputs = []types.SiacoinOutput{{Value: ch, Address: funder.SiacoinOutput.Address}}
			}
			return t2, w.signAllV2(sc.s, &t2)
		}
		what := fmt.Sprintf("one transaction revises v2 contracts %v (holding %v) and %v (holding %v), the next transaction of the block renews the second", b.id, sumOf(eb.V2FileContract), a.id, sumOf(ea.V2FileContract))
		if t2, ok := renewal(ra.Revision.RenterOutput.Value, ra.Revision.HostOutput.Value); ok {
			verr, ok := sc.offer(nil, []types.V2Transaction{t1, t2}, offerOpt{})
			w.expect(w.propAmong("C01", "C07"), "K6-two-revised-renewal-honest", verr, ok, true, what+", paying out exactly what it holds")
		}
		// the renewal pays out what the *other* contract holds
		other := sumOf(rb.Revision)
		if t2, ok := renewal(other, types.ZeroCurrency); ok {
			verr, ok := sc.offer(nil, []types.V2Transaction{t1, t2}, offerOpt{})
			w.expect(w.propAmong("C01", "C07"), "K6-two-revised-renewal-other-sum", verr, ok, false, what+", paying out what the first one holds")
		}
	}}
	registerRows("C01", twoThenRenew)
	registerRows("C07", twoThenRenew)

	// ---- C02: one transaction renews the same contract twice
	registerRows("C02", probeRow{"D5-v2-renewed-twice-in-txn", func(w *World, n *Node) {
		sc := n.fork()
		if !sc.v2ok() {
			return
		}
		c := sc.pickLive(true, func(c *Contract) bool { return sc.store.V2FC[c.id].V2FileContract.ProofHeight > sc.child()+1 })
		funder, okf := pickSC(w, sc.ownedSC(false, true))
		if c == nil || !okf {
			return
		}
		e := sc.store.V2FC[c.id]
		cur := e.V2FileContract
		mk := func(salt byte) types.V2FileContractResolution {
			nc := cur
			nc.RevisionNumber = 0
			nc.ProofHeight = sc.child() + 30 + uint64(salt)
			nc.ExpirationHeight = nc.ProofHeight + 2
			nc.RenterOutput.Value, nc.HostOutput.Value, nc.MissedHostValue, nc.TotalCollateral = types.Siacoins(1), types.ZeroCurrency, types.ZeroCurrency, types.ZeroCurrency
			ren := &types.V2FileContractRenewal{NewContract: nc, FinalRenterOutput: cur.RenterOutput, FinalHostOutput: cur.HostOutput}
			w.signContractV2(sc.s, &ren.NewContract, c.renterKey(), c.hostKey())
			h := sc.s.RenewalSigHash(*ren)
			ren.RenterSignature, ren.HostSignature = c.renterKey().SignHash(h), c.hostKey().SignHash(h)
			return types.V2FileContractResolution{Parent: e.Copy(), Resolution: ren}
		}
		one := types.Siacoins(1).Add(sc.s.V2FileContractTax(types.V2FileContract{RenterOutput: types.SiacoinOutput{Value: types.Siacoins(1)}}))
		build := func(res ...types.V2FileContractResolution) (types.V2Transaction, bool) {
			cost := one.Mul64(uint64(len(res)))
			if funder.SiacoinOutput.Value.Cmp(cost) < 0 {
				return types.V2Transaction{}, false
			}
			t := types.V2Transaction{FileContractResolutions: res, SiacoinInputs: []types.V2SiacoinInput{{Parent: funder.Copy()}}}
			if ch := funder.SiacoinOutput.Value.Sub(cost); !ch.IsZero() {
				t.SiacoinOutputs = []types.SiacoinOutput{{Value: ch, Address: funder.SiacoinOutput.Address}}
			}
			return t, w.signAllV2(sc.s, &t)
		}
		if t, ok := build(mk(0)); ok {
			verr, ok := sc.offer(nil, []types.V2Transaction{t}, offerOpt{})
			w.expect("C02", "D5-v2-renewed-once-control", verr, ok, true, fmt.Sprintf("v2 contract %v renewed once", c.id))
		}
		for _, same := range []bool{true, false} {
			second := mk(1)
			if same {
				second = mk(0)
			}
			if t, ok := build(mk(0), second); ok {
				verr, ok := sc.offer(nil, []types.V2Transaction{t}, offerOpt{})
				w.expect("C02", "D5-v2-renewed-twice-in-txn", verr, ok, false, fmt.Sprintf("one transaction carries two renewals of v2 contract %v (identical=%v), each fully signed and funded", c.id, same))
			}
		}
	}})

	// ---- C02 / C04: an element spent on this fork, presented again as unspent with every proof it ever had
	oldProofs := probeRow{"D4-spent-with-older-proofs", func(w *World, n *Node) {
		sc := n.fork()
		if !sc.v2ok() {
			return
		}
		t := w.tape
		prop := w.propAmong("C02", "C04")
		// siafunds: move an owned output to a fresh leaf at the end of the accumulator
		for _, id := range sc.store.sortedSF() {
			e := sc.store.SF[id]
			wl, ai := w.ownerOf(e.SiafundOutput.Address)
			if wl == nil || !wl.canSatisfyNow(sc.s, ai) {
				continue
			}
			spend := func(p types.SiafundElement) (types.V2Transaction, bool) {
				tx := types.V2Transaction{SiafundInputs: []types.V2SiafundInput{{Parent: p, ClaimAddress: e.SiafundOutput.Address}}, SiafundOutputs: []types.SiafundOutput{{Value: p.SiafundOutput.Value, Address: e.SiafundOutput.Address}}}
				return tx, w.signAllV2(sc.s, &tx)
			}
			t0, ok := spend(e.Copy())
			if !ok || sc.mine(nil, []types.V2Transaction{t0}) != nil {
				return
			}
			nid := t0.SiafundOutputID(t0.ID(), 0)
			var history []types.SiafundElement
			for k := t.Range(1, 7); k >= 0; k-- {
				cur, ok := sc.store.SF[nid]
				if !ok {
					return
				}
				history = append(history, cur.Copy())
				if k > 0 && !sc.extend(sc.nextTimestamp()) {
					return
				}
			}
			t1, ok := spend(history[len(history)-1].Copy())
			if !ok || sc.mine(nil, []types.V2Transaction{t1}) != nil {
				return
			}
			for k := t.Range(0, 2); k > 0; k-- {
				if !sc.extend(sc.nextTimestamp()) {
					return
				}
			}
			for i := range history {
				tx, ok := spend(history[i].Copy())
				if !ok {
					return
				}
				verr, ok := sc.offer(nil, []types.V2Transaction{tx}, offerOpt{})
				w.expect(prop, "D4-siafund-spent-older-proof", verr, ok, false, fmt.Sprintf("siafund output %v (leaf %d) was spent on this fork; it is presented again as unspent with the proof it had %d blocks before the spend (%d hashes)", nid, history[i].StateElement.LeafIndex, len(history)-1-i, len(history[i].StateElement.MerkleProof)))
			}
			break
		}
		// the same for a siacoin output
		if e, ok := pickSC(w, sc.ownedSC(false, true)); ok {
			t0, ok := w.spendV2(sc.s, []types.SiacoinElement{e}, e.SiacoinOutput.Address)
			if !ok || sc.mine(nil, []types.V2Transaction{t0}) != nil {
				return
			}
			nid := t0.SiacoinOutputID(t0.ID(), 0)
			var history []types.SiacoinElement
			for k := t.Range(1, 7); k >= 0; k-- {
				cur, ok := sc.store.SC[nid]
				if !ok {
					return
				}
				history = append(history, cur.Copy())
				if k > 0 && !sc.extend(sc.nextTimestamp()) {
					return
				}
			}
			t1, ok := w.spendV2(sc.s, []types.SiacoinElement{history[len(history)-1]}, e.SiacoinOutput.Address)
			if !ok || sc.mine(nil, []types.V2Transaction{t1}) != nil {
				return
			}
			for i := range history {
				tx, ok := w.spendV2(sc.s, []types.SiacoinElement{history[i]}, e.SiacoinOutput.Address)
				if !ok {
					return
				}
				verr, ok := sc.offer(nil, []types.V2Transaction{tx}, offerOpt{})
				w.expect(prop, "D4-siacoin-spent-older-proof", verr, ok, false, fmt.Sprintf("siacoin output %v was spent on this fork; it is presented again as unspent with the proof it had %d blocks before the spend", nid, len(history)-1-i))
			}
		}
	}}
	registerRows("C02", oldProofs)
	registerRows("C04", oldProofs)

	// ---- C02 / C07: an empty v1 contract proven by two transactions of one block
	emptyTwice := probeRow{"K3-v1-empty-contract-proven-twice", func(w *World, n *Node) {
		sc := n.fork()
		if !sc.v1ok() {
			return
		}
		c := sc.pickLive(false, func(c *Contract) bool {
			fc := sc.store.FC[c.id].FileContract
			return fc.Filesize == 0 && fc.WindowStart <= sc.child()+12 && fc.WindowEnd > sc.child() && fc.WindowEnd < w.net.HardforkV2.RequireHeight
		})
		if c == nil {
			return
		}
		fc := sc.store.FC[c.id].FileContract
		if at := max(fc.WindowStart, sc.child()); at >= fc.WindowEnd || !sc.advanceTo(at) || !sc.v1ok() {
			return
		}
		if sc.child() < w.net.HardforkStorageProof.Height {
			return // before that hardfork an empty contract is proven with a leaf like any other
		}
		sp := types.StorageProof{ParentID: c.id}
		verr, ok := sc.offer(v1Txn(sp), nil, offerOpt{})
		w.expect("C07", "K3-v1-empty-contract-control", verr, ok, true, fmt.Sprintf("empty contract %v proven once inside its window", c.id))
		if verr != nil {
			return
		}
		prop := w.propAmong("C02", "C07")
		t2 := types.Transaction{StorageProofs: []types.StorageProof{sp}, ArbitraryData: [][]byte{{1}}}
		verr, ok = sc.offer([]types.Transaction{{StorageProofs: []types.StorageProof{sp}}, t2}, nil, offerOpt{})
		w.expect(prop, "D5-v1-empty-two-proofs-two-txns", verr, ok, false, fmt.Sprintf("two transactions of one block prove the empty contract %v", c.id))
		verr, ok = sc.offer([]types.Transaction{{StorageProofs: []types.StorageProof{sp, sp}}}, nil, offerOpt{})
		w.expect(prop, "D5-v1-empty-two-proofs-one-txn", verr, ok, false, fmt.Sprintf("one transaction proves the empty contract %v twice", c.id))
	}}
	registerRows("C02", emptyTwice)
	registerRows("C07", emptyTwice)
	// ---- C03: a second siafund (or siacoin) input presenting the first input's policy
	registerRows("C03", probeRow{"A2-v2-borrowed-policy", func(w *World, n *Node) {
		sc := n.fork()
		if !sc.v2ok() {
			return
		}
		// siafunds
		var sfs []types.SiafundElement
		for _, id := range sc.store.sortedSF() {
			e := sc.store.SF[id]
			if wl, ai := w.ownerOf(e.SiafundOutput.Address); wl != nil && wl.canSatisfyNow(sc.s, ai) {
				sfs = append(sfs, e)
			}
		}
		for i := range sfs {
			for j := range sfs {
				if i == j || sfs[i].SiafundOutput.Address == sfs[j].SiafundOutput.Address {
					continue
				}
				txn := types.V2Transaction{
					SiafundInputs:  []types.V2SiafundInput{{Parent: sfs[i].Copy(), ClaimAddress: w.advAddr()}, {Parent: sfs[j].Copy(), ClaimAddress: w.advAddr()}},
					SiafundOutputs: []types.SiafundOutput{{Value: sfs[i].SiafundOutput.Value + sfs[j].SiafundOutput.Value, Address: w.advAddr()}}}
				if !w.signAllV2(sc.s, &txn) {
					return
				}
				verr, ok := sc.offer(nil, []types.V2Transaction{txn}, offerOpt{})
				w.expect("C03", "A2-v2-two-siafund-inputs-control", verr, ok, true, "two siafund inputs, each satisfied by its owner")
				txn.SiafundInputs[1].SatisfiedPolicy = txn.SiafundInputs[0].SatisfiedPolicy
				verr, ok = sc.offer(nil, []types.V2Transaction{txn}, offerOpt{})
				w.expect("C03", "A2-v2-siafund-borrowed-policy", verr, ok, false, fmt.Sprintf("the second siafund input (output %v at %v) presents the policy and witnesses of the first input (address %v)", sfs[j].ID, sfs[j].SiafundOutput.Address, sfs[i].SiafundOutput.Address))
				i = len(sfs)
				break
			}
		}
		// siacoins
		scs := sc.ownedSC(false, true)
		for i := range scs {
			for j := range scs {
				if i == j || scs[i].SiacoinOutput.Address == scs[j].SiacoinOutput.Address {
					continue
				}
				txn, ok := w.spendV2(sc.s, []types.SiacoinElement{scs[i], scs[j]}, w.advAddr())
				if !ok {
					return
				}
				txn.SiacoinInputs[1].SatisfiedPolicy = txn.SiacoinInputs[0].SatisfiedPolicy
				verr, ok := sc.offer(nil, []types.V2Transaction{txn}, offerOpt{})
				w.expect("C03", "A2-v2-siacoin-borrowed-policy", verr, ok, false, fmt.Sprintf("the second siacoin input (output %v) presents the policy and witnesses of the first input", scs[j].ID))
				return
			}
		}
	}})

	// ---- C03 / C08: the developer-fund address override covers exactly the old address, from exactly its height
	devAddr := probeRow{"A1-v1-dev-address-override", func(w *World, n *Node) {
		sc := n.fork()
		if !sc.v1ok() {
			return
		}
		last := w.wallets[len(w.wallets)-1]
		newAI := last.addrs[0]
		if newAI.uc == nil || newAI.addr != w.net.HardforkDevAddr.NewAddress || !last.canSatisfyNow(sc.s, newAI) {
			return
		}
		prop := w.propAmong("C03", "C08")
		spendAs := func(e types.SiafundElement) types.Transaction {
			txn := types.Transaction{SiafundInputs: []types.SiafundInput{{ParentID: e.ID, UnlockConditions: *newAI.uc, ClaimAddress: w.wallets[0].addrs[0].addr}},
				SiafundOutputs: []types.SiafundOutput{{Value: e.SiafundOutput.Value, Address: w.wallets[0].addrs[0].addr}}}
			w.signAllV1(sc.s, &txn)
			return txn
		}
		// any output that is neither at the old nor at the new address: never
		var mover *types.SiafundElement
		for _, id := range sc.store.sortedSF() {
			e := sc.store.SF[id]
			if e.SiafundOutput.Address == w.net.HardforkDevAddr.OldAddress || e.SiafundOutput.Address == newAI.addr {
				continue
			}
			verr, ok := sc.offer([]types.Transaction{spendAs(e)}, nil, offerOpt{})
			w.expect(prop, "A1-v1-dev-address-other-output", verr, ok, false, fmt.Sprintf("siafund output %v at %v is spent with the (correctly signed) unlock conditions of the new developer address, child height %d, override height %d", e.ID, e.SiafundOutput.Address, sc.child(), w.net.HardforkDevAddr.Height))
			if _, ai := w.ownerOf(e.SiafundOutput.Address); ai != nil && ai.uc != nil && mover == nil {
				m := e
				mover = &m
			}
		}
		// an output moved to the old address: from the override height on, not before
		if mover == nil {
			return
		}
		_, ai := w.ownerOf(mover.SiafundOutput.Address)
		mv := types.Transaction{SiafundInputs: []types.SiafundInput{{ParentID: mover.ID, UnlockConditions: *ai.uc, ClaimAddress: w.wallets[0].addrs[0].addr}},
			SiafundOutputs: []types.SiafundOutput{{Value: mover.SiafundOutput.Value, Address: w.net.HardforkDevAddr.OldAddress}}}
		w.signAllV1(sc.s, &mv)
		if sc.mine([]types.Transaction{mv}, nil) != nil || !sc.v1ok() {
			return
		}
		at, ok := sc.store.SF[mv.SiafundOutputID(0)]
		if !ok {
			return
		}
		verr, ok := sc.offer([]types.Transaction{spendAs(at)}, nil, offerOpt{})
		w.expect(prop, fmt.Sprintf("A1-v1-dev-address-old-output-after=%v", sc.child() >= w.net.HardforkDevAddr.Height), verr, ok, sc.child() >= w.net.HardforkDevAddr.Height,
			fmt.Sprintf("siafund output at the old developer address spent with the new address's unlock conditions at child height %d (override height %d)", sc.child(), w.net.HardforkDevAddr.Height))
	}}
	registerRows("C03", devAddr)
	registerRows("C08", devAddr)

	// ---- C03: a signed renewal whose new contract is exchanged for another contract signed by the same parties
	registerRows("C03", probeRow{"A3-renewal-new-contract-swapped", func(w *World, n *Node) {
		sc := n.fork()
		if !sc.v2ok() {
			return
		}
		c := sc.pickLive(true, func(c *Contract) bool { return sc.store.V2FC[c.id].V2FileContract.ProofHeight > sc.child()+1 })
		funder, okf := pickSC(w, sc.ownedSC(false, true))
		if c == nil || !okf {
			return
		}
		e := sc.store.V2FC[c.id]
		cur := e.V2FileContract
		nc := cur
		nc.RevisionNumber = 0
		nc.ProofHeight = sc.child() + 30
		nc.ExpirationHeight = nc.ProofHeight + 2
		nc.RenterOutput.Value, nc.HostOutput.Value, nc.MissedHostValue, nc.TotalCollateral = types.Siacoins(10), types.Siacoins(10), types.Siacoins(10), types.ZeroCurrency
		ren := &types.V2FileContractRenewal{NewContract: nc, FinalRenterOutput: cur.RenterOutput, FinalHostOutput: cur.HostOutput}
		w.signContractV2(sc.s, &ren.NewContract, c.renterKey(), c.hostKey())
		h := sc.s.RenewalSigHash(*ren)
		ren.RenterSignature, ren.HostSignature = c.renterKey().SignHash(h), c.hostKey().SignHash(h)
		cost := types.Siacoins(20).Add(sc.s.V2FileContractTax(nc))
		if funder.SiacoinOutput.Value.Cmp(cost) < 0 {
			return
		}
		t := types.V2Transaction{FileContractResolutions: []types.V2FileContractResolution{{Parent: e.Copy(), Resolution: ren}}, SiacoinInputs: []types.V2SiacoinInput{{Parent: funder.Copy()}}}
		if ch := funder.SiacoinOutput.Value.Sub(cost); !ch.IsZero() {
			t.SiacoinOutputs = []types.SiacoinOutput{{Value: ch, Address: funder.SiacoinOutput.Address}}
		}
		if !w.signAllV2(sc.s, &t) {
			return
		}
		verr, ok := sc.offer(nil, []types.V2Transaction{t}, offerOpt{})
		w.expect("C03", "A3-renewal-swap-control", verr, ok, true, fmt.Sprintf("renewal of v2 contract %v into a 10/10 SC contract", c.id))
		// another contract of the same total, separately and fully signed by both parties
		alt := nc
		alt.RenterOutput.Value, alt.HostOutput.Value, alt.MissedHostValue = types.Siacoins(1), types.Siacoins(19), types.Siacoins(19)
		w.signContractV2(sc.s, &alt, c.renterKey(), c.hostKey())
		swapped := t.DeepCopy()
		r2 := *ren
		r2.NewContract = alt
		swapped.FileContractResolutions[0].Resolution = &r2
		if !w.signAllV2(sc.s, &swapped) {
			return
		}
		verr, ok = sc.offer(nil, []types.V2Transaction{swapped}, offerOpt{})
		w.expect("C03", "A3-renewal-new-contract-swapped", verr, ok, false, fmt.Sprintf("after both parties signed the renewal of %v into a 10/10 SC contract, the new contract is exchanged for a 1/19 SC contract that carries their own valid contract signatures; the renewal signatures are kept", c.id))
	}})

	// ---- C03: a renewal that follows a key rotation inside the same block
	registerRows("C03", probeRow{"A3-rotation-then-renewal", func(w *World, n *Node) {
		sc := n.fork()
		if !sc.v2ok() {
			return
		}
		c := sc.pickLive(true, func(c *Contract) bool {
			fc := sc.store.V2FC[c.id].V2FileContract
			return fc.ProofHeight > sc.child()+1 && fc.RevisionNumber < types.MaxRevisionNumber-4
		})
		funder, okf := pickSC(w, sc.ownedSC(false, true))
		if c == nil || !okf {
			return
		}
		e := sc.store.V2FC[c.id]
		cur := e.V2FileContract
		other := w.wallets[len(w.wallets)-1]
		if other == c.renter {
			other = w.wallets[0]
		}
		newKey := other.keys[2]
		if newKey.PublicKey() == cur.RenterPublicKey {
			return
		}
		r1 := cur
		r1.RevisionNumber++
		r1.RenterPublicKey = newKey.PublicKey()
		w.signContractV2(sc.s, &r1, c.renterKey(), c.hostKey())
		t1 := types.V2Transaction{FileContractRevisions: []types.V2FileContractRevision{{Parent: e.Copy(), Revision: r1}}}
		renewBy := func(renter types.PrivateKey) (types.V2Transaction, bool) {
			nc := r1
			nc.RenterPublicKey = renter.PublicKey()
			nc.RevisionNumber = 0
			nc.ProofHeight = sc.child() + 30
			nc.ExpirationHeight = nc.ProofHeight + 2
			nc.RenterOutput.Value, nc.HostOutput.Value, nc.MissedHostValue, nc.TotalCollateral = types.Siacoins(1), types.ZeroCurrency, types.ZeroCurrency, types.ZeroCurrency
			ren := &types.V2FileContractRenewal{NewContract: nc, FinalRenterOutput: r1.RenterOutput, FinalHostOutput: r1.HostOutput}
			w.signContractV2(sc.s, &ren.NewContract, renter, c.hostKey())
			h := sc.s.RenewalSigHash(*ren)
			ren.RenterSignature, ren.HostSignature = renter.SignHash(h), c.hostKey().SignHash(h)
			cost := nc.RenterOutput.Value.Add(sc.s.V2FileContractTax(nc))
			if funder.SiacoinOutput.Value.Cmp(cost) < 0 {
				return types.V2Transaction{}, false
			}
			t2 := types.V2Transaction{FileContractResolutions: []types.V2FileContractResolution{{Parent: e.Copy(), Resolution: ren}},
				SiacoinInputs: []types.V2SiacoinInput{{Parent: funder.Copy()}}}
			if ch := funder.SiacoinOutput.Value.Sub(cost); !ch.IsZero() {
				t2.SiacoinOutputs = []types.SiacoinOutput{{Value: ch, Address: funder.SiacoinOutput.Address}}
			}
			return t2, w.signAllV2(sc.s, &t2)
		}
		what := fmt.Sprintf("the first transaction of the block revises v2 contract %v, rotating the renter key; the second renews it", c.id)
		if t2, ok := renewBy(c.renterKey()); ok {
			verr, ok := sc.offer(nil, []types.V2Transaction{t1, t2}, offerOpt{})
			w.expect("C03", "A3-rotation-renewal-old-key", verr, ok, false, what+", signed by (and keeping) the renter key that was rotated out")
		}
		if t2, ok := renewBy(newKey); ok {
			verr, ok := sc.offer(nil, []types.V2Transaction{t1, t2}, offerOpt{})
			w.expect("C03", "A3-rotation-renewal-new-key", verr, ok, true, what+", signed by the renter key the contract now names")
		}
	}})

	// ---- C01: outputs of a kind the transaction has no inputs of
	registerRows("C01", probeRow{"B1-outputs-without-inputs", func(w *World, n *Node) {
		sc := n.fork()
		k := uint64(w.tape.Range(1, 5000))
		if sc.v1ok() {
			if e, ok := pickSC(w, sc.ownedSC(true, true)); ok {
				if txn, ok := w.spendV1(sc.s, []types.SiacoinElement{e}, w.advAddr()); ok {
					txn.SiafundOutputs = []types.SiafundOutput{{Value: k, Address: w.advAddr()}}
					w.signAllV1(sc.s, &txn)
					verr, ok := sc.offer([]types.Transaction{txn}, nil, offerOpt{})
					w.expect("C01", "B1-v1-siafund-outputs-without-inputs", verr, ok, false, fmt.Sprintf("a v1 transaction that balances in siacoins and creates %d siafunds without spending any", k))
				}
			}
			verr, ok := sc.offer([]types.Transaction{{SiacoinOutputs: []types.SiacoinOutput{{Value: types.Siacoins(uint32(k)), Address: w.advAddr()}}}}, nil, offerOpt{})
			w.expect("C01", "B1-v1-siacoin-outputs-without-inputs", verr, ok, false, "a v1 transaction with a siacoin output and no input")
		}
		if sc.v2ok() {
			if e, ok := pickSC(w, sc.ownedSC(false, true)); ok {
				if txn, ok := w.spendV2(sc.s, []types.SiacoinElement{e}, w.advAddr()); ok {
					txn.SiafundOutputs = []types.SiafundOutput{{Value: k, Address: w.advAddr()}}
					if w.signAllV2(sc.s, &txn) {
						verr, ok := sc.offer(nil, []types.V2Transaction{txn}, offerOpt{})
						w.expect("C01", "B1-v2-siafund-outputs-without-inputs", verr, ok, false, fmt.Sprintf("a v2 transaction that balances in siacoins and creates %d siafunds without spending any", k))
					}
				}
			}
			verr, ok := sc.offer(nil, []types.V2Transaction{{SiacoinOutputs: []types.SiacoinOutput{{Value: types.Siacoins(uint32(k)), Address: w.advAddr()}}}}, offerOpt{})
			w.expect("C01", "B1-v2-siacoin-outputs-without-inputs", verr, ok, false, "a v2 transaction with a siacoin output and no input")
		}
	}})

	// ---- C02: the siacoin input that pays the fee of a storage-proof transaction is spent like any other
	registerRows("C02", probeRow{"D2-v1-proof-transaction-fee-input", func(w *World, n *Node) {
		sc := n.fork()
		if !sc.v1ok() {
			return
		}
		c := sc.pickLive(false, func(c *Contract) bool {
			fc := sc.store.FC[c.id].FileContract
			_, known := c.dataFor(fc.FileMerkleRoot, fc.Filesize)
			return known && fc.Filesize > 0 && fc.WindowStart <= sc.child()+12 && fc.WindowEnd > sc.child() && fc.WindowEnd < w.net.HardforkV2.RequireHeight
		})
		if c == nil {
			return
		}
		fc := sc.store.FC[c.id].FileContract
		if at := max(fc.WindowStart, sc.child()); at >= fc.WindowEnd || !sc.advanceTo(at) || !sc.v1ok() {
			return
		}
		data, _ := c.dataFor(fc.FileMerkleRoot, fc.Filesize)
		sp, ok := w.storageProofV1(sc.s, sc.best, c.id, fc, data)
		e, oke := pickSC(w, sc.ownedSC(true, true))
		if !ok || !oke {
			return
		}
		_, ai := w.ownerOf(e.SiacoinOutput.Address)
		if ai == nil || ai.uc == nil {
			return
		}
		t1 := types.Transaction{StorageProofs: []types.StorageProof{sp}, SiacoinInputs: []types.SiacoinInput{{ParentID: e.ID, UnlockConditions: *ai.uc}}, MinerFees: []types.Currency{e.SiacoinOutput.Value}}
		w.signAllV1(sc.s, &t1)
		verr, ok := sc.offer([]types.Transaction{t1}, nil, offerOpt{})
		if verr != nil {
			// (the era's leaf rule may refuse this particular proof; nothing to build on)
			return
		}
		w.expect("C02", "D2-v1-proof-with-fee-control", verr, ok, true, "storage proof transaction paying its miner fee from a siacoin input")
		t2, ok2 := w.spendV1(sc.s, []types.SiacoinElement{e}, w.advAddr())
		if !ok2 {
			return
		}
		verr, ok = sc.offer([]types.Transaction{t1, t2}, nil, offerOpt{})
		w.expect("C02", "D2-v1-proof-fee-input-respent-in-block", verr, ok, false, fmt.Sprintf("output %v pays the fee of a storage-proof transaction and is spent again by the next transaction of the block", e.ID))
		if sc.mine([]types.Transaction{t1}, nil) == nil && sc.v1ok() {
			verr, ok = sc.offer([]types.Transaction{t2}, nil, offerOpt{})
			w.expect("C02", "D2-v1-proof-fee-input-respent-next-block", verr, ok, false, fmt.Sprintf("output %v paid the fee of a storage-proof transaction in the previous block and is spent again", e.ID))
		}
	}})

	// ---- C03: what a whole-transaction signature covers includes where one arbitrary-data entry ends
	registerRows("C03", probeRow{"A1-v1-arbitrary-data-boundary", func(w *World, n *Node) {
		sc := n.fork()
		if !sc.v1ok() {
			return
		}
		e, ok := pickSC(w, sc.ownedSC(true, true))
		if !ok {
			return
		}
		txn, ok := w.spendV1(sc.s, []types.SiacoinElement{e}, w.advAddr())
		if !ok {
			return
		}
		blob := sim.HashBytes("arb-boundary", uint64(w.tape.Choose(1<<16)), 0, w.tape.Range(4, 40))
		cut := w.tape.Range(1, len(blob)-1)
		txn.ArbitraryData = [][]byte{append([]byte("NonSia"), blob[:cut]...), blob[cut:]}
		w.signAllV1(sc.s, &txn)
		verr, ok := sc.offer([]types.Transaction{txn}, nil, offerOpt{})
		w.expect("C03", "A1-v1-arbitrary-data-control", verr, ok, true, "v1 transaction with two arbitrary-data entries, whole-transaction signature")
		if verr != nil {
			return
		}
		shift := func(by int) types.Transaction {
			t := txn
			a, b := txn.ArbitraryData[0], txn.ArbitraryData[1]
			joined := append(append([]byte(nil), a...), b...)
			k := len(a) + by
			t.ArbitraryData = [][]byte{joined[:k], joined[k:]}
			return t
		}
		for _, by := range []int{-1, 1, len(txn.ArbitraryData[1])} {
			if k := len(txn.ArbitraryData[0]) + by; k < 6 || k > len(txn.ArbitraryData[0])+len(txn.ArbitraryData[1]) {
				continue
			}
			verr, ok := sc.offer([]types.Transaction{shift(by)}, nil, offerOpt{})
			w.expect("C03", "A1-v1-arbitrary-data-boundary-moved", verr, ok, false, fmt.Sprintf("after signing, the boundary between the two arbitrary-data entries is moved by %d bytes (same bytes, same number of entries)", by))
		}
	}})

	// ---- C03: naming the current subsidy address as the new Foundation address is an update like any other
	registerRows("C03", probeRow{"A5-v2-foundation-update-to-current-address", func(w *World, n *Node) {
		sc := n.fork()
		if !sc.v2ok() || sc.s.FoundationSubsidyAddress == sc.s.FoundationManagementAddress {
			return
		}
		for _, e := range sc.ownedSC(false, true) {
			if e.SiacoinOutput.Address == sc.s.FoundationManagementAddress {
				continue
			}
			for _, target := range []types.Address{sc.s.FoundationSubsidyAddress, sc.s.FoundationManagementAddress} {
				target := target
				t, ok := w.spendV2(sc.s, []types.SiacoinElement{e}, w.advAddr())
				if !ok {
					return
				}
				t.NewFoundationAddress = &target
				if !w.signAllV2(sc.s, &t) {
					return
				}
				verr, ok := sc.offer(nil, []types.V2Transaction{t}, offerOpt{})
				w.expect("C03", "A5-v2-unauthorized-update-to-current-address", verr, ok, false, fmt.Sprintf("a transaction spending no input of the management address sets the Foundation address to %v (subsidy address %v, management address %v)", target, sc.s.FoundationSubsidyAddress, sc.s.FoundationManagementAddress))
			}
			return
		}
	}})

	// ---- C03: a revision needs its signatures whatever else the transaction lacks
	registerRows("C03", probeRow{"A1-v1-revision-only-unsigned", func(w *World, n *Node) {
		sc := n.fork()
		if !sc.v1ok() {
			return
		}
		c := sc.pickLive(false, func(c *Contract) bool {
			fc := sc.store.FC[c.id].FileContract
			return fc.WindowStart > sc.child()+1 && fc.RevisionNumber < types.MaxRevisionNumber-4
		})
		if c == nil {
			return
		}
		cur := sc.store.FC[c.id].FileContract
		txn := w.reviseV1From(sc.s, c, cur, nil, 1)
		verr, ok := sc.offer([]types.Transaction{txn}, nil, offerOpt{})
		w.expect("C03", "A1-v1-revision-only-control", verr, ok, true, "a transaction consisting of one signed contract revision")
		if verr != nil || len(txn.Signatures) == 0 {
			return
		}
		for drop := len(txn.Signatures); drop >= 1; drop-- {
			t := txn
			t.Signatures = append([]types.TransactionSignature(nil), txn.Signatures[:len(txn.Signatures)-drop]...)
			verr, ok := sc.offer([]types.Transaction{t}, nil, offerOpt{})
			w.expect("C03", "A1-v1-revision-only-signatures-dropped", verr, ok, false, fmt.Sprintf("the same transaction with its last %d of %d signatures removed", drop, len(txn.Signatures)))
		}
	}})

	// ---- C04: contracts the supplement of a block without v1 transactions lists as expiring
	registerRows("C04", probeRow{"M1-v1-expiring-supplement", func(w *World, n *Node) {
		sc := n.fork()
		if !sc.v1ok() {
			return
		}
		try := func(row string, fce types.FileContractElement, detail string) {
			verr, ok := sc.offer(nil, nil, offerOpt{mutate: func(b *types.Block, bs *consensus.V1BlockSupplement) {
				bs.ExpiringFileContracts = append(bs.ExpiringFileContracts, fce)
			}})
			w.expect("C04", row, verr, ok, false, detail)
		}
		// a contract that never existed
		try("M1-v1-expiring-invented", types.FileContractElement{ID: types.FileContractID{3, 1, 4}, StateElement: types.StateElement{LeafIndex: uint64(w.tape.Choose(int(min(sc.s.Elements.NumLeaves, 1<<20))))},
			FileContract: types.FileContract{WindowStart: sc.child() - 1, WindowEnd: sc.child(), Payout: types.Siacoins(1000), MissedProofOutputs: []types.SiacoinOutput{{Value: types.Siacoins(961), Address: w.advAddr()}}}},
			"an empty block whose supplement lists a contract that never existed as expiring (its missed outputs would be created)")
		// a live contract with its missed outputs redirected
		if c := sc.pickLive(false, nil); c != nil {
			fce := sc.store.FC[c.id].Copy()
			fce.FileContract.MissedProofOutputs = append([]types.SiacoinOutput(nil), fce.FileContract.MissedProofOutputs...)
			if len(fce.FileContract.MissedProofOutputs) > 0 {
				fce.FileContract.MissedProofOutputs[0].Address = w.advAddr()
				if fce.FileContract.MissedProofOutputs[0].Address != sc.store.FC[c.id].FileContract.MissedProofOutputs[0].Address {
					try("M1-v1-expiring-altered", fce, fmt.Sprintf("an empty block whose supplement lists the live contract %v as expiring with its first missed output redirected", c.id))
				}
			}
		}
	}})

	// ---- C08: a Foundation address update riding along does not excuse the rest of the transaction
	registerRows("C08", probeRow{"K8-v2-early-expiration-with-foundation-update", func(w *World, n *Node) {
		sc := n.fork()
		if !sc.v2ok() {
			return
		}
		var mgmt *types.SiacoinElement
		for _, e := range sc.ownedSC(false, true) {
			e := e
			if e.SiacoinOutput.Address == sc.s.FoundationManagementAddress {
				mgmt = &e
				break
			}
		}
		c := sc.pickLive(true, func(c *Contract) bool { return sc.store.V2FC[c.id].V2FileContract.ExpirationHeight >= sc.child() })
		if mgmt == nil || c == nil {
			return
		}
		newAddr := w.wallets[len(w.wallets)-1].addrs[3].addr
		t, ok := w.spendV2(sc.s, []types.SiacoinElement{*mgmt}, w.advAddr())
		if !ok {
			return
		}
		t.NewFoundationAddress = &newAddr
		if !w.signAllV2(sc.s, &t) {
			return
		}
		verr, ok := sc.offer(nil, []types.V2Transaction{t}, offerOpt{})
		w.expect("C08", "K8-foundation-update-control", verr, ok, true, "Foundation address update spending an input of the management address")
		if verr != nil {
			return
		}
		e := sc.store.V2FC[c.id]
		t.FileContractResolutions = []types.V2FileContractResolution{{Parent: e.Copy(), Resolution: &types.V2FileContractExpiration{}}}
		if !w.signAllV2(sc.s, &t) {
			return
		}
		verr, ok = sc.offer(nil, []types.V2Transaction{t}, offerOpt{})
		w.expect("C08", "K8-early-expiration-with-foundation-update", verr, ok, false, fmt.Sprintf("the same transaction also expires v2 contract %v (expiration height %d) in the block at height %d", c.id, e.V2FileContract.ExpirationHeight, sc.child()))
	}})

	// ---- C07 / C08: a contract whose window lies ahead, revised and then "proven" in one block
	early := probeRow{"K3-v1-revised-then-proven-before-window", func(w *World, n *Node) {
		sc := n.fork()
		if !sc.v1ok() {
			return
		}
		c := sc.pickLive(false, func(c *Contract) bool {
			fc := sc.store.FC[c.id].FileContract
			_, known := c.dataFor(fc.FileMerkleRoot, fc.Filesize)
			return known && fc.Filesize > 0 && fc.WindowStart > sc.child()+1 && fc.RevisionNumber < types.MaxRevisionNumber-4
		})
		if c == nil {
			return
		}
		cur := sc.store.FC[c.id].FileContract
		data, _ := c.dataFor(cur.FileMerkleRoot, cur.Filesize)
		rev := w.reviseV1From(sc.s, c, cur, nil, 1)
		// the proof an early prover would build: the challenge taken from the parent block
		parent := sc.s.Index.ID
		idx := ref.ChallengeIndex(cur.Filesize, parent, c.id)
		leaves := ref.FileLeaves(data)
		sp := types.StorageProof{ParentID: c.id, Leaf: ref.LeafSegment(data, int(idx))}
		if len(leaves) > 0 {
			sp.Proof = ref.TreePath(leaves, int(idx))
		}
		prop := w.propAmong("C07", "C08")
		for _, withRevision := range []bool{true, false} {
			txns := []types.Transaction{{StorageProofs: []types.StorageProof{sp}}}
			if withRevision {
				txns = []types.Transaction{rev, txns[0]}
			}
			// (the supplement is the node's own, honest one: it names no window ID for
			// a window that has not opened)
			verr, ok := sc.offer(txns, nil, offerOpt{})
			w.expect(prop, fmt.Sprintf("K3-v1-proven-before-window-revised-in-block=%v", withRevision), verr, ok, false,
				fmt.Sprintf("v1 contract %v, whose proof window starts at height %d, is proven in the block at height %d against its parent block (revised by the previous transaction of the block: %v)", c.id, cur.WindowStart, sc.child(), withRevision))
		}
	}}
	registerRows("C07", early)
	registerRows("C08", early)

	// ---- C10: multiproofs over leaf indices in the upper half of the 64-bit range
	registerRows("C10", probeRow{"Z2-multiproof-high-leaf-indices", func(w *World, n *Node) {
		t := w.tape
		base := pick(t, uint64(1)<<63, uint64(1)<<63|uint64(1)<<40, ^uint64(0)-31, uint64(1)<<62)
		h := t.Range(1, 6)
		k := t.Range(2, 4)
		var txns []types.V2Transaction
		used := map[uint64]bool{}
		for i := 0; i < k; i++ {
			idx := base + uint64(t.Choose(1<<h))
			if used[idx] {
				continue
			}
			used[idx] = true
			el := types.SiacoinElement{ID: types.SiacoinOutputID{byte(i), 0x3c}, SiacoinOutput: types.SiacoinOutput{Value: types.Siacoins(1), Address: w.advAddr()}, StateElement: types.StateElement{LeafIndex: idx}}
			for j := 0; j < h; j++ {
				el.StateElement.MerkleProof = append(el.StateElement.MerkleProof, types.Hash256{byte(i), byte(j), 0x3c})
			}
			txns = append(txns, types.V2Transaction{SiacoinInputs: []types.V2SiacoinInput{{Parent: el, SatisfiedPolicy: types.SatisfiedPolicy{Policy: types.AnyoneCanSpend()}}}})
		}
		var buf bytes.Buffer
		e := types.NewEncoder(&buf)
		if p := guard(func() { types.V2TransactionsMultiproof(txns).EncodeTo(e); e.Flush() }); p != "" {
			return // not encodable: cannot arrive this way
		}
		var back types.V2TransactionsMultiproof
		d := types.NewBufDecoder(buf.Bytes())
		if p := guard(func() { back.DecodeFrom(d) }); p != "" {
			w.violate("C10", "decode-multiproof-panic", fmt.Sprintf("decoding the multiproof form of %d transactions whose parents sit at leaf indices from %d (proofs of %d hashes) panicked: %s", len(txns), base, h, p))
			return
		}
		w.stats.Inc("probe.Z2-multiproof-high-leaf-indices")
		w.stats.Inc("probe.crash")
		w.stats.Inc("probe.rows-run")
	}})

	// ---- C18: a transaction set that references every leaf of a tree (nothing of that tree is in the multiproof)
	registerRows("C18", probeRow{"V1-multiproof-fully-covered-tree", func(w *World, n *Node) {
		t := w.tape
		h := t.Range(0, 4)
		extra := t.Choose(8) // leaves in the smaller trees that follow
		total := uint64(1)<<h + uint64(extra)
		els := make([]types.SiacoinElement, total)
		f := &ref.Forest{}
		for i := range els {
			els[i] = types.SiacoinElement{ID: types.SiacoinOutputID{byte(i), byte(h), 0x18}, StateElement: types.StateElement{LeafIndex: uint64(i)},
				SiacoinOutput: types.SiacoinOutput{Value: types.Siacoins(uint32(i + 1)), Address: w.advAddr()}, MaturityHeight: uint64(i % 3)}
			f.Set(uint64(i), ref.LeafHash(ref.SiacoinElemHash(els[i].ID, els[i].SiacoinOutput, els[i].MaturityHeight), uint64(i), false))
		}
		var txns []types.V2Transaction
		add := func(i int) {
			el := els[i].Copy()
			el.StateElement.MerkleProof = f.Path(uint64(i))
			if len(txns) == 0 || t.Chance(1, 2) {
				txns = append(txns, types.V2Transaction{})
			}
			last := &txns[len(txns)-1]
			last.SiacoinInputs = append(last.SiacoinInputs, types.V2SiacoinInput{Parent: el, SatisfiedPolicy: types.SatisfiedPolicy{Policy: types.AnyoneCanSpend()}})
		}
		for i := 0; i < 1<<h; i++ { // the whole first tree
			add(i)
		}
		for i := 1 << h; i < int(total); i++ {
			if t.Chance(1, 2) {
				add(i)
			}
		}
		var want [][]byte
		for i := range txns {
			want = append(want, fullTxnBytes(txns[i]))
		}
		var buf bytes.Buffer
		e := types.NewEncoder(&buf)
		types.V2TransactionsMultiproof(txns).EncodeTo(e)
		e.Flush()
		var back types.V2TransactionsMultiproof
		d := types.NewBufDecoder(buf.Bytes())
		if p := guard(func() { back.DecodeFrom(d) }); p != "" {
			w.violate("C10", "decode-multiproof-panic", p)
			return
		}
		what := fmt.Sprintf("%d transactions referencing all %d leaves of the first tree of a %d-leaf accumulator (and %d of the others)", len(txns), 1<<h, total, len(want))
		if d.Err() != nil || len(back) != len(txns) {
			w.violate("C18", "multiproof-roundtrip-decode", fmt.Sprintf("%s: the multiproof form does not decode again: %v", what, d.Err()))
			return
		}
		for i := range txns {
			if !bytes.Equal(fullTxnBytes(back[i]), want[i]) {
				w.violate("C18", "multiproof-roundtrip", fmt.Sprintf("%s: transaction %d comes back with other proofs", what, i))
				return
			}
		}
		// a storage proof for a very large file (more than 2^32 leaves) inside a transaction
		{
			sp := &types.V2StorageProof{ProofIndex: types.ChainIndexElement{ID: types.BlockID{5}, ChainIndex: types.ChainIndex{Height: 7, ID: types.BlockID{5}}, StateElement: types.StateElement{LeafIndex: types.UnassignedLeafIndex}}}
			for j := t.Range(30, 45); j > 0; j-- {
				sp.Proof = append(sp.Proof, types.Hash256{byte(j), 0x77})
			}
			txn := types.V2Transaction{FileContractResolutions: []types.V2FileContractResolution{{Parent: types.V2FileContractElement{ID: types.FileContractID{6}, StateElement: types.StateElement{LeafIndex: types.UnassignedLeafIndex}}, Resolution: sp}}}
			enc := encAny(txn)
			var bt types.V2Transaction
			d := types.NewBufDecoder(enc)
			bt.DecodeFrom(d)
			if d.Err() != nil || !bytes.Equal(encAny(bt), enc) {
				w.violate(w.propAmong("C18", "C11"), "storage-proof-roundtrip", fmt.Sprintf("a v2 transaction carrying a storage proof of %d hashes (a file of more than 2^%d leaves) does not survive decode(encode()): %v", len(sp.Proof), len(sp.Proof)-1, d.Err()))
				return
			}
		}
		w.stats.Inc("probe.V1-multiproof-fully-covered-tree")
		w.stats.Inc("probe.rows-run")
	}})

	// ---- C04: leaf-index bits above the tree, a chain index whose block ID is altered, a contract that never existed
	registerRows("C04", probeRow{"M1-high-leaf-index-bits", func(w *World, n *Node) {
		sc := n.fork()
		if !sc.v2ok() {
			return
		}
		e, ok := pickSC(w, sc.ownedSC(false, true))
		if !ok {
			return
		}
		t1, ok := w.spendV2(sc.s, []types.SiacoinElement{e}, e.SiacoinOutput.Address)
		if !ok || sc.mine(nil, []types.V2Transaction{t1}) != nil {
			return
		}
		// the element as the spending block leaves it: spent, with a current proof
		var spent types.SiacoinElement
		for _, d := range sc.last.SiacoinElementDiffs() {
			if d.SiacoinElement.ID == e.ID && d.Spent {
				spent = d.SiacoinElement.Copy()
			}
		}
		if spent.ID != e.ID {
			return
		}
		for k := w.tape.Range(0, 3); k > 0; k-- {
			if !sc.extend(sc.nextTimestamp()) {
				return
			}
			sc.last.UpdateElementProof(&spent.StateElement)
		}
		for _, bit := range []uint{63, 57, 56, 55, 48, 40, 32} {
			p := spent.Copy()
			p.StateElement.LeafIndex ^= 1 << bit
			tx, ok := w.spendV2(sc.s, []types.SiacoinElement{p}, e.SiacoinOutput.Address)
			if !ok {
				return
			}
			verr, ok := sc.offer(nil, []types.V2Transaction{tx}, offerOpt{})
			w.expect("C04", "M1-spent-element-high-index-bit", verr, ok, false, fmt.Sprintf("siacoin output %v was spent on this fork; it is presented again with its current proof and bit %d of its leaf index (%d) flipped", e.ID, bit, spent.StateElement.LeafIndex))
		}
		// the live output the spend created, with the same bits flipped
		if live, ok := sc.store.SC[t1.SiacoinOutputID(t1.ID(), 0)]; ok && live.MaturityHeight <= sc.child() {
			bit := []uint{63, 56, 40, 32}[w.tape.Choose(4)]
			p := live.Copy()
			p.StateElement.LeafIndex ^= 1 << bit
			if tx, ok := w.spendV2(sc.s, []types.SiacoinElement{p}, e.SiacoinOutput.Address); ok {
				verr, ok := sc.offer(nil, []types.V2Transaction{tx}, offerOpt{})
				w.expect("C04", "M1-live-element-high-index-bit", verr, ok, false, fmt.Sprintf("live siacoin output with bit %d of its leaf index flipped", bit))
			}
		}
	}})
	chainID := probeRow{"M1-v2-chain-index-block-id", func(w *World, n *Node) {
		sc := n.fork()
		if !sc.v2ok() {
			return
		}
		c := sc.pickLive(true, func(c *Contract) bool {
			fc := sc.store.V2FC[c.id].V2FileContract
			_, known := c.dataFor(fc.FileMerkleRoot, fc.Filesize)
			return known && fc.Filesize > 0 && fc.ProofHeight+1 <= sc.child()+12
		})
		if c == nil {
			return
		}
		fc := sc.store.V2FC[c.id].V2FileContract
		if !sc.advanceTo(max(fc.ProofHeight+1, sc.child())) {
			return
		}
		data, _ := c.dataFor(fc.FileMerkleRoot, fc.Filesize)
		cie := sc.store.CI[fc.ProofHeight]
		fake := cie.Copy()
		fake.ChainIndex.ID[w.tape.Choose(32)] ^= 1 << w.tape.Choose(8)
		sp := w.storageProofV2(sc.s, fake, c.id, fc, data) // an honest proof of the leaf the altered ID selects
		verr, ok := sc.offer(nil, w.v2Resolve(sc, c.id, sp), offerOpt{})
		w.expect(w.propAmong("C04", "C07"), "M1-v2-chain-index-block-id", verr, ok, false, fmt.Sprintf("storage proof of v2 contract %v whose proof index is the genuine chain index element of height %d (same element ID, same history proof) except that the block ID inside it is altered", c.id, fc.ProofHeight))
	}}
	registerRows("C04", chainID)
	registerRows("C07", chainID)
	// the chain index element of an older ancestor, relabelled with the proof
	// height: presented before the block at the proof height exists, and after
	chainHeight := probeRow{"M1-v2-chain-index-relabelled", func(w *World, n *Node) {
		sc := n.fork()
		if !sc.v2ok() {
			return
		}
		c := sc.pickLive(true, func(c *Contract) bool {
			fc := sc.store.V2FC[c.id].V2FileContract
			_, known := c.dataFor(fc.FileMerkleRoot, fc.Filesize)
			return known && fc.Filesize > 0 && fc.ProofHeight+1 <= sc.child()+12 && fc.ProofHeight >= sc.child()
		})
		if c == nil {
			return
		}
		fc := sc.store.V2FC[c.id].V2FileContract
		data, _ := c.dataFor(fc.FileMerkleRoot, fc.Filesize)
		early := w.tape.Choose(2) == 0
		target := fc.ProofHeight + 1
		if early {
			target = fc.ProofHeight // the child is the block at the proof height itself: it is no ancestor yet
		}
		if !sc.advanceTo(max(target, sc.child())) || sc.child() != target {
			return
		}
		back := uint64(1 + w.tape.Choose(4))
		if back >= fc.ProofHeight {
			return
		}
		if fc.ProofHeight-back >= uint64(len(sc.store.CI)) {
			return
		}
		old := sc.store.CI[fc.ProofHeight-back]
		fake := old.Copy()
		fake.ChainIndex.Height = fc.ProofHeight
		sp := w.storageProofV2(sc.s, fake, c.id, fc, data) // an honest proof of the leaf the older block's ID selects
		verr, okv := sc.offer(nil, w.v2Resolve(sc, c.id, sp), offerOpt{})
		when := "after the proof height"
		if early {
			when = "in the block at the proof height, whose own index no proof can name yet"
		}
		w.expect(w.propAmong("C04", "C07", "C08"), "M1-v2-chain-index-relabelled", verr, okv, false, fmt.Sprintf("storage proof of v2 contract %v (proof height %d) %s, whose proof index is the genuine chain index element of height %d with its height field set to the proof height", c.id, fc.ProofHeight, when, fc.ProofHeight-back))
		w.stats.Inc("probe.M1-v2-chain-index-relabelled")
	}}
	registerRows("C04", chainHeight)
	registerRows("C07", chainHeight)
	registerRows("C08", chainHeight)
	registerRows("C04", probeRow{"M2-v2-invented-contract", func(w *World, n *Node) {
		sc := n.fork()
		if !sc.v2ok() {
			return
		}
		c := &Contract{renter: w.wallets[0], host: w.wallets[len(w.wallets)-1]}
		fc := types.V2FileContract{ProofHeight: sc.child() + 4, ExpirationHeight: sc.child() + 6, RenterOutput: types.SiacoinOutput{Value: types.Siacoins(50), Address: w.advAddr()}, HostOutput: types.SiacoinOutput{Value: types.Siacoins(50), Address: w.advAddr()},
			MissedHostValue: types.Siacoins(50), RenterPublicKey: c.renterKey().PublicKey(), HostPublicKey: c.hostKey().PublicKey()}
		w.signContractV2(sc.s, &fc, c.renterKey(), c.hostKey())
		for _, leaf := range []uint64{types.UnassignedLeafIndex, 0, sc.s.Elements.NumLeaves, ^uint64(0)} {
			el := types.V2FileContractElement{ID: types.FileContractID{9, 9, byte(leaf)}, StateElement: types.StateElement{LeafIndex: leaf}, V2FileContract: fc}
			rev := fc
			rev.RevisionNumber = 1
			w.signContractV2(sc.s, &rev, c.renterKey(), c.hostKey())
			t := types.V2Transaction{FileContractRevisions: []types.V2FileContractRevision{{Parent: el.Copy(), Revision: rev}}}
			verr, ok := sc.offer(nil, []types.V2Transaction{t}, offerOpt{})
			w.expect("C04", "M2-v2-invented-contract-revised", verr, ok, false, fmt.Sprintf("revision of a v2 contract that was never created (leaf index %d, no proof)", leaf))
			old := fc
			old.ProofHeight, old.ExpirationHeight = 0, 1
			w.signContractV2(sc.s, &old, c.renterKey(), c.hostKey())
			el.V2FileContract = old
			t = types.V2Transaction{FileContractResolutions: []types.V2FileContractResolution{{Parent: el.Copy(), Resolution: &types.V2FileContractExpiration{}}}}
			verr, ok = sc.offer(nil, []types.V2Transaction{t}, offerOpt{})
			w.expect("C04", "M2-v2-invented-contract-expired", verr, ok, false, fmt.Sprintf("expiration of a v2 contract that was never created (leaf index %d, no proof): its payouts would be minted", leaf))
		}
	}})
	// ---- C08: an immature output created earlier in the same v1 block
	registerRows("C08", probeRow{"T3-v1-immature-in-block", func(w *World, n *Node) {
		sc := n.fork()
		if !sc.v1ok() {
			return
		}
		dest := w.wallets[0].addrs[0]
		if dest.uc == nil {
			return
		}
		for _, id := range sc.store.sortedSF() {
			e := sc.store.SF[id]
			_, ai := w.ownerOf(e.SiafundOutput.Address)
			if ai == nil || ai.uc == nil || ai.uc.Timelock > sc.child() {
				continue
			}
			// the claim by definition: the output's share of the tax collected since it was created
			claim := sc.s.SiafundTaxRevenue.Sub(e.ClaimStart).Div64(10000).Mul64(e.SiafundOutput.Value)
			if claim.IsZero() {
				continue
			}
			t1 := types.Transaction{SiafundInputs: []types.SiafundInput{{ParentID: e.ID, UnlockConditions: *ai.uc, ClaimAddress: dest.addr}},
				SiafundOutputs: []types.SiafundOutput{{Value: e.SiafundOutput.Value, Address: e.SiafundOutput.Address}}}
			w.signAllV1(sc.s, &t1)
			verr, ok := sc.offer([]types.Transaction{t1}, nil, offerOpt{})
			w.expect("C08", "T3-v1-claim-control", verr, ok, true, fmt.Sprintf("v1 siafund spend claiming %v", claim))
			if verr != nil {
				return
			}
			t2 := types.Transaction{SiacoinInputs: []types.SiacoinInput{{ParentID: e.ID.ClaimOutputID(), UnlockConditions: *dest.uc}},
				SiacoinOutputs: []types.SiacoinOutput{{Value: claim, Address: w.advAddr()}}}
			w.signAllV1(sc.s, &t2)
			verr, ok = sc.offer([]types.Transaction{t1, t2}, nil, offerOpt{})
			w.expect("C08", fmt.Sprintf("T3-v1-claim-output-spent-in-block-delay>0=%v", w.net.MaturityDelay > 0), verr, ok, w.net.MaturityDelay == 0, fmt.Sprintf("the claim output (%v, maturity delay %d) of a v1 siafund spend is spent by the next transaction of the same block", claim, w.net.MaturityDelay))
			return
		}
	}})

	// ---- C08: a signature timelock on a key of an unknown algorithm
	registerRows("C08", probeRow{"T2-v1-signature-timelock-unknown-algorithm", func(w *World, n *Node) {
		sc := n.fork()
		if !sc.v1ok() {
			return
		}
		var cands []types.SiacoinElement
		ucOf := map[types.Address]*types.UnlockConditions{}
		for _, wl := range w.wallets {
			for _, ai := range wl.addrs {
				if ai.kind == "uc-odd-algorithm" && ai.uc != nil {
					ucOf[ai.addr] = ai.uc
				}
			}
		}
		for _, id := range sc.store.sortedSC() {
			e := sc.store.SC[id]
			if ucOf[e.SiacoinOutput.Address] != nil && e.MaturityHeight <= sc.child() && !e.SiacoinOutput.Value.IsZero() {
				cands = append(cands, e)
			}
		}
		e, ok := pickSC(w, cands)
		if !ok {
			return
		}
		uc := *ucOf[e.SiacoinOutput.Address]
		T := sc.child() + uint64(w.tape.Range(1, 6))
		if T+1 >= w.net.HardforkV2.RequireHeight {
			return
		}
		id := e.ID
		w.boundary(sc, "T2-v1-signature-timelock-unknown-algorithm", T, func(sc *scratch) ([]types.Transaction, []types.V2Transaction, bool) {
			cur, ok := sc.store.SC[id]
			if !ok {
				return nil, nil, false
			}
			// key 0 is of an algorithm nobody can check: whatever signature it carries counts, its timelock all the same
			txn := types.Transaction{SiacoinInputs: []types.SiacoinInput{{ParentID: id, UnlockConditions: uc}}, SiacoinOutputs: []types.SiacoinOutput{{Value: cur.SiacoinOutput.Value, Address: w.advAddr()}},
				Signatures: []types.TransactionSignature{{ParentID: types.Hash256(id), PublicKeyIndex: 0, Timelock: T, CoveredFields: types.CoveredFields{WholeTransaction: true}, Signature: []byte{1, 2, 3}}}}
			return []types.Transaction{txn}, nil, true
		}, fmt.Sprintf("v1 spend of %v authorised by a key of an unknown algorithm whose signature carries timelock %d", id, T))
	}})

	// ---- C08: a contract that never expires
	registerRows("C08", probeRow{"K8-v2-never-expires", func(w *World, n *Node) {
		sc := n.fork()
		if !sc.v2ok() {
			return
		}
		funder, ok := pickSC(w, sc.ownedSC(false, true))
		if !ok {
			return
		}
		c := &Contract{renter: w.wallets[0], host: w.wallets[len(w.wallets)-1]}
		exp := []uint64{^uint64(0), ^uint64(0) - 1}[w.tape.Choose(2)]
		fc := types.V2FileContract{ProofHeight: sc.child() + 1, ExpirationHeight: exp, RenterOutput: types.SiacoinOutput{Value: types.Siacoins(1), Address: w.advAddr()}, HostOutput: types.SiacoinOutput{Value: types.Siacoins(1), Address: w.advAddr()},
			MissedHostValue: types.Siacoins(1), RenterPublicKey: c.renterKey().PublicKey(), HostPublicKey: c.hostKey().PublicKey()}
		w.signContractV2(sc.s, &fc, c.renterKey(), c.hostKey())
		cost := types.Siacoins(2).Add(sc.s.V2FileContractTax(fc))
		if funder.SiacoinOutput.Value.Cmp(cost) < 0 {
			return
		}
		t := types.V2Transaction{FileContracts: []types.V2FileContract{fc}, SiacoinInputs: []types.V2SiacoinInput{{Parent: funder.Copy()}}}
		if ch := funder.SiacoinOutput.Value.Sub(cost); !ch.IsZero() {
			t.SiacoinOutputs = []types.SiacoinOutput{{Value: ch, Address: funder.SiacoinOutput.Address}}
		}
		if !w.signAllV2(sc.s, &t) {
			return
		}
		if err := sc.mine(nil, []types.V2Transaction{t}); err != nil {
			w.violate("C08", "probe-K8-never-expires-formation-rejected", fmt.Sprintf("formation of a v2 contract with proof height %d and expiration height %d rejected: %v", fc.ProofHeight, exp, err))
			return
		}
		id := t.V2FileContractID(t.ID(), 0)
		for k := w.tape.Range(0, 4); k >= 0; k-- {
			if _, ok := sc.store.V2FC[id]; !ok {
				return
			}
			verr, ok := sc.offer(nil, w.v2Resolve(sc, id, &types.V2FileContractExpiration{}), offerOpt{})
			w.expect("C08", "K8-v2-never-expires", verr, ok, false, fmt.Sprintf("v2 contract with expiration height %d expired at child height %d", exp, sc.child()))
			if k > 0 && !sc.extend(sc.nextTimestamp()) {
				return
			}
		}
	}})

	// ---- C09: encoding a transaction set in multiproof form leaves the set as it was
	registerRows("C09", probeRow{"U1-multiproof-encode-keeps-input", func(w *World, n *Node) { w.multiproofEncodePure() }})
}

// multiproofEncodePure: a synthetic transaction set whose referenced leaves
// fill a whole subtree (the multiproof of which is short or empty) is encoded
// in multiproof form; the set must be what it was. Called inline by the C09
// profile, which runs no probe rows.
func (w *World) multiproofEncodePure() {
	{
		t := w.tape
		h := t.Range(0, 3)     // height of the subtree the referenced leaves fill
		extra := t.Range(0, 2) // proof hashes above it (0: the leaves fill a whole tree)
		base := uint64(t.Choose(4)) << (h + extra)
		var txns []types.V2Transaction
		per := t.Range(1, 2)
		for i := 0; i < 1<<h; i++ {
			el := types.SiacoinElement{ID: types.SiacoinOutputID{byte(i), 7}, SiacoinOutput: types.SiacoinOutput{Value: types.Siacoins(1), Address: w.advAddr()},
				StateElement: types.StateElement{LeafIndex: base + uint64(i)}}
			for j := 0; j < h+extra; j++ {
				el.StateElement.MerkleProof = append(el.StateElement.MerkleProof, types.Hash256{byte(i), byte(j), 3})
			}
			if len(txns) == 0 || len(txns[len(txns)-1].SiacoinInputs) >= per {
				txns = append(txns, types.V2Transaction{})
			}
			last := &txns[len(txns)-1]
			last.SiacoinInputs = append(last.SiacoinInputs, types.V2SiacoinInput{Parent: el, SatisfiedPolicy: types.SatisfiedPolicy{Policy: types.AnyoneCanSpend()}})
		}
		var before [][]byte
		for i := range txns {
			before = append(before, fullTxnBytes(txns[i]))
		}
		var buf bytes.Buffer
		e := types.NewEncoder(&buf)
		if p := guard(func() { types.V2TransactionsMultiproof(txns).EncodeTo(e); e.Flush() }); p != "" {
			return // a synthetic set the encoder cannot take says nothing
		}
		for i := range txns {
			if !bytes.Equal(fullTxnBytes(txns[i]), before[i]) {
				w.violate("C09", "encode-mutates-input", fmt.Sprintf("V2TransactionsMultiproof.EncodeTo changed the transactions it was given: transaction %d of %d (leaves %d..%d filling a subtree of height %d, %d proof hashes above it) differs after encoding", i, len(txns), base, base+1<<h-1, h, extra))
				return
			}
		}
		w.stats.Inc("probe.U1-multiproof-encode-keeps-input")
	}
}
