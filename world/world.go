// Package world is engine E1 ("simchain"): a small Sia network in one
// process. Full nodes, miners, wallets, renters/hosts and an adversary are
// stubs written for the harness; everything that decides validity, state
// transition, IDs, hashes, encodings and proofs is the real library.
package world

import (
	"bytes"
	"container/heap"
	"errors"
	"fmt"
	"runtime/debug"
	"sort"
	"strings"
	"time"

	"go.sia.tech/core/consensus"
	"go.sia.tech/core/types"
	"verif/ref"
	"verif/sim"
)

type event struct {
	at  int64 // simulated seconds since epoch
	seq uint64
	run func()
	tag string
}
type eventHeap []*event

func (h eventHeap) Len() int { return len(h) }
func (h eventHeap) Less(i, j int) bool {
	if h[i].at != h[j].at {
		return h[i].at < h[j].at
	}
	return h[i].seq < h[j].seq
}
func (h eventHeap) Swap(i, j int) { h[i], h[j] = h[j], h[i] }
func (h *eventHeap) Push(x any)   { *h = append(*h, x.(*event)) }
func (h *eventHeap) Pop() any {
	old := *h
	n := len(old)
	x := old[n-1]
	*h = old[:n-1]
	return x
}

// Miner is a stub miner attached to a node.
type Miner struct {
	idx   int
	home  int
	addr  types.Address
	skew  time.Duration
	style string // honest, future, lazy
}

// World is one simulated run.
type World struct {
	shareAs     string // set while a shared probe row runs: the property its verdicts are reported under
	inProbe     bool
	concSamples []concSample
	noiseCtr    uint64
	tape        *sim.Tape
	log         *sim.Log
	stats       sim.Stats
	cfg         *Config
	tier        string

	net     *consensus.Network
	params  *ref.Params
	genesis types.Block

	now   int64 // simulated seconds since epoch
	q     eventHeap
	seq   uint64
	step  int
	fatal bool // a violation made the run meaningless; stop

	nodes     []*Node
	miners    []*Miner
	wallets   []*Wallet
	lights    []*Light
	contracts []*Contract

	ledgers   map[types.BlockID]*ref.Ledger
	badLedger map[types.BlockID]bool

	partition []int // group per node; all equal = no partition
	quiet     bool  // no more faults

	mined      int
	maxReorg   int
	viols      []sim.Violation
	harness    string
	reach      map[string]bool
	nontrivial bool
	samples    []string

	adv          *Adversary
	seenIDs      map[types.Hash256]string // C12: every derived ID ever seen -> kind
	stateByBlock map[types.BlockID]string
}

func (w *World) wall() time.Time { return epoch.Add(time.Duration(w.now) * time.Second) }

func (w *World) after(d int64, tag string, f func()) {
	if d < 0 {
		d = 0
	}
	w.seq++
	heap.Push(&w.q, &event{at: w.now + d, seq: w.seq, run: f, tag: tag})
}

func (w *World) violate(prop, inv, detail string) {
	for _, v := range w.viols {
		if v.Property == prop && v.Invariant == inv {
			return // one per class per run is enough
		}
	}
	w.viols = append(w.viols, sim.Violation{Property: prop, Invariant: inv, Detail: detail, Step: w.step})
	w.log.Addf("t=%d ev=VIOLATION %s/%s", w.now, prop, inv)
}

func (w *World) harnessErr(f string, a ...any) {
	if w.harness == "" {
		w.harness = fmt.Sprintf(f, a...)
	}
	w.fatal = true
}

// Run executes one simulated run of the given profile.
func Run(t *sim.Tape, profile, tier string) (res *sim.RunResult) {
	if profile == "C13" {
		return RunHeaders(t, tier)
	}
	start := time.Now()
	w := &World{tape: t, log: sim.NewLog(max(200, debugKeep)), stats: sim.Stats{}, tier: tier,
		ledgers: map[types.BlockID]*ref.Ledger{}, badLedger: map[types.BlockID]bool{}, reach: map[string]bool{}, seenIDs: map[types.Hash256]string{}, stateByBlock: map[types.BlockID]string{}}
	res = &sim.RunResult{Engine: "E1", Profile: profile}
	defer func() {
		if r := recover(); r != nil {
			var he *harnessPanic
			if e, ok := r.(error); ok && errors.As(e, &he) {
				w.harness = he.msg
			} else {
				w.harness = fmt.Sprintf("harness panic: %v @ %s", r, harnessSite(debug.Stack()))
			}
		}
		res.TapeLen = t.Len()
		res.Events = w.log.N()
		res.LogHash = w.log.Hash()
		res.SimSeconds = float64(w.now)
		res.WallMs = float64(time.Since(start).Microseconds()) / 1000
		res.Stats = w.stats
		res.Violations = w.viols
		res.HarnessErr = w.harness
		res.Nontrivial = w.nontrivial
		for k := range w.reach {
			res.Reach = append(res.Reach, k)
		}
		sort.Strings(res.Reach)
		res.Sample = w.sample()
		if t.Exceeds && res.HarnessErr == "" {
			res.HarnessErr = "choice tape exceeded its cap"
		}
	}()
	w.cfg = drawConfig(t, profile, tier)
	w.setup()
	w.loop()
	if !w.fatal && !w.ownViolation() {
		w.quiesce()
	}
	w.finish()
	return res
}

type harnessPanic struct{ msg string }

func (h *harnessPanic) Error() string { return h.msg }

func (w *World) sample() []string {
	s := []string{fmt.Sprintf("cfg era=%s nodes=%d miners=%d wallets=%d lights=%d maxBlocks=%d interval=%v maturity=%d allow=%d require=%d",
		w.cfg.Era, w.cfg.Nodes, w.cfg.Miners, w.cfg.Wallets, w.cfg.Lights, w.cfg.MaxBlocks, w.net.BlockInterval, w.net.MaturityDelay, w.net.HardforkV2.AllowHeight, w.net.HardforkV2.RequireHeight)}
	s = append(s, w.samples...)
	tail := w.log.Tail(12)
	return append(s, tail...)
}

func (w *World) setup() {
	t := w.tape
	c := w.cfg
	w.net = drawNetwork(t, c)
	// foundation addresses belong to wallet 0 (set after wallets exist)
	for i := 0; i < c.Wallets; i++ {
		w.wallets = append(w.wallets, nil)
	}
	// wallets need the network for time-based policies
	for i := range w.wallets {
		w.wallets[i] = newWallet(w, i, t.Choose(c.Nodes))
	}
	w.net.HardforkFoundation.PrimaryAddress = w.wallets[0].addrs[0].addr
	w.net.HardforkFoundation.FailsafeAddress = w.wallets[len(w.wallets)-1].addrs[1].addr
	w.net.HardforkDevAddr.OldAddress = w.wallets[0].addrs[2].addr
	w.net.HardforkDevAddr.NewAddress = w.wallets[len(w.wallets)-1].addrs[0].addr
	w.params = refParams(w.net)

	// genesis block: one v1 transaction with the initial allocation
	var gtx types.Transaction
	for _, wl := range w.wallets {
		for k := 0; k < t.Range(2, 5); k++ {
			ai := wl.addrs[t.Choose(3)] // v1-style addresses only
			gtx.SiacoinOutputs = append(gtx.SiacoinOutputs, types.SiacoinOutput{
				Value: types.Siacoins(uint32(t.Range(100, 5000))), Address: ai.addr})
		}
	}
	holders := t.Range(1, 6)
	left := uint64(10000)
	for h := 0; h < holders; h++ {
		v := left
		if h < holders-1 {
			v = uint64(t.Range(1, int(left)-(holders-h-1)))
		}
		left -= v
		wl := w.wallets[t.Choose(len(w.wallets))]
		gtx.SiafundOutputs = append(gtx.SiafundOutputs, types.SiafundOutput{Value: v, Address: wl.addrs[t.Choose(2)].addr})
	}
	w.genesis = types.Block{Timestamp: epoch, Transactions: []types.Transaction{gtx}}

	for i := 0; i < c.Nodes; i++ {
		n := &Node{w: w, idx: i, blocks: map[types.BlockID]*blockEntry{}, store: newStore(), orphans: map[types.BlockID][]types.Block{}}
		if c.SkewMax > 0 {
			n.skew = time.Duration(t.Range(0, int(c.SkewMax/time.Second))) * time.Second
			if t.Chance(1, 2) {
				n.skew = -n.skew
			}
		}
		w.nodes = append(w.nodes, n)
		w.partition = append(w.partition, 0)
	}
	gs := w.net.GenesisState()
	for _, n := range w.nodes {
		bs := consensus.V1BlockSupplement{Transactions: make([]consensus.V1TransactionSupplement, 1)}
		ns, au := consensus.ApplyBlock(gs, w.genesis, bs, time.Time{})
		id := w.genesis.ID()
		e := &blockEntry{b: w.genesis, id: id, height: 0, hstate: ns, applied: true, state: ns, supp: bs, stateEnc: encodeState(ns)}
		n.blocks[id] = e
		n.best = []types.BlockID{id}
		n.tip = ns
		n.store.apply(au)
		if _, ok := w.ledgers[id]; !ok {
			l, err := ref.NewLedger(w.params).Apply(w.genesis, nil)
			if err != nil {
				panic(&harnessPanic{"genesis ledger: " + err.Error()})
			}
			w.ledgers[id] = l
		}
		w.checkNode(n, e, "genesis")
	}
	for i := 0; i < c.Miners; i++ {
		m := &Miner{idx: i, home: t.Choose(c.Nodes), style: pick(t, "honest", "honest", "future", "lazy")}
		wl := w.wallets[t.Choose(len(w.wallets))]
		m.addr = wl.addrs[0].addr
		w.miners = append(w.miners, m)
		w.scheduleMine(m)
	}
	for i := range w.wallets {
		w.scheduleActor(i)
	}
	w.setupExtras()
	w.log.Addf("setup era=%s nodes=%d miners=%d wallets=%d interval=%v", c.Era, c.Nodes, c.Miners, c.Wallets, w.net.BlockInterval)
}

func (w *World) interval() int64 { return int64(w.net.BlockInterval / time.Second) }

func (w *World) scheduleMine(m *Miner) {
	// inter-arrival: 1 … 2*interval*miners seconds (mean ≈ interval per block overall)
	iv := w.interval() * int64(len(w.miners))
	d := int64(w.tape.Range(1, 20)) * iv / 10
	w.after(d, "mine", func() { w.mine(m) })
}

func (w *World) scheduleActor(i int) {
	d := int64(w.tape.Range(1, 30)) * w.interval() / 10
	w.after(d, "actor", func() { w.act(i) })
}

func (w *World) loop() {
	for w.q.Len() > 0 && !w.fatal && !w.ownViolation() {
		if w.mined >= w.cfg.MaxBlocks || w.step >= w.cfg.MaxSteps {
			return
		}
		ev := heap.Pop(&w.q).(*event)
		w.now = ev.at
		w.step++
		ev.run()
	}
}

// ---- network ----

type msg struct {
	kind string
	from int
	data []byte
}

func (w *World) connected(a, b int) bool { return w.partition[a] == w.partition[b] }

func (w *World) send(from, to int, kind string, data []byte) {
	t := w.tape
	c := w.cfg
	if !w.connected(from, to) {
		w.stats.Inc("fault.partition-drop")
		return
	}
	if w.nodes[to].crashed {
		w.stats.Inc("fault.crashed-drop")
		return
	}
	lat := int64(t.Range(1, 5))
	if !w.quiet {
		if t.Chance(c.DropPM, 1000) {
			w.stats.Inc("fault.drop")
			return
		}
		if t.Chance(c.ReorderPM, 1000) {
			lat += int64(t.Range(1, 4)) * w.interval()
			w.stats.Inc("fault.reorder-delay")
		}
		if t.Chance(c.CorruptPM, 1000) && len(data) > 0 {
			data = append([]byte(nil), data...)
			switch t.Choose(3) {
			case 0:
				i := t.Choose(len(data))
				data[i] ^= 1 << t.Choose(8)
				w.stats.Inc("fault.bitflip")
			case 1:
				data = data[:t.Choose(len(data))]
				w.stats.Inc("fault.truncate")
			default:
				i := t.Choose(len(data))
				data = append(data[:i:i], data[len(data)-i:]...)
				w.stats.Inc("fault.splice")
			}
		}
		if t.Chance(c.DupPM, 1000) {
			w.stats.Inc("fault.duplicate")
			d2 := append([]byte(nil), data...)
			w.after(lat+int64(t.Range(1, 30)), "deliver", func() { w.deliver(to, msg{kind, from, d2}) })
		}
	}
	w.stats.Inc("net.sent")
	w.after(lat, "deliver", func() { w.deliver(to, msg{kind, from, data}) })
}

func (w *World) broadcast(from int, kind string, data []byte) {
	for i := range w.nodes {
		if i != from {
			w.send(from, i, kind, data)
		}
	}
}

func (w *World) deliver(to int, m msg) {
	n := w.nodes[to]
	if n.crashed {
		return
	}
	w.stats.Inc("net.delivered")
	switch m.kind {
	case "block":
		var b types.Block
		var err error
		if p := guard(func() { b, err = decodeBlock(m.data) }); p != "" {
			w.violate("C10", "decode-block-panic", p)
			return
		}
		if err != nil {
			w.stats.Inc("node.undecodable")
			return
		}
		w.nodeBlock(n, b, m.from, true)
	case "blocks":
		d := types.NewBufDecoder(m.data)
		var bs []types.V2Block
		if p := guard(func() { types.DecodeSlice(d, &bs) }); p != "" {
			w.violate("C10", "decode-blocks-panic", p)
			return
		}
		if d.Err() != nil {
			w.stats.Inc("node.undecodable")
			return
		}
		for _, b := range bs {
			w.nodeBlock(n, types.Block(b), m.from, false)
		}
	case "getblocks":
		w.serveBlocks(n, m)
	case "txns":
		w.nodeTxns(n, m)
	}
}

func (w *World) nodeBlock(n *Node, b types.Block, from int, mayAsk bool) {

	// hold back blocks from the future (node policy, not a consensus rule)
	if b.Timestamp.After(n.tip.MaxFutureTimestamp(n.clock())) {
		if b.Timestamp.After(n.clock().Add(15 * time.Hour)) {
			w.stats.Inc("node.drop-far-future")
			return
		}
		if n.held < 50 {
			n.held++
			w.stats.Inc("node.held-future")
			wait := int64(b.Timestamp.Sub(n.tip.MaxFutureTimestamp(n.clock()))/time.Second) + 1
			w.after(wait, "held", func() { n.held--; w.nodeBlock(n, b, from, mayAsk) })
		}
		return
	}
	known := n.receiveBlock(b)
	stuck := known && n.hasInvalidAncestor(b.ID())
	if !known || stuck {
		// orphan (or a branch hanging off a copy we could not validate):
		// remember it and ask the sender for the branch
		if !known && len(n.orphans) < 64 {
			n.orphans[b.ParentID] = append(n.orphans[b.ParentID], b)
		}
		w.stats.Inc("node.orphan")
		if mayAsk && from >= 0 {
			var buf bytes.Buffer
			e := types.NewEncoder(&buf)
			// locator: tip, then exponentially sparser ancestors
			var loc []types.BlockID
			step := 1
			for i := len(n.best) - 1; i >= 0; i -= step {
				loc = append(loc, n.best[i])
				if len(loc) > 8 {
					step *= 2
				}
			}
			loc = append(loc, n.best[0])
			types.EncodeSlice(e, loc)
			e.Flush()
			w.send(n.idx, from, "getblocks", buf.Bytes())
		}
	}
}

func (w *World) serveBlocks(n *Node, m msg) {
	d := types.NewBufDecoder(m.data)
	var loc []types.BlockID
	if p := guard(func() { types.DecodeSlice(d, &loc) }); p != "" {
		w.violate("C10", "decode-locator-panic", p)
		return
	}
	if d.Err() != nil {
		return
	}
	start := 0
	for _, id := range loc {
		if e, ok := n.blocks[id]; ok && e.height < uint64(len(n.best)) && n.best[e.height] == id {
			start = int(e.height)
			break
		}
	}
	// stand-in for the iterated locator exchange of a real sync: skip what the
	// requester already holds of our best chain.
	peer := w.nodes[m.from]
	for start+1 < len(n.best) {
		if pe, ok := peer.blocks[n.best[start+1]]; !ok || pe.invalid {
			break
		}
		start++
	}
	if debugHook != nil && w.quiet {
		w.log.Addf("DBG serve from=%d to=%d loc=%d start=%d best=%d", n.idx, m.from, len(loc), start, len(n.best))
	}
	var out []types.V2Block
	for h := start + 1; h < len(n.best) && len(out) < 30; h++ {
		out = append(out, types.V2Block(n.blocks[n.best[h]].b))
	}
	if len(out) == 0 {
		return
	}
	var buf bytes.Buffer
	e := types.NewEncoder(&buf)
	types.EncodeSlice(e, out)
	e.Flush()
	w.send(n.idx, m.from, "blocks", buf.Bytes())
}

func encodeTxns(v1 []types.Transaction, v2 []types.V2Transaction) []byte {
	var buf bytes.Buffer
	e := types.NewEncoder(&buf)
	types.EncodeSlice(e, v1)
	types.EncodeSlice(e, v2)
	e.Flush()
	return buf.Bytes()
}

func (w *World) nodeTxns(n *Node, m msg) {
	d := types.NewBufDecoder(m.data)
	var v1 []types.Transaction
	var v2 []types.V2Transaction
	if p := guard(func() { types.DecodeSlice(d, &v1); types.DecodeSlice(d, &v2) }); p != "" {
		w.violate("C10", "decode-txns-panic", p)
		return
	}
	if d.Err() != nil {
		w.stats.Inc("node.undecodable")
		return
	}
	for i := range v1 {
		t := v1[i]
		if n.submit(&PoolTxn{V1: &t, ID: t.ID(), From: -1, Kind: "relayed"}) == nil {
			w.stats.Inc("pool.relayed-accepted")
		} else {
			w.stats.Inc("pool.relayed-rejected")
		}
	}
	for i := range v2 {
		t := v2[i]
		if n.submit(&PoolTxn{V2: &t, ID: t.ID(), From: -1, Kind: "relayed"}) == nil {
			w.stats.Inc("pool.relayed-accepted")
		} else {
			w.stats.Inc("pool.relayed-rejected")
		}
	}
}

// ---- mining ----

// sealBlock grinds a nonce for b as a child of s.
func sealBlock(s consensus.State, b *types.Block) {
	f := s.NonceFactor()
	hdr := b.Header()
	hdr.Nonce -= hdr.Nonce % f
	target := s.PoWTarget()
	for hdr.ID().CmpWork(target) < 0 {
		hdr.Nonce += f
	}
	b.Nonce = hdr.Nonce
}

func (w *World) blockTimestamp(m *Miner, n *Node, s consensus.State) time.Time {
	ts := n.clock().Add(m.skew).Truncate(time.Second)
	med := medianTimestamp(s)
	switch m.style {
	case "future":
		if w.tape.Chance(1, 3) {
			ts = ts.Add(time.Duration(w.tape.Range(1, 5)) * time.Hour)
			w.stats.Inc("workload.future-timestamp")
		}
	case "lazy":
		if w.tape.Chance(1, 2) {
			ts = med
			w.stats.Inc("workload.median-timestamp")
		}
	}
	if ts.Before(med) {
		ts = med
	}
	// wire timestamps have second resolution; the median of an even number of
	// timestamps may fall on a half second, so round up.
	if r := ts.Truncate(time.Second); r.Before(ts) {
		ts = r.Add(time.Second)
	}
	return ts
}

// assemble builds a block on state s (full state of the parent) with the given
// transactions.
func (w *World) assemble(s consensus.State, ts time.Time, addr types.Address, v1 []types.Transaction, v2 []types.V2Transaction, splitPayout bool) types.Block {
	reward := s.BlockReward()
	for i := range v1 {
		for _, f := range v1[i].MinerFees {
			reward = reward.Add(f)
		}
	}
	for i := range v2 {
		reward = reward.Add(v2[i].MinerFee)
	}
	b := types.Block{ParentID: s.Index.ID, Timestamp: ts, Transactions: v1}
	child := s.Index.Height + 1
	b.MinerPayouts = []types.SiacoinOutput{{Value: reward, Address: addr}}
	if child >= w.net.HardforkV2.AllowHeight {
		b.V2 = &types.V2BlockData{Height: child, Transactions: v2}
		b.V2.Commitment = s.Commitment(addr, b.Transactions, b.V2Transactions())
	} else if splitPayout {
		a := reward.Div64(3)
		if !a.IsZero() {
			b.MinerPayouts = []types.SiacoinOutput{{Value: a, Address: addr}, {Value: reward.Sub(a), Address: addr}}
		}
	}
	sealBlock(s, &b)
	return b
}

func (w *World) mine(m *Miner) {
	defer func() {
		if !w.quiet {
			w.scheduleMine(m)
		}
	}()
	n := w.nodes[m.home]
	if n.crashed {
		return
	}
	t := w.tape
	parent := n.tipEntry()
	side := false
	if !w.quiet && t.Chance(w.cfg.SideMinePM, 1000) && len(n.best) > 2 {
		back := t.Range(1, min(4, len(n.best)-1))
		parent = n.blocks[n.best[len(n.best)-1-back]]
		side = true
		w.stats.Inc("fault.side-mine")
	}
	s := parent.state
	var v1 []types.Transaction
	var v2 []types.V2Transaction
	if !side {
		n.revalidatePool()
		k := t.Range(0, w.cfg.TxnsPerBlockMax)
		for _, pt := range n.pool {
			if k == 0 {
				break
			}
			k--
			if pt.V1 != nil {
				v1 = append(v1, *pt.V1)
			} else {
				v2 = append(v2, pt.V2.DeepCopy())
			}
		}
		// pool order may interleave v1 and v2; a block applies all v1 first.
		// Re-validate the chosen set in block order and drop what no longer fits.
		v1, v2 = n.fitBlock(v1, v2)
	}
	b := w.assemble(s, w.blockTimestamp(m, n, s), m.addr, v1, v2, t.Chance(1, 5))
	w.mined++
	w.log.Addf("t=%d miner=%d node=%d ev=mine id=%s h=%d side=%v txns=%d/%d", w.now, m.idx, n.idx, short(b.ID()), parent.height+1, side, len(v1), len(v2))
	w.stats.Inc("world.mined")
	enc := encodeBlock(b)
	w.onWire("block", b, enc)
	w.nodeBlock(n, b, -1, false)
	w.broadcast(n.idx, "block", enc)
	if !w.quiet && t.Chance(w.cfg.PartitionPM, 1000) {
		w.startPartition()
	}
	if !w.quiet && t.Chance(w.cfg.CrashPM, 1000) {
		w.crashNode(w.nodes[t.Choose(len(w.nodes))])
	}
}

// fitBlock keeps the transactions that validate in block order (v1 first).
func (n *Node) fitBlock(v1 []types.Transaction, v2 []types.V2Transaction) ([]types.Transaction, []types.V2Transaction) {
	ms := consensus.NewMidState(n.tip)
	var o1 []types.Transaction
	var o2 []types.V2Transaction
	var weight uint64
	for i := range v1 {
		pt := &PoolTxn{V1: &v1[i]}
		wt := n.tip.TransactionWeight(v1[i])
		if weight+wt > n.tip.MaxBlockWeight() {
			continue
		}
		if n.validateInto(ms, pt) == nil {
			o1 = append(o1, v1[i])
			weight += wt
		}
	}
	for i := range v2 {
		pt := &PoolTxn{V2: &v2[i]}
		wt := n.tip.V2TransactionWeight(v2[i])
		if weight+wt > n.tip.MaxBlockWeight() {
			continue
		}
		if n.validateInto(ms, pt) == nil {
			o2 = append(o2, v2[i])
			weight += wt
		}
	}
	return o1, o2
}

func (w *World) startPartition() {
	if len(w.nodes) < 2 {
		return
	}
	t := w.tape
	for i := range w.partition {
		w.partition[i] = t.Choose(2)
	}
	w.stats.Inc("fault.partition")
	w.log.Addf("t=%d ev=partition groups=%v", w.now, w.partition)
	w.after(int64(t.Range(1, 8))*w.interval(), "heal", func() { w.heal() })
}

func (w *World) heal() {
	for i := range w.partition {
		w.partition[i] = 0
	}
	w.stats.Inc("fault.heal")
	w.log.Addf("t=%d ev=heal", w.now)
	// after a heal nodes announce their tips (as a real node does on connect)
	for _, n := range w.nodes {
		if !n.crashed {
			w.broadcast(n.idx, "block", encodeBlock(n.tipEntry().b))
		}
	}
}

// ---- actors ----

func (w *World) act(i int) {
	if w.quiet {
		return
	}
	defer w.scheduleActor(i)
	wl := w.wallets[i]
	n := w.nodes[wl.home]
	if n.crashed {
		return
	}
	c := w.cfg
	child := n.tip.Index.Height + 1
	v1ok := child < w.net.HardforkV2.RequireHeight
	v2ok := child >= w.net.HardforkV2.AllowHeight
	var pts []*PoolTxn
	switch w.tape.Weighted(c.WPay, c.WEphemeral, c.WSiafund, c.WContractV1+c.WContractV2, c.WPolicy, c.WFoundation, c.WAttest) {
	case 0:
		if v2ok && (!v1ok || w.tape.Chance(1, 2)) {
			pts = w.buildPayV2(wl, n, 0)
		} else if v1ok {
			if pt := w.buildPayV1(wl, n); pt != nil {
				pts = []*PoolTxn{pt}
			}
		}
	case 1:
		if v2ok {
			pts = w.buildPayV2(wl, n, w.tape.Range(1, 3))
		}
	case 2:
		var pt *PoolTxn
		if v2ok && (!v1ok || w.tape.Chance(1, 2)) {
			pt = w.buildSiafundV2(wl, n)
		} else if v1ok {
			pt = w.buildSiafundV1(wl, n)
		}
		if pt != nil {
			pts = []*PoolTxn{pt}
		}
	default:
		pts = w.actExtra(wl, n, v1ok, v2ok)
	}
	var rv1 []types.Transaction
	var rv2 []types.V2Transaction
	for _, pt := range pts {
		w.apiTxn(pt)
		if err := n.submit(pt); err != nil {
			// the wallet built it against this very node: it must be valid
			w.stats.Inc("workload.rejected." + pt.Kind)
			w.log.Addf("t=%d wallet=%d ev=txn-reject kind=%s err=%q", w.now, wl.idx, pt.Kind, errClass(err))
			w.workloadRejected(n, pt, err)
			break
		}
		w.stats.Inc("workload." + pt.Kind)
		w.log.Addf("t=%d wallet=%d ev=txn kind=%s id=%s", w.now, wl.idx, pt.Kind, short(pt.ID))
		if pt.V1 != nil {
			rv1 = append(rv1, *pt.V1)
		} else {
			rv2 = append(rv2, pt.V2.DeepCopy())
		}
	}
	if len(rv1)+len(rv2) > 0 {
		enc := encodeTxns(rv1, rv2)
		w.broadcast(n.idx, "txns", enc)
	}
}

// ---- quiesce & finish ----

func (w *World) quiesce() {
	w.quiet = true
	for _, n := range w.nodes {
		if n.crashed {
			w.restartNode(n)
		}
		n.skew = 0 // clock skew is a fault; faults have stopped
	}
	w.heal()
	drain := func() {
		for w.q.Len() > 0 && !w.fatal && !w.ownViolation() {
			ev := heap.Pop(&w.q).(*event)
			w.now = ev.at
			w.step++
			if ev.tag == "mine" || ev.tag == "actor" {
				continue
			}
			ev.run()
			if w.step > w.cfg.MaxSteps*2 {
				w.harnessErr("quiesce did not drain")
				return
			}
		}
	}
	drain()
	// bounded liveness: after the last fault, L more blocks from the heaviest
	// node; then every node must hold the same tip.
	for round := 0; round < 12 && !w.fatal && !w.ownViolation(); round++ {
		if w.converged() {
			break
		}
		best := w.nodes[0]
		for _, n := range w.nodes {
			if n.tip.TotalWork.Cmp(best.tip.TotalWork) > 0 {
				best = n
			}
		}
		m := &Miner{idx: 99, home: best.idx, addr: w.miners[0].addr, style: "honest"}
		w.now += w.interval()
		w.mine(m)
		drain()
		for _, n := range w.nodes {
			w.broadcast(n.idx, "block", encodeBlock(n.tipEntry().b))
		}
		drain()
	}
	if w.fatal || w.ownViolation() {
		return
	}
	if !w.converged() {
		w.harnessErr("stub nodes did not converge on a tip after faults stopped")
		return
	}
	w.stats.Inc("world.converged")
	// equal tip => byte-identical state
	ref0 := encodeState(w.nodes[0].tip)
	for _, n := range w.nodes[1:] {
		if !bytes.Equal(encodeState(n.tip), ref0) {
			w.violate("C09", "equal-tip-different-state", fmt.Sprintf("nodes 0 and %d share tip %s but hold different state encodings", n.idx, short(n.tip.Index.ID)))
		}
	}
	w.finalChecks()
}

func (w *World) converged() bool {
	for _, n := range w.nodes[1:] {
		if n.tip.Index != w.nodes[0].tip.Index {
			return false
		}
	}
	return true
}

// nontrivialFor says whether the property's own oracle was exercised on a
// non-empty case in this run.
func (w *World) nontrivialFor() bool {
	st := w.stats
	switch w.cfg.Profile {
	case "C05":
		return st["probe.light.verified"] > 0
	case "C06":
		return st["reach.revert-nonempty"] > 0
	case "C09":
		return st["probe.c09.validate"] > 0 && st["probe.c09.apply"] > 0
	case "C10":
		return st["fault.bitflip"]+st["fault.truncate"]+st["fault.splice"]+st["probe.crash"] > 0
	case "C20":
		return st["probe.light.json-update"] > 0
	case "C02", "C03", "C04", "C07", "C08", "C12", "C14", "C17", "C18":
		return st["probe.rows-run"] > 0
	}
	return st["world.mined"] > 0 && w.nontrivial
}

func (w *World) finish() {
	w.nontrivial = w.nontrivialFor()
	if debugHook != nil {
		debugHook(w)
		debugLines = w.log.Tail(debugKeep)
	}
	w.stats.Add("world.blocks", int64(w.mined))
	w.stats.Add("world.max-reorg-depth", int64(w.maxReorg))
	era := "v1"
	h := w.nodes[0].tip.Index.Height
	if h >= w.net.HardforkV2.RequireHeight {
		era = "v2"
	} else if h >= w.net.HardforkV2.AllowHeight {
		era = "mixed"
	}
	w.reach[fmt.Sprintf("world era=%s nodes=%d reorg=%d", era, len(w.nodes), min(w.maxReorg, 5))] = true
}

var debugHook func(w *World)
var debugKeep int
var debugLines []string

// ownViolation reports whether the property this run is about has been
// violated (violations of other properties are recorded but do not stop the
// run unless they make it meaningless, which sets fatal).
func (w *World) ownViolation() bool {
	for _, v := range w.viols {
		if v.Property == w.cfg.Profile {
			return true
		}
	}
	return false
}

// harnessSite extracts the harness frames nearest to a panic.
func harnessSite(stack []byte) string {
	var out []string
	lines := strings.Split(string(stack), "\n")
	for i, line := range lines {
		if strings.HasPrefix(line, "verif/") && i+1 < len(lines) {
			loc := strings.TrimSpace(lines[i+1])
			if j := strings.LastIndex(loc, "/"); j >= 0 {
				loc = loc[j+1:]
			}
			if j := strings.Index(loc, " "); j >= 0 {
				loc = loc[:j]
			}
			out = append(out, loc)
			if len(out) == 4 {
				break
			}
		}
	}
	return strings.Join(out, " < ")
}
