package world

import (
	"fmt"

	"go.sia.tech/core/consensus"
	"go.sia.tech/core/types"
)

// Rows added after the first wave of seeded changes: block-local corner cases
// (other kinds' IDs as ephemeral parents, inputs that need no signature,
// elements created and consumed inside one block and presented again later,
// key rotation inside one block, one key signing twice).

// propAmong labels a row that belongs to several properties with the one
// whose catalogue is running.
func (w *World) propAmong(ps ...string) string {
	for _, p := range ps {
		if p == w.cfg.Profile {
			return p
		}
	}
	return ps[0]
}

func init() {
	// ---- a siafund output ID as the parent of an "ephemeral siacoin" input
	sfAsEphemeral := probeRow{"D6-v2-cross-kind-ephemeral", func(w *World, n *Node) {
		sc := n.fork()
		if !sc.v2ok() || sc.child() < w.net.HardforkV2.EphemeralOutputHeight {
			return
		}
		e, ok := pickSC(w, sc.ownedSC(false, true))
		if !ok {
			return
		}
		mid := w.wallets[0].addrs[3].addr // pol-pk address: spendable at once
		for _, id := range sc.store.sortedSF() {
			sf := sc.store.SF[id]
			wl, ai := w.ownerOf(sf.SiafundOutput.Address)
			if wl == nil || !wl.canSatisfyNow(sc.s, ai) {
				continue
			}
			// t1: sces = [e (spent), out0 (created), claim]; sfes = [sf (spent), sfout0 (created)]
			t1 := types.V2Transaction{
				SiacoinInputs:  []types.V2SiacoinInput{{Parent: e.Copy()}},
				SiacoinOutputs: []types.SiacoinOutput{{Value: e.SiacoinOutput.Value, Address: mid}},
				SiafundInputs:  []types.V2SiafundInput{{Parent: sf.Copy(), ClaimAddress: mid}},
				SiafundOutputs: []types.SiafundOutput{{Value: sf.SiafundOutput.Value, Address: sf.SiafundOutput.Address}},
			}
			if !w.signAllV2(sc.s, &t1) {
				continue
			}
			real := t1.EphemeralSiacoinOutput(0)
			fake := real.Copy()
			fake.ID = types.SiacoinOutputID(t1.SiafundOutputID(t1.ID(), 0)) // index 1 of the block's siafund list
			spend := func(parent types.SiacoinElement, to types.Address) (types.V2Transaction, bool) {
				return w.spendV2(sc.s, []types.SiacoinElement{parent}, to)
			}
			tReal, ok1 := spend(real, w.wallets[0].addrs[0].addr)
			tFake, ok2 := spend(fake, w.advAddr())
			if !ok1 || !ok2 {
				return
			}
			prop := w.propAmong("C02", "C04", "C01")
			verr, ok := sc.offer(nil, []types.V2Transaction{t1, tReal}, offerOpt{})
			w.expect(prop, "D6-v2-control", verr, ok, true, "siacoin and siafund transfer followed by a spend of the ephemeral siacoin output")
			verr, ok = sc.offer(nil, []types.V2Transaction{t1, tFake}, offerOpt{})
			w.expect(prop, "D6-v2-sf-id-as-ephemeral-parent", verr, ok, false,
				fmt.Sprintf("second transaction spends an 'ephemeral siacoin output' whose ID %v is that of the siafund output created by the first transaction (claiming the value %v of the siacoin output at that position)", fake.ID, real.SiacoinOutput.Value))
			verr, ok = sc.offer(nil, []types.V2Transaction{t1, tReal, tFake}, offerOpt{})
			w.expect(prop, "D6-v2-ephemeral-spent-under-two-ids", verr, ok, false,
				fmt.Sprintf("the ephemeral output worth %v is spent once under its ID and once under the ID of a siafund output of the block", real.SiacoinOutput.Value))
			// an ID that nothing in the block carries
			ghost := real.Copy()
			ghost.ID[3] ^= 0x10
			if tGhost, ok := spend(ghost, w.advAddr()); ok {
				verr, ok = sc.offer(nil, []types.V2Transaction{t1, tGhost}, offerOpt{})
				w.expect(prop, "D6-v2-ephemeral-unknown-id", verr, ok, false, "ephemeral parent with an ID that no transaction of the block creates")
			}
			return
		}
	}}
	registerRows("C02", sfAsEphemeral)
	registerRows("C04", sfAsEphemeral)
	registerRows("C01", sfAsEphemeral)

	// ---- inputs that need no signature at all, presented twice
	noSigDup := probeRow{"D1-no-signature-inputs", func(w *World, n *Node) {
		sc := n.fork()
		prop := w.propAmong("C02", "C01")
		if sc.v1ok() && sc.child()+1 < w.net.HardforkV2.RequireHeight {
			if e, ok := pickSC(w, sc.ownedSC(true, true)); ok {
				anyone := types.UnlockConditions{}
				if t0, ok := w.spendV1(sc.s, []types.SiacoinElement{e}, anyone.UnlockHash()); ok && sc.mine([]types.Transaction{t0}, nil) == nil {
					in := types.SiacoinInput{ParentID: t0.SiacoinOutputID(0), UnlockConditions: anyone}
					val := e.SiacoinOutput.Value
					once := types.Transaction{SiacoinInputs: []types.SiacoinInput{in}, SiacoinOutputs: []types.SiacoinOutput{{Value: val, Address: w.advAddr()}}}
					twice := types.Transaction{SiacoinInputs: []types.SiacoinInput{in, in}, SiacoinOutputs: []types.SiacoinOutput{{Value: val, Address: w.advAddr()}, {Value: val, Address: w.advAddr()}}}
					if _, over := val.AddWithOverflow(val); !over {
						verr, ok := sc.offer([]types.Transaction{once}, nil, offerOpt{})
						w.expect(prop, "D1-v1-no-sig-control", verr, ok, true, "spend of an output whose unlock conditions require no signature")
						verr, ok = sc.offer([]types.Transaction{twice}, nil, offerOpt{})
						w.expect(prop, "D1-v1-no-sig-same-txn", verr, ok, false, fmt.Sprintf("one v1 transaction lists input %v (unlock conditions requiring no signature) twice and pays out twice its value", in.ParentID))
						other := once
						other.ArbitraryData = [][]byte{{1}}
						verr, ok = sc.offer([]types.Transaction{once, other}, nil, offerOpt{})
						w.expect(prop, "D1-v1-no-sig-two-txns", verr, ok, false, fmt.Sprintf("two v1 transactions of one block spend %v (no signature required)", in.ParentID))
					}
				}
			}
		}
		sc = n.fork()
		if sc.v2ok() {
			if e, ok := pickSC(w, sc.ownedSC(false, true)); ok {
				pol := types.AnyoneCanSpend()
				if t0, ok := w.spendV2(sc.s, []types.SiacoinElement{e}, pol.Address()); ok && sc.mine(nil, []types.V2Transaction{t0}) == nil {
					var el types.SiacoinElement
					for _, d := range sc.last.SiacoinElementDiffs() {
						if d.SiacoinElement.ID == t0.SiacoinOutputID(t0.ID(), 0) {
							el = d.SiacoinElement.Copy()
						}
					}
					val := e.SiacoinOutput.Value
					if _, over := val.AddWithOverflow(val); el.ID != (types.SiacoinOutputID{}) && !over {
						in := types.V2SiacoinInput{Parent: el, SatisfiedPolicy: types.SatisfiedPolicy{Policy: pol}}
						once := types.V2Transaction{SiacoinInputs: []types.V2SiacoinInput{in}, SiacoinOutputs: []types.SiacoinOutput{{Value: val, Address: w.advAddr()}}}
						in2 := in
						in2.Parent = el.Copy()
						twice := types.V2Transaction{SiacoinInputs: []types.V2SiacoinInput{in, in2}, SiacoinOutputs: []types.SiacoinOutput{{Value: val, Address: w.advAddr()}, {Value: val, Address: w.advAddr()}}}
						verr, ok := sc.offer(nil, []types.V2Transaction{once}, offerOpt{})
						w.expect(prop, "D1-v2-anyone-control", verr, ok, true, "spend of an anyone-can-spend output")
						verr, ok = sc.offer(nil, []types.V2Transaction{twice}, offerOpt{})
						w.expect(prop, "D1-v2-anyone-same-txn", verr, ok, false, fmt.Sprintf("one v2 transaction lists anyone-can-spend input %v twice", el.ID))
					}
				}
			}
		}
	}}
	registerRows("C02", noSigDup)
	registerRows("C01", noSigDup)

	// ---- an output created and spent inside one block, presented again later
	respendEphemeral := probeRow{"D4-ephemeral-respent-later", func(w *World, n *Node) {
		prop := w.propAmong("C02", "C04", "C01")
		sc := n.fork()
		if sc.v2ok() {
			if e, ok := pickSC(w, sc.ownedSC(false, true)); ok {
				mid := w.wallets[0].addrs[3].addr
				t1, ok1 := w.spendV2(sc.s, []types.SiacoinElement{e}, mid)
				if ok1 {
					eph := t1.EphemeralSiacoinOutput(0)
					t2, ok2 := w.spendV2(sc.s, []types.SiacoinElement{eph}, w.wallets[0].addrs[0].addr)
					if ok2 && sc.mine(nil, []types.V2Transaction{t1, t2}) == nil {
						for _, d := range sc.last.SiacoinElementDiffs() {
							if d.SiacoinElement.ID == eph.ID {
								el := d.SiacoinElement.Copy()
								if t3, ok := w.spendV2(sc.s, []types.SiacoinElement{el}, w.advAddr()); ok {
									verr, ok := sc.offer(nil, []types.V2Transaction{t3}, offerOpt{})
									w.expect(prop, "D4-v2-ephemeral-respent-later", verr, ok, false,
										fmt.Sprintf("output %v was created and spent inside the previous block and is spent again with the proof that block's update gives it (leaf %d)", el.ID, el.StateElement.LeafIndex))
								}
							}
						}
					}
				}
			}
		}
		sc = n.fork()
		if sc.v1ok() && sc.child()+1 < w.net.HardforkV2.RequireHeight {
			if e, ok := pickSC(w, sc.ownedSC(true, true)); ok {
				mid := w.wallets[0].addrs[0]
				t1, ok1 := w.spendV1(sc.s, []types.SiacoinElement{e}, mid.addr)
				if ok1 {
					eph := types.SiacoinElement{ID: t1.SiacoinOutputID(0), SiacoinOutput: t1.SiacoinOutputs[0]}
					t2, ok2 := w.spendV1(sc.s, []types.SiacoinElement{eph}, w.wallets[0].addrs[0].addr)
					if ok2 && sc.mine([]types.Transaction{t1, t2}, nil) == nil {
						for _, d := range sc.last.SiacoinElementDiffs() {
							if d.SiacoinElement.ID == eph.ID {
								el := d.SiacoinElement.Copy()
								t3, ok := w.spendV1(sc.s, []types.SiacoinElement{el}, w.advAddr())
								if !ok {
									continue
								}
								verr, ok := sc.offer([]types.Transaction{t3}, nil, offerOpt{mutate: func(b *types.Block, bs *consensus.V1BlockSupplement) {
									bs.Transactions[0].SiacoinInputs = append(bs.Transactions[0].SiacoinInputs, el.Copy())
								}})
								w.expect(prop, "D4-v1-ephemeral-respent-later", verr, ok, false,
									fmt.Sprintf("v1 output %v was created and spent inside the previous block and is spent again (supplement carries the element with that block's proof, leaf %d)", el.ID, el.StateElement.LeafIndex))
							}
						}
					}
				}
			}
		}
	}}
	registerRows("C02", respendEphemeral)
	registerRows("C04", respendEphemeral)
	registerRows("C01", respendEphemeral)

	// ---- one key of a multi-signature address signing twice
	sameKeyTwice := probeRow{"A1-v1-same-key-twice", func(w *World, n *Node) {
		sc := n.fork()
		if !sc.v1ok() {
			return
		}
		var cands []types.SiacoinElement
		for _, e := range sc.ownedSC(true, true) {
			if _, ai := w.ownerOf(e.SiacoinOutput.Address); ai.kind == "uc-2of3" {
				cands = append(cands, e)
			}
		}
		e, ok := pickSC(w, cands)
		if !ok {
			return
		}
		wl, ai := w.ownerOf(e.SiacoinOutput.Address)
		build := func(idx []uint64) types.Transaction {
			txn := types.Transaction{
				SiacoinInputs:  []types.SiacoinInput{{ParentID: e.ID, UnlockConditions: *ai.uc}},
				SiacoinOutputs: []types.SiacoinOutput{{Value: e.SiacoinOutput.Value, Address: w.advAddr()}},
			}
			for _, i := range idx {
				txn.Signatures = append(txn.Signatures, types.TransactionSignature{ParentID: types.Hash256(e.ID), PublicKeyIndex: i, CoveredFields: types.CoveredFields{WholeTransaction: true}})
			}
			wl.finishV1(sc.s, &txn, map[types.Hash256]types.UnlockConditions{types.Hash256(e.ID): *ai.uc})
			return txn
		}
		k := uint64(w.tape.Choose(3))
		verr, ok := sc.offer([]types.Transaction{build([]uint64{k, (k + 1) % 3})}, nil, offerOpt{})
		w.expect("C03", "A1-v1-2of3-control", verr, ok, true, "2-of-3 input signed by two different keys")
		verr, ok = sc.offer([]types.Transaction{build([]uint64{k, k})}, nil, offerOpt{})
		w.expect("C03", "A1-v1-2of3-same-key-twice", verr, ok, false, fmt.Sprintf("2-of-3 input carrying two signatures of key %d and none of another key", k))
		verr, ok = sc.offer([]types.Transaction{build([]uint64{k})}, nil, offerOpt{})
		w.expect("C03", "A1-v1-2of3-one-signature", verr, ok, false, "2-of-3 input carrying a single signature")
		verr, ok = sc.offer([]types.Transaction{build([]uint64{0, 1, 2})}, nil, offerOpt{})
		w.expect("C03", "A1-v1-2of3-three-signatures", verr, ok, false, "2-of-3 input carrying three signatures (one is redundant)")
	}}
	registerRows("C03", sameKeyTwice)

	// ---- v2 contract: key rotation and a second revision / a renewal inside one block
	rotation := probeRow{"A3-v2-rotation-in-block", func(w *World, n *Node) {
		sc := n.fork()
		if !sc.v2ok() {
			return
		}
		c := sc.pickLive(true, func(c *Contract) bool {
			fc := sc.store.V2FC[c.id].V2FileContract
			return fc.ProofHeight >= sc.child() && fc.RevisionNumber < types.MaxRevisionNumber-4
		})
		if c == nil {
			return
		}
		e := sc.store.V2FC[c.id]
		cur := e.V2FileContract
		other := w.wallets[len(w.wallets)-1]
		if other == c.renter {
			other = w.wallets[0]
		}
		newKey := other.keys[2]
		r1 := cur
		r1.RevisionNumber++
		r1.RenterPublicKey = newKey.PublicKey()
		w.signContractV2(sc.s, &r1, c.renterKey(), c.hostKey())
		t1 := types.V2Transaction{FileContractRevisions: []types.V2FileContractRevision{{Parent: e.Copy(), Revision: r1}}}
		second := func(renter types.PrivateKey) types.V2Transaction {
			r2 := r1
			r2.RevisionNumber++
			r2.FileMerkleRoot[0] ^= 1
			w.signContractV2(sc.s, &r2, renter, c.hostKey())
			return types.V2Transaction{FileContractRevisions: []types.V2FileContractRevision{{Parent: e.Copy(), Revision: r2}}}
		}
		verr, ok := sc.offer(nil, []types.V2Transaction{t1, second(newKey)}, offerOpt{})
		w.expect("C03", "A3-rotation-second-revision-new-key", verr, ok, true, fmt.Sprintf("second revision of v2 contract %v in a block, signed with the renter key the first revision rotated in", c.id))
		verr, ok = sc.offer(nil, []types.V2Transaction{t1, second(c.renterKey())}, offerOpt{})
		w.expect("C03", "A3-rotation-second-revision-old-key", verr, ok, false, fmt.Sprintf("second revision of v2 contract %v in a block, signed with the renter key the first revision rotated out", c.id))
		// three revisions in one block, the key changing in the middle one: the third
		// answers to the key the second put in
		if cur.RevisionNumber < types.MaxRevisionNumber-8 {
			p1 := cur
			p1.RevisionNumber++
			p1.FileMerkleRoot[1] ^= 1
			w.signContractV2(sc.s, &p1, c.renterKey(), c.hostKey())
			p2 := p1
			p2.RevisionNumber++
			p2.RenterPublicKey = newKey.PublicKey()
			w.signContractV2(sc.s, &p2, c.renterKey(), c.hostKey())
			third := func(renter types.PrivateKey) types.V2Transaction {
				p3 := p2
				p3.RevisionNumber++
				p3.FileMerkleRoot[2] ^= 1
				w.signContractV2(sc.s, &p3, renter, c.hostKey())
				return types.V2Transaction{FileContractRevisions: []types.V2FileContractRevision{{Parent: e.Copy(), Revision: p3}}}
			}
			ta := types.V2Transaction{FileContractRevisions: []types.V2FileContractRevision{{Parent: e.Copy(), Revision: p1}}}
			tb := types.V2Transaction{FileContractRevisions: []types.V2FileContractRevision{{Parent: e.Copy(), Revision: p2}}}
			verr, ok = sc.offer(nil, []types.V2Transaction{ta, tb, third(newKey)}, offerOpt{})
			w.expect("C03", "A3-rotation-third-revision-new-key", verr, ok, true, fmt.Sprintf("third revision of v2 contract %v in a block, signed with the renter key the second revision rotated in", c.id))
			verr, ok = sc.offer(nil, []types.V2Transaction{ta, tb, third(c.renterKey())}, offerOpt{})
			w.expect("C03", "A3-rotation-third-revision-old-key", verr, ok, false, fmt.Sprintf("third revision of v2 contract %v in a block, signed with the renter key the second revision rotated out", c.id))
		}
	}}
	registerRows("C03", rotation)

	// ---- v2 contract revised and renewed inside one block, resolved again later
	reResolve := probeRow{"D5-v2-revise-renew-then-again", func(w *World, n *Node) {
		sc := n.fork()
		if !sc.v2ok() {
			return
		}
		prop := w.propAmong("C02", "C07")
		c := sc.pickLive(true, func(c *Contract) bool {
			fc := sc.store.V2FC[c.id].V2FileContract
			return fc.ProofHeight >= sc.child() && fc.RevisionNumber < types.MaxRevisionNumber-4 && fc.ExpirationHeight <= sc.child()+14
		})
		funder, okf := pickSC(w, sc.ownedSC(false, true))
		if c == nil || !okf {
			return
		}
		e := sc.store.V2FC[c.id]
		cur := e.V2FileContract
		r1 := cur
		r1.RevisionNumber++
		r1.FileMerkleRoot[1] ^= 1
		w.signContractV2(sc.s, &r1, c.renterKey(), c.hostKey())
		t1 := types.V2Transaction{FileContractRevisions: []types.V2FileContractRevision{{Parent: e.Copy(), Revision: r1}}}
		nc := r1
		nc.RevisionNumber = 0
		nc.ProofHeight = sc.child() + 30
		nc.ExpirationHeight = nc.ProofHeight + 2
		nc.RenterOutput.Value, nc.HostOutput.Value, nc.MissedHostValue, nc.TotalCollateral = types.Siacoins(1), types.ZeroCurrency, types.ZeroCurrency, types.ZeroCurrency
		ren := &types.V2FileContractRenewal{NewContract: nc, FinalRenterOutput: r1.RenterOutput, FinalHostOutput: r1.HostOutput}
		w.signContractV2(sc.s, &ren.NewContract, c.renterKey(), c.hostKey())
		h := sc.s.RenewalSigHash(*ren)
		ren.RenterSignature, ren.HostSignature = c.renterKey().SignHash(h), c.hostKey().SignHash(h)
		cost := nc.RenterOutput.Value.Add(sc.s.V2FileContractTax(nc))
		if funder.SiacoinOutput.Value.Cmp(cost) < 0 {
			return
		}
		t2 := types.V2Transaction{FileContractResolutions: []types.V2FileContractResolution{{Parent: e.Copy(), Resolution: ren}},
			SiacoinInputs: []types.V2SiacoinInput{{Parent: funder.Copy()}}}
		if ch := funder.SiacoinOutput.Value.Sub(cost); !ch.IsZero() {
			t2.SiacoinOutputs = []types.SiacoinOutput{{Value: ch, Address: funder.SiacoinOutput.Address}}
		}
		if !w.signAllV2(sc.s, &t2) {
			return
		}
		if err := sc.mine(nil, []types.V2Transaction{t1, t2}); err != nil {
			w.violate("C07", "probe-revise-renew-rejected", fmt.Sprintf("revision and renewal of v2 contract %v in one block rejected: %v", c.id, err))
			return
		}
		w.stats.Inc("probe.revise-renew-mined")
		// the element as the block's update leaves it (revised), with its current proof
		var after types.V2FileContractElement
		for _, d := range sc.last.V2FileContractElementDiffs() {
			if d.V2FileContractElement.ID == c.id {
				after = d.V2FileContractElement.Copy()
				if d.Revision != nil {
					after.V2FileContract = *d.Revision
				}
			}
		}
		if after.ID != c.id {
			return
		}
		if r1.ExpirationHeight+1 > sc.child()+16 {
			return
		}
		for sc.child() < r1.ExpirationHeight+1 {
			if !sc.extend(sc.nextTimestamp()) {
				return
			}
			sc.last.UpdateElementProof(&after.StateElement)
		}
		for _, variant := range []struct {
			name string
			fc   types.V2FileContract
		}{{"revised", r1}, {"original", cur}} {
			p := after.Copy()
			p.V2FileContract = variant.fc
			again := types.V2Transaction{FileContractResolutions: []types.V2FileContractResolution{{Parent: p, Resolution: &types.V2FileContractExpiration{}}}}
			verr, ok := sc.offer(nil, []types.V2Transaction{again}, offerOpt{})
			w.expect(prop, "D5-v2-expire-after-revise+renew-"+variant.name, verr, ok, false,
				fmt.Sprintf("v2 contract %v was revised and renewed inside one block; after its expiration height it is resolved a second time (parent carries the %s contract, proof kept current)", c.id, variant.name))
		}
	}}
	registerRows("C02", reResolve)
	registerRows("C07", reResolve)
}

// ---- C01: blocks that are right except for one hasting / one siafund

func init() {
	one := types.NewCurrency64(1)
	balance := probeRow{"B1-balance", func(w *World, n *Node) {
		sc := n.fork()
		fee := types.NewCurrency64(uint64(1000 + w.tape.Choose(5000)))
		if sc.v1ok() {
			if e, ok := pickSC(w, sc.ownedSC(true, true)); ok && e.SiacoinOutput.Value.Cmp(types.Siacoins(1)) > 0 {
				_, ai := w.ownerOf(e.SiacoinOutput.Address)
				mk := func(outDelta int) types.Transaction {
					v := e.SiacoinOutput.Value.Sub(fee)
					switch outDelta {
					case 1:
						v = v.Add(one)
					case -1:
						v = v.Sub(one)
					}
					half := v.Div64(2)
					t := types.Transaction{SiacoinInputs: []types.SiacoinInput{{ParentID: e.ID, UnlockConditions: *ai.uc}},
						SiacoinOutputs: []types.SiacoinOutput{{Value: half, Address: w.advAddr()}, {Value: v.Sub(half), Address: e.SiacoinOutput.Address}},
						MinerFees:      []types.Currency{fee}}
					w.signAllV1(sc.s, &t)
					return t
				}
				verr, ok := sc.offer([]types.Transaction{mk(0)}, nil, offerOpt{})
				w.expect("C01", "B1-v1-control", verr, ok, true, "v1 transfer with fee, outputs + fee = inputs")
				verr, ok = sc.offer([]types.Transaction{mk(1)}, nil, offerOpt{})
				w.expect("C01", "B1-v1-outputs-plus-1", verr, ok, false, "v1 transfer whose outputs + fee exceed the inputs by one hasting")
				verr, ok = sc.offer([]types.Transaction{mk(-1)}, nil, offerOpt{})
				w.expect("C01", "B1-v1-outputs-minus-1", verr, ok, false, "v1 transfer whose outputs + fee fall short of the inputs by one hasting")
				for _, d := range []int{1, -1} {
					d := d
					verr, ok = sc.offer([]types.Transaction{mk(0)}, nil, offerOpt{mutate: func(b *types.Block, bs *consensus.V1BlockSupplement) {
						if d > 0 {
							b.MinerPayouts[0].Value = b.MinerPayouts[0].Value.Add(one)
						} else {
							b.MinerPayouts[0].Value = b.MinerPayouts[0].Value.Sub(one)
						}
					}})
					w.expect("C01", fmt.Sprintf("B1-v1-miner-payout%+d", d), verr, ok, false, fmt.Sprintf("miner payout differs from reward + fees by %+d hasting", d))
				}
				verr, ok = sc.offer([]types.Transaction{mk(0)}, nil, offerOpt{mutate: func(b *types.Block, bs *consensus.V1BlockSupplement) {
					if b.V2 != nil {
						return // exactly one payout after the allow height
					}
					h := b.MinerPayouts[0].Value.Div64(3)
					b.MinerPayouts = []types.SiacoinOutput{{Value: h, Address: b.MinerPayouts[0].Address}, {Value: b.MinerPayouts[0].Value.Sub(h), Address: w.advAddr()}}
				}})
				if sc.child() < w.net.HardforkV2.AllowHeight {
					w.expect("C01", "B1-v1-two-payouts-exact", verr, ok, true, "miner payout split into two outputs with the exact sum")
				}
			}
		}
		// a block that carries nothing, in the old block format and in the new one,
		// at whatever height: what it pays its miner is the reward
		sc = n.fork()
		for _, oldFormat := range []bool{true, false} {
			for _, d := range []int{1, -1, 1000} {
				oldFormat, d := oldFormat, d
				if !oldFormat && !sc.v2ok() {
					continue
				}
				verr, ok := sc.offer(nil, nil, offerOpt{mutate: func(b *types.Block, bs *consensus.V1BlockSupplement) {
					if oldFormat {
						b.V2 = nil
					}
					switch {
					case d == 1000:
						b.MinerPayouts[0].Value = b.MinerPayouts[0].Value.Add(types.Siacoins(1000))
					case d > 0:
						b.MinerPayouts[0].Value = b.MinerPayouts[0].Value.Add(one)
					default:
						b.MinerPayouts[0].Value = b.MinerPayouts[0].Value.Sub(one)
					}
				}})
				era := "v1"
				if sc.child() >= w.net.HardforkV2.RequireHeight {
					era = "after-require"
				} else if sc.child() >= w.net.HardforkV2.AllowHeight {
					era = "v2-allowed"
				}
				w.expect("C01", fmt.Sprintf("B1-empty-block-oldformat=%v-%s-payout%+d", oldFormat, era, d), verr, ok, false, fmt.Sprintf("a block without transactions (old format: %v) at height %d whose miner payout differs from the reward by %+d", oldFormat, sc.child(), d))
			}
		}
		sc = n.fork()
		if sc.v2ok() {
			if e, ok := pickSC(w, sc.ownedSC(false, true)); ok && e.SiacoinOutput.Value.Cmp(types.Siacoins(1)) > 0 {
				mk := func(outDelta int) (types.V2Transaction, bool) {
					v := e.SiacoinOutput.Value.Sub(fee)
					switch outDelta {
					case 1:
						v = v.Add(one)
					case -1:
						v = v.Sub(one)
					}
					half := v.Div64(2)
					t := types.V2Transaction{SiacoinInputs: []types.V2SiacoinInput{{Parent: e.Copy()}},
						SiacoinOutputs: []types.SiacoinOutput{{Value: half, Address: w.advAddr()}, {Value: v.Sub(half), Address: e.SiacoinOutput.Address}},
						MinerFee:       fee}
					return t, w.signAllV2(sc.s, &t)
				}
				if t, ok := mk(0); ok {
					verr, ok := sc.offer(nil, []types.V2Transaction{t}, offerOpt{})
					w.expect("C01", "B1-v2-control", verr, ok, true, "v2 transfer with fee, outputs + fee = inputs")
					for _, d := range []int{1, -1} {
						d := d
						verr, ok = sc.offer(nil, []types.V2Transaction{t}, offerOpt{mutate: func(b *types.Block, bs *consensus.V1BlockSupplement) {
							if d > 0 {
								b.MinerPayouts[0].Value = b.MinerPayouts[0].Value.Add(one)
							} else {
								b.MinerPayouts[0].Value = b.MinerPayouts[0].Value.Sub(one)
							}
						}})
						w.expect("C01", fmt.Sprintf("B1-v2-miner-payout%+d", d), verr, ok, false, fmt.Sprintf("miner payout differs from reward + fees by %+d hasting", d))
					}
				}
				if t, ok := mk(1); ok {
					verr, ok := sc.offer(nil, []types.V2Transaction{t}, offerOpt{})
					w.expect("C01", "B1-v2-outputs-plus-1", verr, ok, false, "v2 transfer whose outputs + fee exceed the inputs by one hasting")
				}
				if t, ok := mk(-1); ok {
					verr, ok := sc.offer(nil, []types.V2Transaction{t}, offerOpt{})
					w.expect("C01", "B1-v2-outputs-minus-1", verr, ok, false, "v2 transfer whose outputs + fee fall short of the inputs by one hasting")
				}
			}
			// siafunds: outputs one more / one less than inputs
			for _, id := range sc.store.sortedSF() {
				e := sc.store.SF[id]
				wl, ai := w.ownerOf(e.SiafundOutput.Address)
				if wl == nil || !wl.canSatisfyNow(sc.s, ai) || e.SiafundOutput.Value < 2 {
					continue
				}
				for _, d := range []int{0, 1, -1} {
					a := e.SiafundOutput.Value / 2
					t := types.V2Transaction{SiafundInputs: []types.V2SiafundInput{{Parent: e.Copy(), ClaimAddress: e.SiafundOutput.Address}},
						SiafundOutputs: []types.SiafundOutput{{Value: a, Address: w.advAddr()}, {Value: uint64(int64(e.SiafundOutput.Value-a) + int64(d)), Address: e.SiafundOutput.Address}}}
					if !w.signAllV2(sc.s, &t) {
						break
					}
					verr, ok := sc.offer(nil, []types.V2Transaction{t}, offerOpt{})
					w.expect("C01", fmt.Sprintf("B1-v2-siafund-outputs%+d", d), verr, ok, d == 0, fmt.Sprintf("siafund transfer whose outputs differ from the input by %+d", d))
				}
				break
			}
		}
	}}
	registerRows("C01", balance)
}
