package world

import (
	"time"

	"go.sia.tech/core/consensus"
	"go.sia.tech/core/types"
	"verif/ref"
	"verif/sim"
)

// Config is the swarm configuration of one run, drawn first on every tape.
type Config struct {
	Profile   string
	Era       string // v1only, mixed, v2only, allin
	Nodes     int
	Miners    int
	Wallets   int
	Lights    int
	MaxBlocks int
	MaxSteps  int

	// fault rates (per mille) — a random subset is enabled per run
	DropPM      int
	DupPM       int
	ReorderPM   int
	CorruptPM   int
	PartitionPM int // per mined block: start a partition
	SkewMax     time.Duration
	CrashPM     int
	SideMinePM  int // miner mines on a stale parent (buggify)

	TxnsPerBlockMax int
	ProbePM         int // per accepted block: run the adversary's probes
	ProbeRows       map[string]bool

	// workload weights
	WPay, WEphemeral, WSiafund, WContractV1, WContractV2, WPolicy, WFoundation, WAttest int

	InitialDifficulty int
	LightJSON         bool // some light clients consume JSON-round-tripped updates
}

// epoch is the start of simulated wall time (independent of the real clock).
var epoch = time.Date(2000, 1, 1, 0, 0, 0, 0, time.UTC)

func pick[T any](t *sim.Tape, xs ...T) T { return xs[t.Choose(len(xs))] }

// drawNetwork draws the network parameters. Everything stays inside sane
// parameters: block interval 10 min … 3 days, v2 require height >= 1, every
// fork height reachable inside the run.
func drawNetwork(t *sim.Tape, cfg *Config) *consensus.Network {
	n := &consensus.Network{Name: "sim"}
	n.InitialCoinbase = types.Siacoins(uint32(pick(t, 300000, 1000, 30010)))
	n.MinimumCoinbase = types.Siacoins(uint32(pick(t, 30000, 1000, 300000)))
	if n.MinimumCoinbase.Cmp(n.InitialCoinbase) > 0 {
		n.MinimumCoinbase = n.InitialCoinbase
	}
	n.BlockInterval = pick(t, 10*time.Minute, time.Hour, 12*time.Hour, 24*time.Hour, 72*time.Hour, time.Minute)
	n.MaturityDelay = uint64(pick(t, 3, 0, 1, 5, 8))
	// initial difficulty 1..d: target = (2^256-1)/d
	d := cfg.InitialDifficulty
	n.InitialTarget = targetForDifficulty(d)

	span := cfg.MaxBlocks
	if span < 40 {
		span = 40
	}
	early := func(hi int) uint64 { return uint64(t.Range(1, hi)) }
	n.HardforkDevAddr.Height = early(6)
	n.HardforkTax.Height = early(pick(t, 10, 40))
	n.HardforkStorageProof.Height = n.HardforkTax.Height + uint64(t.Range(0, pick(t, 12, 30)))
	n.HardforkOak.Height = early(20)
	n.HardforkOak.FixHeight = n.HardforkOak.Height + uint64(t.Range(0, 10))
	n.HardforkOak.GenesisTimestamp = epoch
	n.HardforkASIC.Height = n.HardforkOak.Height + uint64(t.Range(1, 15))
	n.HardforkASIC.OakTime = time.Duration(t.Range(10, 200)) * n.BlockInterval
	n.HardforkASIC.OakTarget = targetForDifficulty(pick(t, 64, 16, 256, 1024))
	n.HardforkASIC.NonceFactor = uint64(pick(t, 1009, 1, 7))
	n.HardforkFoundation.Height = n.HardforkASIC.Height + uint64(t.Range(0, 15))
	switch cfg.Era {
	case "v1only":
		n.HardforkV2.AllowHeight = 1 << 40
		n.HardforkV2.RequireHeight = 1 << 41
		n.HardforkV2.FinalCutHeight = 1 << 42
		n.HardforkV2.EphemeralOutputHeight = 1 << 42
	case "v2only":
		n.HardforkV2.AllowHeight = uint64(t.Range(1, 3))
		n.HardforkV2.RequireHeight = n.HardforkV2.AllowHeight + uint64(t.Range(0, 3))
		n.HardforkV2.FinalCutHeight = n.HardforkV2.RequireHeight + uint64(t.Range(0, 20))
		n.HardforkV2.EphemeralOutputHeight = uint64(pick(t, 0, 10, 30))
	default: // mixed, allin
		n.HardforkV2.AllowHeight = n.HardforkFoundation.Height + uint64(t.Range(1, span/4))
		n.HardforkV2.RequireHeight = n.HardforkV2.AllowHeight + uint64(t.Range(1, span/4))
		n.HardforkV2.FinalCutHeight = n.HardforkV2.RequireHeight + uint64(t.Range(0, span/5))
		n.HardforkV2.EphemeralOutputHeight = n.HardforkV2.AllowHeight + uint64(t.Range(0, span/4))
		if t.Chance(1, 4) {
			n.HardforkV2.EphemeralOutputHeight = 0
		}
	}
	return n
}

func refParams(n *consensus.Network) *ref.Params {
	return &ref.Params{
		InitialCoinbase:       n.InitialCoinbase,
		MinimumCoinbase:       n.MinimumCoinbase,
		MaturityDelay:         n.MaturityDelay,
		BlockInterval:         n.BlockInterval,
		TaxHeight:             n.HardforkTax.Height,
		FoundationHeight:      n.HardforkFoundation.Height,
		FoundationPrimary:     n.HardforkFoundation.PrimaryAddress,
		FoundationFailsafe:    n.HardforkFoundation.FailsafeAddress,
		V2AllowHeight:         n.HardforkV2.AllowHeight,
		V2RequireHeight:       n.HardforkV2.RequireHeight,
		EphemeralOutputHeight: n.HardforkV2.EphemeralOutputHeight,
	}
}

// drawConfig draws the swarm configuration for a profile.
func drawConfig(t *sim.Tape, profile string, tier string) *Config {
	c := &Config{Profile: profile, ProbeRows: map[string]bool{}}
	c.Era = pick(t, "mixed", "v2only", "v1only", "mixed")
	c.Nodes = t.Range(2, 4)
	c.Miners = t.Range(1, 3)
	c.Wallets = t.Range(2, 5)
	c.Lights = t.Range(0, 2)
	c.MaxBlocks = pick(t, 60, 40, 90, 140)
	if tier == "thorough" {
		c.MaxBlocks = pick(t, 90, 60, 140, 220, 320)
	}
	c.TxnsPerBlockMax = pick(t, 6, 2, 12, 30)
	c.InitialDifficulty = pick(t, 2, 1, 4, 16)
	c.WPay, c.WEphemeral, c.WSiafund, c.WContractV1, c.WContractV2, c.WPolicy, c.WFoundation, c.WAttest = 10, 3, 3, 3, 3, 3, 1, 1
	// faults: each kind enabled with probability 1/2, rate drawn
	if t.Chance(1, 2) {
		c.DropPM = pick(t, 50, 10, 150)
	}
	if t.Chance(1, 2) {
		c.DupPM = pick(t, 50, 10, 150)
	}
	if t.Chance(1, 2) {
		c.ReorderPM = pick(t, 100, 30, 300)
	}
	if t.Chance(1, 2) {
		c.PartitionPM = pick(t, 60, 20, 150)
	}
	if t.Chance(1, 2) {
		c.SkewMax = pick(t, 30*time.Second, 10*time.Minute, 2*time.Hour)
	}
	if t.Chance(1, 2) {
		c.SideMinePM = pick(t, 60, 20, 150)
	}
	if t.Chance(1, 3) {
		c.CorruptPM = pick(t, 20, 5, 60)
	}
	if t.Chance(1, 3) {
		c.CrashPM = pick(t, 30, 10, 80)
	}
	c.ProbePM = pick(t, 150, 50, 400)
	c.MaxSteps = 200000
	applyProfile(t, c, tier)
	return c
}

func targetForDifficulty(d int) types.BlockID {
	// (2^256-1)/d, big-endian; computed with simple long division
	var t types.BlockID
	var rem uint64
	for i := 0; i < 32; i++ {
		cur := rem<<8 | 0xff
		t[i] = byte(cur / uint64(d))
		rem = cur % uint64(d)
	}
	return t
}
