package world

import (
	"bytes"
	"fmt"

	"go.sia.tech/core/consensus"
	"go.sia.tech/core/gateway"
	"go.sia.tech/core/types"
)

// Rows added after the third wave of seeded changes.

func init() {
	// ---- v1 contract revised and proven inside one block (only possible in the
	// block at its window start), then resolved again
	row := probeRow{"D5-v1-revise-prove-in-block", func(w *World, n *Node) {
		sc := n.fork()
		if !sc.v1ok() {
			return
		}
		prop := w.propAmong("C02", "C04", "C07")
		c := sc.pickLive(false, func(c *Contract) bool {
			fc := sc.store.FC[c.id].FileContract
			_, known := c.dataFor(fc.FileMerkleRoot, fc.Filesize)
			return known && fc.WindowStart > sc.child() && fc.WindowStart <= sc.child()+12 && fc.WindowStart+1 < fc.WindowEnd && fc.WindowEnd < w.net.HardforkV2.RequireHeight &&
				!(fc.Filesize%64 == 0 && fc.WindowStart < w.net.HardforkStorageProof.Height) && fc.Filesize > 0 && fc.RevisionNumber < types.MaxRevisionNumber-4
		})
		if c == nil {
			return
		}
		id := c.id
		ws := sc.store.FC[id].FileContract.WindowStart
		if !sc.advanceTo(ws) {
			return
		}
		cur := sc.store.FC[id].FileContract
		data, _ := c.dataFor(cur.FileMerkleRoot, cur.Filesize)
		rev := w.reviseV1From(sc.s, c, cur, nil, 1)
		if len(cur.ValidProofOutputs) >= 2 && len(cur.MissedProofOutputs) >= 2 && w.tape.Chance(2, 3) {
			// the revision also moves value from the renter to the host (what a
			// payment does), so that it matters which version of the contract pays out
			fcr := &rev.FileContractRevisions[0].FileContract
			x := cur.ValidProofOutputs[0].Value.Div64(uint64(w.tape.Range(2, 5)))
			if cur.MissedProofOutputs[0].Value.Cmp(x) >= 0 && !x.IsZero() {
				fcr.ValidProofOutputs[0].Value, fcr.ValidProofOutputs[1].Value = fcr.ValidProofOutputs[0].Value.Sub(x), fcr.ValidProofOutputs[1].Value.Add(x)
				fcr.MissedProofOutputs[0].Value, fcr.MissedProofOutputs[1].Value = fcr.MissedProofOutputs[0].Value.Sub(x), fcr.MissedProofOutputs[1].Value.Add(x)
				rev.Signatures = nil
				w.signContractV1(sc.s, &rev, c)
			}
		}
		revised := rev.FileContractRevisions[0].FileContract
		sp, ok := w.storageProofV1(sc.s, sc.best, id, revised, data)
		if !ok {
			return
		}
		proof := types.Transaction{StorageProofs: []types.StorageProof{sp}}
		proof2 := types.Transaction{StorageProofs: []types.StorageProof{sp}, ArbitraryData: [][]byte{{1}}}
		rev2 := w.reviseV1From(sc.s, c, revised, nil, 1)
		what := fmt.Sprintf("v1 contract %v (window start %d) revised and proven in the block at height %d", id, ws, sc.child())
		verr, okc := sc.offer([]types.Transaction{rev, proof}, nil, offerOpt{})
		w.expect(prop, "D5-v1-revise+prove-control", verr, okc, true, what)
		if verr != nil || !okc {
			return
		}
		{
			// the same block, but the revision also moves the proof window into the
			// future: the contract as it now stands cannot be proven yet
			later := w.reviseV1From(sc.s, c, cur, nil, 1)
			fcr := &later.FileContractRevisions[0].FileContract
			k := uint64(w.tape.Range(5, 40))
			fcr.WindowStart, fcr.WindowEnd = fcr.WindowStart+k, fcr.WindowEnd+k
			later.Signatures = nil
			w.signContractV1(sc.s, &later, c)
			if spl, ok := w.storageProofV1(sc.s, sc.best, id, cur, data); ok {
				verr, okc := sc.offer([]types.Transaction{later, {StorageProofs: []types.StorageProof{spl}}}, nil, offerOpt{rowVerdict: true})
				w.expect(w.propAmong("C08", "C07"), "D5-v1-revise-window-later+prove", verr, okc, false, fmt.Sprintf("v1 contract %v (window start %d = this block) is revised to a window starting at %d, and the next transaction of the block proves it", id, ws, fcr.WindowStart))
			}
		}
		verr, okc = sc.offer([]types.Transaction{rev, proof, proof2}, nil, offerOpt{})
		w.expect(prop, "D5-v1-revise+prove+prove", verr, okc, false, what+", then proven a second time in the same block")
		verr, okc = sc.offer([]types.Transaction{rev, proof, rev2}, nil, offerOpt{})
		w.expect(prop, "D5-v1-revise+prove+revise", verr, okc, false, what+", then revised again in the same block")
		if sc.mine([]types.Transaction{rev, proof}, nil) != nil {
			return
		}
		w.checkPayout(sc, id, false, revised.ValidProofOutputs, "v1 storage proof of a contract revised earlier in the same block (the revision's outputs)")
		if w.ownViolation() {
			return
		}
		// the element as the update leaves it (revised), proof current
		var after types.FileContractElement
		for _, d := range sc.last.FileContractElementDiffs() {
			if d.FileContractElement.ID == id {
				after = d.FileContractElement.Copy()
				if d.Revision != nil {
					after.FileContract = *d.Revision
				}
			}
		}
		if after.ID != id {
			return
		}
		windowID := sc.best[ws-1]
		for _, variant := range []string{"revised", "original"} {
			p := after.Copy()
			if variant == "original" {
				p.FileContract = cur
			}
			spx, ok := w.storageProofV1(sc.s, sc.best, id, p.FileContract, data)
			if !ok {
				continue
			}
			again := types.Transaction{StorageProofs: []types.StorageProof{spx}}
			verr, okc = sc.offer([]types.Transaction{again}, nil, offerOpt{mutate: func(b *types.Block, bs *consensus.V1BlockSupplement) {
				bs.Transactions[0].StorageProofs = []consensus.V1StorageProofSupplement{{FileContract: p.Copy(), WindowID: windowID}}
			}})
			w.expect(prop, "D5-v1-prove-after-revise+prove-"+variant, verr, okc, false, what+fmt.Sprintf("; the next block proves it again (supplement carries the %s contract with its current proof)", variant))
		}
	}}
	registerRows("C02", row)
	registerRows("C04", row)
	registerRows("C07", row)
}

// ---- C08: the timelock of a v1 signature (not of the unlock conditions)
func init() {
	registerRows("C08", probeRow{"T2-v1-signature-timelock", func(w *World, n *Node) {
		sc := n.fork()
		if !sc.v1ok() {
			return
		}
		var cands []types.SiacoinElement
		for _, e := range sc.ownedSC(true, true) {
			if _, ai := w.ownerOf(e.SiacoinOutput.Address); ai.kind == "uc-std" || ai.kind == "uc-2of3" {
				cands = append(cands, e)
			}
		}
		e, ok := pickSC(w, cands)
		if !ok {
			return
		}
		T := sc.child() + uint64(w.tape.Range(1, 6))
		if T+1 >= w.net.HardforkV2.RequireHeight {
			return
		}
		id := e.ID
		partial := w.tape.Chance(1, 2)
		w.boundary(sc, "T2-v1-signature-timelock", T, func(sc *scratch) ([]types.Transaction, []types.V2Transaction, bool) {
			cur, ok := sc.store.SC[id]
			if !ok {
				return nil, nil, false
			}
			wl, ai := w.ownerOf(cur.SiacoinOutput.Address)
			txn := types.Transaction{SiacoinInputs: []types.SiacoinInput{{ParentID: id, UnlockConditions: *ai.uc}}, SiacoinOutputs: []types.SiacoinOutput{{Value: cur.SiacoinOutput.Value, Address: w.advAddr()}}}
			wl.signV1(sc.s, &txn, types.Hash256(id), *ai.uc)
			if partial {
				w.makePartial(&txn)
			}
			// the last signature carries the lock: the input is not authorised before height T
			txn.Signatures[len(txn.Signatures)-1].Timelock = T
			wl.finishV1(sc.s, &txn, map[types.Hash256]types.UnlockConditions{types.Hash256(id): *ai.uc})
			return []types.Transaction{txn}, nil, true
		}, fmt.Sprintf("v1 spend of %v whose signature carries timelock %d (explicit covered fields: %v)", id, T, partial))
	}})
}

// ---- C10: a relayed outline is untrusted until the completed block has been
// validated; completing it must not crash the node
func init() {
	registerRows("C10", probeRow{"Z3-outline-extreme-fees", func(w *World, n *Node) {
		sc := n.fork()
		if !sc.v2ok() {
			return
		}
		e, ok := pickSC(w, sc.ownedSC(false, true))
		if !ok {
			return
		}
		t2, ok := w.spendV2(sc.s, []types.SiacoinElement{e}, w.advAddr())
		if !ok {
			return
		}
		var v1 []types.Transaction
		if sc.v1ok() {
			if e1, ok := pickSC(w, sc.ownedSC(true, true)); ok && e1.ID != e.ID {
				if t1, ok := w.spendV1(sc.s, []types.SiacoinElement{e1}, w.wallets[0].addrs[0].addr); ok {
					v1 = append(v1, t1)
				}
			}
		}
		b := w.assemble(sc.s, sc.nextTimestamp(), w.miners[0].addr, v1, []types.V2Transaction{t2}, false)
		for _, variant := range []string{"v2-fee-max", "v1-fee-max", "v1-fees-max-max", "v2-fee-max-minus-reward"} {
			bo := gateway.OutlineBlock(b, nil, nil)
			touched := false
			for i := range bo.Transactions {
				pt := &bo.Transactions[i]
				switch {
				case pt.V2Transaction != nil && variant == "v2-fee-max":
					c := pt.V2Transaction.DeepCopy()
					c.MinerFee = types.MaxCurrency
					pt.V2Transaction, touched = &c, true
				case pt.V2Transaction != nil && variant == "v2-fee-max-minus-reward":
					c := pt.V2Transaction.DeepCopy()
					c.MinerFee = types.MaxCurrency.Sub(sc.s.BlockReward()).Add(types.NewCurrency64(1))
					pt.V2Transaction, touched = &c, true
				case pt.Transaction != nil && variant == "v1-fee-max":
					c := *pt.Transaction
					c.MinerFees = []types.Currency{types.MaxCurrency}
					pt.Transaction, touched = &c, true
				case pt.Transaction != nil && variant == "v1-fees-max-max":
					c := *pt.Transaction
					c.MinerFees = []types.Currency{types.MaxCurrency, types.MaxCurrency}
					pt.Transaction, touched = &c, true
				}
			}
			if !touched {
				continue
			}
			var buf bytes.Buffer
			enc := types.NewEncoder(&buf)
			gateway.VerifEncodeOutline(enc, &bo)
			enc.Flush()
			var got gateway.V2BlockOutline
			d := types.NewBufDecoder(buf.Bytes())
			if p := guard(func() { gateway.VerifDecodeOutline(d, &got) }); p != "" {
				w.violate("C10", "decode-outline-panic", p)
				return
			}
			if d.Err() != nil {
				continue
			}
			w.stats.Inc("probe.Z3-outline-" + variant)
			w.stats.Inc("probe.crash")
			w.stats.Inc("probe.rows-run")
			var cb types.Block
			if p := guard(func() { cb, _ = got.Complete(sc.s, nil, nil) }); p != "" {
				w.violate("C10", "outline-complete-panic", fmt.Sprintf("completing a relayed outline (%s) panicked: %s", variant, p))
				return
			}
			// and the completed block goes to validation like any other
			if p := guard(func() { consensus.ValidateBlock(sc.s, cb, sc.supplement(cb)) }); p != "" {
				w.violate("C10", "validate-panic", fmt.Sprintf("ValidateBlock panicked on a block completed from an outline (%s): %s", variant, p))
				return
			}
		}
	}})
}
