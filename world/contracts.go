package world

import (
	"bytes"
	"fmt"
	"math/big"

	"go.sia.tech/core/consensus"
	rhp2 "go.sia.tech/core/rhp/v2"
	"go.sia.tech/core/types"
	"verif/ref"
	"verif/sim"
)

// Contract is the stub renter/host pair's knowledge about one contract.
type Contract struct {
	idx      int
	v2       bool
	id       types.FileContractID
	renter   *Wallet  // signs with keys[0]
	host     *Wallet  // signs with keys[1]
	data     []byte   // the file of the latest revision the pair signed
	versions [][]byte // every file the pair ever signed for (any of them may be the one on chain on some branch)
	hostUp   bool     // false: host "crashed", will miss its proof
}

func (c *Contract) renterKey() types.PrivateKey { return c.renter.keys[0] }
func (c *Contract) hostKey() types.PrivateKey   { return c.host.keys[1] }

func (c *Contract) uc() types.UnlockConditions {
	return types.UnlockConditions{
		PublicKeys:         []types.UnlockKey{c.renterKey().PublicKey().UnlockKey(), c.hostKey().PublicKey().UnlockKey()},
		SignaturesRequired: 2,
	}
}

// fileSizes are the sizes files are drawn from: empty, partial last leaf,
// non-power-of-two leaf counts, around a sector.
var fileSizes = []int{0, 1, 63, 64, 65, 127, 128, 129, 192, 320, 448, 1000, 4096, 4097, 64 * 7, 64*9 + 5, 64 * 33, 1 << 16, 1<<16 + 64*3 + 1}

func (w *World) drawFile(c *Contract, rev uint64) []byte {
	size := fileSizes[w.tape.Choose(len(fileSizes))]
	return sim.HashBytes("file", uint64(c.idx), rev, size)
}

func fileRoot(data []byte) types.Hash256 { return ref.TreeRoot(ref.FileLeaves(data)) }

// signContractV1 appends the renter and host whole-transaction signatures for
// a revision of c and fills them in.
func (w *World) signContractV1(s consensus.State, txn *types.Transaction, c *Contract) {
	base := len(txn.Signatures)
	for i := 0; i < 2; i++ {
		txn.Signatures = append(txn.Signatures, types.TransactionSignature{
			ParentID: types.Hash256(c.id), PublicKeyIndex: uint64(i), CoveredFields: types.CoveredFields{WholeTransaction: true},
		})
	}
	for i, k := range []types.PrivateKey{c.renterKey(), c.hostKey()} {
		sig := &txn.Signatures[base+i]
		h := s.WholeSigHash(*txn, sig.ParentID, sig.PublicKeyIndex, sig.Timelock, nil)
		sg := k.SignHash(h)
		sig.Signature = sg[:]
	}
}

// fundV1 adds inputs of wl worth at least need to txn and a change output;
// returns false if the wallet cannot afford it.
func (w *World) fundV1(wl *Wallet, n *Node, txn *types.Transaction, need types.Currency) bool {
	var total types.Currency
	for _, e := range wl.spendable(n, true) {
		if total.Cmp(need) >= 0 {
			break
		}
		ai := wl.byAdr[e.SiacoinOutput.Address]
		txn.SiacoinInputs = append(txn.SiacoinInputs, types.SiacoinInput{ParentID: e.ID, UnlockConditions: *ai.uc})
		total = total.Add(e.SiacoinOutput.Value)
	}
	if total.Cmp(need) < 0 {
		return false
	}
	if ch := total.Sub(need); !ch.IsZero() {
		txn.SiacoinOutputs = append(txn.SiacoinOutputs, types.SiacoinOutput{Value: ch, Address: wl.addrs[0].addr})
	}
	return true
}

func (w *World) fundV2(wl *Wallet, n *Node, txn *types.V2Transaction, need types.Currency) bool {
	var total types.Currency
	for _, e := range wl.spendable(n, false) {
		if total.Cmp(need) >= 0 {
			break
		}
		if !wl.canSatisfyNow(n.tip, wl.byAdr[e.SiacoinOutput.Address]) {
			continue
		}
		txn.SiacoinInputs = append(txn.SiacoinInputs, types.V2SiacoinInput{Parent: e})
		total = total.Add(e.SiacoinOutput.Value)
	}
	if total.Cmp(need) < 0 {
		return false
	}
	if ch := total.Sub(need); !ch.IsZero() {
		txn.SiacoinOutputs = append(txn.SiacoinOutputs, types.SiacoinOutput{Value: ch, Address: wl.addrs[3].addr})
	}
	return true
}

// formV1 builds a v1 contract formation with the rhp/v2 constructor.
func (w *World) formV1(renter *Wallet, n *Node) *PoolTxn {
	t := w.tape
	host := w.wallets[t.Choose(len(w.wallets))]
	c := &Contract{idx: len(w.contracts), renter: renter, host: host, hostUp: true}
	child := n.tip.Index.Height + 1
	end := child + uint64(t.Range(2, 14))
	ws := uint64(t.Range(1, 8))
	if end+ws+1 >= w.net.HardforkV2.RequireHeight {
		return nil // could never be resolved under v1 rules
	}
	hs := rhp2.HostSettings{WindowSize: ws, ContractPrice: types.Siacoins(uint32(t.Range(0, 3))), Address: host.addrs[0].addr}
	renterPayout := types.Siacoins(uint32(t.Range(1, 40))).Add(types.NewCurrency64(uint64(t.Choose(20000))))
	collateral := types.Siacoins(uint32(t.Range(0, 20)))
	fc := rhp2.PrepareContractFormation(c.renterKey().PublicKey(), c.hostKey().PublicKey(), renterPayout, collateral, end, hs, renter.addrs[0].addr)
	if child < w.net.HardforkTax.Height {
		// the constructor inverts the post-hardfork tax; before the tax
		// hardfork recompute the payout from the era's own equation
		valid := fc.ValidProofOutputs[0].Value.Add(fc.ValidProofOutputs[1].Value)
		fc.Payout = preTaxPayout(n.tip, fc, valid)
		if fc.Payout.IsZero() {
			return nil
		}
	}
	if t.Chance(1, 3) {
		// form with data already in place (create+prove paths)
		c.remember(w.drawFile(c, 0))
		fc.Filesize = uint64(len(c.data))
		fc.FileMerkleRoot = fileRoot(c.data)
	}
	txn := types.Transaction{FileContracts: []types.FileContract{fc}}
	fee := types.Siacoins(1).Div64(uint64(t.Range(1, 50)))
	txn.MinerFees = []types.Currency{fee}
	if !w.fundV1(renter, n, &txn, fc.Payout.Add(fee)) {
		return nil
	}
	for _, in := range txn.SiacoinInputs {
		renter.signV1(n.tip, &txn, types.Hash256(in.ParentID), in.UnlockConditions)
	}
	ucs := map[types.Hash256]types.UnlockConditions{}
	for _, in := range txn.SiacoinInputs {
		ucs[types.Hash256(in.ParentID)] = in.UnlockConditions
	}
	renter.finishV1(n.tip, &txn, ucs)
	c.id = txn.FileContractID(0)
	w.contracts = append(w.contracts, c)
	return &PoolTxn{V1: &txn, ID: txn.ID(), From: renter.idx, Kind: "form-v1"}
}

// preTaxPayout searches the payout P with P = valid + tax(P) under the
// pre-hardfork tax rule. Tax is a multiple of 10000, so P ≡ valid (mod 10000)
// and P is close to valid/0.961.
func preTaxPayout(s consensus.State, fc types.FileContract, valid types.Currency) types.Currency {
	guess := valid.Mul64(1000).Div64(961)
	step := types.NewCurrency64(10000)
	mod := func(c types.Currency) uint64 {
		return new(big.Int).Mod(c.Big(), big.NewInt(10000)).Uint64()
	}
	base := guess.Sub(types.NewCurrency64(mod(guess))).Add(types.NewCurrency64(mod(valid)))
	for i := -8; i <= 8; i++ {
		cand := base
		if i < 0 {
			d := step.Mul64(uint64(-i))
			if cand.Cmp(d) < 0 {
				continue
			}
			cand = cand.Sub(d)
		} else {
			cand = cand.Add(step.Mul64(uint64(i)))
		}
		f := fc
		f.Payout = cand
		if valid.Add(s.FileContractTax(f)) == cand {
			return cand
		}
	}
	return types.ZeroCurrency
}

// liveContracts lists the registry entries whose element is in n's store.
func (w *World) liveContracts(n *Node, v2 bool) (out []*Contract) {
	for _, c := range w.contracts {
		if c.v2 != v2 {
			continue
		}
		if v2 {
			if _, ok := n.store.V2FC[c.id]; ok {
				out = append(out, c)
			}
		} else if _, ok := n.store.FC[c.id]; ok {
			out = append(out, c)
		}
	}
	return
}

// reviseV1 moves value from the renter to the host / void and stores new data.
func (w *World) reviseV1(n *Node) *PoolTxn {
	t := w.tape
	used := n.poolSpent()
	var cands []*Contract
	child := n.tip.Index.Height + 1
	for _, c := range w.liveContracts(n, false) {
		e := n.store.FC[c.id]
		if !used[types.Hash256(c.id)] && e.FileContract.WindowStart >= child && e.FileContract.RevisionNumber < types.MaxRevisionNumber {
			cands = append(cands, c)
		}
	}
	if len(cands) == 0 {
		return nil
	}
	c := cands[t.Choose(len(cands))]
	cur := n.store.FC[c.id].FileContract
	rev := cur
	rev.RevisionNumber = cur.RevisionNumber + uint64(t.Range(1, 3))
	rev.ValidProofOutputs = append([]types.SiacoinOutput(nil), cur.ValidProofOutputs...)
	rev.MissedProofOutputs = append([]types.SiacoinOutput(nil), cur.MissedProofOutputs...)
	// pay: renter -> host (valid), renter -> void (missed)
	amt := cur.ValidProofOutputs[0].Value.Div64(uint64(t.Range(2, 10)))
	if len(rev.ValidProofOutputs) >= 2 && len(rev.MissedProofOutputs) >= 3 && !amt.IsZero() {
		rev.ValidProofOutputs[0].Value = rev.ValidProofOutputs[0].Value.Sub(amt)
		rev.ValidProofOutputs[1].Value = rev.ValidProofOutputs[1].Value.Add(amt)
		rev.MissedProofOutputs[0].Value = rev.MissedProofOutputs[0].Value.Sub(amt)
		rev.MissedProofOutputs[2].Value = rev.MissedProofOutputs[2].Value.Add(amt)
	}
	data := c.data
	if t.Chance(2, 3) {
		data = w.drawFile(c, rev.RevisionNumber)
		rev.Filesize = uint64(len(data))
		rev.FileMerkleRoot = fileRoot(data)
	}
	if t.Chance(1, 6) && cur.WindowStart > child+1 {
		rev.WindowStart = cur.WindowStart - 1 // windows may move as long as they start in the future
	}
	txn := types.Transaction{FileContractRevisions: []types.FileContractRevision{{ParentID: c.id, UnlockConditions: c.uc(), FileContract: rev}}}
	w.signContractV1(n.tip, &txn, c)
	c.remember(data)
	return &PoolTxn{V1: &txn, ID: txn.ID(), From: c.renter.idx, Kind: "revise-v1"}
}

// dataFor returns the file matching the contract's on-chain root, if the pair
// knows it.
func (c *Contract) dataFor(root types.Hash256, size uint64) ([]byte, bool) {
	for _, d := range c.versions {
		if uint64(len(d)) == size && fileRoot(d) == root {
			return d, true
		}
	}
	return nil, size == 0 && root == (types.Hash256{})
}

// proveV1 builds the host's storage proof for a contract whose window is open.
func (w *World) proveV1(n *Node) *PoolTxn {
	t := w.tape
	used := n.poolSpent()
	child := n.tip.Index.Height + 1
	var cands []*Contract
	for _, c := range w.liveContracts(n, false) {
		fc := n.store.FC[c.id].FileContract
		if c.hostUp && !used[types.Hash256(c.id)] && fc.WindowStart <= child && child <= fc.WindowEnd && fc.WindowStart >= 1 {
			cands = append(cands, c)
		}
	}
	if len(cands) == 0 {
		return nil
	}
	c := cands[t.Choose(len(cands))]
	fc := n.store.FC[c.id].FileContract
	data, ok := c.dataFor(fc.FileMerkleRoot, fc.Filesize)
	if !ok {
		return nil
	}
	sp, ok := w.storageProofV1(n.tip, n.best, c.id, fc, data)
	if !ok {
		return nil
	}
	txn := types.Transaction{StorageProofs: []types.StorageProof{sp}}
	return &PoolTxn{V1: &txn, ID: txn.ID(), From: c.host.idx, Kind: "prove-v1"}
}

// storageProofV1 builds the honest proof of the challenged leaf with RefMerkle.
func (w *World) storageProofV1(s consensus.State, best []types.BlockID, id types.FileContractID, fc types.FileContract, data []byte) (types.StorageProof, bool) {
	if fc.WindowStart < 1 || fc.WindowStart-1 >= uint64(len(best)) {
		return types.StorageProof{}, false
	}
	windowID := best[fc.WindowStart-1]
	idx := s.StorageProofLeafIndex(fc.Filesize, windowID, id)
	if want := ref.ChallengeIndex(fc.Filesize, windowID, id); want != idx {
		w.violate("C07", "challenge-index", fmt.Sprintf("StorageProofLeafIndex(%d, %v, %v) = %d, definition gives %d", fc.Filesize, windowID, id, idx, want))
	}
	leaves := ref.FileLeaves(data)
	sp := types.StorageProof{ParentID: id, Leaf: ref.LeafSegment(data, int(idx))}
	if len(leaves) > 0 {
		sp.Proof = ref.TreePath(leaves, int(idx))
	}
	return sp, true
}

// ---- v2 ----

func (w *World) signContractV2(s consensus.State, fc *types.V2FileContract, renter, host types.PrivateKey) {
	h := s.ContractSigHash(*fc)
	fc.RenterSignature = renter.SignHash(h)
	fc.HostSignature = host.SignHash(h)
}

// formV2 builds a v2 contract directly (short windows, so that whole lives fit
// into a run; the rhp/v4 constructors, whose window is 144 blocks, are driven
// on private forks by the C17 probes).
func (w *World) formV2(renter *Wallet, n *Node) *PoolTxn {
	t := w.tape
	host := w.wallets[t.Choose(len(w.wallets))]
	c := &Contract{idx: len(w.contracts), v2: true, renter: renter, host: host, hostUp: true}
	child := n.tip.Index.Height + 1
	ph := child + uint64(t.Range(1, 12))
	hostVal := types.Siacoins(uint32(t.Range(0, 20))).Add(types.NewCurrency64(uint64(t.Choose(1000)))) // (odd hastings on both sides: the tax is on their sum)
	fc := types.V2FileContract{
		ProofHeight:      ph,
		ExpirationHeight: ph + uint64(t.Range(1, 8)),
		RenterOutput:     types.SiacoinOutput{Value: types.Siacoins(uint32(t.Range(1, 40))).Add(types.NewCurrency64(uint64(t.Choose(1000)))), Address: renter.addrs[3].addr},
		HostOutput:       types.SiacoinOutput{Value: hostVal, Address: host.addrs[3].addr},
		MissedHostValue:  hostVal.Div64(uint64(t.Range(1, 4))),
		TotalCollateral:  hostVal.Div64(uint64(t.Range(1, 3))),
		RenterPublicKey:  c.renterKey().PublicKey(),
		HostPublicKey:    c.hostKey().PublicKey(),
	}
	if t.Chance(1, 2) {
		c.remember(w.drawFile(c, 0))
		fc.Filesize = uint64(len(c.data))
		fc.Capacity = fc.Filesize + uint64(t.Choose(3))*64
		fc.FileMerkleRoot = fileRoot(c.data)
	}
	w.signContractV2(n.tip, &fc, c.renterKey(), c.hostKey())
	txn := types.V2Transaction{FileContracts: []types.V2FileContract{fc}, MinerFee: types.Siacoins(1).Div64(uint64(t.Range(1, 50)))}
	need := fc.RenterOutput.Value.Add(fc.HostOutput.Value).Add(n.tip.V2FileContractTax(fc)).Add(txn.MinerFee)
	if !w.fundV2(renter, n, &txn, need) || !renter.signV2(n.tip, &txn) {
		return nil
	}
	c.id = txn.V2FileContractID(txn.ID(), 0)
	w.contracts = append(w.contracts, c)
	return &PoolTxn{V2: &txn, ID: txn.ID(), From: renter.idx, Kind: "form-v2"}
}

func (w *World) reviseV2(n *Node) *PoolTxn {
	t := w.tape
	used := n.poolSpent()
	child := n.tip.Index.Height + 1
	var cands []*Contract
	for _, c := range w.liveContracts(n, true) {
		e := n.store.V2FC[c.id]
		if !used[types.Hash256(c.id)] && e.V2FileContract.ProofHeight >= child && e.V2FileContract.RevisionNumber < types.MaxRevisionNumber-4 {
			cands = append(cands, c)
		}
	}
	if len(cands) == 0 {
		return nil
	}
	c := cands[t.Choose(len(cands))]
	e := n.store.V2FC[c.id]
	cur := e.V2FileContract
	rev := cur
	rev.RevisionNumber = cur.RevisionNumber + uint64(t.Range(1, 3))
	amt := cur.RenterOutput.Value.Div64(uint64(t.Range(2, 10)))
	rev.RenterOutput.Value = cur.RenterOutput.Value.Sub(amt)
	rev.HostOutput.Value = cur.HostOutput.Value.Add(amt)
	if t.Chance(1, 2) {
		rev.MissedHostValue = cur.MissedHostValue.Sub(cur.MissedHostValue.Div64(uint64(t.Range(2, 6))))
	}
	data := c.data
	if t.Chance(2, 3) {
		data = w.drawFile(c, rev.RevisionNumber)
		rev.Filesize = uint64(len(data))
		if rev.Capacity < rev.Filesize {
			rev.Capacity = rev.Filesize
		}
		rev.FileMerkleRoot = fileRoot(data)
	}
	if t.Chance(1, 8) {
		rev.ProofHeight = max(rev.ProofHeight, child) + uint64(t.Range(0, 2))
		rev.ExpirationHeight = max(rev.ExpirationHeight, rev.ProofHeight+1)
	}
	w.signContractV2(n.tip, &rev, c.renterKey(), c.hostKey())
	txn := types.V2Transaction{FileContractRevisions: []types.V2FileContractRevision{{Parent: e.Copy(), Revision: rev}}}
	c.remember(data)
	return &PoolTxn{V2: &txn, ID: txn.ID(), From: c.renter.idx, Kind: "revise-v2"}
}

// storageProofV2 builds the honest v2 proof with RefMerkle.
func (w *World) storageProofV2(s consensus.State, cie types.ChainIndexElement, id types.FileContractID, fc types.V2FileContract, data []byte) *types.V2StorageProof {
	idx := s.StorageProofLeafIndex(fc.Filesize, cie.ChainIndex.ID, id)
	if want := ref.ChallengeIndex(fc.Filesize, cie.ChainIndex.ID, id); want != idx {
		w.violate("C07", "challenge-index", fmt.Sprintf("StorageProofLeafIndex(%d, %v, %v) = %d, definition gives %d", fc.Filesize, cie.ChainIndex.ID, id, idx, want))
	}
	leaves := ref.FileLeaves(data)
	// the host's side: leaf hashes through the library, each leaf a window into
	// the stored file, which holds more than this contract covers (a file grown
	// in place); hashing reads the file
	if len(data) > 0 {
		stored := append(append(make([]byte, 0, len(data)+200), data...), sim.HashBytes("grown", uint64(len(data)), 1, 130)...)
		before := append([]byte(nil), stored...)
		file := stored[:len(data)]
		for i, off := 0, 0; off < len(file); i, off = i+1, off+64 {
			if got := s.StorageProofLeafHash(file[off:min(off+64, len(file))]); got != leaves[i] {
				w.violate("C07", "leaf-hash", fmt.Sprintf("StorageProofLeafHash of leaf %d of a %d-byte file = %v, definition gives %v", i, len(file), got, leaves[i]))
				break
			}
		}
		if !bytes.Equal(stored, before) {
			w.violate(w.propAmong("C07", "C09"), "leaf-hash-writes-to-file", fmt.Sprintf("hashing the leaves of a %d-byte file through StorageProofLeafHash changed the bytes stored after it", len(file)))
		}
		w.stats.Inc("probe.c07.host-leaf-hashes")
	}
	sp := &types.V2StorageProof{ProofIndex: cie.Copy(), Leaf: ref.LeafSegment(data, int(idx))}
	if len(leaves) > 0 {
		sp.Proof = ref.TreePath(leaves, int(idx))
	}
	return sp
}

// resolveV2 builds a storage proof, an expiration or a renewal for a live v2
// contract, whichever the height allows.
func (w *World) resolveV2(n *Node) *PoolTxn {
	t := w.tape
	used := n.poolSpent()
	child := n.tip.Index.Height + 1
	var cands []*Contract
	for _, c := range w.liveContracts(n, true) {
		if !used[types.Hash256(c.id)] {
			cands = append(cands, c)
		}
	}
	if len(cands) == 0 {
		return nil
	}
	c := cands[t.Choose(len(cands))]
	e := n.store.V2FC[c.id]
	fc := e.V2FileContract
	var res types.V2FileContractResolutionType
	kind := ""
	txn := types.V2Transaction{}
	switch {
	case child > fc.ExpirationHeight && (!c.hostUp || t.Chance(1, 2)):
		res, kind = &types.V2FileContractExpiration{}, "expire-v2"
	case child > fc.ProofHeight && c.hostUp && fc.ProofHeight < uint64(len(n.store.CI)):
		data, ok := c.dataFor(fc.FileMerkleRoot, fc.Filesize)
		if !ok {
			return nil
		}
		res, kind = w.storageProofV2(n.tip, n.store.CI[fc.ProofHeight], c.id, fc, data), "prove-v2"
	case child <= fc.ProofHeight && t.Chance(1, 3):
		// renewal: split the old value into final outputs and rollover
		nc := fc
		nc.RevisionNumber = 0
		nc.ProofHeight = child + uint64(t.Range(2, 10))
		nc.ExpirationHeight = nc.ProofHeight + uint64(t.Range(1, 6))
		nc.RenterOutput.Value = types.Siacoins(uint32(t.Range(1, 20))).Add(types.NewCurrency64(uint64(t.Choose(100))))
		nc.HostOutput.Value = types.Siacoins(uint32(t.Range(0, 10))).Add(types.NewCurrency64(uint64(t.Choose(100))))
		nc.MissedHostValue = nc.HostOutput.Value.Div64(2)
		nc.TotalCollateral = nc.HostOutput.Value.Div64(2)
		ren := &types.V2FileContractRenewal{NewContract: nc, FinalRenterOutput: fc.RenterOutput, FinalHostOutput: fc.HostOutput}
		cost := nc.RenterOutput.Value.Add(nc.HostOutput.Value).Add(n.tip.V2FileContractTax(nc))
		// roll over a tape-chosen part of each side, never more than the new contract costs
		rr := fc.RenterOutput.Value.Div64(uint64(t.Range(1, 4)))
		hr := fc.HostOutput.Value.Div64(uint64(t.Range(1, 4)))
		if t.Chance(1, 4) {
			rr, hr = types.ZeroCurrency, types.ZeroCurrency
		}
		if rr.Add(hr).Cmp(cost) > 0 {
			rr, hr = types.ZeroCurrency, types.ZeroCurrency
		}
		ren.RenterRollover, ren.HostRollover = rr, hr
		ren.FinalRenterOutput.Value = fc.RenterOutput.Value.Sub(rr)
		ren.FinalHostOutput.Value = fc.HostOutput.Value.Sub(hr)
		w.signContractV2(n.tip, &ren.NewContract, c.renterKey(), c.hostKey())
		h := n.tip.RenewalSigHash(*ren)
		ren.RenterSignature, ren.HostSignature = c.renterKey().SignHash(h), c.hostKey().SignHash(h)
		res, kind = ren, "renew-v2"
		txn.MinerFee = types.Siacoins(1).Div64(uint64(t.Range(1, 50)))
		need := cost.Sub(rr.Add(hr)).Add(txn.MinerFee)
		txn.FileContractResolutions = []types.V2FileContractResolution{{Parent: e.Copy(), Resolution: res}}
		if !w.fundV2(c.renter, n, &txn, need) || !c.renter.signV2(n.tip, &txn) {
			return nil
		}
		// the renewed contract continues with the same pair and data
		nc2 := &Contract{idx: len(w.contracts), v2: true, id: c.id.V2RenewalID(), renter: c.renter, host: c.host, data: c.data, hostUp: c.hostUp}
		nc2.versions = append([][]byte(nil), c.versions...)
		w.contracts = append(w.contracts, nc2)
		return &PoolTxn{V2: &txn, ID: txn.ID(), From: c.renter.idx, Kind: kind}
	default:
		return nil
	}
	txn.FileContractResolutions = []types.V2FileContractResolution{{Parent: e.Copy(), Resolution: res}}
	return &PoolTxn{V2: &txn, ID: txn.ID(), From: c.host.idx, Kind: kind}
}

// actContracts is the renter/host part of a wallet's think step.
func (w *World) actContracts(wl *Wallet, n *Node, v1ok, v2ok bool) []*PoolTxn {
	t := w.tape
	var pt *PoolTxn
	useV2 := v2ok && (!v1ok || t.Chance(1, 2))
	switch t.Weighted(3, 3, 3, 1, 3) {
	case 4:
		if useV2 {
			return w.comboV2(wl, n)
		} else if v1ok {
			return w.comboV1(wl, n)
		}
		return nil
	case 0:
		if useV2 {
			pt = w.formV2(wl, n)
		} else if v1ok {
			pt = w.formV1(wl, n)
		}
	case 1:
		if useV2 {
			pt = w.reviseV2(n)
		} else if v1ok {
			pt = w.reviseV1(n)
		}
	case 2:
		if v2ok {
			pt = w.resolveV2(n)
		}
		if pt == nil && v1ok {
			pt = w.proveV1(n)
		}
	default:
		// host crash: one contract's host stops proving (→ expiry)
		if len(w.contracts) > 0 && !w.quiet {
			c := w.contracts[t.Choose(len(w.contracts))]
			if c.hostUp {
				c.hostUp = false
				w.stats.Inc("fault.host-crash")
			}
		}
	}
	if pt == nil {
		return nil
	}
	return []*PoolTxn{pt}
}

func (c *Contract) remember(data []byte) {
	c.data = data
	c.versions = append(c.versions, data)
	if len(c.versions) > 16 {
		c.versions = c.versions[len(c.versions)-16:]
	}
}

// workloadRejected is called when a transaction an honest actor built against
// its own node's tip is refused by that node.
func (w *World) workloadRejected(n *Node, pt *PoolTxn, err error) {
	if len(w.samples) < 6 {
		w.samples = append(w.samples, fmt.Sprintf("honest %s rejected at child height %d: %v", pt.Kind, n.tip.Index.Height+1, err))
	}
	switch pt.Kind {
	case "prove-v1":
		sp := pt.V1.StorageProofs[0]
		fc := n.store.FC[sp.ParentID].FileContract
		child := n.tip.Index.Height + 1
		legacy := child >= w.net.HardforkTax.Height && child < w.net.HardforkStorageProof.Height && fc.Filesize%64 == 0
		if legacy {
			// between the tax and storage-proof hardforks the last leaf of a
			// 64-byte-aligned file is hashed as empty: the historical bug the
			// later hardfork repaired (DESIGN Appendix F)
			w.stats.Inc("reach.legacy-leaf-refusal")
			return
		}
		if child < w.net.HardforkTax.Height && fc.Filesize == 0 {
			return // nothing asserted for empty files in the earliest era
		}
		w.violate("C07", "honest-proof-rejected", fmt.Sprintf("honest v1 storage proof for contract %v (filesize %d, child height %d) rejected: %v", sp.ParentID, fc.Filesize, child, err))
	case "prove-v2":
		res := pt.V2.FileContractResolutions[0]
		w.violate("C07", "honest-proof-rejected", fmt.Sprintf("honest v2 storage proof for contract %v (filesize %d) rejected: %v", res.Parent.ID, res.Parent.V2FileContract.Filesize, err))
	}
}

// ---- several uses of one contract inside one block ----

// reviseV1From builds a signed revision of c on top of cur (which may itself
// be a revision sitting in the pool).
func (w *World) reviseV1From(s consensus.State, c *Contract, cur types.FileContract, data []byte, bump uint64) types.Transaction {
	rev := cur
	rev.RevisionNumber = cur.RevisionNumber + bump
	rev.ValidProofOutputs = append([]types.SiacoinOutput(nil), cur.ValidProofOutputs...)
	rev.MissedProofOutputs = append([]types.SiacoinOutput(nil), cur.MissedProofOutputs...)
	if data != nil {
		rev.Filesize = uint64(len(data))
		rev.FileMerkleRoot = fileRoot(data)
	}
	txn := types.Transaction{FileContractRevisions: []types.FileContractRevision{{ParentID: c.id, UnlockConditions: c.uc(), FileContract: rev}}}
	w.signContractV1(s, &txn, c)
	return txn
}

// comboV1 builds the in-block combinations: form+revise, form+prove,
// revise+prove at the window start, revise+revise.
func (w *World) comboV1(renter *Wallet, n *Node) []*PoolTxn {
	t := w.tape
	child := n.tip.Index.Height + 1
	used := n.poolSpent()
	switch t.Choose(3) {
	case 0: // form (+ revise) (+ prove if the window starts right away)
		form := w.formV1(renter, n)
		if form == nil {
			return nil
		}
		c := w.contracts[len(w.contracts)-1]
		fc := form.V1.FileContracts[0]
		out := []*PoolTxn{form}
		if t.Chance(1, 2) {
			// rebuild with the window opening in this very block
			return out
		}
		data := w.drawFile(c, 1)
		c.remember(data)
		rv := w.reviseV1From(n.tip, c, fc, data, 1)
		out = append(out, &PoolTxn{V1: &rv, ID: rv.ID(), From: renter.idx, Kind: "form+revise-v1"})
		w.stats.Inc("reach.form-and-revise-one-block")
		return out
	case 1: // revise + prove in the block at the window start
		var cands []*Contract
		for _, c := range w.liveContracts(n, false) {
			fc := n.store.FC[c.id].FileContract
			if c.hostUp && !used[types.Hash256(c.id)] && fc.WindowStart == child && fc.WindowStart < fc.WindowEnd && fc.RevisionNumber < types.MaxRevisionNumber-2 {
				cands = append(cands, c)
			}
		}
		if len(cands) == 0 {
			return nil
		}
		c := cands[t.Choose(len(cands))]
		cur := n.store.FC[c.id].FileContract
		data := w.drawFile(c, cur.RevisionNumber+1)
		c.remember(data)
		rv := w.reviseV1From(n.tip, c, cur, data, 1)
		revised := rv.FileContractRevisions[0].FileContract
		revised.Payout = cur.Payout
		sp, ok := w.storageProofV1(n.tip, n.best, c.id, revised, data)
		if !ok {
			return nil
		}
		pv := types.Transaction{StorageProofs: []types.StorageProof{sp}}
		w.stats.Inc("reach.revise-and-prove-one-block")
		return []*PoolTxn{{V1: &rv, ID: rv.ID(), From: renter.idx, Kind: "revise+prove-v1"}, {V1: &pv, ID: pv.ID(), From: c.host.idx, Kind: "revise+prove-v1"}}
	default: // two revisions of one contract
		var cands []*Contract
		for _, c := range w.liveContracts(n, false) {
			fc := n.store.FC[c.id].FileContract
			if !used[types.Hash256(c.id)] && fc.WindowStart >= child && fc.RevisionNumber < types.MaxRevisionNumber-4 {
				cands = append(cands, c)
			}
		}
		if len(cands) == 0 {
			return nil
		}
		c := cands[t.Choose(len(cands))]
		cur := n.store.FC[c.id].FileContract
		d1 := w.drawFile(c, cur.RevisionNumber+1)
		c.remember(d1)
		r1 := w.reviseV1From(n.tip, c, cur, d1, 1)
		mid := r1.FileContractRevisions[0].FileContract
		mid.Payout = cur.Payout
		d2 := w.drawFile(c, cur.RevisionNumber+2)
		c.remember(d2)
		r2 := w.reviseV1From(n.tip, c, mid, d2, 1)
		w.stats.Inc("reach.two-revisions-one-block")
		return []*PoolTxn{{V1: &r1, ID: r1.ID(), From: renter.idx, Kind: "revise+revise-v1"}, {V1: &r2, ID: r2.ID(), From: renter.idx, Kind: "revise+revise-v1"}}
	}
}

// comboV2 builds revise+revise and revise+renew of one v2 contract in one block.
func (w *World) comboV2(renter *Wallet, n *Node) []*PoolTxn {
	t := w.tape
	child := n.tip.Index.Height + 1
	used := n.poolSpent()
	var cands []*Contract
	for _, c := range w.liveContracts(n, true) {
		fc := n.store.V2FC[c.id].V2FileContract
		if !used[types.Hash256(c.id)] && fc.ProofHeight >= child && fc.RevisionNumber < types.MaxRevisionNumber-4 && fc.RenterOutput.Value.Cmp(types.Siacoins(1)) > 0 {
			cands = append(cands, c)
		}
	}
	if len(cands) == 0 {
		return nil
	}
	c := cands[t.Choose(len(cands))]
	e := n.store.V2FC[c.id]
	cur := e.V2FileContract
	mkRev := func(base types.V2FileContract) types.V2Transaction {
		r := base
		r.RevisionNumber++
		amt := base.RenterOutput.Value.Div64(uint64(t.Range(3, 10)))
		r.RenterOutput.Value = base.RenterOutput.Value.Sub(amt)
		r.HostOutput.Value = base.HostOutput.Value.Add(amt)
		w.signContractV2(n.tip, &r, c.renterKey(), c.hostKey())
		return types.V2Transaction{FileContractRevisions: []types.V2FileContractRevision{{Parent: e.Copy(), Revision: r}}}
	}
	r1 := mkRev(cur)
	if t.Chance(1, 2) {
		r2 := mkRev(r1.FileContractRevisions[0].Revision)
		w.stats.Inc("reach.two-v2-revisions-one-block")
		return []*PoolTxn{{V2: &r1, ID: r1.ID(), From: renter.idx, Kind: "revise+revise-v2"}, {V2: &r2, ID: r2.ID(), From: renter.idx, Kind: "revise+revise-v2"}}
	}
	// revise, then renew in the same block: the renewal splits the value of
	// the contract as it stands after the revision (sums are equal anyway)
	rv := r1.FileContractRevisions[0].Revision
	nc := rv
	nc.RevisionNumber = 0
	nc.ProofHeight = child + uint64(t.Range(2, 8))
	nc.ExpirationHeight = nc.ProofHeight + uint64(t.Range(1, 5))
	nc.RenterOutput.Value = types.Siacoins(uint32(t.Range(1, 5)))
	nc.HostOutput.Value = types.Siacoins(uint32(t.Range(0, 3)))
	nc.MissedHostValue = nc.HostOutput.Value
	nc.TotalCollateral = types.ZeroCurrency
	ren := &types.V2FileContractRenewal{NewContract: nc, FinalRenterOutput: rv.RenterOutput, FinalHostOutput: rv.HostOutput}
	w.signContractV2(n.tip, &ren.NewContract, c.renterKey(), c.hostKey())
	h := n.tip.RenewalSigHash(*ren)
	ren.RenterSignature, ren.HostSignature = c.renterKey().SignHash(h), c.hostKey().SignHash(h)
	txn := types.V2Transaction{FileContractResolutions: []types.V2FileContractResolution{{Parent: e.Copy(), Resolution: ren}}, MinerFee: types.NewCurrency64(1000)}
	need := nc.RenterOutput.Value.Add(nc.HostOutput.Value).Add(n.tip.V2FileContractTax(nc)).Add(txn.MinerFee)
	if !w.fundV2(renter, n, &txn, need) || !renter.signV2(n.tip, &txn) {
		return nil
	}
	nc2 := &Contract{idx: len(w.contracts), v2: true, id: c.id.V2RenewalID(), renter: c.renter, host: c.host, data: c.data, hostUp: c.hostUp}
	nc2.versions = append([][]byte(nil), c.versions...)
	w.contracts = append(w.contracts, nc2)
	w.stats.Inc("reach.revise-and-renew-one-block")
	return []*PoolTxn{{V2: &r1, ID: r1.ID(), From: renter.idx, Kind: "revise+renew-v2"}, {V2: &txn, ID: txn.ID(), From: renter.idx, Kind: "revise+renew-v2"}}
}
