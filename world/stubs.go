package world

import (
	"go.sia.tech/core/consensus"
)

type Renter struct{}
type Adversary struct{}



func (w *World) setupExtras() { w.setupLights() }

func (w *World) actExtra(wl *Wallet, n *Node, v1ok, v2ok bool) []*PoolTxn { return nil }

func (w *World) workloadRejected(pt *PoolTxn, err error) {}



func (w *World) crashNode(n *Node)   {}
func (w *World) restartNode(n *Node) {}

func (w *World) finalChecks() {}

func (w *World) extrasApplied(n *Node, e *blockEntry, au consensus.ApplyUpdate, first bool) {
}
