package world

import ()

func (w *World) setupExtras() { w.setupLights() }

func (w *World) actExtra(wl *Wallet, n *Node, v1ok, v2ok bool) []*PoolTxn {
	return w.actContracts(wl, n, v1ok, v2ok)
}

func (w *World) crashNode(n *Node)   {}
func (w *World) restartNode(n *Node) {}

func (w *World) finalChecks() { w.concurrentStage() }
