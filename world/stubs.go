package world

import (
	"go.sia.tech/core/consensus"
	"go.sia.tech/core/types"
	"verif/sim"
)

type Renter struct{}
type Adversary struct{}

func applyProfile(t *sim.Tape, c *Config, tier string) {}

func (w *World) setupExtras() {}

func (w *World) actExtra(wl *Wallet, n *Node, v1ok, v2ok bool) []*PoolTxn { return nil }

func (w *World) workloadRejected(pt *PoolTxn, err error) {}

func (w *World) onWire(kind string, v any, enc []byte) {}

func (w *World) crashNode(n *Node)   {}
func (w *World) restartNode(n *Node) {}

func (w *World) finalChecks() {}

type validateSnap struct{}

func (w *World) preValidate(n *Node, s consensus.State, b types.Block, bs consensus.V1BlockSupplement) *validateSnap {
	return nil
}
func (w *World) postValidate(n *Node, snap *validateSnap, s consensus.State, b types.Block, bs consensus.V1BlockSupplement, verr error) {
}
func (w *World) postApply(n *Node, snap *validateSnap, s consensus.State, e *blockEntry, bs consensus.V1BlockSupplement, ns consensus.State, au consensus.ApplyUpdate) {
}

type revertSnap struct{}

func (w *World) preRevert(n *Node, e *blockEntry) *revertSnap { return nil }
func (w *World) checkRevertDiffs(n *Node, e *blockEntry, ru consensus.RevertUpdate, pre *revertSnap) {
}

type Light struct{}

func (w *World) lightsApplied(n *Node, e *blockEntry, au consensus.ApplyUpdate)    {}
func (w *World) lightsReverted(n *Node, e *blockEntry, ru consensus.RevertUpdate) {}
func (w *World) extrasApplied(n *Node, e *blockEntry, au consensus.ApplyUpdate, first bool) {
}
