package world

import (
	"go.sia.tech/core/consensus"
	"verif/sim"
)

type Renter struct{}
type Adversary struct{}

func applyProfile(t *sim.Tape, c *Config, tier string) {}

func (w *World) setupExtras() {}

func (w *World) actExtra(wl *Wallet, n *Node, v1ok, v2ok bool) []*PoolTxn { return nil }

func (w *World) workloadRejected(pt *PoolTxn, err error) {}



func (w *World) crashNode(n *Node)   {}
func (w *World) restartNode(n *Node) {}

func (w *World) finalChecks() {}

type Light struct{}

func (w *World) lightsApplied(n *Node, e *blockEntry, au consensus.ApplyUpdate)    {}
func (w *World) lightsReverted(n *Node, e *blockEntry, ru consensus.RevertUpdate) {}
func (w *World) extrasApplied(n *Node, e *blockEntry, au consensus.ApplyUpdate, first bool) {
}
