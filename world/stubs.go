package world

import (
)

type Renter struct{}



func (w *World) setupExtras() { w.setupLights() }

func (w *World) actExtra(wl *Wallet, n *Node, v1ok, v2ok bool) []*PoolTxn { return nil }

func (w *World) workloadRejected(pt *PoolTxn, err error) {}



func (w *World) crashNode(n *Node)   {}
func (w *World) restartNode(n *Node) {}

func (w *World) finalChecks() {}


