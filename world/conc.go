package world

import (
	"bytes"
	"fmt"
	"runtime"
	"sync"
	"time"

	"go.sia.tech/core/consensus"
	"go.sia.tech/core/types"
)

// Engine E3 (C09): the blocks a run validated are handed, as the very same
// objects, to several caller goroutines that validate, apply, revert, hash and
// copy them at once. Which goroutine does what, in which order, is drawn from
// the tape; between the start barrier and the join the goroutines run under
// the Go scheduler (the binary of this part is built with the race detector).
// Every result must equal the sequential one and the inputs must be unchanged.

type concSample struct {
	s       consensus.State
	b       types.Block
	bs      consensus.V1BlockSupplement
	ats     time.Time
	verdict string
	nsEnc   []byte // valid blocks: encoding of the state after ApplyBlock
	diffSig string
	ruSig   string
	snap    [3][]byte // state, block, supplement bytes before
	ctx     string
}

const maxConcSamples = 20

func (w *World) concRecord(s consensus.State, b types.Block, bs consensus.V1BlockSupplement, ats time.Time, verr error, ctx string) {
	if w.cfg.Profile != "C09" {
		return
	}
	cs := concSample{s: s, b: b, bs: bs, ats: ats, verdict: errStr(verr), ctx: ctx}
	cs.snap = [3][]byte{encodeState(s), fullBlockBytes(b), suppBytes(bs)}
	if verr == nil {
		if p := guard(func() {
			ns, au := consensus.ApplyBlock(s, b, bs, ats)
			cs.nsEnc = encodeState(ns)
			cs.diffSig = diffDigest(au.SiacoinElementDiffs(), au.SiafundElementDiffs(), au.FileContractElementDiffs(), au.V2FileContractElementDiffs())
			ru := consensus.RevertBlock(s, b, bs)
			cs.ruSig = diffDigest(ru.SiacoinElementDiffs(), ru.SiafundElementDiffs(), ru.FileContractElementDiffs(), ru.V2FileContractElementDiffs())
		}); p != "" {
			return
		}
	}
	if len(w.concSamples) < maxConcSamples {
		w.concSamples = append(w.concSamples, cs)
		return
	}
	// keep the first few (young chain) and a sliding choice of the rest
	w.concSamples[6+w.tape.Choose(maxConcSamples-6)] = cs
}

type concOp struct {
	sample int
	action int // 0 validate, 1 apply, 2 revert, 3 ids and signature hashes, 4 deep copies, 5 encode
}

func (w *World) concurrentStage() {
	if w.cfg.Profile != "C09" || len(w.concSamples) < 2 || w.fatal {
		return
	}
	t := w.tape
	g := t.Range(2, 8)
	plans := make([][]concOp, g)
	hot := t.Choose(len(w.concSamples)) // one sample everybody hammers
	for i := range plans {
		n := t.Range(8, 24)
		for j := 0; j < n; j++ {
			s := t.Choose(len(w.concSamples))
			if t.Chance(1, 2) {
				s = hot
			}
			plans[i] = append(plans[i], concOp{sample: s, action: t.Choose(6)})
		}
	}
	type mismatch struct{ inv, detail string }
	results := make([][]mismatch, g)
	prev := runtime.GOMAXPROCS(4)
	start := make(chan struct{})
	var wg sync.WaitGroup
	for i := 0; i < g; i++ {
		wg.Add(1)
		go func(i int) {
			defer wg.Done()
			<-start
			add := func(inv, f string, a ...any) { results[i] = append(results[i], mismatch{inv, fmt.Sprintf(f, a...)}) }
			for _, op := range plans[i] {
				cs := &w.concSamples[op.sample]
				if p := guard(func() {
					switch op.action {
					case 0:
						if v := errStr(consensus.ValidateBlock(cs.s, cs.b, cs.bs)); v != cs.verdict {
							add("concurrent-verdict", "%s: ValidateBlock called concurrently returned %q, alone %q", cs.ctx, v, cs.verdict)
						}
					case 1:
						if cs.verdict != "<nil>" {
							return
						}
						ns, au := consensus.ApplyBlock(cs.s, cs.b, cs.bs, cs.ats)
						if !bytes.Equal(encodeState(ns), cs.nsEnc) {
							add("concurrent-apply-state", "%s: ApplyBlock called concurrently reached a different state encoding", cs.ctx)
						}
						if diffDigest(au.SiacoinElementDiffs(), au.SiafundElementDiffs(), au.FileContractElementDiffs(), au.V2FileContractElementDiffs()) != cs.diffSig {
							add("concurrent-apply-diffs", "%s: ApplyBlock called concurrently returned different diffs", cs.ctx)
						}
					case 2:
						if cs.verdict != "<nil>" {
							return
						}
						ru := consensus.RevertBlock(cs.s, cs.b, cs.bs)
						if diffDigest(ru.SiacoinElementDiffs(), ru.SiafundElementDiffs(), ru.FileContractElementDiffs(), ru.V2FileContractElementDiffs()) != cs.ruSig {
							add("concurrent-revert-diffs", "%s: RevertBlock called concurrently returned different diffs", cs.ctx)
						}
					case 3:
						id1 := cs.b.ID()
						for k := range cs.b.Transactions {
							tx := &cs.b.Transactions[k]
							a, b := tx.ID(), tx.FullHash()
							if a != tx.ID() || b != tx.FullHash() {
								add("concurrent-hash", "%s: transaction ID / full hash differ between two calls made while other goroutines hash", cs.ctx)
							}
							for _, sg := range tx.Signatures {
								if sg.CoveredFields.WholeTransaction && len(sg.CoveredFields.Signatures) == 0 {
									h := cs.s.WholeSigHash(*tx, sg.ParentID, sg.PublicKeyIndex, sg.Timelock, nil)
									if h != cs.s.WholeSigHash(*tx, sg.ParentID, sg.PublicKeyIndex, sg.Timelock, nil) {
										add("concurrent-hash", "%s: WholeSigHash differs between two calls", cs.ctx)
									}
								}
							}
						}
						for _, tx := range cs.b.V2Transactions() {
							a, b := tx.ID(), cs.s.InputSigHash(tx)
							if a != tx.ID() || b != cs.s.InputSigHash(tx) {
								add("concurrent-hash", "%s: v2 transaction ID / input signature hash differ between two calls", cs.ctx)
							}
							for _, in := range tx.SiacoinInputs {
								if x := in.SatisfiedPolicy.Policy.Address(); x != in.SatisfiedPolicy.Policy.Address() {
									add("concurrent-hash", "%s: SpendPolicy.Address differs between two calls", cs.ctx)
								}
							}
						}
						if cs.b.V2 != nil {
							c1 := cs.s.Commitment(cs.b.MinerPayouts[0].Address, cs.b.Transactions, cs.b.V2Transactions())
							if c1 != cs.s.Commitment(cs.b.MinerPayouts[0].Address, cs.b.Transactions, cs.b.V2Transactions()) {
								add("concurrent-hash", "%s: Commitment differs between two calls", cs.ctx)
							}
						}
						if id1 != cs.b.ID() {
							add("concurrent-hash", "%s: block ID differs between two calls", cs.ctx)
						}
					case 4:
						for _, tx := range cs.b.V2Transactions() {
							c := tx.DeepCopy()
							scribbleV2(&c)
						}
						for _, ts := range cs.bs.Transactions {
							for _, e := range ts.SiacoinInputs {
								c := e.Copy()
								for k := range c.StateElement.MerkleProof {
									c.StateElement.MerkleProof[k][0] ^= 0xff
								}
							}
						}
					default:
						if !bytes.Equal(encodeBlock(cs.b), encodeBlock(cs.b)) || !bytes.Equal(encodeState(cs.s), cs.snap[0]) {
							add("concurrent-encode", "%s: encoding differs between two calls made while other goroutines work on the same objects", cs.ctx)
						}
					}
				}); p != "" {
					add("concurrent-panic", "%s: action %d panicked when called concurrently: %s", cs.ctx, op.action, p)
				}
			}
		}(i)
	}
	close(start)
	wg.Wait()
	runtime.GOMAXPROCS(prev)
	for i := range results {
		for _, m := range results[i] {
			w.violate("C09", m.inv, m.detail)
		}
	}
	for i := range w.concSamples {
		cs := &w.concSamples[i]
		if !bytes.Equal(encodeState(cs.s), cs.snap[0]) || !bytes.Equal(fullBlockBytes(cs.b), cs.snap[1]) || !bytes.Equal(suppBytes(cs.bs), cs.snap[2]) {
			w.violate("C09", "concurrent-mutates-input", cs.ctx+": state, block or supplement changed while concurrent callers worked on it")
		}
	}
	w.stats.Add("probe.c09.concurrent-callers", int64(g))
	w.stats.Inc("probe.c09.concurrent-stage")
	n := 0
	for _, p := range plans {
		n += len(p)
	}
	w.stats.Add("probe.c09.concurrent-calls", int64(n))
	w.log.Addf("ev=concurrent-stage goroutines=%d calls=%d samples=%d", g, n, len(w.concSamples))
}
