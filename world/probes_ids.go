package world

import (
	"bytes"
	"fmt"

	"go.sia.tech/core/consensus"
	"go.sia.tech/core/gateway"
	"go.sia.tech/core/types"
)

// ---- C12: IDs and sighashes bind exactly the effect-bearing content ----

func init() {
	registerRows("C12",
		probeRow{"I1-v1-fields", func(w *World, n *Node) {
			sc := n.fork()
			if !sc.v1ok() {
				return
			}
			cands := sc.ownedSC(true, true)
			if len(cands) == 0 {
				return
			}
			base, ok := w.spendV1(sc.s, cands[:min(2, len(cands))], w.wallets[0].addrs[0].addr)
			if !ok {
				return
			}
			base.MinerFees = []types.Currency{types.NewCurrency64(7)}
			base.SiacoinOutputs[0].Value = base.SiacoinOutputs[0].Value.Sub(types.NewCurrency64(7))
			base.ArbitraryData = [][]byte{[]byte("id-probe")}
			w.signAllV1(sc.s, &base)
			id := base.ID()
			clone := func() types.Transaction {
				d := types.NewBufDecoder(encV1(base))
				var t types.Transaction
				t.DecodeFrom(d)
				return t
			}
			row := func(name string, effect bool, mut func(t *types.Transaction)) {
				t := clone()
				mut(&t)
				changed := t.ID() != id
				w.stats.Inc("probe.I1-v1-" + name)
				w.stats.Inc("probe.rows-run")
				if changed != effect {
					if effect {
						w.violate("C12", "id-ignores-"+name, fmt.Sprintf("v1 transaction ID unchanged after changing effect-bearing field: %s", name))
					} else {
						w.violate("C12", "id-depends-on-"+name, fmt.Sprintf("v1 transaction ID changed after changing a field that bears no effect: %s", name))
					}
				}
				// derived IDs follow the transaction ID
				if effect && t.SiacoinOutputID(0) == base.SiacoinOutputID(0) {
					w.violate("C12", "output-id-ignores-"+name, fmt.Sprintf("v1 siacoin output ID unchanged after changing %s", name))
				}
			}
			row("output-value", true, func(t *types.Transaction) {
				t.SiacoinOutputs[0].Value = t.SiacoinOutputs[0].Value.Add(types.NewCurrency64(1))
			})
			row("output-address", true, func(t *types.Transaction) { t.SiacoinOutputs[0].Address[31] ^= 1 })
			row("input-parent", true, func(t *types.Transaction) { t.SiacoinInputs[0].ParentID[0] ^= 1 })
			row("input-timelock", true, func(t *types.Transaction) { t.SiacoinInputs[0].UnlockConditions.Timelock++ })
			row("input-sigs-required", true, func(t *types.Transaction) { t.SiacoinInputs[0].UnlockConditions.SignaturesRequired++ })
			row("input-key", true, func(t *types.Transaction) { t.SiacoinInputs[0].UnlockConditions.PublicKeys[0].Key[0] ^= 1 })
			row("miner-fee", true, func(t *types.Transaction) { t.MinerFees[0] = t.MinerFees[0].Add(types.NewCurrency64(1)) })
			row("arbitrary-data", true, func(t *types.Transaction) { t.ArbitraryData[0][0] ^= 1 })
			row("extra-arbitrary-data", true, func(t *types.Transaction) { t.ArbitraryData = append(t.ArbitraryData, nil) })
			row("signature-bytes", false, func(t *types.Transaction) { t.Signatures[0].Signature[0] ^= 1 })
			row("signature-dropped", false, func(t *types.Transaction) { t.Signatures = t.Signatures[:len(t.Signatures)-1] })
			row("signature-covered-fields", false, func(t *types.Transaction) { t.Signatures[0].CoveredFields.MinerFees = []uint64{0} })
			row("signature-timelock", false, func(t *types.Transaction) { t.Signatures[0].Timelock = 1 })
			// distinct kinds / positions of derived IDs never coincide
			two := clone()
			two.SiacoinOutputs = append(two.SiacoinOutputs, two.SiacoinOutputs[0])
			two.SiafundOutputs = []types.SiafundOutput{{Value: 1}}
			two.FileContracts = []types.FileContract{{}}
			ids := map[types.Hash256]string{}
			add := func(h types.Hash256, what string) {
				if prev, dup := ids[h]; dup {
					w.violate("C12", "derived-ids-coincide", fmt.Sprintf("v1 derived IDs coincide: %s and %s", prev, what))
				}
				ids[h] = what
			}
			add(types.Hash256(two.ID()), "transaction")
			add(types.Hash256(two.SiacoinOutputID(0)), "siacoin output 0")
			add(types.Hash256(two.SiacoinOutputID(1)), "siacoin output 1")
			add(types.Hash256(two.SiafundOutputID(0)), "siafund output 0")
			add(types.Hash256(two.FileContractID(0)), "file contract 0")
			add(types.Hash256(two.SiafundOutputID(0).ClaimOutputID()), "claim of siafund output 0")
			add(types.Hash256(two.FileContractID(0).ValidOutputID(0)), "valid output 0")
			add(types.Hash256(two.FileContractID(0).MissedOutputID(0)), "missed output 0")
			add(types.Hash256(two.FileContractID(0).ValidOutputID(1)), "valid output 1")
		}},
		probeRow{"I1-v2-fields", func(w *World, n *Node) {
			sc := n.fork()
			if !sc.v2ok() {
				return
			}
			cands := sc.ownedSC(false, true)
			if len(cands) == 0 {
				return
			}
			base, ok := w.spendV2(sc.s, cands[:min(2, len(cands))], w.wallets[0].addrs[0].addr)
			if !ok {
				return
			}
			base.MinerFee = types.NewCurrency64(7)
			base.SiacoinOutputs[0].Value = base.SiacoinOutputs[0].Value.Sub(types.NewCurrency64(7))
			base.ArbitraryData = []byte("id-probe")
			wl := w.wallets[0]
			att := types.Attestation{PublicKey: wl.keys[0].PublicKey(), Key: "k", Value: []byte("v")}
			att.Signature = wl.keys[0].SignHash(sc.s.AttestationSigHash(att))
			base.Attestations = []types.Attestation{att}
			// a siafund input, if one is at hand
			for _, id := range sc.store.sortedSF() {
				e := sc.store.SF[id]
				if o, ai := w.ownerOf(e.SiafundOutput.Address); o != nil && o.canSatisfyNow(sc.s, ai) {
					base.SiafundInputs = []types.V2SiafundInput{{Parent: e.Copy(), ClaimAddress: w.advAddr()}}
					base.SiafundOutputs = []types.SiafundOutput{{Value: e.SiafundOutput.Value, Address: w.advAddr()}}
					break
				}
			}
			// a contract and, if possible, a revision
			c := &Contract{renter: w.wallets[0], host: w.wallets[len(w.wallets)-1]}
			fc := types.V2FileContract{ProofHeight: sc.child() + 2, ExpirationHeight: sc.child() + 4, RenterOutput: types.SiacoinOutput{Value: types.NewCurrency64(100)}, HostOutput: types.SiacoinOutput{Value: types.NewCurrency64(100)},
				RenterPublicKey: c.renterKey().PublicKey(), HostPublicKey: c.hostKey().PublicKey()}
			w.signContractV2(sc.s, &fc, c.renterKey(), c.hostKey())
			base.FileContracts = []types.V2FileContract{fc}
			if lc := sc.pickLive(true, nil); lc != nil {
				e := sc.store.V2FC[lc.id]
				r := e.V2FileContract
				r.RevisionNumber++
				w.signContractV2(sc.s, &r, lc.renterKey(), lc.hostKey())
				base.FileContractRevisions = []types.V2FileContractRevision{{Parent: e.Copy(), Revision: r}}
			}
			w.signAllV2(sc.s, &base)
			id := base.ID()
			sigHash := sc.s.InputSigHash(base)
			row := func(name string, effect bool, mut func(t *types.V2Transaction) bool) {
				t := base.DeepCopy()
				if !mut(&t) {
					return
				}
				w.stats.Inc("probe.I1-v2-" + name)
				w.stats.Inc("probe.rows-run")
				changed := t.ID() != id
				sigChanged := sc.s.InputSigHash(t) != sigHash
				if changed != effect || sigChanged != effect {
					if effect {
						w.violate("C12", "id-ignores-"+name, fmt.Sprintf("v2 transaction ID (changed=%v) / input sighash (changed=%v) unaffected by a change of the effect-bearing field: %s", changed, sigChanged, name))
					} else {
						w.violate("C12", "id-depends-on-"+name, fmt.Sprintf("v2 transaction ID (changed=%v) / input sighash (changed=%v) affected by a field that bears no effect: %s", changed, sigChanged, name))
					}
				}
			}
			one := types.NewCurrency64(1)
			row("output-value", true, func(t *types.V2Transaction) bool {
				t.SiacoinOutputs[0].Value = t.SiacoinOutputs[0].Value.Add(one)
				return true
			})
			row("output-address", true, func(t *types.V2Transaction) bool { t.SiacoinOutputs[0].Address[3] ^= 1; return true })
			row("input-parent-id", true, func(t *types.V2Transaction) bool { t.SiacoinInputs[0].Parent.ID[9] ^= 1; return true })
			row("miner-fee", true, func(t *types.V2Transaction) bool { t.MinerFee = t.MinerFee.Add(one); return true })
			row("arbitrary-data", true, func(t *types.V2Transaction) bool { t.ArbitraryData[0] ^= 1; return true })
			row("new-foundation-address", true, func(t *types.V2Transaction) bool { a := w.advAddr(); t.NewFoundationAddress = &a; return true })
			row("attestation-value", true, func(t *types.V2Transaction) bool { t.Attestations[0].Value[0] ^= 1; return true })
			row("attestation-key", true, func(t *types.V2Transaction) bool { t.Attestations[0].Key = "k2"; return true })
			// (an attestation's signature is kept in its element and hashed into the accumulator leaf: part of what the transaction does)
			row("attestation-signature", true, func(t *types.V2Transaction) bool { t.Attestations[0].Signature[5] ^= 1; return true })
			row("attestation-public-key", true, func(t *types.V2Transaction) bool { t.Attestations[0].PublicKey[5] ^= 1; return true })
			row("contract-field", true, func(t *types.V2Transaction) bool { t.FileContracts[0].ExpirationHeight++; return true })
			row("contract-renter-key", true, func(t *types.V2Transaction) bool { t.FileContracts[0].RenterPublicKey[0] ^= 1; return true })
			row("siafund-output-address", true, func(t *types.V2Transaction) bool {
				if len(t.SiafundOutputs) == 0 {
					return false
				}
				t.SiafundOutputs[0].Address[0] ^= 1
				return true
			})
			row("siafund-claim-address", true, func(t *types.V2Transaction) bool {
				if len(t.SiafundInputs) == 0 {
					return false
				}
				t.SiafundInputs[0].ClaimAddress[0] ^= 1
				return true
			})
			row("revision-field", true, func(t *types.V2Transaction) bool {
				if len(t.FileContractRevisions) == 0 {
					return false
				}
				t.FileContractRevisions[0].Revision.Filesize++
				return true
			})
			row("revision-parent-id", true, func(t *types.V2Transaction) bool {
				if len(t.FileContractRevisions) == 0 {
					return false
				}
				t.FileContractRevisions[0].Parent.ID[0] ^= 1
				return true
			})
			// no effect: witnesses, signatures, parent contents other than the ID, proofs
			row("witness-signature", false, func(t *types.V2Transaction) bool {
				sp := &t.SiacoinInputs[0].SatisfiedPolicy
				if len(sp.Signatures) == 0 {
					return false
				}
				sp.Signatures[0][0] ^= 1
				return true
			})
			row("witness-policy", false, func(t *types.V2Transaction) bool {
				t.SiacoinInputs[0].SatisfiedPolicy.Policy = types.PolicyAbove(1)
				return true
			})
			row("parent-value", false, func(t *types.V2Transaction) bool {
				t.SiacoinInputs[0].Parent.SiacoinOutput.Value = t.SiacoinInputs[0].Parent.SiacoinOutput.Value.Add(one)
				return true
			})
			row("parent-address", false, func(t *types.V2Transaction) bool {
				t.SiacoinInputs[0].Parent.SiacoinOutput.Address[0] ^= 1
				return true
			})
			row("parent-maturity", false, func(t *types.V2Transaction) bool { t.SiacoinInputs[0].Parent.MaturityHeight++; return true })
			row("parent-leaf-index", false, func(t *types.V2Transaction) bool { t.SiacoinInputs[0].Parent.StateElement.LeafIndex++; return true })
			row("parent-proof", false, func(t *types.V2Transaction) bool {
				p := t.SiacoinInputs[0].Parent.StateElement.MerkleProof
				if len(p) == 0 {
					return false
				}
				p[0][0] ^= 1
				return true
			})
			row("contract-signature", false, func(t *types.V2Transaction) bool { t.FileContracts[0].HostSignature[0] ^= 1; return true })
			row("revision-signature", false, func(t *types.V2Transaction) bool {
				if len(t.FileContractRevisions) == 0 {
					return false
				}
				t.FileContractRevisions[0].Revision.RenterSignature[0] ^= 1
				return true
			})
			row("revision-parent-contents", false, func(t *types.V2Transaction) bool {
				if len(t.FileContractRevisions) == 0 {
					return false
				}
				t.FileContractRevisions[0].Parent.V2FileContract.Filesize++
				return true
			})
			// distinct derived IDs
			ids := map[types.Hash256]string{}
			add := func(h types.Hash256, what string) {
				if prev, dup := ids[h]; dup {
					w.violate("C12", "derived-ids-coincide", fmt.Sprintf("v2 derived IDs coincide: %s and %s", prev, what))
				}
				ids[h] = what
			}
			add(types.Hash256(id), "transaction")
			add(types.Hash256(base.SiacoinOutputID(id, 0)), "siacoin output 0")
			add(types.Hash256(base.SiacoinOutputID(id, 1)), "siacoin output 1")
			add(types.Hash256(base.SiafundOutputID(id, 0)), "siafund output 0")
			add(types.Hash256(base.V2FileContractID(id, 0)), "contract 0")
			add(types.Hash256(base.AttestationID(id, 0)), "attestation 0")
			fcid := base.V2FileContractID(id, 0)
			add(types.Hash256(fcid.V2RenterOutputID()), "renter output")
			add(types.Hash256(fcid.V2HostOutputID()), "host output")
			add(types.Hash256(fcid.V2RenewalID()), "renewal")
			add(types.Hash256(base.SiafundOutputID(id, 0).V2ClaimOutputID()), "claim output")
			// purposes: the four v2 signature hashes of "the same" content differ
			hs := map[types.Hash256]string{}
			purposes := map[string]types.Hash256{"input": sigHash, "contract": sc.s.ContractSigHash(fc), "attestation": sc.s.AttestationSigHash(att),
				"renewal": sc.s.RenewalSigHash(types.V2FileContractRenewal{NewContract: fc})}
			for _, what := range sortedKeys(purposes) {
				h := purposes[what]
				if prev, dup := hs[h]; dup {
					w.violate("C12", "sighash-purposes-coincide", fmt.Sprintf("signature hashes for %s and %s coincide", prev, what))
				}
				hs[h] = what
			}
			// a signature made for one purpose presented for another
			wrong := att
			wrong.Signature = wl.keys[0].SignHash(sigHash)
			t := base.DeepCopy()
			t.Attestations[0] = wrong
			if w.signAllV2(sc.s, &t) {
				verr, ok := sc.offer(nil, []types.V2Transaction{t}, offerOpt{})
				w.expect("C12", "S1-attestation-signed-with-input-sighash", verr, ok, false, "attestation whose signature was made over the input signature hash")
			}
		}},
		probeRow{"S2-replay-across-eras", func(w *World, n *Node) {
			// a v1 transaction signed in one era must not validate after the
			// next replay-prefix boundary (ASIC, Foundation, v2 allow height)
			sc := n.fork()
			if !sc.v1ok() {
				return
			}
			for _, b := range []struct {
				name string
				h    uint64
			}{{"asic", w.net.HardforkASIC.Height}, {"foundation", w.net.HardforkFoundation.Height}, {"v2-allow", w.net.HardforkV2.AllowHeight}} {
				// the prefix depends on the parent height: it changes for the child at h+1
				bound := b.h + 1
				if bound <= sc.child() || bound > sc.child()+12 || bound >= w.net.HardforkV2.RequireHeight {
					continue
				}
				// drawn networks may order their hardforks unlike any real one: a
				// boundary that lies at or above a later era's start changes nothing
				// (the later era's prefix is already in force)
				if (b.name == "asic" && (b.h >= w.net.HardforkFoundation.Height || b.h >= w.net.HardforkV2.AllowHeight)) || (b.name == "foundation" && b.h >= w.net.HardforkV2.AllowHeight) {
					continue
				}
				var id types.SiacoinOutputID
				found := false
				for _, e := range sc.ownedSC(true, true) {
					_, ai := w.ownerOf(e.SiacoinOutput.Address)
					if ai.kind == "uc-std" || ai.kind == "uc-2of3" {
						id, found = e.ID, true
						break
					}
				}
				if !found || !sc.advanceTo(bound-1) {
					return
				}
				e := sc.store.SC[id]
				txn, ok := w.spendV1(sc.s, []types.SiacoinElement{e.Copy()}, w.wallets[0].addrs[0].addr)
				if !ok {
					return
				}
				verr, ok := sc.offer([]types.Transaction{txn}, nil, offerOpt{})
				w.expect("C12", "S2-"+b.name+"-before", verr, ok, true, "v1 transaction offered in the era it was signed in")
				if !sc.extend(sc.nextTimestamp()) {
					return
				}
				verr, ok = sc.offer([]types.Transaction{txn}, nil, offerOpt{})
				w.expect("C12", "S2-"+b.name+"-replayed", verr, ok, false, fmt.Sprintf("v1 transaction signed below the %s boundary replayed in the block at height %d", b.name, sc.child()))
				return
			}
		}},
		probeRow{"B2-block-content", func(w *World, n *Node) {
			sc := n.fork()
			var v1 []types.Transaction
			var v2 []types.V2Transaction
			if sc.v2ok() {
				if e, ok := pickSC(w, sc.ownedSC(false, true)); ok {
					if t, ok := w.spendV2(sc.s, []types.SiacoinElement{e}, w.advAddr()); ok {
						v2 = append(v2, t)
					}
				}
			} else if e, ok := pickSC(w, sc.ownedSC(true, true)); ok {
				if t, ok := w.spendV1(sc.s, []types.SiacoinElement{e}, w.wallets[0].addrs[0].addr); ok {
					v1 = append(v1, t)
				}
			}
			if len(v1)+len(v2) == 0 {
				return
			}
			good := w.assemble(sc.s, sc.nextTimestamp(), w.miners[0].addr, v1, v2, false)
			bs := sc.supplement(good)
			if err := consensus.ValidateBlock(sc.s, good, bs); err != nil {
				return
			}
			gid := good.ID()
			row := func(name string, mut func(b *types.Block) bool) {
				b, err := decodeBlockSafe(encodeBlock(good))
				if err != nil || !mut(&b) {
					return
				}
				w.stats.Inc("probe.B2-" + name)
				w.stats.Inc("probe.rows-run")
				var verr error
				if p := guard(func() { verr = consensus.ValidateBlock(sc.s, b, sc.supplement(b)) }); p != "" {
					w.violate("C10", "validate-panic", p)
					return
				}
				if verr == nil && b.ID() == gid {
					w.violate("C12", "block-id-ignores-"+name, fmt.Sprintf("block content changed (%s) with all header fields kept: same ID %s and still accepted", name, short(gid)))
				}
			}
			row("miner-address", func(b *types.Block) bool { b.MinerPayouts[0].Address[0] ^= 1; return true })
			row("miner-value", func(b *types.Block) bool {
				b.MinerPayouts[0].Value = b.MinerPayouts[0].Value.Add(types.NewCurrency64(1))
				return true
			})
			row("txn-output-address", func(b *types.Block) bool {
				if len(b.Transactions) > 0 {
					b.Transactions[0].SiacoinOutputs[0].Address[0] ^= 1
				} else {
					b.V2.Transactions[0].SiacoinOutputs[0].Address[0] ^= 1
				}
				return true
			})
			row("txn-dropped", func(b *types.Block) bool {
				if len(b.Transactions) > 0 {
					b.Transactions = nil
				} else {
					b.V2.Transactions = nil
				}
				return true
			})
			row("txn-witness", func(b *types.Block) bool {
				if b.V2 == nil || len(b.V2.Transactions) == 0 || len(b.V2.Transactions[0].SiacoinInputs[0].SatisfiedPolicy.Signatures) == 0 {
					return false
				}
				// another valid-looking witness is still other content
				b.V2.Transactions[0].SiacoinInputs[0].SatisfiedPolicy.Signatures[0][0] ^= 1
				return true
			})
			row("v2-height", func(b *types.Block) bool {
				if b.V2 == nil {
					return false
				}
				b.V2.Height++
				return true
			})
			row("v1-signature", func(b *types.Block) bool {
				if len(b.Transactions) == 0 {
					return false
				}
				b.Transactions[0].Signatures[0].Signature[0] ^= 1
				return true
			})
			// v2: the commitment binds the parent state — the same block on a
			// different parent state must not validate
			if good.V2 != nil && sc.extend(sc.nextTimestamp()) {
				b2 := good
				b2.ParentID = sc.s.Index.ID
				h := *good.V2
				h.Height = sc.child()
				b2.V2 = &h
				sealBlock(sc.s, &b2)
				if err := consensus.ValidateBlock(sc.s, b2, sc.supplement(b2)); err == nil {
					w.violate("C12", "commitment-ignores-parent-state", "a v2 block whose commitment was computed for another parent state was accepted")
				}
				w.stats.Inc("probe.B2-parent-state")
			}
		}},
	)

	// ---- C18: compact relay ----
	registerRows("C18",
		probeRow{"O1-outline", func(w *World, n *Node) {
			sc := n.fork()
			if !sc.v2ok() {
				return
			}
			// a block with as many kinds of v2 parents as the pool and the wallets offer
			var v1 []types.Transaction
			var v2 []types.V2Transaction
			nn := *n
			nn.pool = append([]*PoolTxn(nil), n.pool...)
			for _, pt := range nn.pool {
				if pt.V1 != nil {
					v1 = append(v1, *pt.V1)
				} else {
					v2 = append(v2, pt.V2.DeepCopy())
				}
			}
			v1, v2 = n.fitBlock(v1, v2)
			for _, e := range sc.ownedSC(false, true) {
				if len(v2) >= 6 {
					break
				}
				spent := false
				for _, t := range v2 {
					for _, in := range t.SiacoinInputs {
						spent = spent || in.Parent.ID == e.ID
					}
				}
				for _, t := range v1 {
					for _, in := range t.SiacoinInputs {
						spent = spent || in.ParentID == e.ID
					}
				}
				if spent {
					continue
				}
				if t, ok := w.spendV2(sc.s, []types.SiacoinElement{e}, w.advAddr()); ok {
					// ephemeral follow-up: a parent without a proof inside the set
					v2 = append(v2, t)
					if w.tape.Chance(1, 2) {
						if t2, ok := w.spendV2(sc.s, []types.SiacoinElement{t.EphemeralSiacoinOutput(0)}, w.wallets[0].addrs[0].addr); ok {
							v2 = append(v2, t2)
						}
					}
				}
			}
			if len(v2) == 0 {
				return
			}
			if sc.v1ok() {
				// a v1 transaction whose signature names what it covers, with index
				// lists of different lengths for the siafund inputs and outputs
				for _, id := range sc.store.sortedSF() {
					e := sc.store.SF[id]
					wl, ai := w.ownerOf(e.SiafundOutput.Address)
					taken := false
					for _, t := range v1 {
						for _, in := range t.SiafundInputs {
							taken = taken || in.ParentID == id
						}
					}
					for _, t := range v2 {
						for _, in := range t.SiafundInputs {
							taken = taken || in.Parent.ID == id
						}
					}
					if wl == nil || ai.uc == nil || !ai.canSpendV1(sc.child()) || (ai.kind != "uc-std" && ai.kind != "uc-2of3") || e.SiafundOutput.Value < 2 || taken {
						continue
					}
					txn := types.Transaction{SiafundInputs: []types.SiafundInput{{ParentID: id, UnlockConditions: *ai.uc, ClaimAddress: w.advAddr()}},
						SiafundOutputs: []types.SiafundOutput{{Value: 1, Address: e.SiafundOutput.Address}, {Value: e.SiafundOutput.Value - 1, Address: e.SiafundOutput.Address}}}
					wl.signV1(sc.s, &txn, types.Hash256(id), *ai.uc)
					w.makePartial(&txn)
					wl.finishV1(sc.s, &txn, map[types.Hash256]types.UnlockConditions{types.Hash256(id): *ai.uc})
					with := append(append([]types.Transaction(nil), v1...), txn)
					if b := w.assemble(sc.s, sc.nextTimestamp(), w.miners[0].addr, with, v2, false); consensus.ValidateBlock(sc.s, b, sc.supplement(b)) == nil {
						v1 = with
						w.stats.Inc("probe.O1-partial-v1-siafund")
					}
					break
				}
			}
			b := w.assemble(sc.s, sc.nextTimestamp(), w.miners[0].addr, v1, v2, false)
			if err := consensus.ValidateBlock(sc.s, b, sc.supplement(b)); err != nil {
				return
			}
			w.onWire("block", b, encodeBlock(b))
			w.outlineProbe(sc.s, b)
		}},
	)
}

// outlineProbe: any subset withheld → same ID; completes to exactly the
// original from any superset / permutation of candidates; Missing() exact.
func (w *World) outlineProbe(cs consensus.State, b types.Block) {
	t := w.tape
	w.stats.Inc("probe.O1-outline")
	w.stats.Inc("probe.rows-run")
	bid := b.ID()
	var with1 []types.Transaction
	var with2 []types.V2Transaction
	var wantMissing []types.Hash256
	mode := t.Choose(4) // 0 random subset, 1 none, 2 all, 3 random
	for i := range b.Transactions {
		if mode == 2 || (mode != 1 && t.Chance(1, 2)) {
			with1 = append(with1, b.Transactions[i])
			wantMissing = append(wantMissing, b.Transactions[i].MerkleLeafHash())
		}
	}
	for i := range b.V2.Transactions {
		if mode == 2 || (mode != 1 && t.Chance(1, 2)) {
			with2 = append(with2, b.V2.Transactions[i].DeepCopy())
			wantMissing = append(wantMissing, b.V2.Transactions[i].MerkleLeafHash())
		}
	}
	if mode == 2 {
		w.stats.Inc("reach.outline-all-withheld")
	}
	bo := gateway.OutlineBlock(b, with1, with2)
	if bo.ID(cs) != bid {
		w.violate("C18", "outline-id", fmt.Sprintf("outline of block %s with %d transactions withheld has ID %s", short(bid), len(wantMissing), short(bo.ID(cs))))
		return
	}
	// through the real codec
	var buf bytes.Buffer
	e := types.NewEncoder(&buf)
	gateway.VerifEncodeOutline(e, &bo)
	e.Flush()
	var bo2 gateway.V2BlockOutline
	d := types.NewBufDecoder(buf.Bytes())
	if p := guard(func() { gateway.VerifDecodeOutline(d, &bo2) }); p != "" {
		w.violate("C10", "decode-outline-panic", p)
		return
	}
	if d.Err() != nil {
		w.violate("C11", "outline-roundtrip-decode", fmt.Sprintf("decode(encode(outline of %s)) failed: %v", short(bid), d.Err()))
		return
	}
	if bo2.ID(cs) != bid {
		w.violate("C18", "outline-id-after-roundtrip", fmt.Sprintf("outline of block %s has ID %s after its wire round trip", short(bid), short(bo2.ID(cs))))
		return
	}
	w.truncations("outline", buf.Bytes(), func(p []byte) error {
		var x gateway.V2BlockOutline
		d := types.NewBufDecoder(p)
		gateway.VerifDecodeOutline(d, &x)
		return d.Err()
	})
	miss := bo2.Missing()
	if fmt.Sprint(miss) != fmt.Sprint(wantMissing) {
		w.violate("C18", "outline-missing", fmt.Sprintf("outline of block %s: Missing() reports %d hashes, %d transactions were withheld (or order differs)", short(bid), len(miss), len(wantMissing)))
		return
	}
	// candidate pool: a strict part of what is missing first
	part1, part2 := with1, with2
	var rest1 []types.Transaction
	var rest2 []types.V2Transaction
	if len(with1)+len(with2) > 1 {
		part1, part2 = nil, nil
		for i := range with1 {
			if t.Chance(1, 2) {
				part1 = append(part1, with1[i])
			} else {
				rest1 = append(rest1, with1[i])
			}
		}
		for i := range with2 {
			if t.Chance(1, 2) {
				part2 = append(part2, with2[i])
			} else {
				rest2 = append(rest2, with2[i])
			}
		}
	}
	// plus unrelated candidates (superset) in permuted order
	extra := types.V2Transaction{ArbitraryData: []byte("unrelated")}
	cand2 := append([]types.V2Transaction{extra}, part2...)
	for i := len(cand2) - 1; i > 0; i-- {
		j := t.Choose(i + 1)
		cand2[i], cand2[j] = cand2[j], cand2[i]
	}
	cand1 := append([]types.Transaction{{ArbitraryData: [][]byte{[]byte("unrelated")}}}, part1...)
	var got types.Block
	var still []types.Hash256
	if p := guard(func() { got, still = bo2.Complete(cs, cand1, cand2) }); p != "" {
		w.violate("C10", "outline-complete-panic", p)
		return
	}
	var wantStill []types.Hash256
	inRest := map[types.Hash256]bool{}
	for i := range rest1 {
		inRest[rest1[i].MerkleLeafHash()] = true
	}
	for i := range rest2 {
		inRest[rest2[i].MerkleLeafHash()] = true
	}
	for _, h := range wantMissing {
		if inRest[h] {
			wantStill = append(wantStill, h)
		}
	}
	if fmt.Sprint(still) != fmt.Sprint(wantStill) {
		w.violate("C18", "outline-missing-after-partial", fmt.Sprintf("outline of block %s: after a partial completion Missing() reports %d hashes, %d are still withheld", short(bid), len(still), len(wantStill)))
		return
	}
	if len(wantStill) > 0 {
		w.stats.Inc("reach.outline-two-step-completion")
		if p := guard(func() { got, still = bo2.Complete(cs, rest1, rest2) }); p != "" {
			w.violate("C10", "outline-complete-panic", p)
			return
		}
		if len(still) != 0 {
			w.violate("C18", "outline-incomplete", fmt.Sprintf("outline of block %s still reports %d missing transactions after all were supplied", short(bid), len(still)))
			return
		}
	}
	if !bytes.Equal(fullBlockBytes(got), fullBlockBytes(b)) || got.ID() != bid {
		w.violate("C18", "outline-completion-differs", fmt.Sprintf("block completed from the outline of %s is not the original block (id %s)", short(bid), short(got.ID())))
		return
	}
	if err := consensus.ValidateBlock(cs, got, consensus.V1BlockSupplement{Transactions: make([]consensus.V1TransactionSupplement, len(got.Transactions))}); err != nil && len(got.Transactions) == 0 {
		w.violate("C18", "completed-block-invalid", fmt.Sprintf("block completed from the outline of %s is rejected: %v", short(bid), err))
		return
	}
	// the completed outline forgets a (new) subset again: as if it had been withheld from the start
	var rm1 []types.Transaction
	var rm2 []types.V2Transaction
	var wantGone []types.Hash256
	for i := range b.Transactions {
		if t.Chance(1, 2) {
			rm1 = append(rm1, b.Transactions[i])
			wantGone = append(wantGone, b.Transactions[i].MerkleLeafHash())
		}
	}
	for i := range b.V2.Transactions {
		if t.Chance(1, 2) {
			rm2 = append(rm2, b.V2.Transactions[i].DeepCopy())
			wantGone = append(wantGone, b.V2.Transactions[i].MerkleLeafHash())
		}
	}
	if p := guard(func() {
		bo2.RemoveTransactions(append([]types.Transaction{{ArbitraryData: [][]byte{[]byte("unrelated")}}}, rm1...), append(rm2, extra))
	}); p != "" {
		w.violate("C10", "outline-complete-panic", "RemoveTransactions: "+p)
		return
	}
	if bo2.ID(cs) != bid {
		w.violate("C18", "outline-id", fmt.Sprintf("outline of block %s has ID %s after RemoveTransactions of %d of its transactions", short(bid), short(bo2.ID(cs)), len(wantGone)))
		return
	}
	if gone := bo2.Missing(); fmt.Sprint(gone) != fmt.Sprint(wantGone) {
		w.violate("C18", "outline-missing", fmt.Sprintf("outline of block %s: after RemoveTransactions of %d transactions Missing() reports %d hashes (or order differs)", short(bid), len(wantGone), len(gone)))
		return
	}
	fresh := gateway.OutlineBlock(b, rm1, rm2)
	var b1, b2 bytes.Buffer
	e1, e2 := types.NewEncoder(&b1), types.NewEncoder(&b2)
	gateway.VerifEncodeOutline(e1, &bo2)
	gateway.VerifEncodeOutline(e2, &fresh)
	e1.Flush()
	e2.Flush()
	if !bytes.Equal(b1.Bytes(), b2.Bytes()) {
		w.violate("C18", "outline-remove-differs", fmt.Sprintf("outline of block %s after RemoveTransactions encodes differently from the outline built with the same %d transactions withheld", short(bid), len(wantGone)))
		return
	}
	if p := guard(func() { got, still = bo2.Complete(cs, rm1, rm2) }); p != "" {
		w.violate("C10", "outline-complete-panic", p)
		return
	}
	if len(still) != 0 || !bytes.Equal(fullBlockBytes(got), fullBlockBytes(b)) {
		w.violate("C18", "outline-completion-differs", fmt.Sprintf("block completed from the outline of %s after RemoveTransactions + Complete is not the original block (%d still missing)", short(bid), len(still)))
		return
	}
	w.stats.Inc("probe.O1-outline-remove")
}
