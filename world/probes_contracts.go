package world

import (
	"fmt"

	"go.sia.tech/core/consensus"
	"go.sia.tech/core/types"
	"verif/ref"
)

// pickLive returns a live contract of the registry present in the scratch
// store, filtered by ok.
func (sc *scratch) pickLive(v2 bool, ok func(c *Contract) bool) *Contract {
	w := sc.w
	var cands []*Contract
	for _, c := range w.contracts {
		if c.v2 != v2 {
			continue
		}
		if v2 {
			if _, in := sc.store.V2FC[c.id]; !in {
				continue
			}
		} else if _, in := sc.store.FC[c.id]; !in {
			continue
		}
		if ok == nil || ok(c) {
			cands = append(cands, c)
		}
	}
	if len(cands) == 0 {
		return nil
	}
	return cands[w.tape.Choose(len(cands))]
}

// advanceTo extends the scratch fork with empty blocks until the next block
// has the given height.
func (sc *scratch) advanceTo(child uint64) bool {
	if child < sc.child() || child > sc.child()+16 {
		return false
	}
	for sc.child() < child {
		if !sc.extend(sc.nextTimestamp()) {
			return false
		}
	}
	return true
}

func v1Txn(sp types.StorageProof) []types.Transaction {
	return []types.Transaction{{StorageProofs: []types.StorageProof{sp}}}
}

func (w *World) v2Resolve(sc *scratch, id types.FileContractID, res types.V2FileContractResolutionType) []types.V2Transaction {
	e := sc.store.V2FC[id]
	return []types.V2Transaction{{FileContractResolutions: []types.V2FileContractResolution{{Parent: e.Copy(), Resolution: res}}}}
}

// significantBit flips a bit of the leaf that is inside the file (bits beyond
// the file size in a partial last leaf are not part of the committed data).
func significantFlip(w *World, leaf *[64]byte, filesize uint64, idx uint64) {
	n := uint64(64)
	if (idx+1)*64 > filesize {
		n = filesize - idx*64
	}
	if n == 0 {
		n = 1
	}
	leaf[w.tape.Choose(int(n))] ^= 1 << w.tape.Choose(8)
}

func init() {
	registerRows("C07",
		probeRow{"K3-v1-proof-matrix", func(w *World, n *Node) {
			sc := n.fork()
			if !sc.v1ok() {
				return
			}
			c := sc.pickLive(false, func(c *Contract) bool {
				fc := sc.store.FC[c.id].FileContract
				_, known := c.dataFor(fc.FileMerkleRoot, fc.Filesize)
				return known && fc.Filesize > 0 && fc.WindowStart+1 < fc.WindowEnd+1 && fc.WindowStart <= sc.child()+12 && fc.WindowEnd >= sc.child() && fc.WindowEnd < w.net.HardforkV2.RequireHeight
			})
			if c == nil {
				return
			}
			fc := sc.store.FC[c.id].FileContract
			at := max(fc.WindowStart, sc.child())
			if at > fc.WindowEnd || !sc.advanceTo(at) {
				return
			}
			data, _ := c.dataFor(fc.FileMerkleRoot, fc.Filesize)
			honest, ok := w.storageProofV1(sc.s, sc.best, c.id, fc, data)
			if !ok {
				return
			}
			child := sc.child()
			idx := ref.ChallengeIndex(fc.Filesize, sc.best[fc.WindowStart-1], c.id)
			leaves := ref.FileLeaves(data)
			last := uint64(len(leaves) - 1)
			era := 3
			if child < w.net.HardforkTax.Height {
				era = 1
			} else if child < w.net.HardforkStorageProof.Height {
				era = 2
			}
			legacyRefusal := era == 2 && idx == last && fc.Filesize%64 == 0
			what := fmt.Sprintf("contract %v filesize %d leaves %d challenge %d era %d", c.id, fc.Filesize, len(leaves), idx, era)
			verr, okc := sc.offer(v1Txn(honest), nil, offerOpt{})
			if legacyRefusal {
				w.stats.Inc("reach.legacy-leaf-refusal")
			} else {
				w.expect("C07", fmt.Sprintf("K3-v1-honest-era%d", era), verr, okc, true, "honest proof: "+what)
			}
			w.reach[fmt.Sprintf("v1proof leaves=%d idx=%d era=%d partial=%v", min(len(leaves), 40), min(idx, 40), era, fc.Filesize%64 != 0)] = true
			try := func(row string, mut func(sp *types.StorageProof) bool, detail string) {
				sp := honest
				sp.Proof = append([]types.Hash256(nil), honest.Proof...)
				if !mut(&sp) {
					return
				}
				verr, ok := sc.offer(v1Txn(sp), nil, offerOpt{})
				w.expect("C07", row, verr, ok, false, detail+": "+what)
			}
			if len(leaves) > 1 {
				j := (int(idx) + 1 + w.tape.Choose(len(leaves)-1)) % len(leaves)
				row := "K3-v1-other-leaf"
				if len(ref.TreePath(leaves, j)) < len(honest.Proof) {
					// identified separately: see known_findings.json
					row = "K3-v1-other-leaf-shorter-path"
				}
				try(row, func(sp *types.StorageProof) bool {
					sp.Leaf = ref.LeafSegment(data, j)
					sp.Proof = ref.TreePath(leaves, j)
					// identical leaf content at the same depth would be a genuine proof
					return !(sp.Leaf == honest.Leaf && fmt.Sprint(sp.Proof) == fmt.Sprint(honest.Proof))
				}, fmt.Sprintf("proof of leaf %d (path length %d) instead of the challenged leaf (path length %d)", j, len(ref.TreePath(leaves, j)), len(honest.Proof)))
			}
			try("K3-v1-data-bit", func(sp *types.StorageProof) bool {
				significantFlip(w, &sp.Leaf, fc.Filesize, idx)
				return !legacyRefusal
			}, "one bit of the proven leaf altered")
			if len(honest.Proof) > 0 {
				try("K3-v1-proof-bit", func(sp *types.StorageProof) bool {
					sp.Proof[w.tape.Choose(len(sp.Proof))][w.tape.Choose(32)] ^= 1 << w.tape.Choose(8)
					return true
				}, "one proof hash bit altered")
				try("K3-v1-proof-short", func(sp *types.StorageProof) bool { sp.Proof = sp.Proof[:len(sp.Proof)-1]; return true }, "proof shortened")
			}
			try("K3-v1-proof-long", func(sp *types.StorageProof) bool { sp.Proof = append(sp.Proof, types.Hash256{1}); return true }, "proof lengthened")
			try("K3-v1-other-file", func(sp *types.StorageProof) bool {
				other := append([]byte(nil), data...)
				other[w.tape.Choose(len(other))] ^= 0x40
				ol := ref.FileLeaves(other)
				sp.Leaf = ref.LeafSegment(other, int(idx))
				sp.Proof = ref.TreePath(ol, int(idx))
				return true
			}, "honest proof of a different file of the same size")
			// another live contract's proof presented for this contract
			if o := sc.pickLive(false, func(o *Contract) bool {
				ofc := sc.store.FC[o.id].FileContract
				_, known := o.dataFor(ofc.FileMerkleRoot, ofc.Filesize)
				return o != c && known && ofc.Filesize > 0 && ofc.FileMerkleRoot != fc.FileMerkleRoot && ofc.WindowStart >= 1 && ofc.WindowStart-1 < uint64(len(sc.best))
			}); o != nil {
				ofc := sc.store.FC[o.id].FileContract
				odata, _ := o.dataFor(ofc.FileMerkleRoot, ofc.Filesize)
				if osp, ok := w.storageProofV1(sc.s, sc.best, o.id, ofc, odata); ok {
					osp.ParentID = c.id
					verr, ok := sc.offer(v1Txn(osp), nil, offerOpt{})
					w.expect("C07", "K3-v1-other-contract", verr, ok, false, "proof built for contract "+short(o.id)+" presented for "+what)
				}
			}
			// a proof transaction may not carry outputs
			if e, ok := pickSC(w, sc.ownedSC(true, true)); ok && !legacyRefusal {
				t, ok := w.spendV1(sc.s, []types.SiacoinElement{e}, w.wallets[0].addrs[0].addr)
				if ok {
					t.StorageProofs = []types.StorageProof{honest}
					w.signAllV1(sc.s, &t)
					verr, ok := sc.offer([]types.Transaction{t}, nil, offerOpt{})
					w.expect("C07", "K3-v1-proof-with-outputs", verr, ok, false, "storage proof in a transaction that also creates outputs")
				}
			}
			// two proofs of one contract, in one transaction and in two
			if !legacyRefusal {
				verr, ok := sc.offer([]types.Transaction{{StorageProofs: []types.StorageProof{honest, honest}}}, nil, offerOpt{})
				w.expect("C02", "D5-v1-two-proofs-one-txn", verr, ok, false, "two storage proofs of one contract in one transaction")
				h2 := honest
				h2.Proof = append(append([]types.Hash256(nil), honest.Proof...), []types.Hash256{}...)
				t2 := types.Transaction{StorageProofs: []types.StorageProof{h2}, ArbitraryData: [][]byte{{1}}}
				verr, ok = sc.offer([]types.Transaction{{StorageProofs: []types.StorageProof{honest}}, t2}, nil, offerOpt{})
				w.expect("C02", "D5-v1-two-proofs-two-txns", verr, ok, false, "two transactions of one block prove the same contract")
				// resolve, then resolve / revise again in the next block
				if sc.mine(v1Txn(honest), nil) == nil && sc.v1ok() {
					verr, ok = sc.offer([]types.Transaction{t2}, nil, offerOpt{mutate: func(b *types.Block, bs *consensus.V1BlockSupplement) {
						// the store no longer has it; present the stale element
					}})
					w.expect("C02", "D5-v1-proof-after-resolution", verr, ok, false, "storage proof for a contract resolved in the previous block")
					w.checkPayout(sc, c.id, false, fc.ValidProofOutputs, "v1 storage proof")
				}
			}
		}},
		probeRow{"K7-v2-proof-matrix", func(w *World, n *Node) {
			sc := n.fork()
			if !sc.v2ok() {
				return
			}
			c := sc.pickLive(true, func(c *Contract) bool {
				fc := sc.store.V2FC[c.id].V2FileContract
				_, known := c.dataFor(fc.FileMerkleRoot, fc.Filesize)
				return known && fc.Filesize > 0 && fc.ProofHeight+1 <= sc.child()+12
			})
			if c == nil {
				return
			}
			fc := sc.store.V2FC[c.id].V2FileContract
			if !sc.advanceTo(max(fc.ProofHeight+1, sc.child())) {
				return
			}
			data, _ := c.dataFor(fc.FileMerkleRoot, fc.Filesize)
			cie := sc.store.CI[fc.ProofHeight]
			honest := w.storageProofV2(sc.s, cie, c.id, fc, data)
			idx := ref.ChallengeIndex(fc.Filesize, cie.ChainIndex.ID, c.id)
			leaves := ref.FileLeaves(data)
			what := fmt.Sprintf("v2 contract %v filesize %d leaves %d challenge %d", c.id, fc.Filesize, len(leaves), idx)
			verr, okc := sc.offer(nil, w.v2Resolve(sc, c.id, honest), offerOpt{})
			w.expect("C07", "K7-v2-honest", verr, okc, true, "honest proof: "+what)
			w.reach[fmt.Sprintf("v2proof leaves=%d idx=%d partial=%v", min(len(leaves), 40), min(idx, 40), fc.Filesize%64 != 0)] = true
			try := func(row string, mut func(sp *types.V2StorageProof) bool, detail string) {
				sp := *honest
				sp.Proof = append([]types.Hash256(nil), honest.Proof...)
				sp.ProofIndex = honest.ProofIndex.Copy()
				if !mut(&sp) {
					return
				}
				verr, ok := sc.offer(nil, w.v2Resolve(sc, c.id, &sp), offerOpt{})
				w.expect("C07", row, verr, ok, false, detail+": "+what)
			}
			if len(leaves) > 1 {
				try("K7-v2-other-leaf", func(sp *types.V2StorageProof) bool {
					j := (int(idx) + 1 + w.tape.Choose(len(leaves)-1)) % len(leaves)
					sp.Leaf = ref.LeafSegment(data, j)
					sp.Proof = ref.TreePath(leaves, j)
					return !(sp.Leaf == honest.Leaf && fmt.Sprint(sp.Proof) == fmt.Sprint(honest.Proof))
				}, "proof of another leaf than the challenged one")
			}
			try("K7-v2-data-bit", func(sp *types.V2StorageProof) bool {
				sp.Leaf[w.tape.Choose(64)] ^= 1 << w.tape.Choose(8) // v2 hashes the whole zero-extended leaf
				return true
			}, "one bit of the proven leaf altered")
			if len(honest.Proof) > 0 {
				try("K7-v2-proof-bit", func(sp *types.V2StorageProof) bool {
					sp.Proof[w.tape.Choose(len(sp.Proof))][w.tape.Choose(32)] ^= 1 << w.tape.Choose(8)
					return true
				}, "one proof hash bit altered")
				try("K7-v2-proof-short", func(sp *types.V2StorageProof) bool { sp.Proof = sp.Proof[:len(sp.Proof)-1]; return true }, "proof shortened")
			}
			try("K7-v2-proof-long", func(sp *types.V2StorageProof) bool { sp.Proof = append(sp.Proof, types.Hash256{1}); return true }, "proof lengthened")
			try("K7-v2-other-file", func(sp *types.V2StorageProof) bool {
				other := append([]byte(nil), data...)
				other[w.tape.Choose(len(other))] ^= 0x40
				sp.Leaf = ref.LeafSegment(other, int(idx))
				sp.Proof = ref.TreePath(ref.FileLeaves(other), int(idx))
				return true
			}, "honest proof of a different file of the same size")
			if fc.ProofHeight >= 1 {
				try("K7-v2-index-other-height", func(sp *types.V2StorageProof) bool {
					sp.ProofIndex = sc.store.CI[fc.ProofHeight-1].Copy()
					o := w.storageProofV2(sc.s, sp.ProofIndex, c.id, fc, data)
					sp.Leaf, sp.Proof = o.Leaf, o.Proof
					return true
				}, "proof index of the block below the proof height (honest proof for the leaf it selects)")
			}
			try("K7-v2-index-fake-block", func(sp *types.V2StorageProof) bool {
				sp.ProofIndex.ChainIndex.ID[5] ^= 1
				sp.ProofIndex.ID = sp.ProofIndex.ChainIndex.ID
				o := w.storageProofV2(sc.s, sp.ProofIndex, c.id, fc, data)
				sp.Leaf, sp.Proof = o.Leaf, o.Proof
				return true
			}, "proof index naming a block that is not an ancestor (honest proof for the leaf it selects)")
			try("K7-v2-index-proof-bit", func(sp *types.V2StorageProof) bool {
				if len(sp.ProofIndex.StateElement.MerkleProof) == 0 {
					return false
				}
				sp.ProofIndex.StateElement.MerkleProof[0][0] ^= 1
				return true
			}, "history proof of the proof index altered")
			// double resolution
			r1 := w.v2Resolve(sc, c.id, honest)
			r2 := w.v2Resolve(sc, c.id, honest)
			r2[0].ArbitraryData = []byte{1}
			verr, ok := sc.offer(nil, append(r1, r2...), offerOpt{})
			w.expect("C02", "D5-v2-two-resolutions-two-txns", verr, ok, false, "two transactions of one block resolve the same v2 contract")
			both := r1[0].DeepCopy()
			both.FileContractResolutions = append(both.FileContractResolutions, r2[0].FileContractResolutions[0])
			verr, ok = sc.offer(nil, []types.V2Transaction{both}, offerOpt{})
			w.expect("C02", "D5-v2-two-resolutions-one-txn", verr, ok, false, "one transaction resolves the same v2 contract twice")
			stale := sc.store.V2FC[c.id].Copy()
			if sc.mine(nil, w.v2Resolve(sc, c.id, honest)) == nil {
				sc.last.UpdateElementProof(&stale.StateElement)
				// re-present the resolved contract (pre-resolution copy, proof refreshed)
				again := []types.V2Transaction{{FileContractResolutions: []types.V2FileContractResolution{{Parent: stale.Copy(), Resolution: &types.V2FileContractExpiration{}}}}}
				if sc.child() > fc.ExpirationHeight {
					verr, ok = sc.offer(nil, again, offerOpt{})
					w.expect("C02", "D5-v2-resolve-after-resolution", verr, ok, false, "expiration of a contract resolved by storage proof in the previous block")
				}
				w.checkPayout(sc, c.id, true, []types.SiacoinOutput{fc.RenterOutput, fc.HostOutput}, "v2 storage proof")
			}
		}},
		probeRow{"K5-v2-revision-rules", func(w *World, n *Node) {
			sc := n.fork()
			if !sc.v2ok() {
				return
			}
			c := sc.pickLive(true, func(c *Contract) bool {
				fc := sc.store.V2FC[c.id].V2FileContract
				return fc.ProofHeight >= sc.child() && fc.RevisionNumber < types.MaxRevisionNumber-2 && !fc.RenterOutput.Value.IsZero()
			})
			if c == nil {
				return
			}
			e := sc.store.V2FC[c.id]
			cur := e.V2FileContract
			mk := func(mut func(r *types.V2FileContract)) []types.V2Transaction {
				r := cur
				r.RevisionNumber++
				if mut != nil {
					mut(&r)
				}
				w.signContractV2(sc.s, &r, c.renterKey(), c.hostKey())
				return []types.V2Transaction{{FileContractRevisions: []types.V2FileContractRevision{{Parent: e.Copy(), Revision: r}}}}
			}
			one := types.NewCurrency64(1)
			verr, ok := sc.offer(nil, mk(nil), offerOpt{})
			w.expect("C07", "K5-control", verr, ok, true, "revision that only raises the revision number")
			rows := []struct {
				row   string
				mut   func(r *types.V2FileContract)
				valid bool
				what  string
				cond  bool
			}{
				{"K5-total-plus-1", func(r *types.V2FileContract) { r.HostOutput.Value = r.HostOutput.Value.Add(one) }, false, "revision raises the contract total by one hasting", true},
				{"K5-total-minus-1", func(r *types.V2FileContract) { r.RenterOutput.Value = r.RenterOutput.Value.Sub(one) }, false, "revision lowers the contract total by one hasting", true},
				{"K5-transfer", func(r *types.V2FileContract) {
					r.RenterOutput.Value = r.RenterOutput.Value.Sub(one)
					r.HostOutput.Value = r.HostOutput.Value.Add(one)
				}, true, "revision moves one hasting from renter to host", true},
				{"K5-same-revision-number", func(r *types.V2FileContract) { r.RevisionNumber = cur.RevisionNumber }, false, "revision keeps the revision number", true},
				{"K5-lower-revision-number", func(r *types.V2FileContract) { r.RevisionNumber = cur.RevisionNumber - 1 }, false, "revision lowers the revision number", cur.RevisionNumber > 0},
				{"K5-missed-host-plus-1", func(r *types.V2FileContract) { r.MissedHostValue = r.MissedHostValue.Add(one) }, false, "revision raises the host's missed value", cur.MissedHostValue.Cmp(cur.HostOutput.Value) < 0},
				{"K5-collateral-changed", func(r *types.V2FileContract) {
					if r.TotalCollateral.IsZero() {
						r.TotalCollateral = one
					} else {
						r.TotalCollateral = r.TotalCollateral.Sub(one)
					}
				}, false, "revision alters total collateral", !cur.HostOutput.Value.IsZero()},
				{"K5-capacity-decreased", func(r *types.V2FileContract) { r.Capacity--; r.Filesize = min(r.Filesize, r.Capacity) }, false, "revision decreases capacity", cur.Capacity > 0},
				{"K5-filesize-over-capacity", func(r *types.V2FileContract) { r.Filesize = r.Capacity + 1 }, false, "revision with filesize above capacity", true},
				{"K5-expiration-at-proof-height", func(r *types.V2FileContract) { r.ExpirationHeight = r.ProofHeight }, false, "revision leaves no window between proof and expiration height", true},
			}
			for _, r := range rows {
				if !r.cond {
					continue
				}
				verr, ok := sc.offer(nil, mk(r.mut), offerOpt{})
				w.expect("C07", r.row, verr, ok, r.valid, r.what+fmt.Sprintf(" (contract %v rev %d)", c.id, cur.RevisionNumber))
			}
			// A3: signatures and keys (C03)
			sig := func(row string, mut func(t *types.V2Transaction), valid bool, what string) {
				t := mk(nil)
				mut(&t[0])
				verr, ok := sc.offer(nil, t, offerOpt{})
				w.expect("C03", row, verr, ok, valid, what)
			}
			sig("A3-revision-renter-sig", func(t *types.V2Transaction) {
				t.FileContractRevisions[0].Revision.RenterSignature[w.tape.Choose(64)] ^= 1 << w.tape.Choose(8)
			}, false, "v2 revision with a renter signature bit flipped")
			sig("A3-revision-host-sig", func(t *types.V2Transaction) {
				t.FileContractRevisions[0].Revision.HostSignature[w.tape.Choose(64)] ^= 1 << w.tape.Choose(8)
			}, false, "v2 revision with a host signature bit flipped")
			sig("A3-revision-field-after-signing", func(t *types.V2Transaction) { t.FileContractRevisions[0].Revision.FileMerkleRoot[0] ^= 1 }, false, "v2 revision with the Merkle root changed after signing")
			other := w.wallets[len(w.wallets)-1]
			if other == c.renter {
				other = w.wallets[0]
			}
			newKey := other.keys[2]
			sig("A3-revision-rotates-keys-signed-by-current", func(t *types.V2Transaction) {
				r := &t.FileContractRevisions[0].Revision
				r.RenterPublicKey = newKey.PublicKey()
				w.signContractV2(sc.s, r, c.renterKey(), c.hostKey())
			}, true, "v2 revision that proposes a new renter key, signed by the current keys")
			sig("A3-revision-signed-by-proposed-keys", func(t *types.V2Transaction) {
				r := &t.FileContractRevisions[0].Revision
				r.RenterPublicKey = newKey.PublicKey()
				w.signContractV2(sc.s, r, newKey, c.hostKey())
			}, false, "v2 revision that proposes a new renter key and is signed with that proposed key")
			// K5 boundary (C08): revisable in the block at the proof height, not after
			if cur.ProofHeight <= sc.child()+12 {
				id := c.id
				w.boundaryInvKeep(sc, "K5-revision-after-proof-height", cur.ProofHeight+1, func(sc *scratch) ([]types.Transaction, []types.V2Transaction, bool) {
					e, ok := sc.store.V2FC[id]
					if !ok {
						return nil, nil, false
					}
					r := e.V2FileContract
					r.RevisionNumber++
					w.signContractV2(sc.s, &r, c.renterKey(), c.hostKey())
					return nil, []types.V2Transaction{{FileContractRevisions: []types.V2FileContractRevision{{Parent: e.Copy(), Revision: r}}}}, true
				}, fmt.Sprintf("revision of v2 contract %v with proof height %d", id, cur.ProofHeight))
			}
		}},
		probeRow{"K6-v2-renewal-rules", func(w *World, n *Node) {
			sc := n.fork()
			if !sc.v2ok() {
				return
			}
			c := sc.pickLive(true, func(c *Contract) bool {
				fc := sc.store.V2FC[c.id].V2FileContract
				return fc.RenterOutput.Value.Cmp(types.Siacoins(1)) > 0
			})
			if c == nil {
				return
			}
			e := sc.store.V2FC[c.id]
			fc := e.V2FileContract
			funder, okf := pickSC(w, sc.ownedSC(false, true))
			if !okf {
				return
			}
			mk := func(mut func(r *types.V2FileContractRenewal), resign bool) ([]types.V2Transaction, bool) {
				nc := fc
				nc.RevisionNumber = 0
				nc.ProofHeight = sc.child() + 3
				nc.ExpirationHeight = nc.ProofHeight + 2
				nc.RenterOutput.Value = types.Siacoins(2)
				nc.HostOutput.Value = types.Siacoins(1)
				nc.MissedHostValue = types.Siacoins(1)
				nc.TotalCollateral = types.ZeroCurrency
				ren := &types.V2FileContractRenewal{NewContract: nc, FinalRenterOutput: fc.RenterOutput, FinalHostOutput: fc.HostOutput}
				ren.RenterRollover = types.Siacoins(1)
				ren.FinalRenterOutput.Value = fc.RenterOutput.Value.Sub(ren.RenterRollover)
				if mut != nil {
					mut(ren)
				}
				if resign {
					w.signContractV2(sc.s, &ren.NewContract, c.renterKey(), c.hostKey())
					h := sc.s.RenewalSigHash(*ren)
					ren.RenterSignature, ren.HostSignature = c.renterKey().SignHash(h), c.hostKey().SignHash(h)
				}
				cost := ren.NewContract.RenterOutput.Value.Add(ren.NewContract.HostOutput.Value).Add(sc.s.V2FileContractTax(ren.NewContract))
				roll := ren.RenterRollover.Add(ren.HostRollover)
				txn := types.V2Transaction{FileContractResolutions: []types.V2FileContractResolution{{Parent: e.Copy(), Resolution: ren}}}
				txn.SiacoinInputs = []types.V2SiacoinInput{{Parent: funder.Copy()}}
				var need types.Currency
				if cost.Cmp(roll) > 0 {
					need = cost.Sub(roll)
				}
				if funder.SiacoinOutput.Value.Cmp(need) < 0 {
					return nil, false
				}
				if ch := funder.SiacoinOutput.Value.Sub(need); !ch.IsZero() {
					txn.SiacoinOutputs = []types.SiacoinOutput{{Value: ch, Address: w.advAddr()}}
				}
				if roll.Cmp(cost) > 0 {
					// surplus rollover would otherwise unbalance the transaction: hand it out
					txn.SiacoinOutputs = append(txn.SiacoinOutputs, types.SiacoinOutput{Value: roll.Sub(cost), Address: w.advAddr()})
				}
				return []types.V2Transaction{txn}, w.signAllV2(sc.s, &txn)
			}
			one := types.NewCurrency64(1)
			run := func(prop, row string, mut func(r *types.V2FileContractRenewal), resign bool, valid bool, what string) {
				t, ok := mk(mut, true)
				if !resign && ok {
					// build signed, then tamper without re-signing
					t, ok = mk(nil, true)
					if ok {
						ren := t[0].FileContractResolutions[0].Resolution.(*types.V2FileContractRenewal)
						mut(ren)
					}
				}
				if !ok {
					return
				}
				verr, ok := sc.offer(nil, t, offerOpt{})
				w.expect(prop, row, verr, ok, valid, what+fmt.Sprintf(" (contract %v)", c.id))
			}
			run("C07", "K6-control", nil, true, true, "renewal splitting the old value into final outputs and rollover")
			run("C07", "K6-final-plus-1", func(r *types.V2FileContractRenewal) { r.FinalHostOutput.Value = r.FinalHostOutput.Value.Add(one) }, true, false, "final outputs + rollover exceed the old contract value by one hasting")
			run("C07", "K6-final-minus-1", func(r *types.V2FileContractRenewal) { r.FinalRenterOutput.Value = r.FinalRenterOutput.Value.Sub(one) }, true, false, "final outputs + rollover fall short of the old contract value by one hasting")
			run("C07", "K6-rollover-exceeds-cost", func(r *types.V2FileContractRenewal) {
				// shrink the new contract below the rollover
				r.NewContract.RenterOutput.Value = types.NewCurrency64(10)
				r.NewContract.HostOutput.Value = types.ZeroCurrency
				r.NewContract.MissedHostValue = types.ZeroCurrency
			}, true, false, "rollover larger than the new contract costs")
			run("C07", "K6-new-contract-proof-height-passed", func(r *types.V2FileContractRenewal) { r.NewContract.ProofHeight = sc.child() - 1 }, true, false, "renewal into a contract whose proof height has passed")
			run("C03", "A3-renewal-renter-sig", func(r *types.V2FileContractRenewal) { r.RenterSignature[w.tape.Choose(64)] ^= 1 << w.tape.Choose(8) }, false, false, "renewal with a renter signature bit flipped")
			run("C03", "A3-renewal-host-sig", func(r *types.V2FileContractRenewal) { r.HostSignature[w.tape.Choose(64)] ^= 1 << w.tape.Choose(8) }, false, false, "renewal with a host signature bit flipped")
			run("C03", "A3-renewal-new-contract-sig", func(r *types.V2FileContractRenewal) {
				r.NewContract.HostSignature[w.tape.Choose(64)] ^= 1 << w.tape.Choose(8)
			}, false, false, "renewal whose new contract has a host signature bit flipped")
			run("C03", "A3-renewal-field-after-signing", func(r *types.V2FileContractRenewal) {
				r.FinalRenterOutput.Address[7] ^= 0x10
			}, false, false, "renewal with the final renter address changed after signing")
			other := w.wallets[len(w.wallets)-1]
			if other == c.renter {
				other = w.wallets[0]
			}
			if other != c.renter {
				run("C03", "A3-renewal-other-keys", func(r *types.V2FileContractRenewal) {
					r.NewContract.RenterPublicKey = other.keys[0].PublicKey()
				}, true, false, "renewal whose new contract names another renter key")
			}
		}},
		probeRow{"K8-v2-expiration", func(w *World, n *Node) {
			sc := n.fork()
			if !sc.v2ok() {
				return
			}
			c := sc.pickLive(true, func(c *Contract) bool {
				fc := sc.store.V2FC[c.id].V2FileContract
				return fc.ExpirationHeight+1 >= sc.child() && fc.ExpirationHeight+1 <= sc.child()+12
			})
			if c == nil {
				return
			}
			id := c.id
			fc := sc.store.V2FC[id].V2FileContract
			w.boundary(sc, "K8-expiration", fc.ExpirationHeight+1, func(sc *scratch) ([]types.Transaction, []types.V2Transaction, bool) {
				if _, ok := sc.store.V2FC[id]; !ok {
					return nil, nil, false
				}
				return nil, w.v2Resolve(sc, id, &types.V2FileContractExpiration{}), true
			}, fmt.Sprintf("expiration of v2 contract %v with expiration height %d", id, fc.ExpirationHeight))
			// after the boundary the scratch fork stands at the bound: expire and check the payout
			if sc.child() == fc.ExpirationHeight+1 {
				if sc.mine(nil, w.v2Resolve(sc, id, &types.V2FileContractExpiration{})) == nil {
					w.checkPayout(sc, id, true, []types.SiacoinOutput{fc.RenterOutput, {Value: fc.MissedHostValue, Address: fc.HostOutput.Address}}, "v2 expiration")
				}
			}
		}},
		probeRow{"K7-v2-proof-height", func(w *World, n *Node) {
			sc := n.fork()
			if !sc.v2ok() {
				return
			}
			c := sc.pickLive(true, func(c *Contract) bool {
				fc := sc.store.V2FC[c.id].V2FileContract
				_, known := c.dataFor(fc.FileMerkleRoot, fc.Filesize)
				return known && fc.ProofHeight+1 >= sc.child()+1 && fc.ProofHeight+1 <= sc.child()+12
			})
			if c == nil {
				return
			}
			id := c.id
			fc := sc.store.V2FC[id].V2FileContract
			data, _ := c.dataFor(fc.FileMerkleRoot, fc.Filesize)
			w.boundary(sc, "K7-proof-height", fc.ProofHeight+1, func(sc *scratch) ([]types.Transaction, []types.V2Transaction, bool) {
				// at bound-1 the proof-height block is the scratch tip's child,
				// so no chain index element for it exists yet: use the tip's
				var cie types.ChainIndexElement
				if fc.ProofHeight < uint64(len(sc.store.CI)) {
					cie = sc.store.CI[fc.ProofHeight]
				} else {
					cie = sc.store.CI[len(sc.store.CI)-1]
				}
				return nil, w.v2Resolve(sc, id, w.storageProofV2(sc.s, cie, id, fc, data)), true
			}, fmt.Sprintf("storage proof of v2 contract %v with proof height %d", id, fc.ProofHeight))
		}},
		probeRow{"K2-v1-revision-rules", func(w *World, n *Node) {
			sc := n.fork()
			if !sc.v1ok() {
				return
			}
			c := sc.pickLive(false, func(c *Contract) bool {
				fc := sc.store.FC[c.id].FileContract
				return fc.WindowStart >= sc.child() && len(fc.ValidProofOutputs) >= 2 && len(fc.MissedProofOutputs) >= 3 && !fc.ValidProofOutputs[0].Value.IsZero()
			})
			if c == nil {
				return
			}
			cur := sc.store.FC[c.id].FileContract
			mk := func(mut func(r *types.FileContract)) []types.Transaction {
				r := cur
				r.RevisionNumber++
				r.ValidProofOutputs = append([]types.SiacoinOutput(nil), cur.ValidProofOutputs...)
				r.MissedProofOutputs = append([]types.SiacoinOutput(nil), cur.MissedProofOutputs...)
				if mut != nil {
					mut(&r)
				}
				t := types.Transaction{FileContractRevisions: []types.FileContractRevision{{ParentID: c.id, UnlockConditions: c.uc(), FileContract: r}}}
				w.signContractV1(sc.s, &t, c)
				return []types.Transaction{t}
			}
			one := types.NewCurrency64(1)
			verr, ok := sc.offer(mk(nil), nil, offerOpt{})
			w.expect("C07", "K2-control", verr, ok, true, "v1 revision that only raises the revision number")
			rows := []struct {
				row   string
				mut   func(r *types.FileContract)
				valid bool
				what  string
			}{
				{"K2-valid-sum-plus-1", func(r *types.FileContract) { r.ValidProofOutputs[1].Value = r.ValidProofOutputs[1].Value.Add(one) }, false, "v1 revision raises the valid payout sum"},
				{"K2-missed-sum-minus-1", func(r *types.FileContract) { r.MissedProofOutputs[0].Value = r.MissedProofOutputs[0].Value.Sub(one) }, false, "v1 revision lowers the missed payout sum"},
				{"K2-transfer", func(r *types.FileContract) {
					r.ValidProofOutputs[0].Value = r.ValidProofOutputs[0].Value.Sub(one)
					r.ValidProofOutputs[1].Value = r.ValidProofOutputs[1].Value.Add(one)
					r.MissedProofOutputs[0].Value = r.MissedProofOutputs[0].Value.Sub(one)
					r.MissedProofOutputs[2].Value = r.MissedProofOutputs[2].Value.Add(one)
				}, true, "v1 revision moves one hasting from renter to host/void"},
				{"K2-same-revision-number", func(r *types.FileContract) { r.RevisionNumber = cur.RevisionNumber }, false, "v1 revision keeps the revision number"},
				{"K2-window-in-past", func(r *types.FileContract) { r.WindowStart = sc.child() - 1 }, false, "v1 revision moves the window start into the past"},
				{"K2-window-empty", func(r *types.FileContract) { r.WindowEnd = r.WindowStart }, false, "v1 revision with an empty window"},
				{"K2-unlock-hash-kept", func(r *types.FileContract) { r.UnlockHash = w.advAddr() }, true, "v1 revision that changes the unlock hash (allowed; binds the next revision)"},
			}
			for _, r := range rows {
				verr, ok := sc.offer(mk(r.mut), nil, offerOpt{})
				w.expect("C07", r.row, verr, ok, r.valid, r.what+fmt.Sprintf(" (contract %v rev %d)", c.id, cur.RevisionNumber))
			}
			// wrong unlock conditions / missing signature (C03)
			t := mk(nil)
			t[0].Signatures = t[0].Signatures[:1]
			verr, ok = sc.offer(t, nil, offerOpt{})
			w.expect("C03", "A1-v1-revision-one-sig", verr, ok, false, "v1 revision carrying only the renter's signature")
			t = mk(nil)
			flipSigBit(t[0].Signatures[1].Signature, w)
			verr, ok = sc.offer(t, nil, offerOpt{})
			w.expect("C03", "A1-v1-revision-sig-bit", verr, ok, false, "v1 revision with a host signature bit flipped")
			t = mk(nil)
			t[0].FileContractRevisions[0].FileContract.FileMerkleRoot[0] ^= 1
			verr, ok = sc.offer(t, nil, offerOpt{})
			w.expect("C03", "A1-v1-revision-field-after-signing", verr, ok, false, "v1 revision with the Merkle root changed after signing")
			// K2 boundary (C08): revisable in the block at the window start, not after
			if cur.WindowStart <= sc.child()+12 && cur.WindowStart+1 < w.net.HardforkV2.RequireHeight {
				id := c.id
				w.boundaryInvKeep(sc, "K2-revision-after-window-start", cur.WindowStart+1, func(sc *scratch) ([]types.Transaction, []types.V2Transaction, bool) {
					e, ok := sc.store.FC[id]
					if !ok {
						return nil, nil, false
					}
					r := e.FileContract
					r.RevisionNumber++
					// the revised contract's own window must start in the future too
					r.WindowStart = max(r.WindowStart, sc.child())
					r.WindowEnd = max(r.WindowEnd, r.WindowStart+1)
					t := types.Transaction{FileContractRevisions: []types.FileContractRevision{{ParentID: id, UnlockConditions: c.uc(), FileContract: r}}}
					w.signContractV1(sc.s, &t, c)
					return []types.Transaction{t}, nil, true
				}, fmt.Sprintf("revision of v1 contract %v with window start %d", id, cur.WindowStart))
			}
		}},
		probeRow{"K1-formation-rules", func(w *World, n *Node) {
			sc := n.fork()
			funder, okf := pickSC(w, sc.ownedSC(!sc.v2ok(), true))
			if !okf {
				return
			}
			renter, host := w.wallets[0], w.wallets[len(w.wallets)-1]
			c := &Contract{renter: renter, host: host}
			if sc.v2ok() {
				if wl, ai := w.ownerOf(funder.SiacoinOutput.Address); wl == nil || !wl.canSatisfyNow(sc.s, ai) {
					return
				}
				mk := func(mut func(fc *types.V2FileContract)) ([]types.V2Transaction, bool) {
					fc := types.V2FileContract{ProofHeight: sc.child() + 2, ExpirationHeight: sc.child() + 4,
						RenterOutput: types.SiacoinOutput{Value: types.Siacoins(1), Address: renter.addrs[3].addr}, HostOutput: types.SiacoinOutput{Value: types.Siacoins(1), Address: host.addrs[3].addr},
						MissedHostValue: types.Siacoins(1), TotalCollateral: types.Siacoins(1), RenterPublicKey: c.renterKey().PublicKey(), HostPublicKey: c.hostKey().PublicKey()}
					if mut != nil {
						mut(&fc)
					}
					w.signContractV2(sc.s, &fc, c.renterKey(), c.hostKey())
					need := fc.RenterOutput.Value.Add(fc.HostOutput.Value).Add(sc.s.V2FileContractTax(fc))
					if funder.SiacoinOutput.Value.Cmp(need) < 0 {
						return nil, false
					}
					txn := types.V2Transaction{SiacoinInputs: []types.V2SiacoinInput{{Parent: funder.Copy()}}, FileContracts: []types.V2FileContract{fc}}
					if ch := funder.SiacoinOutput.Value.Sub(need); !ch.IsZero() {
						txn.SiacoinOutputs = []types.SiacoinOutput{{Value: ch, Address: w.advAddr()}}
					}
					return []types.V2Transaction{txn}, w.signAllV2(sc.s, &txn)
				}
				one := types.NewCurrency64(1)
				rows := []struct {
					row   string
					prop  string
					mut   func(fc *types.V2FileContract)
					valid bool
					what  string
				}{
					{"K4-control", "C07", nil, true, "well-formed v2 contract"},
					{"K4-proof-height-at-child", "C08", func(fc *types.V2FileContract) { fc.ProofHeight = sc.child() }, true, "v2 contract whose proof height is the block it is formed in"},
					{"K4-proof-height-passed", "C08", func(fc *types.V2FileContract) { fc.ProofHeight = sc.child() - 1 }, false, "v2 contract whose proof height has passed"},
					{"K4-expiration-equals-proof", "C08", func(fc *types.V2FileContract) { fc.ExpirationHeight = fc.ProofHeight }, false, "v2 contract with expiration height equal to proof height"},
					{"K4-filesize-over-capacity", "C07", func(fc *types.V2FileContract) { fc.Filesize = 65; fc.Capacity = 64 }, false, "v2 contract with filesize above capacity"},
					{"K4-both-outputs-zero", "C07", func(fc *types.V2FileContract) {
						fc.RenterOutput.Value, fc.HostOutput.Value, fc.MissedHostValue, fc.TotalCollateral = types.ZeroCurrency, types.ZeroCurrency, types.ZeroCurrency, types.ZeroCurrency
					}, false, "v2 contract with both outputs zero"},
					{"K4-missed-exceeds-valid", "C07", func(fc *types.V2FileContract) { fc.MissedHostValue = fc.HostOutput.Value.Add(one) }, false, "v2 contract whose missed host value exceeds the valid one"},
					{"K4-collateral-exceeds-valid", "C07", func(fc *types.V2FileContract) { fc.TotalCollateral = fc.HostOutput.Value.Add(one) }, false, "v2 contract whose total collateral exceeds the host output"},
				}
				for _, r := range rows {
					if t, ok := mk(r.mut); ok {
						verr, ok := sc.offer(nil, t, offerOpt{})
						w.expect(r.prop, r.row, verr, ok, r.valid, r.what)
					}
				}
				if t, ok := mk(nil); ok {
					t[0].FileContracts[0].HostSignature[3] ^= 8
					verr, ok := sc.offer(nil, t, offerOpt{})
					w.expect("C03", "A3-formation-host-sig", verr, ok, false, "v2 contract formation with a host signature bit flipped")
				}
				if t, ok := mk(nil); ok {
					t[0].FileContracts[0].RenterSignature[60] ^= 1
					verr, ok := sc.offer(nil, t, offerOpt{})
					w.expect("C03", "A3-formation-renter-sig", verr, ok, false, "v2 contract formation with a renter signature bit flipped")
				}
			} else if sc.v1ok() && sc.child() >= w.net.HardforkTax.Height {
				mk := func(mut func(fc *types.FileContract)) ([]types.Transaction, bool) {
					valid := types.Siacoins(3)
					fc := types.FileContract{WindowStart: sc.child() + 2, WindowEnd: sc.child() + 4, UnlockHash: c.uc().UnlockHash(),
						ValidProofOutputs:  []types.SiacoinOutput{{Value: types.Siacoins(2), Address: renter.addrs[0].addr}, {Value: types.Siacoins(1), Address: host.addrs[0].addr}},
						MissedProofOutputs: []types.SiacoinOutput{{Value: types.Siacoins(2), Address: renter.addrs[0].addr}, {Value: types.Siacoins(1), Address: types.VoidAddress}}}
					fc.Payout = preTaxPayout(sc.s, fc, valid)
					if mut != nil {
						mut(&fc)
					}
					if funder.SiacoinOutput.Value.Cmp(fc.Payout) < 0 || fc.Payout.IsZero() {
						return nil, false
					}
					_, ai := w.ownerOf(funder.SiacoinOutput.Address)
					txn := types.Transaction{SiacoinInputs: []types.SiacoinInput{{ParentID: funder.ID, UnlockConditions: *ai.uc}}, FileContracts: []types.FileContract{fc}}
					if ch := funder.SiacoinOutput.Value.Sub(fc.Payout); !ch.IsZero() {
						txn.SiacoinOutputs = []types.SiacoinOutput{{Value: ch, Address: renter.addrs[0].addr}}
					}
					w.signAllV1(sc.s, &txn)
					return []types.Transaction{txn}, true
				}
				one := types.NewCurrency64(1)
				rows := []struct {
					row, prop string
					mut       func(fc *types.FileContract)
					valid     bool
					what      string
				}{
					{"K1-control", "C07", nil, true, "well-formed v1 contract"},
					{"K1-window-start-at-child", "C08", func(fc *types.FileContract) { fc.WindowStart = sc.child() }, true, "v1 contract whose window starts in the block it is formed in"},
					{"K1-window-start-passed", "C08", func(fc *types.FileContract) { fc.WindowStart = sc.child() - 1 }, false, "v1 contract whose window start has passed"},
					{"K1-window-empty", "C08", func(fc *types.FileContract) { fc.WindowEnd = fc.WindowStart }, false, "v1 contract with an empty window"},
					{"K1-valid-missed-differ", "C07", func(fc *types.FileContract) {
						fc.MissedProofOutputs[1].Value = fc.MissedProofOutputs[1].Value.Sub(one)
					}, false, "v1 contract whose missed sum differs from the valid sum"},
					{"K1-payout-plus-1", "C07", func(fc *types.FileContract) { fc.Payout = fc.Payout.Add(one) }, false, "v1 contract whose payout exceeds outputs plus tax by one hasting"},
					{"K1-payout-minus-10000", "C07", func(fc *types.FileContract) { fc.Payout = fc.Payout.Sub(types.NewCurrency64(10000)) }, false, "v1 contract whose payout is one tax unit short"},
				}
				for _, r := range rows {
					if t, ok := mk(r.mut); ok {
						verr, ok := sc.offer(t, nil, offerOpt{})
						w.expect(r.prop, r.row, verr, ok, r.valid, r.what)
					}
				}
			}
		}},
		probeRow{"K3-v1-window-start", func(w *World, n *Node) {
			sc := n.fork()
			if !sc.v1ok() {
				return
			}
			c := sc.pickLive(false, func(c *Contract) bool {
				fc := sc.store.FC[c.id].FileContract
				_, known := c.dataFor(fc.FileMerkleRoot, fc.Filesize)
				return known && fc.WindowStart > sc.child() && fc.WindowStart <= sc.child()+12 && fc.WindowStart < fc.WindowEnd && fc.WindowEnd < w.net.HardforkV2.RequireHeight &&
					!(fc.Filesize%64 == 0 && fc.WindowStart < w.net.HardforkStorageProof.Height) && fc.Filesize > 0
			})
			if c == nil {
				return
			}
			id := c.id
			fc := sc.store.FC[id].FileContract
			data, _ := c.dataFor(fc.FileMerkleRoot, fc.Filesize)
			w.boundary(sc, "K3-window-start", fc.WindowStart, func(sc *scratch) ([]types.Transaction, []types.V2Transaction, bool) {
				// before the window-start block exists the host can only guess
				// the challenge: it uses the tip as if it were the trigger block
				best := sc.best
				if fc.WindowStart-1 >= uint64(len(best)) {
					fake := fc
					fake.WindowStart = uint64(len(best))
					sp, ok := w.storageProofV1(sc.s, best, id, fake, data)
					return v1Txn(sp), nil, ok
				}
				sp, ok := w.storageProofV1(sc.s, best, id, fc, data)
				return v1Txn(sp), nil, ok
			}, fmt.Sprintf("storage proof of v1 contract %v with window start %d", id, fc.WindowStart))
		}},
	)
	// the contract rows are also part of C02 / C03 / C08's catalogues
	for _, r := range probeCatalogue["C07"] {
		switch r.name {
		case "K3-v1-proof-matrix", "K7-v2-proof-matrix":
			registerRows("C02", r)
		case "K5-v2-revision-rules", "K6-v2-renewal-rules", "K2-v1-revision-rules":
			registerRows("C03", r)
			registerRows("C08", r)
		case "K8-v2-expiration", "K7-v2-proof-height", "K3-v1-window-start", "K1-formation-rules":
			registerRows("C08", r)
			if r.name == "K1-formation-rules" {
				registerRows("C03", r)
			}
		}
	}
}

// boundaryInvKeep is boundaryInv that offers a v2-era block normally (the
// transaction version does not change across the bound).
func (w *World) boundaryInvKeep(sc *scratch, row string, bound uint64, mk txnMaker, what string) {
	if bound < sc.child() || bound > sc.child()+14 {
		return
	}
	for sc.child() < bound-1 {
		if !sc.extend(sc.nextTimestamp()) {
			return
		}
	}
	if sc.child() == bound-1 {
		if v1, v2, ok := mk(sc); ok {
			verr, ok := sc.offer(v1, v2, offerOpt{})
			w.expect("C08", row+"-last-valid", verr, ok, true, fmt.Sprintf("%s offered in the block at height %d (bound %d)", what, sc.child(), bound))
		}
		if !sc.extend(sc.nextTimestamp()) {
			return
		}
	}
	if sc.child() == bound {
		if v1, v2, ok := mk(sc); ok {
			verr, ok := sc.offer(v1, v2, offerOpt{})
			w.expect("C08", row+"-at-bound", verr, ok, false, fmt.Sprintf("%s offered in the block at height %d (bound %d)", what, sc.child(), bound))
		}
	}
}

// checkPayout verifies, on a scratch fork whose last block resolved contract
// id, that exactly the expected outputs were created with the maturity delay.
func (w *World) checkPayout(sc *scratch, id types.FileContractID, v2 bool, want []types.SiacoinOutput, how string) {
	h := sc.s.Index.Height
	for i, o := range want {
		var oid types.SiacoinOutputID
		if v2 {
			oid = ref.V2ContractOutputID(id, i == 1)
		} else {
			oid = ref.V1ProofOutputID(id, true, i)
		}
		e, ok := sc.store.SC[oid]
		if !ok {
			w.violate("C07", "payout-missing", fmt.Sprintf("%s of contract %v: output %d (%v) was not created", how, id, i, oid))
			return
		}
		if e.SiacoinOutput != o || e.MaturityHeight != h+w.net.MaturityDelay {
			w.violate("C07", "payout-wrong", fmt.Sprintf("%s of contract %v: output %d is (%v,%v,maturity %d), latest revision says (%v,%v,maturity %d)", how, id, i, e.SiacoinOutput.Value, e.SiacoinOutput.Address, e.MaturityHeight, o.Value, o.Address, h+w.net.MaturityDelay))
			return
		}
	}
	w.stats.Inc("probe.payout-checked")
}
