package world

import (
	"bytes"
	"encoding"
	"encoding/binary"
	"encoding/json"
	"fmt"
	rhp3 "go.sia.tech/core/rhp/v3"
	rhp4 "go.sia.tech/core/rhp/v4"
	"reflect"
	"regexp"
	"sort"
	"time"
	"verif/sim"

	"go.sia.tech/core/consensus"
	"go.sia.tech/core/types"
)

// The text channel (C20): wallets and light clients talk to their node over a
// JSON API. What crosses it is re-parsed on the other side; the channel's
// fault is the alteration of one character (or the loss / gain of one) inside
// an identifier.

func (w *World) apiOn() bool {
	if w.cfg.Profile == "C10" {
		return w.tape.Choose(3) == 0 // (transactions posted with members missing are C10's)
	}
	return w.cfg.Profile == "C20" || w.tape.Choose(10) == 0
}

// apiRoundTrip sends v through its JSON form into fresh; same reports whether
// the received value equals the sent one.
func (w *World) apiRoundTrip(what string, v any, fresh any, same func() bool) []byte {
	var js []byte
	var err error
	if p := guard(func() { js, err = json.Marshal(v) }); p != "" || err != nil {
		w.violate("C20", "json-marshal", fmt.Sprintf("%s: json.Marshal failed: %v %s", what, err, p))
		return nil
	}
	if p := guard(func() { err = json.Unmarshal(js, fresh) }); p != "" || err != nil {
		w.violate("C20", "json-unmarshal-own-output", fmt.Sprintf("%s: json.Unmarshal of the type's own output failed: %v %s (%.300s)", what, err, p, js))
		return nil
	}
	if !same() {
		w.violate("C20", "json-roundtrip-differs", fmt.Sprintf("%s: value parsed back from its own JSON differs from the original (%.300s)", what, js))
		return nil
	}
	w.stats.Inc("probe.api.json-roundtrip")
	return js
}

var (
	reAddr = regexp.MustCompile(`"[0-9a-f]{76}"`)
	reHash = regexp.MustCompile(`"[0-9a-f]{64}"`)
	rePK   = regexp.MustCompile(`"ed25519:[0-9a-f]{64}"`)
	reSig  = regexp.MustCompile(`"[0-9a-f]{128}"`)
)

// members whose value is a types.PublicKey (an unlock key's algorithm prefix is free)
var reKeyPK = regexp.MustCompile(`"(renterPublicKey|hostPublicKey|publicKey)":$`)

const hexdigits = "0123456789abcdef"

// apiCorrupt alters one identifier inside js and requires the parser to refuse it.
func (w *World) apiCorrupt(what string, js []byte, fresh func() any, same func(got any) bool) {
	t := w.tape
	type cand struct {
		kind     string
		from, to int
	}
	var cands []cand
	for _, r := range []struct {
		kind string
		re   *regexp.Regexp
	}{{"address", reAddr}, {"hash", reHash}, {"public key", rePK}, {"signature", reSig}} {
		for _, m := range r.re.FindAllIndex(js, 8) {
			cands = append(cands, cand{r.kind, m[0] + 1, m[1] - 1})
		}
	}
	if len(cands) == 0 {
		return
	}
	c := cands[t.Choose(len(cands))]
	tok := append([]byte(nil), js[c.from:c.to]...)
	var mut []byte
	how := ""
	hexStart := 0
	if c.kind == "public key" {
		hexStart = len("ed25519:")
	}
	mode := t.Choose(4)
	if c.kind == "address" {
		mode = 0 // any single character of an address
	} else if mode == 0 {
		mode = 1
	}
	switch mode {
	case 0:
		i := t.Choose(len(tok))
		d := hexdigits[(bytes.IndexByte([]byte(hexdigits), tok[i])+1+t.Choose(15))%16]
		mut = append([]byte(nil), tok...)
		mut[i] = d
		how = fmt.Sprintf("character %d of %d changed from %c to %c", i, len(tok), tok[i], d)
	case 1:
		mut = tok[:len(tok)-1]
		how = "last character lost"
	case 2:
		mut = append(append([]byte(nil), tok...), hexdigits[t.Choose(16)])
		how = "one character appended"
	default:
		i := hexStart + t.Choose(len(tok)-hexStart)
		mut = append([]byte(nil), tok...)
		mut[i] = "ghxz-_ "[t.Choose(7)]
		how = fmt.Sprintf("character %d replaced by %q (not a hex digit)", i, mut[i])
		if c.kind == "public key" && t.Chance(1, 2) && reKeyPK.Match(js[:c.from-1]) {
			mut = append([]byte(nil), tok...)
			mut[t.Choose(hexStart-1)] = 'x'
			how = "prefix altered"
		}
	}
	bad := append(append(append([]byte(nil), js[:c.from]...), mut...), js[c.to:]...)
	var err error
	out := fresh()
	if p := guard(func() { err = json.Unmarshal(bad, out) }); p != "" {
		w.violate(w.propAmong("C10", "C20"), "json-unmarshal-panic", fmt.Sprintf("%s: json.Unmarshal panicked on a corrupted %s (%s): %s", what, c.kind, how, p))
		return
	}
	w.stats.Inc("probe.api.corrupt-" + c.kind)
	if err == nil && !same(out) {
		// (members that are only informational in the JSON form, like a
		// transaction's id or an input's address, are not parsed back: then the
		// value is unchanged and nothing was accepted)
		w.violate("C20", "corrupted-identifier-accepted", fmt.Sprintf("%s: a %s with %s (%s -> %s) was parsed without error into a different value", what, c.kind, how, tok, mut))
	}
}

// apiTxn passes a wallet's transaction through the API on its way to the node.
func (w *World) apiTxn(pt *PoolTxn) {
	if !w.apiOn() {
		return
	}
	if pt.V1 != nil {
		for _, o := range pt.V1.SiacoinOutputs {
			w.apiCurrency(o.Value)
			w.apiCurrency(types.MaxCurrency.Sub(o.Value))
		}
		for _, f := range pt.V1.MinerFees {
			w.apiCurrency(f)
		}
		var got types.Transaction
		js := w.apiRoundTrip(pt.Kind+" transaction "+short(pt.ID), *pt.V1, &got, func() bool { return bytes.Equal(encV1(got), encV1(*pt.V1)) && got.ID() == pt.ID })
		if js != nil {
			w.apiCorrupt(pt.Kind+" transaction", js, func() any { return new(types.Transaction) }, func(g any) bool { return bytes.Equal(encV1(*g.(*types.Transaction)), encV1(*pt.V1)) })
			w.apiHollow(pt.Kind+" transaction", js, true)
		}
		for _, in := range pt.V1.SiacoinInputs {
			w.apiText("unlock conditions address", in.UnlockConditions.UnlockHash())
			for _, uk := range in.UnlockConditions.PublicKeys {
				b, _ := uk.MarshalText()
				var back types.UnlockKey
				if err := back.UnmarshalText(b); err != nil || back.Algorithm != uk.Algorithm || !bytes.Equal(back.Key, uk.Key) {
					w.violate("C20", "text-roundtrip-differs", fmt.Sprintf("unlock key %q does not parse back from its own text form: %v", b, err))
				}
			}
		}
		return
	}
	for _, o := range pt.V2.SiacoinOutputs {
		w.apiCurrency(o.Value)
		w.apiCurrency(o.Value.Div64(uint64(1 + w.tape.Choose(1000))))
	}
	w.apiCurrency(pt.V2.MinerFee)
	var got types.V2Transaction
	js := w.apiRoundTrip(pt.Kind+" transaction "+short(pt.ID), *pt.V2, &got, func() bool { return bytes.Equal(encAny(got), encAny(*pt.V2)) && got.ID() == pt.ID })
	if js != nil {
		w.apiCorrupt(pt.Kind+" transaction", js, func() any { return new(types.V2Transaction) }, func(g any) bool { return bytes.Equal(encAny(*g.(*types.V2Transaction)), encAny(*pt.V2)) })
		w.apiHollow(pt.Kind+" transaction", js, false)
	}
	for _, in := range pt.V2.SiacoinInputs {
		p := in.SatisfiedPolicy.Policy
		back, err := types.ParseSpendPolicy(p.String())
		if err != nil || !bytes.Equal(encAny(back), encAny(p)) {
			w.violate("C20", "text-roundtrip-differs", fmt.Sprintf("spend policy %q does not parse back from its own string form: %v", p.String(), err))
		}
		w.stats.Inc("probe.api.policy-string")
	}
}

// apiCurrency sends a currency value in its unit form and in its exact form.
func (w *World) apiCurrency(c types.Currency) {
	for _, str := range []string{c.String(), c.ExactString(), fmt.Sprintf("%d H", c)} {
		back, err := types.ParseCurrency(str)
		if err != nil || back != c {
			w.violate("C20", "text-roundtrip-differs", fmt.Sprintf("currency %s (%s) does not parse back from its own text form %q: %v %v", c.ExactString(), c, str, back, err))
			return
		}
	}
	w.stats.Inc("probe.api.currency-text")
}

// apiText sends an address as text, unharmed and with one character altered.
func (w *World) apiText(what string, a types.Address) {
	s := a.String()
	back, err := types.ParseAddress(s)
	if err != nil || back != a {
		w.violate("C20", "text-roundtrip-differs", fmt.Sprintf("%s %s does not parse back from its own text form: %v", what, s, err))
		return
	}
	b := []byte(s)
	i := w.tape.Choose(len(b))
	if j := bytes.IndexByte([]byte(hexdigits), b[i]); j >= 0 {
		b[i] = hexdigits[(j+1+w.tape.Choose(15))%16]
	} else {
		b[i] = 'z'
	}
	got, err := types.ParseAddress(string(b))
	w.stats.Inc("probe.api.corrupt-address-text")
	if err == nil {
		w.violate("C20", "corrupted-identifier-accepted", fmt.Sprintf("%s: address %s with character %d altered (%s) parsed without error as %v", what, s, i, b, got))
	}
}

// apiBlock publishes an applied block, its state and chain index over the API.
func (w *World) apiBlock(n *Node, e *blockEntry) {
	if !w.apiOn() {
		return
	}
	w.apiPolicy(n)
	w.apiTextReuse()
	b := e.b
	var gb types.Block
	js := w.apiRoundTrip(fmt.Sprintf("block %s (height %d)", short(e.id), e.height), b, &gb, func() bool { return bytes.Equal(fullBlockBytes(gb), fullBlockBytes(b)) && gb.ID() == b.ID() })
	if js != nil {
		w.apiCorrupt("block", js, func() any { return new(types.Block) }, func(g any) bool { return bytes.Equal(fullBlockBytes(*g.(*types.Block)), fullBlockBytes(b)) })
	}
	var gs consensus.State
	s := n.tip
	gs.Network = s.Network
	w.apiRoundTrip(fmt.Sprintf("state at height %d", s.Index.Height), s, &gs, func() bool { gs.Network = s.Network; return bytes.Equal(encodeState(gs), encodeState(s)) })
	ci := s.Index
	txt, _ := ci.MarshalText()
	var back types.ChainIndex
	if err := back.UnmarshalText(txt); err != nil || back != ci {
		w.violate("C20", "text-roundtrip-differs", fmt.Sprintf("chain index %s does not parse back from its own text form: %v", txt, err))
	}
	for _, mut := range [][]byte{txt[:len(txt)-1], append(append([]byte(nil), txt...), 'a'), append(append([]byte(nil), txt...), 'a', 'b'), append(append([]byte(nil), txt...), bytes.Repeat([]byte("0"), 64)...), bytes.Replace(txt, []byte("::"), []byte(":"), 1), append([]byte("x"), txt...)} {
		var ci2 types.ChainIndex
		var err error
		if p := guard(func() { err = ci2.UnmarshalText(mut) }); p != "" {
			w.violate(w.propAmong("C10", "C20"), "text-unmarshal-panic", fmt.Sprintf("ChainIndex.UnmarshalText(%q) panicked: %s", mut, p))
		} else if err == nil {
			w.violate("C20", "corrupted-identifier-accepted", fmt.Sprintf("chain index %q (from %q) parsed without error as %v", mut, txt, ci2))
		}
		w.stats.Inc("probe.api.corrupt-chain-index")
	}
}

// apiPolicy publishes a tape-drawn spend policy (all leaf kinds, legacy
// conditions with unusual keys and counts) in string and in JSON form.
func (w *World) apiPolicy(n *Node) {
	c := &polCtx{w: w, height: n.tip.Index.Height, median: medianTimestamp(n.tip)}
	for i := 0; i < 3; i++ {
		c.keys = append(c.keys, deriveKey("c14-key", uint64(i), 1))
		c.alien = append(c.alien, deriveKey("c14-alien", uint64(i), 1))
		c.pre = append(c.pre, [32]byte{byte(i), 1})
	}
	p := c.draw(0, true)
	if w.tape.Chance(1, 2) {
		p = c.reveal(p, false)
	}
	if w.tape.Chance(1, 5) {
		// a lock time between two seconds (as one built from a wall clock is): the
		// text forms, like the binary form, carry its second
		frac := time.Duration(w.tape.Range(1, 999999999))
		p = types.PolicyThreshold(1, []types.SpendPolicy{p, types.PolicyAfter(c.median.Truncate(time.Second).Add(frac))})
		if w.tape.Chance(1, 3) {
			p = types.PolicyAfter(c.median.Truncate(time.Second).Add(frac))
		}
	}
	str := p.String()
	var back types.SpendPolicy
	var err error
	if pn := guard(func() { back, err = types.ParseSpendPolicy(str) }); pn != "" {
		w.violate(w.propAmong("C10", "C20"), "text-unmarshal-panic", fmt.Sprintf("ParseSpendPolicy(%q) panicked: %s", str, pn))
		return
	}
	if err != nil || !bytes.Equal(encAny(back), encAny(p)) {
		w.violate("C20", "text-roundtrip-differs", fmt.Sprintf("spend policy %s does not parse back from its own string form: %v", str, err))
		return
	}
	var viaJSON types.SpendPolicy
	w.apiRoundTrip("spend policy "+str, p, &viaJSON, func() bool { return bytes.Equal(encAny(viaJSON), encAny(p)) })
	w.stats.Inc("probe.api.policy-drawn")
	// one character lost / altered: must not panic; a parsed result must be a policy again
	b := []byte(str)
	if len(b) > 2 {
		i := w.tape.Choose(len(b))
		mut := append(append([]byte(nil), b[:i]...), b[i+1:]...)
		if w.tape.Chance(1, 2) {
			mut = append([]byte(nil), b...)
			mut[i] = "(),[]x9 "[w.tape.Choose(8)]
		}
		if pn := guard(func() { types.ParseSpendPolicy(string(mut)) }); pn != "" {
			w.violate(w.propAmong("C10", "C20"), "text-unmarshal-panic", fmt.Sprintf("ParseSpendPolicy(%q) panicked: %s", mut, pn))
		}
	}
}

// textLeaf is a value with a text form of its own.
type textLeaf interface {
	encoding.TextMarshaler
	encoding.TextUnmarshaler
}

// apiTextReuse parses text forms into a variable that has held another value
// before (a client polling an endpoint into one struct): what was there must
// not show through.
func (w *World) apiTextReuse() {
	t := w.tape
	kinds := []struct {
		name string
		size int
		mk   func() textLeaf
	}{
		{"consensus.Work", 32, func() textLeaf { return new(consensus.Work) }},
		{"types.Currency", 16, func() textLeaf { return new(types.Currency) }},
		{"types.Hash256", 32, func() textLeaf { return new(types.Hash256) }},
		{"types.Address", 32, func() textLeaf { return new(types.Address) }},
		{"types.BlockID", 32, func() textLeaf { return new(types.BlockID) }},
		{"types.PublicKey", 32, func() textLeaf { return new(types.PublicKey) }},
		{"types.Signature", 64, func() textLeaf { return new(types.Signature) }},
		{"types.Specifier", 16, func() textLeaf { return new(types.Specifier) }},
		{"types.ChainIndex", 40, func() textLeaf { return new(types.ChainIndex) }},
		{"types.TransactionID", 32, func() textLeaf { return new(types.TransactionID) }},
		{"types.SiacoinOutputID", 32, func() textLeaf { return new(types.SiacoinOutputID) }},
		{"types.SiafundOutputID", 32, func() textLeaf { return new(types.SiafundOutputID) }},
		{"types.FileContractID", 32, func() textLeaf { return new(types.FileContractID) }},
		{"types.AttestationID", 32, func() textLeaf { return new(types.AttestationID) }},
		{"rhp4.Account", 32, func() textLeaf { return new(rhp4.Account) }},
		{"rhp3.Account", 32, func() textLeaf { return new(rhp3.Account) }},
		{"rhp4.ProtocolVersion", 3, func() textLeaf { return new(rhp4.ProtocolVersion) }},
		{"types.UnlockKey", 0, func() textLeaf { return new(types.UnlockKey) }},
	}
	k := kinds[t.Choose(len(kinds))]
	draw := func(salt uint64) []byte {
		if k.name == "types.UnlockKey" {
			var uk types.UnlockKey
			alg := "abcXYZ0123456789"[:t.Range(0, 16)]
			copy(uk.Algorithm[:], alg)
			uk.Key = sim.HashBytes("api-reuse-key", uint64(t.Choose(1<<20)), salt, t.Range(0, 40))
			var buf bytes.Buffer
			e := types.NewEncoder(&buf)
			uk.EncodeTo(e)
			e.Flush()
			return buf.Bytes()
		}
		b := sim.HashBytes("api-reuse", uint64(t.Choose(1<<20)), salt, k.size)
		if k.name == "types.Specifier" {
			for i := range b {
				b[i] = "abcXYZ019 "[b[i]%10]
			}
			for i := t.Range(1, k.size); i < k.size; i++ {
				b[i] = 0
			}
			return b
		}
		// numbers of every width: leading (or, little-endian, trailing) zero bytes
		z := t.Choose(k.size)
		if t.Chance(1, 3) {
			z = 0
		}
		for i := 0; i < z; i++ {
			if k.name == "types.Currency" {
				b[k.size-1-i] = 0
			} else if k.name == "consensus.Work" {
				b[i] = 0
			}
		}
		return b
	}
	first, second, fresh := k.mk(), k.mk(), k.mk()
	set := func(v textLeaf, b []byte) {
		if c, ok := v.(*types.Currency); ok {
			*c = types.NewCurrency(binary.LittleEndian.Uint64(b[:8]), binary.LittleEndian.Uint64(b[8:]))
			return
		}
		if pv, ok := v.(*rhp4.ProtocolVersion); ok {
			copy(pv[:], b)
			return
		}
		v.(types.DecoderFrom).DecodeFrom(types.NewBufDecoder(b))
	}
	set(first, draw(1))
	set(second, draw(2))
	txt, err := second.MarshalText()
	if err != nil {
		w.violate("C20", "text-marshal", fmt.Sprintf("%s: MarshalText failed: %v", k.name, err))
		return
	}
	if err := fresh.UnmarshalText(txt); err != nil || !reflect.DeepEqual(fresh, second) {
		w.violate("C20", "text-roundtrip-differs", fmt.Sprintf("%s %s does not parse back from its own text form: got %v (%v)", k.name, txt, fresh, err))
		return
	}
	was, _ := first.MarshalText()
	if err := first.UnmarshalText(txt); err != nil || !reflect.DeepEqual(first, second) {
		w.violate("C20", "text-roundtrip-differs", fmt.Sprintf("%s: %q parsed into a variable that held %s gives %v (%v); parsed into a new variable it gives %v", k.name, txt, was, first, err, fresh))
		return
	}
	w.stats.Inc("probe.api.text-into-used-variable")
}

// apiHollow posts a transaction as a careless or hostile API client would:
// its own JSON with one member left out or set to null. Whatever still parses
// is a transaction like any other to the rest of the library: judging it ends
// in a verdict.
func (w *World) apiHollow(what string, js []byte, v1 bool) {
	if len(w.nodes) == 0 {
		return
	}
	var tree any
	dec := json.NewDecoder(bytes.NewReader(js))
	dec.UseNumber()
	if dec.Decode(&tree) != nil {
		return
	}
	// every (container, key) in a fixed order
	type site struct {
		m map[string]any
		k string
	}
	var sites []site
	var walk func(v any)
	walk = func(v any) {
		switch x := v.(type) {
		case map[string]any:
			keys := make([]string, 0, len(x))
			for k := range x {
				keys = append(keys, k)
			}
			sort.Strings(keys)
			for _, k := range keys {
				sites = append(sites, site{x, k})
				walk(x[k])
			}
		case []any:
			for _, e := range x {
				walk(e)
			}
		}
	}
	walk(tree)
	if len(sites) == 0 {
		return
	}
	st := sites[w.tape.Choose(len(sites))]
	how := "left out"
	if w.tape.Chance(1, 2) {
		st.m[st.k] = nil
		how = "set to null"
	} else {
		delete(st.m, st.k)
	}
	hollow, err := json.Marshal(tree)
	if err != nil {
		return
	}
	if v1 {
		var txn types.Transaction
		if p := guard(func() { err = json.Unmarshal(hollow, &txn) }); p != "" {
			w.violate("C10", "json-unmarshal-panic", fmt.Sprintf("%s with member %q %s: json.Unmarshal panicked: %s", what, st.k, how, p))
			return
		}
		w.stats.Inc("probe.api.hollow")
		if err != nil {
			return
		}
		w.stats.Inc("probe.api.hollow-parsed")
		s := w.nodes[0].tip
		if p := guard(func() {
			_ = txn.ID()
			_ = s.TransactionWeight(txn)
			_ = s.WholeSigHash(txn, types.Hash256{}, 0, 0, nil)
			_ = consensus.ValidateTransaction(consensus.NewMidState(s), txn, consensus.V1TransactionSupplement{})
		}); p != "" {
			w.violate("C10", "validate-panic", fmt.Sprintf("%s with member %q %s parses without error; weighing, hashing or validating it panicked: %s", what, st.k, how, p))
		}
		return
	}
	var txn types.V2Transaction
	if p := guard(func() { err = json.Unmarshal(hollow, &txn) }); p != "" {
		w.violate("C10", "json-unmarshal-panic", fmt.Sprintf("%s with member %q %s: json.Unmarshal panicked: %s", what, st.k, how, p))
		return
	}
	w.stats.Inc("probe.api.hollow")
	if err != nil {
		return
	}
	w.stats.Inc("probe.api.hollow-parsed")
	s := w.nodes[0].tip
	if p := guard(func() {
		ms := consensus.NewMidState(s)
		_ = consensus.ValidateV2Transaction(ms, txn)
	}); p != "" {
		w.violate("C10", "validate-panic", fmt.Sprintf("%s with member %q %s parses without error, and ValidateV2Transaction then panicked on it: %s", what, st.k, how, p))
		return
	}
	if p := guard(func() { _ = txn.ID(); _ = s.V2TransactionWeight(txn); _ = s.InputSigHash(txn) }); p != "" {
		w.violate("C10", "hash-parsed-transaction-panic", fmt.Sprintf("%s with member %q %s parses without error; taking its ID, weight or signature hash panicked: %s", what, st.k, how, p))
	}
}
