package world

import (
	"time"

	"verif/sim"
)

// applyProfile biases the swarm configuration towards the property a check is
// about. Everything is still drawn from the tape.
func applyProfile(t *sim.Tape, c *Config, tier string) {
	reorgy := func() {
		if c.PartitionPM == 0 {
			c.PartitionPM = pick(t, 80, 40, 150)
		}
		if c.SideMinePM == 0 {
			c.SideMinePM = pick(t, 80, 40, 150)
		}
		if c.Nodes < 3 {
			c.Nodes = 3
		}
	}
	switch c.Profile {
	case "C02", "C03", "C04", "C07", "C08", "C12", "C14", "C17", "C18":
		c.ProbePM = pick(t, 400, 250, 700)
		c.ProbeRows[c.Profile] = true
	case "C01":
		c.ProbePM = pick(t, 200, 120, 350)
		c.ProbeRows["C01"] = true
	case "C05":
		reorgy()
		c.Lights = t.Range(2, 4)
		c.Wallets = t.Range(3, 6)
		c.TxnsPerBlockMax = pick(t, 12, 6, 30, 40)
		c.WPay, c.WEphemeral = 20, 6
	case "C06":
		reorgy()
		c.Lights = t.Range(0, 2)
	case "C09":
		c.Lights = t.Range(0, 1)
	case "C10":
		c.CorruptPM = pick(t, 150, 60, 300)
		c.ProbeRows["C10"] = true
		c.ProbePM = pick(t, 300, 150, 500)
	case "C11":
		c.ProbeRows["C11"] = true
	case "C20":
		c.LightJSON = true
		c.Lights = t.Range(2, 4)
		reorgy()
	}
	_ = time.Second
}
