package world

import (
	"bytes"
	"crypto/sha256"
	"encoding/hex"
	"fmt"
	"regexp"
	"sort"
	"strings"

	"go.sia.tech/core/consensus"
	"go.sia.tech/core/types"
	"verif/ref"
)

// ---- C09 inline: inputs untouched, repeatable, independent of representation ----

// fullBlockBytes encodes every byte of a block including each individual
// Merkle proof (the wire form compresses proofs into a multiproof).
func fullBlockBytes(b types.Block) []byte {
	var buf bytes.Buffer
	e := types.NewEncoder(&buf)
	types.V1Block(b).EncodeTo(e)
	e.WriteBool(b.V2 != nil)
	if b.V2 != nil {
		e.WriteUint64(b.V2.Height)
		b.V2.Commitment.EncodeTo(e)
		types.EncodeSlice(e, b.V2.Transactions)
	}
	e.Flush()
	return buf.Bytes()
}

func suppBytes(bs consensus.V1BlockSupplement) []byte {
	var buf bytes.Buffer
	e := types.NewEncoder(&buf)
	bs.EncodeTo(e)
	e.Flush()
	return buf.Bytes()
}

// suppOrder names the supplement's elements in the order they are held.
func suppOrder(bs consensus.V1BlockSupplement) string {
	var sb strings.Builder
	for i, ts := range bs.Transactions {
		fmt.Fprintf(&sb, "t%d[", i)
		for _, e := range ts.SiacoinInputs {
			sb.WriteString(short(types.Hash256(e.ID)) + " ")
		}
		sb.WriteString("|")
		for _, e := range ts.SiafundInputs {
			sb.WriteString(short(types.Hash256(e.ID)) + " ")
		}
		sb.WriteString("|")
		for _, e := range ts.RevisedFileContracts {
			sb.WriteString(short(types.Hash256(e.ID)) + " ")
		}
		sb.WriteString("|")
		for _, e := range ts.StorageProofs {
			sb.WriteString(short(types.Hash256(e.FileContract.ID)) + " ")
		}
		sb.WriteString("]")
	}
	sb.WriteString("x[")
	for _, e := range bs.ExpiringFileContracts {
		sb.WriteString(short(types.Hash256(e.ID)) + " ")
	}
	sb.WriteString("]")
	return sb.String()
}

type validateSnap struct {
	full   bool
	state  []byte
	block  []byte
	supp   []byte
	copyB  types.Block // independent deep copy made before the call
	copyBS consensus.V1BlockSupplement
}

func copySupp(bs consensus.V1BlockSupplement) (c consensus.V1BlockSupplement) {
	c.Transactions = make([]consensus.V1TransactionSupplement, len(bs.Transactions))
	for i, ts := range bs.Transactions {
		for _, e := range ts.SiacoinInputs {
			c.Transactions[i].SiacoinInputs = append(c.Transactions[i].SiacoinInputs, e.Copy())
		}
		for _, e := range ts.SiafundInputs {
			c.Transactions[i].SiafundInputs = append(c.Transactions[i].SiafundInputs, e.Copy())
		}
		for _, e := range ts.RevisedFileContracts {
			c.Transactions[i].RevisedFileContracts = append(c.Transactions[i].RevisedFileContracts, e.Copy())
		}
		for _, e := range ts.StorageProofs {
			c.Transactions[i].StorageProofs = append(c.Transactions[i].StorageProofs, consensus.V1StorageProofSupplement{FileContract: e.FileContract.Copy(), WindowID: e.WindowID})
		}
	}
	for _, e := range bs.ExpiringFileContracts {
		c.ExpiringFileContracts = append(c.ExpiringFileContracts, e.Copy())
	}
	return
}

func (w *World) c09Rate() int {
	if w.cfg.Profile == "C09" {
		return 1
	}
	return 6
}

func (w *World) preValidate(n *Node, s consensus.State, b types.Block, bs consensus.V1BlockSupplement) *validateSnap {
	snap := &validateSnap{}
	if w.tape.Choose(w.c09Rate()) != 0 {
		return snap
	}
	snap.full = true
	// writing a value out leaves it as it was: the store hands over the
	// supplement in its own order, and that order is the caller's
	order := suppOrder(bs)
	snap.state, snap.block, snap.supp = encodeState(s), fullBlockBytes(b), suppBytes(bs)
	if after := suppOrder(bs); after != order {
		w.violate("C09", "encode-mutates-value", fmt.Sprintf("encoding the supplement for the child of height %d changed it: elements were %s, are %s", int64(s.Index.Height), order, after))
	}
	if len(bs.ExpiringFileContracts) > 1 {
		for i := 1; i < len(bs.ExpiringFileContracts); i++ {
			if bs.ExpiringFileContracts[i].StateElement.LeafIndex < bs.ExpiringFileContracts[i-1].StateElement.LeafIndex {
				w.stats.Inc("probe.c09.expiring-not-in-leaf-order")
				break
			}
		}
	}
	return snap
}

// errStr is the verdict as compared between calls: nil or the error's text
// with identifiers blanked. Which of several offending parents an error names
// is not part of the verdict (validateSignatures reports the first one a map
// iteration meets).
func errStr(err error) string {
	if err == nil {
		return "<nil>"
	}
	return reHexID.ReplaceAllString(err.Error(), "#")
}

var reHexID = regexp.MustCompile(`[0-9a-f]{8,}`)

// postValidate: the first call is done; compare with repeated calls, with a
// decoded copy, with per-transaction validation, and check the inputs.
func (w *World) postValidate(n *Node, snap *validateSnap, s consensus.State, b types.Block, bs consensus.V1BlockSupplement, verr error) {
	if snap == nil || !snap.full {
		return
	}
	w.stats.Inc("probe.c09.validate")
	if w.cfg.Profile == "C09" && w.tape.Choose(3) == 0 {
		w.multiproofEncodePure()
	}
	ctx := fmt.Sprintf("block %s (child of height %d)", short(b.ID()), int64(s.Index.Height))
	// (called directly, without validation's range checks in front: a panic here says nothing)
	_ = guard(func() { w.checkPure(s, b.Transactions, b.V2Transactions(), ctx) })
	if !bytes.Equal(encodeState(s), snap.state) || !bytes.Equal(fullBlockBytes(b), snap.block) || !bytes.Equal(suppBytes(bs), snap.supp) {
		w.violate("C09", "validate-mutates-input", "ValidateBlock modified its state, block or supplement: "+ctx)
		return
	}
	// repeat
	var err2 error
	if p := guard(func() { err2 = consensus.ValidateBlock(s, b, bs) }); p != "" {
		w.violate("C10", "validate-panic", p)
		return
	}
	if errStr(err2) != errStr(verr) {
		w.violate("C09", "validate-not-repeatable", fmt.Sprintf("%s: first verdict %q, second %q", ctx, errStr(verr), errStr(err2)))
	}
	// decoded copy (wire form: proofs go through the multiproof codec)
	// The multiproof wire form is only defined for proofs that are valid for
	// one state, so an invalid in-memory block need not survive it; compare
	// verdicts only when the round trip reproduces the block exactly.
	var db types.Block
	var derr error
	if p := guard(func() { db, derr = decodeBlock(encodeBlock(b)) }); p != "" {
		if verr == nil {
			w.violate("C10", "encode-valid-block-panic", ctx+": "+p)
		}
		return
	}
	if derr != nil {
		if verr == nil {
			w.violate("C11", "block-roundtrip-decode", fmt.Sprintf("%s: decode(encode(b)) of a valid block failed: %v", ctx, derr))
		}
	} else if bytes.Equal(fullBlockBytes(db), snap.block) {
		var err3 error
		// (the supplement too as a node that stored it would read it back)
		var dbs consensus.V1BlockSupplement
		dd := types.NewBufDecoder(snap.supp)
		dbs.DecodeFrom(dd)
		if dd.Err() != nil {
			w.violate("C11", "supplement-roundtrip-decode", fmt.Sprintf("%s: the supplement does not decode from its own encoding: %v", ctx, dd.Err()))
			return
		}
		for i := range bs.Transactions {
			for j, sp := range bs.Transactions[i].StorageProofs {
				if i >= len(dbs.Transactions) || j >= len(dbs.Transactions[i].StorageProofs) || dbs.Transactions[i].StorageProofs[j].WindowID != sp.WindowID {
					w.violate(w.propAmong("C09", "C11"), "supplement-roundtrip-differs", fmt.Sprintf("%s: the storage proof supplement of contract %v (filesize %d) names window block %v; read back from its own encoding it does not", ctx, sp.FileContract.ID, sp.FileContract.FileContract.Filesize, sp.WindowID))
					return
				}
			}
		}
		if suppOrder(dbs) != suppOrder(bs) {
			w.violate(w.propAmong("C09", "C11"), "supplement-roundtrip-differs", fmt.Sprintf("%s: the supplement read back from its own encoding holds %s, the original %s", ctx, suppOrder(dbs), suppOrder(bs)))
			return
		}
		if p := guard(func() { err3 = consensus.ValidateBlock(s, db, dbs) }); p != "" {
			w.violate("C10", "validate-panic", p)
			return
		}
		if (err3 == nil) != (verr == nil) {
			w.violate("C09", "validate-decoded-copy", fmt.Sprintf("%s: verdict %q on the original, %q on decode(encode(b))", ctx, errStr(verr), errStr(err3)))
		}
	} else if verr == nil {
		w.violate("C18", "valid-block-multiproof-roundtrip", ctx+": a valid block does not survive decode(encode(b)) bit for bit")
	}
	// per-transaction validation against the evolving MidState must agree with
	// the block verdict whenever the block-level checks pass.
	if consensus.ValidateOrphan(s, b) == nil && (b.V2 == nil || b.V2.Commitment == s.Commitment(b.MinerPayouts[0].Address, b.Transactions, b.V2Transactions())) && len(bs.Transactions) == len(b.Transactions) {
		suppOK := true
		for _, ts := range bs.Transactions {
			_ = ts
		}
		ms := consensus.NewMidState(s)
		var terr error
		p := guard(func() {
			for i, txn := range b.Transactions {
				if terr = consensus.ValidateTransaction(ms, txn, bs.Transactions[i]); terr != nil {
					return
				}
				ms.ApplyTransaction(txn, bs.Transactions[i])
			}
			for _, txn := range b.V2Transactions() {
				if terr = consensus.ValidateV2Transaction(ms, txn); terr != nil {
					return
				}
				ms.ApplyV2Transaction(txn)
			}
		})
		if p != "" {
			w.violate("C10", "validate-txn-panic", p)
			return
		}
		// the supplement membership check is block-level only; exclude it
		if verr != nil && bytes.Contains([]byte(verr.Error()), []byte("block supplement is invalid")) {
			suppOK = false
		}
		if suppOK && (terr == nil) != (verr == nil) {
			w.violate("C09", "per-transaction-verdict", fmt.Sprintf("%s: ValidateBlock says %q, transaction-by-transaction validation says %q", ctx, errStr(verr), errStr(terr)))
		}
	}
}

func (w *World) postApply(n *Node, snap *validateSnap, s consensus.State, e *blockEntry, bs consensus.V1BlockSupplement, ns consensus.State, au consensus.ApplyUpdate) {
	if snap == nil || !snap.full {
		return
	}
	w.stats.Inc("probe.c09.apply")
	b := e.b
	ctx := fmt.Sprintf("block %s at height %d", short(e.id), e.height)
	if !bytes.Equal(encodeState(s), snap.state) || !bytes.Equal(fullBlockBytes(b), snap.block) || !bytes.Equal(suppBytes(bs), snap.supp) {
		w.violate("C09", "apply-mutates-input", "ApplyBlock modified its state, block or supplement: "+ctx)
		return
	}
	ats := n.ancestorTimestamp(n.blocks[e.parent])
	sig := diffDigest(au.SiacoinElementDiffs(), au.SiafundElementDiffs(), au.FileContractElementDiffs(), au.V2FileContractElementDiffs())
	// second call on the same inputs
	ns2, au2 := consensus.ApplyBlock(s, b, bs, ats)
	if !bytes.Equal(encodeState(ns2), encodeState(ns)) {
		w.violate("C09", "apply-not-repeatable", ctx+": second ApplyBlock gave a different state encoding")
	}
	if diffDigest(au2.SiacoinElementDiffs(), au2.SiafundElementDiffs(), au2.FileContractElementDiffs(), au2.V2FileContractElementDiffs()) != sig {
		w.violate("C09", "apply-diffs-not-repeatable", ctx+": second ApplyBlock gave different diffs")
	}
	// the same inputs held in slices with room to spare (as proofs grown by
	// append are): nothing may be written into that room either
	{
		sb, e2 := decodeBlockSafe(encodeBlock(b))
		if e2 == nil && bytes.Equal(fullBlockBytes(sb), snap.block) {
			sbs := copySupp(bs)
			var all []*types.StateElement
			for i := range sb.V2Transactions() {
				v2Parents(&sb.V2.Transactions[i], func(se *types.StateElement) { all = append(all, se) })
			}
			for i := range sbs.Transactions {
				ts := &sbs.Transactions[i]
				for j := range ts.SiacoinInputs {
					all = append(all, &ts.SiacoinInputs[j].StateElement)
				}
				for j := range ts.SiafundInputs {
					all = append(all, &ts.SiafundInputs[j].StateElement)
				}
				for j := range ts.RevisedFileContracts {
					all = append(all, &ts.RevisedFileContracts[j].StateElement)
				}
				for j := range ts.StorageProofs {
					all = append(all, &ts.StorageProofs[j].FileContract.StateElement)
				}
			}
			for j := range sbs.ExpiringFileContracts {
				all = append(all, &sbs.ExpiringFileContracts[j].StateElement)
			}
			const room = 8
			for _, se := range all {
				q := make([]types.Hash256, len(se.MerkleProof), len(se.MerkleProof)+room)
				copy(q, se.MerkleProof)
				for k, full := len(q), q[:cap(q)]; k < cap(q); k++ {
					full[k] = types.Hash256{0x5e, 0x17, byte(k)}
				}
				se.MerkleProof = q
			}
			before, beforeSupp := fullBlockBytes(sb), suppBytes(sbs)
			nsS, _ := consensus.ApplyBlock(s, sb, sbs, ats)
			if !bytes.Equal(encodeState(nsS), encodeState(ns)) {
				w.violate("C09", "apply-depends-on-capacity", ctx+": ApplyBlock reached another state when the input proofs had spare capacity")
			}
			dirty := !bytes.Equal(fullBlockBytes(sb), before) || !bytes.Equal(suppBytes(sbs), beforeSupp)
			for _, se := range all {
				for k, full := len(se.MerkleProof), se.MerkleProof[:cap(se.MerkleProof)]; k < len(full); k++ {
					dirty = dirty || full[k] != (types.Hash256{0x5e, 0x17, byte(k)})
				}
			}
			if dirty {
				w.violate("C09", "apply-mutates-input", ctx+": ApplyBlock wrote into its inputs' proofs (or into the spare capacity behind them)")
			}
			w.stats.Inc("probe.c09.spare-capacity")
		}
	}
	// decoded copy
	db, derr := decodeBlockSafe(encodeBlock(b))
	if derr == nil {
		ns3, au3 := consensus.ApplyBlock(s, db, copySupp(bs), ats)
		if !bytes.Equal(encodeState(ns3), encodeState(ns)) {
			w.violate("C09", "apply-decoded-copy", ctx+": ApplyBlock on decode(encode(b)) gave a different state encoding")
		}
		if diffDigest(au3.SiacoinElementDiffs(), au3.SiafundElementDiffs(), au3.FileContractElementDiffs(), au3.V2FileContractElementDiffs()) != sig {
			w.violate("C09", "apply-decoded-copy-diffs", ctx+": ApplyBlock on decode(encode(b)) gave different diffs")
		}
	}
	// the update must not alias the caller's block: scribbling over the diffs'
	// proofs must leave the block untouched
	for _, d := range au2.SiacoinElementDiffs() {
		for i := range d.SiacoinElement.StateElement.MerkleProof {
			d.SiacoinElement.StateElement.MerkleProof[i][0] ^= 0xff
		}
	}
	for _, d := range au2.V2FileContractElementDiffs() {
		for i := range d.V2FileContractElement.StateElement.MerkleProof {
			d.V2FileContractElement.StateElement.MerkleProof[i][0] ^= 0xff
		}
	}
	if !bytes.Equal(fullBlockBytes(b), snap.block) || !bytes.Equal(suppBytes(bs), snap.supp) {
		w.violate("C09", "update-aliases-input", ctx+": modifying the returned update's proofs changed the caller's block or supplement")
	}
	// library copy operations share no mutable memory
	for _, txn := range b.V2Transactions() {
		c := txn.DeepCopy()
		before := fullTxnBytes(txn)
		scribbleV2(&c)
		if !bytes.Equal(fullTxnBytes(txn), before) {
			w.violate("C09", "deepcopy-aliases", ctx+": mutating V2Transaction.DeepCopy() changed the original")
		}
		w.stats.Inc("probe.c09.deepcopy")
	}
}

func fullTxnBytes(t types.V2Transaction) []byte {
	var buf bytes.Buffer
	e := types.NewEncoder(&buf)
	t.EncodeTo(e)
	e.Flush()
	return buf.Bytes()
}

// scribbleV2 overwrites every piece of memory reachable from t.
func scribbleV2(t *types.V2Transaction) {
	flip := func(h *types.Hash256) { h[0] ^= 0xff }
	for i := range t.SiacoinInputs {
		in := &t.SiacoinInputs[i]
		for j := range in.Parent.StateElement.MerkleProof {
			flip(&in.Parent.StateElement.MerkleProof[j])
		}
		for j := range in.SatisfiedPolicy.Signatures {
			in.SatisfiedPolicy.Signatures[j][0] ^= 0xff
		}
		for j := range in.SatisfiedPolicy.Preimages {
			in.SatisfiedPolicy.Preimages[j][0] ^= 0xff
		}
		in.Parent.SiacoinOutput.Value = types.ZeroCurrency
	}
	for i := range t.SiacoinOutputs {
		t.SiacoinOutputs[i].Address[0] ^= 0xff
	}
	for i := range t.SiafundInputs {
		in := &t.SiafundInputs[i]
		for j := range in.Parent.StateElement.MerkleProof {
			flip(&in.Parent.StateElement.MerkleProof[j])
		}
		for j := range in.SatisfiedPolicy.Signatures {
			in.SatisfiedPolicy.Signatures[j][0] ^= 0xff
		}
	}
	for i := range t.SiafundOutputs {
		t.SiafundOutputs[i].Address[0] ^= 0xff
	}
	for i := range t.FileContracts {
		t.FileContracts[i].RevisionNumber ^= 1
	}
	for i := range t.FileContractRevisions {
		r := &t.FileContractRevisions[i]
		for j := range r.Parent.StateElement.MerkleProof {
			flip(&r.Parent.StateElement.MerkleProof[j])
		}
		r.Revision.RevisionNumber ^= 1
	}
	for i := range t.FileContractResolutions {
		r := &t.FileContractResolutions[i]
		for j := range r.Parent.StateElement.MerkleProof {
			flip(&r.Parent.StateElement.MerkleProof[j])
		}
		if sp, ok := r.Resolution.(*types.V2StorageProof); ok {
			for j := range sp.Proof {
				flip(&sp.Proof[j])
			}
			for j := range sp.ProofIndex.StateElement.MerkleProof {
				flip(&sp.ProofIndex.StateElement.MerkleProof[j])
			}
			sp.Leaf[0] ^= 0xff
		}
	}
	for i := range t.Attestations {
		for j := range t.Attestations[i].Value {
			t.Attestations[i].Value[j] ^= 0xff
		}
	}
	for j := range t.ArbitraryData {
		t.ArbitraryData[j] ^= 0xff
	}
}

// ---- C06: revert is the exact inverse ----

type revertSnap struct {
	applySig []string // per-kind ordered digests of the apply diffs, without proofs
}

// noProofDiffs lists the diffs of an update in order, per kind, without
// Merkle proofs (which legitimately differ between apply and revert).
func noProofDiffs(sc []consensus.SiacoinElementDiff, sf []consensus.SiafundElementDiff, fc []consensus.FileContractElementDiff, v2 []consensus.V2FileContractElementDiff) (out [4][]string) {
	dg := func(w *ref.W) string {
		h := sha256.Sum256(w.B)
		return hex.EncodeToString(h[:6])
	}
	for _, d := range sc {
		var w ref.W
		e := d.SiacoinElement
		e.StateElement.MerkleProof = nil
		w.SCE(e)
		w.Bool(d.Created)
		w.Bool(d.Spent)
		out[0] = append(out[0], dg(&w))
	}
	for _, d := range sf {
		var w ref.W
		e := d.SiafundElement
		e.StateElement.MerkleProof = nil
		w.SFE(e)
		w.Bool(d.Created)
		w.Bool(d.Spent)
		out[1] = append(out[1], dg(&w))
	}
	for _, d := range fc {
		var w ref.W
		e := d.FileContractElement
		e.StateElement.MerkleProof = nil
		w.FCE(e)
		w.Bool(d.Created)
		w.Bool(d.Resolved)
		w.Bool(d.Valid)
		if d.Revision != nil {
			w.FC(*d.Revision)
		}
		out[2] = append(out[2], dg(&w))
	}
	for _, d := range v2 {
		var w ref.W
		e := d.V2FileContractElement
		e.StateElement.MerkleProof = nil
		w.V2FCE(e)
		w.Bool(d.Created)
		if d.Revision != nil {
			w.V2FC(*d.Revision)
		}
		switch d.Resolution.(type) {
		case nil:
			w.U8(9)
		case *types.V2FileContractRenewal:
			w.U8(0)
		case *types.V2StorageProof:
			w.U8(1)
		case *types.V2FileContractExpiration:
			w.U8(2)
		}
		out[3] = append(out[3], dg(&w))
	}
	return
}

// storeDigest is a digest of the store as a set of (id, fields, leaf index,
// proof).
func (s *Store) digest(withProofs bool) string {
	var w ref.W
	strip := func(se types.StateElement) types.StateElement {
		if !withProofs {
			se.MerkleProof = nil
		}
		return se
	}
	for _, id := range s.sortedSC() {
		e := s.SC[id]
		e.StateElement = strip(e.StateElement)
		w.SCE(e)
	}
	for _, id := range s.sortedSF() {
		e := s.SF[id]
		e.StateElement = strip(e.StateElement)
		w.SFE(e)
	}
	for _, id := range s.sortedFC() {
		e := s.FC[id]
		e.StateElement = strip(e.StateElement)
		e.FileContract = normFC(e.FileContract)
		w.FCE(e)
	}
	for _, id := range s.sortedV2FC() {
		e := s.V2FC[id]
		e.StateElement = strip(e.StateElement)
		w.V2FCE(e)
	}
	for _, e := range s.CI {
		e.StateElement = strip(e.StateElement)
		w.CIE(e)
	}
	h := sha256.Sum256(w.B)
	return hex.EncodeToString(h[:12])
}

func (w *World) preRevert(n *Node, e *blockEntry) *revertSnap { return &revertSnap{} }

func reversed(s []string) []string {
	r := append([]string(nil), s...)
	sort.SliceStable(r, func(i, j int) bool { return false })
	for i, j := 0, len(r)-1; i < j; i, j = i+1, j-1 {
		r[i], r[j] = r[j], r[i]
	}
	return r
}

// checkRevertDiffs: the revert update reports precisely what the apply update
// reported, in reverse order; and the store returns to its pre-apply content.
func (w *World) checkRevertDiffs(n *Node, e *blockEntry, ru consensus.RevertUpdate, pre *revertSnap) {
	got := noProofDiffs(ru.SiacoinElementDiffs(), ru.SiafundElementDiffs(), ru.FileContractElementDiffs(), ru.V2FileContractElementDiffs())
	names := []string{"siacoin", "siafund", "contract", "v2contract"}
	for k := 0; k < 4; k++ {
		want := reversed(e.applyDiffs[k])
		if fmt.Sprint(want) != fmt.Sprint(got[k]) {
			w.violate("C06", "revert-diffs", fmt.Sprintf("node %d reverting block %s (height %d): %s diffs of RevertBlock are not the reverse of ApplyBlock's (%d vs %d entries)", n.idx, short(e.id), e.height, names[k], len(got[k]), len(want)))
			return
		}
	}
	if d := n.store.digest(true); d != e.preStore {
		kind := "content"
		if n.store.digest(false) == e.preStoreNoProof {
			kind = "proofs only"
		}
		w.violate("C06", "store-after-revert", fmt.Sprintf("node %d: store after reverting block %s (height %d) differs from the store before it was applied (%s)%s", n.idx, short(e.id), e.height, kind, revertCulprit(ru)))
	}
	if len(got[0])+len(got[1])+len(got[2])+len(got[3]) > 0 {
		w.stats.Inc("reach.revert-nonempty")
	}
}

// revertProbe reverts the block just applied on a copy of the store: every
// block is a revert test, not only those a reorg happens to undo.
func (w *World) revertProbe(n *Node, e *blockEntry) {
	parent := n.blocks[e.parent]
	var ru consensus.RevertUpdate
	if p := guard(func() { ru = consensus.RevertBlock(parent.state, e.b, e.supp) }); p != "" {
		w.violate("C10", "revert-panic", fmt.Sprintf("RevertBlock panicked on applied block %s at height %d: %s", short(e.id), e.height, p))
		return
	}
	w.stats.Inc("probe.revert-probe")
	if l := w.ledgers[parent.id]; l != nil && l.Forest != nil {
		var touched []uint64
		for _, d := range ru.SiacoinElementDiffs() {
			touched = append(touched, d.SiacoinElement.StateElement.LeafIndex)
		}
		for _, d := range ru.SiafundElementDiffs() {
			touched = append(touched, d.SiafundElement.StateElement.LeafIndex)
		}
		for _, d := range ru.FileContractElementDiffs() {
			touched = append(touched, d.FileContractElement.StateElement.LeafIndex)
		}
		for _, d := range ru.V2FileContractElementDiffs() {
			touched = append(touched, d.V2FileContractElement.StateElement.LeafIndex)
		}
		w.checkUpdateNodes("revert (probe)", n, e, l.Forest, ru.ForEachTreeNode, touched...)
		if w.ownViolation() {
			return
		}
	}
	got := noProofDiffs(ru.SiacoinElementDiffs(), ru.SiafundElementDiffs(), ru.FileContractElementDiffs(), ru.V2FileContractElementDiffs())
	names := []string{"siacoin", "siafund", "contract", "v2contract"}
	for k := 0; k < 4; k++ {
		if fmt.Sprint(reversed(e.applyDiffs[k])) != fmt.Sprint(got[k]) {
			w.violate("C06", "revert-diffs", fmt.Sprintf("node %d, revert probe of block %s (height %d): %s diffs of RevertBlock are not the reverse of ApplyBlock's", n.idx, short(e.id), e.height, names[k]))
			return
		}
	}
	c := n.store.clone()
	if p := guard(func() { c.revert(ru) }); p != "" {
		w.violate("C06", "revert-update-panic", fmt.Sprintf("applying the RevertUpdate of block %s (height %d) to the store panicked: %s", short(e.id), e.height, p))
		return
	}
	if d := c.digest(true); d != e.preStore {
		kind := "content"
		if c.digest(false) == e.preStoreNoProof {
			kind = "proofs only"
		}
		w.violate("C06", "store-after-revert", fmt.Sprintf("node %d: store after reverting block %s (height %d) on a copy differs from the store before it was applied (%s)%s", n.idx, short(e.id), e.height, kind, revertCulprit(ru)))
		return
	}
	if l := w.ledgers[parent.id]; l != nil {
		w.checkStore(fmt.Sprintf("node %d revert probe of block %s (height %d): ", n.idx, short(e.id), e.height), c, parent.state, l, "revert")
	}
	if len(got[0])+len(got[1])+len(got[2])+len(got[3]) > 0 {
		w.stats.Inc("reach.revert-nonempty")
	}
}

// revertCulprit names the kind of block content behind a revert mismatch.
func revertCulprit(ru consensus.RevertUpdate) string {
	out := ""
	for _, d := range ru.FileContractElementDiffs() {
		switch {
		case d.Revision != nil && d.Resolved && !d.Created:
			out += fmt.Sprintf("; v1 contract %v was revised and resolved in this block", d.FileContractElement.ID)
		case d.Revision != nil && !d.Created:
			out += fmt.Sprintf("; v1 contract %v was revised in this block", d.FileContractElement.ID)
		}
	}
	for _, d := range ru.V2FileContractElementDiffs() {
		if d.Revision != nil && d.Resolution != nil {
			out += fmt.Sprintf("; v2 contract %v was revised and resolved in this block", d.V2FileContractElement.ID)
		}
	}
	return out
}

// ---- C09: identifiers, signature hashes and addresses are functions of
// their arguments (the hashers behind them are pooled and reused) ----

func encAny(o types.EncoderTo) []byte {
	var buf bytes.Buffer
	e := types.NewEncoder(&buf)
	o.EncodeTo(e)
	e.Flush()
	return buf.Bytes()
}

// hashNoise uses the pooled hashers for something unrelated.
func (w *World) hashNoise(s consensus.State) {
	w.noiseCtr++
	_ = s.ContractSigHash(types.V2FileContract{Filesize: w.noiseCtr})
	_ = s.AttestationSigHash(types.Attestation{Key: "noise", Value: []byte{byte(w.noiseCtr)}})
	nt := types.Transaction{ArbitraryData: [][]byte{{byte(w.noiseCtr), 1, 2}}}
	_ = nt.ID()
}

func (w *World) checkPure(s consensus.State, v1 []types.Transaction, v2 []types.V2Transaction, ctx string) {
	w.stats.Inc("probe.c09.pure")
	bad := func(fn string) {
		w.violate("C09", "hash-not-a-function", fmt.Sprintf("%s: %s gives different results for the same arguments when other hashing happens in between", ctx, fn))
	}
	for i := range v1 {
		t := v1[i]
		before := encV1(t)
		id1 := t.ID()
		w.hashNoise(s)
		if t.ID() != id1 {
			bad("Transaction.ID")
		}
		// a partial signature hash over the first element of every non-empty list
		var cf types.CoveredFields
		pick0 := func(n int) []uint64 {
			if n > 0 {
				return []uint64{0}
			}
			return nil
		}
		cf.SiacoinInputs, cf.SiacoinOutputs, cf.FileContracts = pick0(len(t.SiacoinInputs)), pick0(len(t.SiacoinOutputs)), pick0(len(t.FileContracts))
		cf.FileContractRevisions, cf.StorageProofs, cf.SiafundInputs = pick0(len(t.FileContractRevisions)), pick0(len(t.StorageProofs)), pick0(len(t.SiafundInputs))
		cf.SiafundOutputs, cf.MinerFees, cf.ArbitraryData = pick0(len(t.SiafundOutputs)), pick0(len(t.MinerFees)), pick0(len(t.ArbitraryData))
		p1 := s.PartialSigHash(t, cf)
		w.hashNoise(s)
		if s.PartialSigHash(t, cf) != p1 {
			bad("State.PartialSigHash")
		}
		for _, sig := range t.Signatures {
			if sig.CoveredFields.WholeTransaction {
				ok := true
				for _, j := range sig.CoveredFields.Signatures {
					ok = ok && j < uint64(len(t.Signatures))
				}
				if !ok {
					continue
				}
				h1 := s.WholeSigHash(t, sig.ParentID, sig.PublicKeyIndex, sig.Timelock, sig.CoveredFields.Signatures)
				w.hashNoise(s)
				if s.WholeSigHash(t, sig.ParentID, sig.PublicKeyIndex, sig.Timelock, sig.CoveredFields.Signatures) != h1 {
					bad("State.WholeSigHash")
				}
			}
		}
		for _, in := range t.SiacoinInputs {
			a1 := in.UnlockConditions.UnlockHash()
			w.hashNoise(s)
			if in.UnlockConditions.UnlockHash() != a1 {
				bad("UnlockConditions.UnlockHash")
			}
		}
		if !bytes.Equal(encV1(t), before) {
			w.violate("C09", "hash-mutates-input", ctx+": computing IDs / signature hashes modified a v1 transaction")
		}
	}
	for i := range v2 {
		t := v2[i]
		before := encAny(t)
		id1, h1 := t.ID(), s.InputSigHash(t)
		w.hashNoise(s)
		if t.ID() != id1 {
			bad("V2Transaction.ID")
		}
		if s.InputSigHash(t) != h1 {
			bad("State.InputSigHash")
		}
		pol := func(p types.SpendPolicy, where string) {
			pb := encAny(p)
			a1 := p.Address()
			w.hashNoise(s)
			if p.Address() != a1 {
				bad("SpendPolicy.Address")
			}
			_ = p.String()
			if !bytes.Equal(encAny(p), pb) {
				w.violate("C09", "address-mutates-policy", fmt.Sprintf("%s: SpendPolicy.Address / String modified the policy of %s", ctx, where))
			}
		}
		for j := range t.SiacoinInputs {
			pol(t.SiacoinInputs[j].SatisfiedPolicy.Policy, fmt.Sprintf("siacoin input %d", j))
		}
		for j := range t.SiafundInputs {
			pol(t.SiafundInputs[j].SatisfiedPolicy.Policy, fmt.Sprintf("siafund input %d", j))
		}
		for _, fc := range t.FileContracts {
			c1 := s.ContractSigHash(fc)
			w.hashNoise(s)
			if s.ContractSigHash(fc) != c1 {
				bad("State.ContractSigHash")
			}
		}
		for _, r := range t.FileContractResolutions {
			if ren, ok := r.Resolution.(*types.V2FileContractRenewal); ok {
				c1 := s.RenewalSigHash(*ren)
				w.hashNoise(s)
				if s.RenewalSigHash(*ren) != c1 {
					bad("State.RenewalSigHash")
				}
			}
		}
		if !bytes.Equal(encAny(t), before) {
			w.violate("C09", "hash-mutates-input", ctx+": computing IDs / signature hashes / addresses modified a v2 transaction")
		}
	}
}
