package world

import (
	"fmt"
	"math/big"
	"sort"
	"time"

	"go.sia.tech/core/consensus"
	"go.sia.tech/core/types"
	"verif/sim"
)

// Engine profile E1h: long header chains under swarm-drawn network parameters
// and four timestamp behaviours; header-only nodes beside full nodes.

var maxTargetBig = new(big.Int).Sub(new(big.Int).Lsh(big.NewInt(1), 256), big.NewInt(1))

func tBig(t types.BlockID) *big.Int { return new(big.Int).SetBytes(t[:]) }

func wBig(w consensus.Work) *big.Int {
	x, _ := new(big.Int).SetString(w.String(), 10)
	return x
}

type hdrRun struct {
	t     *sim.Tape
	log   *sim.Log
	stats sim.Stats
	viols []sim.Violation
	reach map[string]bool
	net   *consensus.Network
	step  int
}

func (h *hdrRun) violate(inv, detail string) {
	for _, v := range h.viols {
		if v.Invariant == inv {
			return
		}
	}
	h.viols = append(h.viols, sim.Violation{Property: "C13", Invariant: inv, Detail: detail, Step: h.step})
	h.log.Addf("VIOLATION C13/%s", inv)
}

func drawHeaderNetwork(t *sim.Tape, length int) *consensus.Network {
	n := &consensus.Network{Name: "simh"}
	n.InitialCoinbase = types.Siacoins(300000)
	n.MinimumCoinbase = types.Siacoins(30000)
	n.BlockInterval = pick(t, 10*time.Minute, time.Minute, 10*time.Second, time.Hour, 10*time.Millisecond, time.Second)
	n.MaturityDelay = 3
	n.InitialTarget = targetForDifficulty(pick(t, 2, 1, 4, 16, 64, 256))
	anyTarget := func(salt uint64) (id types.BlockID) {
		// targets that are no integer's inverse, up to the easiest there is
		copy(id[:], sim.HashBytes("hdr-target", uint64(t.Choose(1<<16)), salt, 32))
		id[0] = pick(t, byte(0x7f), 0x80, 0xc0, 0x3f, 0xff, 0x55, 0x7f, 0x20)
		if t.Chance(1, 3) {
			id[1] = pick(t, byte(0xf0), 0xff, 0x00)
		}
		return
	}
	if t.Chance(1, 5) {
		n.InitialTarget = anyTarget(1)
	}
	// Oak before / at / after multiples of 500 so that pre-Oak retargets happen
	n.HardforkOak.Height = uint64(pick(t, 20, 499, 500, 501, 620, 1001, 7, 1500))
	if int(n.HardforkOak.Height) > length {
		n.HardforkOak.Height = uint64(t.Range(2, length))
	}
	n.HardforkOak.FixHeight = n.HardforkOak.Height + uint64(pick(t, 5, 0, 40, 300))
	n.HardforkOak.GenesisTimestamp = epoch
	n.HardforkDevAddr.Height, n.HardforkTax.Height, n.HardforkStorageProof.Height = 1, 2, 3
	n.HardforkASIC.Height = n.HardforkOak.Height + uint64(pick(t, 10, 1, 2, 100, 400))
	n.HardforkASIC.OakTime = time.Duration(t.Range(1, 500)) * max(n.BlockInterval, time.Second)
	n.HardforkASIC.OakTarget = targetForDifficulty(pick(t, 16, 1, 4, 64, 256, 1024))
	if t.Chance(1, 6) {
		n.HardforkASIC.OakTarget = anyTarget(2)
	}
	n.HardforkASIC.NonceFactor = uint64(pick(t, 1009, 1, 7, 2))
	n.HardforkFoundation.Height = n.HardforkASIC.Height + uint64(t.Range(0, 50))
	n.HardforkFoundation.PrimaryAddress = types.VoidAddress
	rest := length - int(n.HardforkFoundation.Height)
	if rest < 10 {
		rest = 10
	}
	switch t.Choose(4) {
	case 0: // v1 all the way
		n.HardforkV2.AllowHeight, n.HardforkV2.RequireHeight, n.HardforkV2.FinalCutHeight = 1<<40, 1<<41, 1<<42
	default:
		n.HardforkV2.AllowHeight = n.HardforkFoundation.Height + uint64(t.Range(1, rest/2))
		n.HardforkV2.RequireHeight = n.HardforkV2.AllowHeight + uint64(t.Range(1, rest/4+1))
		n.HardforkV2.FinalCutHeight = n.HardforkV2.RequireHeight + uint64(t.Range(0, rest/4+1))
	}
	if t.Chance(1, 8) { // v2 from the start
		n.HardforkV2.AllowHeight, n.HardforkV2.RequireHeight = 1, 2
		n.HardforkV2.FinalCutHeight = uint64(t.Range(2, 60))
	}
	return n
}

// era of the block at childHeight for the retarget rule.
func hdrEra(n *consensus.Network, child uint64) string {
	switch {
	case child >= n.HardforkV2.FinalCutHeight:
		return "finalcut"
	case child >= n.HardforkV2.AllowHeight:
		return "v2"
	case child <= n.HardforkOak.Height:
		return "preoak"
	default:
		return "oak"
	}
}

// RunHeaders executes one E1h run.
func RunHeaders(t *sim.Tape, tier string) *sim.RunResult {
	start := time.Now()
	h := &hdrRun{t: t, log: sim.NewLog(60), stats: sim.Stats{}, reach: map[string]bool{}}
	res := &sim.RunResult{Engine: "E1h", Profile: "C13"}
	length := pick(t, 700, 300, 1200, 2200)
	if tier == "thorough" {
		length = pick(t, 1200, 600, 2200, 3000)
	}
	h.net = drawHeaderNetwork(t, length)
	n := h.net
	// Some runs use difficulties no miner in the simulation could meet: there
	// the state transitions are applied without performing (or checking) the
	// proof of work, so that cumulative work crosses 2^64, 2^128 and 2^192.
	unmined := t.Chance(1, 4)
	if unmined {
		bigTarget := func() types.BlockID {
			d := new(big.Int).Lsh(big.NewInt(int64(t.Range(1, 7))), uint(pick(t, 40, 60, 61, 62, 63, 64, 100, 125, 126, 127)))
			q := new(big.Int).Div(new(big.Int).Sub(new(big.Int).Lsh(big.NewInt(1), 256), big.NewInt(1)), d)
			var id types.BlockID
			q.FillBytes(id[:])
			return id
		}
		n.InitialTarget = bigTarget()
		n.HardforkASIC.OakTarget = bigTarget()
		h.stats.Inc("hdr.unmined-run")
	}
	behaviour := pick(t, "honest", "constant", "mixed", "future", "decreasing")
	// a miner's clock knows fractions of a second, and header validation takes
	// such a timestamp: in some runs the stamps are left as the clock gives them
	subSecond := t.Chance(1, 5)
	if subSecond {
		h.stats.Inc("hdr.sub-second-run")
	}
	defer func() {
		if r := recover(); r != nil {
			res.HarnessErr = fmt.Sprintf("harness panic: %v", r)
		}
		res.TapeLen, res.Events, res.LogHash = t.Len(), h.log.N(), h.log.Hash()
		res.Stats, res.Violations = h.stats, h.viols
		res.WallMs = float64(time.Since(start).Microseconds()) / 1000
		res.Nontrivial = h.stats["hdr.applied"] > 50
		for k := range h.reach {
			res.Reach = append(res.Reach, k)
		}
		sort.Strings(res.Reach)
		res.Sample = append([]string{fmt.Sprintf("cfg interval=%v oak=%d fix=%d asic=%d factor=%d allow=%d finalcut=%d behaviour=%s length=%d", n.BlockInterval, n.HardforkOak.Height, n.HardforkOak.FixHeight, n.HardforkASIC.Height, n.HardforkASIC.NonceFactor, n.HardforkV2.AllowHeight, n.HardforkV2.FinalCutHeight, behaviour, length)}, h.log.Tail(8)...)
	}()

	genesis := types.Block{Timestamp: epoch}
	bs := consensus.V1BlockSupplement{Transactions: []consensus.V1TransactionSupplement{}}
	full, _ := consensus.ApplyBlock(n.GenesisState(), genesis, bs, time.Time{})
	hdr := consensus.ApplyHeader(n.GenesisState(), genesis.Header(), time.Time{})
	h.comparePoW(full, hdr, "genesis")
	timestamps := []time.Time{genesis.Timestamp}
	var seen []consensus.State
	clock := epoch
	iv := max(n.BlockInterval, time.Second)
	minerAddr := types.Address{1}

	for i := 1; i <= length && len(h.viols) == 0; i++ {
		h.step = i
		s := full
		child := s.Index.Height + 1
		era := hdrEra(n, child)
		med := medianTimestamp(s)
		// timestamp behaviour
		clock = clock.Add(time.Duration(t.Range(1, 20)) * iv / 10)
		ts := clock
		b := behaviour
		if b == "mixed" {
			b = pick(t, "honest", "constant", "future", "decreasing")
		}
		switch b {
		case "constant", "decreasing":
			ts = med // the earliest the rule permits
		case "future":
			ts = clock.Add(time.Duration(t.Range(1, 6)) * time.Hour)
			if t.Chance(1, 10) {
				clock = ts
			}
		}
		if ts.Before(med) {
			ts = med
		}
		if subSecond && t.Chance(2, 3) {
			ts = ts.Add(time.Duration(t.Range(1, 999)) * time.Millisecond)
		}
		if r := ts.Truncate(time.Second); r.Before(ts) && !subSecond {
			ts = r.Add(time.Second)
		}
		blk := types.Block{ParentID: s.Index.ID, Timestamp: ts, MinerPayouts: []types.SiacoinOutput{{Value: s.BlockReward(), Address: minerAddr}}}
		if child >= n.HardforkV2.AllowHeight {
			blk.V2 = &types.V2BlockData{Height: child}
			blk.V2.Commitment = s.Commitment(minerAddr, nil, nil)
		}
		// run-length cap: proof of work is really performed
		if d := wBig(s.Difficulty); !unmined && d.Cmp(big.NewInt(4096)) > 0 {
			h.stats.Inc("hdr.capped-difficulty")
			break
		}
		if unmined && wBig(s.Difficulty).BitLen() > 190 {
			// the 256-bit range of the work arithmetic is taken as never exhausted (DESIGN.md appendix F)
			h.stats.Inc("hdr.capped-difficulty")
			break
		}
		if !unmined {
			sealBlock(s, &blk)
		}
		bh := blk.Header()
		if !unmined {
			// ---- ValidateHeader accepts exactly ----
			if err := consensus.ValidateHeader(hdr, bh); err != nil {
				h.violate("valid-header-rejected", fmt.Sprintf("height %d (%s): a header extending the tip with timestamp >= median, admissible nonce and sufficient work was rejected: %v", child, era, err))
				break
			}
			if t.Chance(1, 6) {
				h.headerProbes(hdr, bh, med)
			}
		}
		// ---- apply: header-only and full ----
		ats := timestamps[0]
		if child >= 1000 {
			ats = timestamps[child-1000]
		}
		var nh, nf consensus.State
		if p := guard(func() { nh = consensus.ApplyHeader(hdr, bh, ats) }); p != "" {
			h.violate("apply-header-panic", fmt.Sprintf("ApplyHeader panicked at height %d (%s, behaviour %s): %s", child, era, behaviour, p))
			break
		}
		if p := guard(func() { nf, _ = consensus.ApplyBlock(full, blk, consensus.V1BlockSupplement{}, ats) }); p != "" {
			h.violate("apply-block-panic", fmt.Sprintf("ApplyBlock panicked on an empty block at height %d (%s): %s", child, era, p))
			break
		}
		h.stats.Inc("hdr.applied")
		h.stats.Inc("hdr.era." + era)
		h.comparePoW(nf, nh, fmt.Sprintf("height %d (%s)", child, era))
		h.checkRetarget(s, nf, child, era)
		h.checkInverse(nf, child)
		// cumulative work
		if c := nf.TotalWork.Cmp(s.TotalWork); c < 0 || (c == 0 && child >= n.HardforkV2.AllowHeight) {
			h.violate("total-work-not-increasing", fmt.Sprintf("height %d (%s): total work %v -> %v", child, era, s.TotalWork, nf.TotalWork))
		}
		if (t.Chance(1, 40) || i <= 3) && len(seen) < 24 {
			seen = append(seen, nf)
			// a competing child of the same parent (another miner, a later timestamp)
			bh2 := bh
			bh2.Timestamp = ts.Add(time.Duration(t.Range(1, 600)) * time.Second)
			bh2.Nonce += s.NonceFactor()
			var sib consensus.State
			if guard(func() { sib = consensus.ApplyHeader(hdr, bh2, ats) }) == "" {
				seen = append(seen, sib)
				h.stats.Inc("hdr.sibling-states")
			}
		}
		full, hdr = nf, nh
		timestamps = append(timestamps, ts)
		if i%100 == 0 {
			h.log.Addf("h=%d era=%s diff=%v total=%v", child, era, nf.Difficulty, nf.TotalWork)
		}
	}
	// SufficientlyHeavierThan is asymmetric
	for i := range seen {
		for j := range seen {
			// (i == j: an asymmetric relation holds of no state and itself)
			if seen[i].SufficientlyHeavierThan(seen[j]) && seen[j].SufficientlyHeavierThan(seen[i]) {
				h.violate("heavier-not-asymmetric", fmt.Sprintf("states %v (height %d, total work %v, difficulty %v) and %v (height %d, total work %v) are each 'sufficiently heavier' than the other", seen[i].Index.ID, seen[i].Index.Height, seen[i].TotalWork, seen[i].Difficulty, seen[j].Index.ID, seen[j].Index.Height, seen[j].TotalWork))
			}
			h.stats.Inc("hdr.heavier-pairs")
		}
	}
	res.SimSeconds = clock.Sub(epoch).Seconds()
	return res
}

func (h *hdrRun) comparePoW(f, g consensus.State, where string) {
	if f.Index != g.Index || f.PrevTimestamps != g.PrevTimestamps || f.Depth != g.Depth || f.ChildTarget != g.ChildTarget ||
		f.OakTime != g.OakTime || f.OakTarget != g.OakTarget || f.TotalWork != g.TotalWork || f.Difficulty != g.Difficulty || f.OakWork != g.OakWork {
		h.violate("header-vs-full", fmt.Sprintf("%s: proof-of-work state after ApplyHeader differs from ApplyBlock (difficulty %v vs %v, total %v vs %v, oak time %v vs %v)", where, g.Difficulty, f.Difficulty, g.TotalWork, f.TotalWork, g.OakTime, f.OakTime))
	}
}

// checkRetarget: the required work for the next block moves within the clamp
// of the era (exact rationals, one unit of slack for integer floors).
func (h *hdrRun) checkRetarget(old, nw consensus.State, child uint64, era string) {
	n := h.net
	one := big.NewInt(1)
	switch era {
	case "preoak", "oak":
		to, tn := tBig(old.ChildTarget), tBig(nw.ChildTarget)
		if tn.Sign() == 0 {
			h.violate("target-zero", fmt.Sprintf("height %d (%s): target became zero", child, era))
			return
		}
		var loNum, loDen, hiNum, hiDen int64
		switch {
		case era == "preoak" && child%500 != 0:
			if tn.Cmp(to) != 0 {
				h.violate("retarget-off-schedule", fmt.Sprintf("height %d (pre-Oak, not a multiple of 500): target changed %v -> %v", child, to, tn))
			}
			h.reach["clamp preoak none"] = true
			return
		case era == "preoak":
			loNum, loDen, hiNum, hiDen = 10, 25, 25, 10
		case child == n.HardforkASIC.Height:
			h.reach["clamp oak asic-reset"] = true
			return // the one scheduled reset
		default:
			loNum, loDen, hiNum, hiDen = 1000, 1004, 1004, 1000
		}
		lo := new(big.Int).Mul(to, big.NewInt(loNum))
		lo.Quo(lo, big.NewInt(loDen)).Sub(lo, one)
		hi := new(big.Int).Mul(to, big.NewInt(hiNum))
		hi.Quo(hi, big.NewInt(hiDen)).Add(hi, one)
		// targets are stored in 32 bytes: a bound beyond the easiest target there
		// is means the easiest target
		if hi.BitLen() > 256 {
			hi.Set(maxTargetBig)
		}
		if tn.Cmp(hi) > 0 && tn.Cmp(maxTargetBig) == 0 && hi.BitLen() == 256 {
			// the bound fits in 32 bytes and the target went past it, all the way to
			// the easiest: reported under a name of its own (it is what every chain at
			// a difficulty below two meets)
			h.violate("retarget-clamp-easiest-target", fmt.Sprintf("height %d (%s): target moved outside the clamp to the easiest target although the bound fits in 32 bytes: %v -> %v (allowed up to %v)", child, era, to, tn, hi))
		} else if tn.Cmp(lo) < 0 || tn.Cmp(hi) > 0 {
			h.violate("retarget-clamp", fmt.Sprintf("height %d (%s): target moved outside the clamp: %v -> %v (allowed %v..%v)", child, era, to, tn, lo, hi))
		}
		side := "none"
		if new(big.Int).Sub(tn, lo).CmpAbs(big.NewInt(2)) <= 0 {
			side = "lower"
		} else if new(big.Int).Sub(hi, tn).CmpAbs(big.NewInt(2)) <= 0 {
			side = "upper"
		} else if tn.Cmp(to) != 0 {
			side = "inside"
		}
		h.reach["clamp "+era+" "+side] = true
	default:
		do, dn := wBig(old.Difficulty), wBig(nw.Difficulty)
		if dn.Sign() == 0 {
			h.violate("difficulty-zero", fmt.Sprintf("height %d (%s): difficulty became zero", child, era))
			return
		}
		maxAdj := new(big.Int).Quo(do, big.NewInt(250))
		if era == "finalcut" && maxAdj.Sign() == 0 {
			maxAdj.SetInt64(1) // "at least 1, so that we always make progress"
		}
		delta := new(big.Int).Sub(dn, do)
		if delta.CmpAbs(maxAdj) > 0 {
			h.violate("retarget-clamp", fmt.Sprintf("height %d (%s): difficulty moved by more than 0.4%%: %v -> %v (max step %v)", child, era, do, dn, maxAdj))
		}
		side := "none"
		if delta.Sign() != 0 {
			side = "inside"
			if delta.CmpAbs(maxAdj) == 0 {
				side = "upper"
				if delta.Sign() < 0 {
					side = "lower"
				}
			}
		}
		h.reach["clamp "+era+" "+side] = true
	}
}

// checkInverse: target and difficulty are each other's floored inverse in
// the direction the era defines.
func (h *hdrRun) checkInverse(s consensus.State, child uint64) {
	n := h.net
	inv := func(x *big.Int) *big.Int {
		if x.Sign() == 0 {
			return new(big.Int)
		}
		return new(big.Int).Quo(maxTargetBig, x)
	}
	height := s.Index.Height
	switch {
	case height >= n.HardforkV2.FinalCutHeight:
		if s.ChildTarget != (types.BlockID{}) || s.Depth != (types.BlockID{}) || s.OakTarget != (types.BlockID{}) {
			h.violate("deprecated-fields-not-zero", fmt.Sprintf("height %d: target-style fields are not zeroed after the final cut", height))
		}
		if tBig(s.PoWTarget()).Cmp(inv(wBig(s.Difficulty))) != 0 {
			h.violate("pow-target-inverse", fmt.Sprintf("height %d: PoWTarget is not the floored inverse of the difficulty", height))
		}
	case child >= n.HardforkV2.AllowHeight:
		if tBig(s.ChildTarget).Cmp(inv(wBig(s.Difficulty))) != 0 || tBig(s.Depth).Cmp(inv(wBig(s.TotalWork))) != 0 || tBig(s.OakTarget).Cmp(inv(wBig(s.OakWork))) != 0 {
			h.violate("inverse-relation", fmt.Sprintf("height %d (v2): target / depth / oak target are not the floored inverses of difficulty / total work / oak work", height))
		}
	default:
		if wBig(s.Difficulty).Cmp(inv(tBig(s.ChildTarget))) != 0 || wBig(s.TotalWork).Cmp(inv(tBig(s.Depth))) != 0 || wBig(s.OakWork).Cmp(inv(tBig(s.OakTarget))) != 0 {
			h.violate("inverse-relation", fmt.Sprintf("height %d (v1): difficulty / total work / oak work are not the floored inverses of target / depth / oak target", height))
		}
	}
}

// headerProbes: the four single defects must each be refused, and the
// earliest permitted timestamp accepted.
func (h *hdrRun) headerProbes(s consensus.State, good types.BlockHeader, med time.Time) {
	// the target by definition: the recorded target until the final cut, the
	// floored inverse of the difficulty from then on
	target := s.ChildTarget
	if s.Index.Height+1 >= h.net.HardforkV2.FinalCutHeight {
		q := new(big.Int)
		if d := wBig(s.Difficulty); d.Sign() != 0 {
			q.Quo(maxTargetBig, d)
		}
		q.FillBytes(target[:])
	}
	if lib := s.PoWTarget(); lib != target {
		h.violate("pow-target-of-record", fmt.Sprintf("height %d: PoWTarget() = %v, the target the era defines is %v", s.Index.Height+1, lib, target))
		return
	}
	f := s.NonceFactor()
	reseal := func(bh *types.BlockHeader) bool {
		bh.Nonce -= bh.Nonce % f
		for i := 0; i < 200000; i++ {
			if bh.ID().CmpWork(target) >= 0 {
				return true
			}
			bh.Nonce += f
		}
		return false
	}
	expect := func(row string, bh types.BlockHeader, valid bool) {
		err := consensus.ValidateHeader(s, bh)
		h.stats.Inc("probe.B3-" + row)
		if (err == nil) != valid {
			h.violate("header-probe-"+row, fmt.Sprintf("height %d: header with %s: ValidateHeader returned %v", s.Index.Height+1, row, err))
		}
	}
	// wrong parent
	bh := good
	bh.ParentID[0] ^= 1
	if reseal(&bh) {
		expect("wrong-parent", bh, false)
	}
	// timestamp one second before the median / exactly the median
	m := med
	if r := m.Truncate(time.Second); r.Before(m) {
		m = r.Add(time.Second) // smallest whole second >= median
	}
	bh = good
	bh.Timestamp = m.Add(-time.Second)
	if reseal(&bh) {
		expect("timestamp-median-minus-1s", bh, false)
	}
	bh = good
	bh.Timestamp = m
	if reseal(&bh) {
		expect("timestamp-at-median", bh, true)
	}
	// nonce not divisible by the factor
	if f > 1 {
		bh = good
		for k := uint64(1); k < 4000; k++ {
			bh.Nonce = good.Nonce + k
			if bh.Nonce%f != 0 && bh.ID().CmpWork(target) >= 0 {
				expect("nonce-factor", bh, false)
				break
			}
		}
	}
	// insufficient work
	bh = good
	for k := uint64(1); k < 4000; k++ {
		bh.Nonce = good.Nonce + k*f
		if bh.ID().CmpWork(target) < 0 {
			expect("insufficient-work", bh, false)
			break
		}
	}
}
