package world

import (
	"bytes"
	"encoding/json"
	"fmt"
	"sort"

	"go.sia.tech/core/consensus"
	"go.sia.tech/core/types"
	"verif/ref"
)

// tracked is one element a light client follows.
type tracked struct {
	kind  string // sc, sf, fc, v2fc, ci
	id    [32]byte
	se    types.StateElement
	sc    types.SiacoinElement
	sf    types.SiafundElement
	fc    types.FileContract
	v2fc  types.V2FileContract
	ci    types.ChainIndex
	spent bool
	born  uint64 // height at which it entered the accumulator
}

func (t *tracked) elemHash() types.Hash256 {
	switch t.kind {
	case "sc":
		return ref.SiacoinElemHash(types.SiacoinOutputID(t.id), t.sc.SiacoinOutput, t.sc.MaturityHeight)
	case "sf":
		return ref.SiafundElemHash(types.SiafundOutputID(t.id), t.sf.SiafundOutput, t.sf.ClaimStart)
	case "fc":
		return ref.FileContractElemHash(types.FileContractID(t.id), t.fc)
	case "v2fc":
		return ref.V2FileContractElemHash(types.FileContractID(t.id), t.v2fc)
	default:
		return ref.ChainIndexElemHash(types.BlockID(t.id), t.ci)
	}
}

// Light is a light client: it holds elements with proofs and keeps them
// current by applying its node's update stream in order — in memory, or after
// a JSON round trip of every update (as a client fed over an HTTP API would).
type Light struct {
	idx     int
	node    int
	viaJSON bool
	late    bool // applies an update to its elements after adopting the elements the update created
	els     map[[32]byte]*tracked
	auBuf   consensus.ApplyUpdate  // a client that parses every update into one variable
	ruBuf   consensus.RevertUpdate //
}

func (l *Light) sorted() []*tracked {
	out := make([]*tracked, 0, len(l.els))
	for _, t := range l.els {
		out = append(out, t)
	}
	sort.Slice(out, func(i, j int) bool { return cmpID(out[i].id, out[j].id) })
	return out
}

func (w *World) setupLights() {
	for i := 0; i < w.cfg.Lights; i++ {
		l := &Light{idx: i, node: w.tape.Choose(len(w.nodes)), els: map[[32]byte]*tracked{}}
		l.viaJSON = w.cfg.LightJSON && (i%2 == 1 || w.cfg.Profile == "C20")
		l.late = w.tape.Chance(1, 2)
		w.lights = append(w.lights, l)
		// start with some genesis elements
		n := w.nodes[l.node]
		for _, id := range n.store.sortedSC() {
			if w.tape.Chance(1, 2) {
				e := n.store.SC[id]
				l.els[id] = &tracked{kind: "sc", id: id, se: e.StateElement.Copy(), sc: e}
			}
		}
		for _, id := range n.store.sortedSF() {
			e := n.store.SF[id]
			l.els[id] = &tracked{kind: "sf", id: id, se: e.StateElement.Copy(), sf: e}
		}
		ci := n.store.CI[0]
		l.els[ci.ID] = &tracked{kind: "ci", id: ci.ID, se: ci.StateElement.Copy(), ci: ci.ChainIndex}
	}
}

func (w *World) lightProp(l *Light) string {
	if l.viaJSON {
		return "C20"
	}
	return "C05"
}

// verifyLight checks every tracked proof against the state and the forest.
func (w *World) verifyLight(l *Light, s consensus.State, led *ref.Ledger, ctx string) {
	prop := w.lightProp(l)
	inv := "light-proof"
	if l.viaJSON {
		inv = "json-update-proof"
	}
	for _, t := range l.sorted() {
		leaf := ref.LeafHash(t.elemHash(), t.se.LeafIndex, t.spent)
		h := len(t.se.MerkleProof)
		ok := h < 64 && s.Elements.NumLeaves&(1<<h) != 0 && ref.ProofRoot(leaf, t.se.LeafIndex, t.se.MerkleProof) == s.Elements.Trees[h]
		if !ok {
			w.violate(prop, inv, fmt.Sprintf("light client %d (json=%v) after %s: proof of %s element %x (leaf %d, spent=%v, in accumulator since height %d) does not verify against the state at height %d", l.idx, l.viaJSON, ctx, t.kind, t.id[:4], t.se.LeafIndex, t.spent, t.born, s.Index.Height))
			return
		}
		if led != nil && t.se.LeafIndex < led.Forest.N() && led.Forest.N() == s.Elements.NumLeaves {
			// (a state that has parted from the reference ledger is reported where it parts: checkNode)
			want := led.Forest.Path(t.se.LeafIndex)
			if len(want) != len(t.se.MerkleProof) {
				w.violate(prop, inv+"-path", fmt.Sprintf("light client %d after %s: proof length of %s element %x differs from the forest path", l.idx, ctx, t.kind, t.id[:4]))
				return
			}
		}
		w.stats.Inc("probe.light.verified")
		if t.spent {
			w.stats.Inc("reach.light-spent-verified")
		}
	}
	if len(l.els) > 0 {
		w.nontrivial = true
	}
}

func (w *World) lightsApplied(n *Node, e *blockEntry, au consensus.ApplyUpdate) {
	if w.cfg.Profile == "C10" || (w.cfg.Profile == "C20" && e.height%4 == 0) {
		w.hostileUpdateJSON(au)
	}
	for _, l := range w.lights {
		if l.node != n.idx {
			continue
		}
		u := au
		if l.viaJSON {
			var js []byte
			var err error
			if p := guard(func() { js, err = json.Marshal(au) }); p != "" || err != nil {
				w.violate("C20", "apply-update-marshal", fmt.Sprintf("json.Marshal(ApplyUpdate) failed at height %d: %v %s", e.height, err, p))
				return
			}
			var au2 consensus.ApplyUpdate
			dst := &au2
			if l.idx%2 == 1 {
				dst = &l.auBuf // (every second JSON client keeps one variable for all updates)
				w.stats.Inc("probe.light.json-update-into-used-variable")
			}
			if p := guard(func() { err = json.Unmarshal(js, dst) }); p != "" || err != nil {
				w.violate("C20", "apply-update-unmarshal", fmt.Sprintf("json.Unmarshal(ApplyUpdate) failed at height %d: %v %s", e.height, err, p))
				return
			}
			u = *dst
			w.stats.Inc("probe.light.json-update")
		}
		// refresh proofs: before adopting the block's new elements or (clients
		// of the other habit) after, in which case the update is also applied to
		// elements it created itself, which it must leave alone
		failed := false
		refresh := func() {
			for _, t := range l.sorted() {
				if p := guard(func() { u.UpdateElementProof(&t.se) }); p != "" {
					w.violate(w.lightProp(l), "update-proof-panic", fmt.Sprintf("ApplyUpdate.UpdateElementProof panicked for %s element %x (leaf %d, in accumulator since height %d) at height %d: %s", t.kind, t.id[:4], t.se.LeafIndex, t.born, e.height, p))
					failed = true
					return
				}
			}
		}
		if !l.late {
			refresh()
		}
		if failed {
			return
		}
		// follow status changes and adopt new elements
		adopt := func() bool { return len(l.els) < 64 && w.tape.Chance(1, 3) }
		for _, d := range au.SiacoinElementDiffs() {
			id := d.SiacoinElement.ID
			if t, ok := l.els[id]; ok && d.Spent {
				t.spent = true
			} else if !ok && d.Created && adopt() {
				l.els[id] = &tracked{kind: "sc", id: id, se: d.SiacoinElement.StateElement.Copy(), sc: d.SiacoinElement, spent: d.Spent, born: e.height}
			}
		}
		for _, d := range au.SiafundElementDiffs() {
			id := d.SiafundElement.ID
			if t, ok := l.els[id]; ok && d.Spent {
				t.spent = true
			} else if !ok && d.Created && adopt() {
				l.els[id] = &tracked{kind: "sf", id: id, se: d.SiafundElement.StateElement.Copy(), sf: d.SiafundElement, spent: d.Spent, born: e.height}
			}
		}
		for _, d := range au.FileContractElementDiffs() {
			id := d.FileContractElement.ID
			cur := d.FileContractElement.FileContract
			if d.Revision != nil {
				cur = *d.Revision
			}
			if t, ok := l.els[id]; ok {
				t.fc = cur
				t.spent = d.Resolved
			} else if d.Created && adopt() {
				l.els[id] = &tracked{kind: "fc", id: id, se: d.FileContractElement.StateElement.Copy(), fc: cur, spent: d.Resolved, born: e.height}
			}
		}
		for _, d := range au.V2FileContractElementDiffs() {
			id := d.V2FileContractElement.ID
			cur := d.V2FileContractElement.V2FileContract
			if d.Revision != nil {
				cur = *d.Revision
			}
			if t, ok := l.els[id]; ok {
				t.v2fc = cur
				t.spent = d.Resolution != nil
			} else if d.Created && adopt() {
				l.els[id] = &tracked{kind: "v2fc", id: id, se: d.V2FileContractElement.StateElement.Copy(), v2fc: cur, spent: d.Resolution != nil, born: e.height}
			}
		}
		if adopt() {
			ci := au.ChainIndexElement()
			l.els[ci.ID] = &tracked{kind: "ci", id: ci.ID, se: ci.StateElement.Copy(), ci: ci.ChainIndex, born: e.height}
		}
		if l.late {
			refresh()
			w.stats.Inc("probe.light.refresh-after-adopt")
			if failed {
				return
			}
		}
		w.verifyLight(l, n.tip, w.ledgers[e.id], fmt.Sprintf("applying block %s (height %d)", short(e.id), e.height))
	}
}

func (w *World) lightsReverted(n *Node, e *blockEntry, ru consensus.RevertUpdate) {
	parent := n.blocks[e.parent]
	for _, l := range w.lights {
		if l.node != n.idx {
			continue
		}
		u := ru
		if l.viaJSON {
			var js []byte
			var err error
			if p := guard(func() { js, err = json.Marshal(ru) }); p != "" || err != nil {
				w.violate("C20", "revert-update-marshal", fmt.Sprintf("json.Marshal(RevertUpdate) failed at height %d: %v %s", e.height, err, p))
				return
			}
			var ru2 consensus.RevertUpdate
			dst := &ru2
			if l.idx%2 == 1 {
				dst = &l.ruBuf
			}
			if p := guard(func() { err = json.Unmarshal(js, dst) }); p != "" || err != nil {
				w.violate("C20", "revert-update-unmarshal", fmt.Sprintf("json.Unmarshal(RevertUpdate) failed at height %d: %v %s", e.height, err, p))
				return
			}
			u = *dst
		}
		numLeaves := parent.state.Elements.NumLeaves
		for id, t := range l.els {
			if t.se.LeafIndex >= numLeaves {
				delete(l.els, id)
			}
		}
		for _, d := range ru.SiacoinElementDiffs() {
			if t, ok := l.els[d.SiacoinElement.ID]; ok && d.Spent {
				t.spent = false
			}
		}
		for _, d := range ru.SiafundElementDiffs() {
			if t, ok := l.els[d.SiafundElement.ID]; ok && d.Spent {
				t.spent = false
			}
		}
		for _, d := range ru.FileContractElementDiffs() {
			if t, ok := l.els[d.FileContractElement.ID]; ok {
				t.fc = d.FileContractElement.FileContract
				t.spent = false
			}
		}
		for _, d := range ru.V2FileContractElementDiffs() {
			if t, ok := l.els[d.V2FileContractElement.ID]; ok {
				t.v2fc = d.V2FileContractElement.V2FileContract
				t.spent = false
			}
		}
		for _, t := range l.sorted() {
			if p := guard(func() { u.UpdateElementProof(&t.se) }); p != "" {
				w.violate(w.lightProp(l), "update-proof-panic", fmt.Sprintf("RevertUpdate.UpdateElementProof panicked for %s element %x reverting height %d: %s", t.kind, t.id[:4], e.height, p))
				return
			}
		}
		w.stats.Inc("reach.light-revert")
		w.verifyLight(l, parent.state, w.ledgers[parent.id], fmt.Sprintf("reverting block %s (height %d)", short(e.id), e.height))
	}
}

// hostileUpdateJSON hands a client's parser the update of a block with a tree
// height no accumulator has (a careless or hostile server): it answers with an
// error, not a panic.
func (w *World) hostileUpdateJSON(au consensus.ApplyUpdate) {
	js, err := json.Marshal(au)
	if err != nil {
		return
	}
	for _, key := range []string{`"64"`, `"-1"`, `"1000000"`} {
		for _, member := range []string{`"updatedLeaves":{`, `"treeGrowth":{`} {
			i := bytes.Index(js, []byte(member))
			if i < 0 {
				continue
			}
			j := i + len(member)
			var bad []byte
			if js[j] == '}' {
				bad = append(append(append([]byte(nil), js[:j]...), []byte(key+`:[]`)...), js[j:]...)
			} else if k := bytes.IndexByte(js[j:], ':'); k > 0 {
				bad = append(append(append([]byte(nil), js[:j]...), []byte(key)...), js[j+k:]...)
			}
			if bad == nil {
				continue
			}
			var au3 consensus.ApplyUpdate
			if p := guard(func() { _ = json.Unmarshal(bad, &au3) }); p != "" {
				w.violate("C10", "json-unmarshal-panic", fmt.Sprintf("json.Unmarshal of an ApplyUpdate whose %s names tree height %s panicked: %s", member[:len(member)-2], key, p))
				return
			}
			var ru3 consensus.RevertUpdate
			if p := guard(func() { _ = json.Unmarshal(bad, &ru3) }); p != "" {
				w.violate("C10", "json-unmarshal-panic", fmt.Sprintf("json.Unmarshal of a RevertUpdate whose %s names tree height %s panicked: %s", member[:len(member)-2], key, p))
				return
			}
			w.stats.Inc("probe.light.json-update-hostile-height")
		}
	}
}
