package world

import (
	"bytes"
	"crypto/sha256"
	"time"

	"go.sia.tech/core/consensus"
	"go.sia.tech/core/types"
	"verif/sim"
)

// addrInfo says how a wallet can spend from one of its addresses.
type addrInfo struct {
	addr   types.Address
	kind   string
	uc     *types.UnlockConditions // v1-style address (spendable by v1 inputs and by a v2 uc-policy)
	policy *types.SpendPolicy      // v2-only address
}

// Wallet is a stub actor holding keys and building transactions with the real
// types, IDs and sighashes.
type Wallet struct {
	idx   int
	home  int
	keys  []types.PrivateKey
	pre   [][32]byte // hash-lock preimages
	addrs []*addrInfo
	byAdr map[types.Address]*addrInfo
	ctr   uint64
}

func deriveKey(label string, a, b uint64) types.PrivateKey {
	return types.NewPrivateKeyFromSeed(sim.HashBytes(label, a, b, 32))
}

func newWallet(w *World, idx, home int) *Wallet {
	wl := &Wallet{idx: idx, home: home, byAdr: map[types.Address]*addrInfo{}}
	for k := 0; k < 4; k++ {
		wl.keys = append(wl.keys, deriveKey("wallet-key", uint64(idx), uint64(k)))
	}
	for k := 0; k < 2; k++ {
		var p [32]byte
		copy(p[:], sim.HashBytes("preimage", uint64(idx), uint64(k), 32))
		wl.pre = append(wl.pre, p)
	}
	pk := func(i int) types.PublicKey { return wl.keys[i].PublicKey() }
	add := func(kind string, uc *types.UnlockConditions, p *types.SpendPolicy) {
		ai := &addrInfo{kind: kind, uc: uc, policy: p}
		if uc != nil {
			ai.addr = uc.UnlockHash()
		} else {
			before := encAny(*p)
			ai.addr = p.Address()
			if !bytes.Equal(encAny(*p), before) {
				w.violate("C09", "address-mutates-policy", "SpendPolicy.Address modified the "+kind+" policy it was called on")
			}
		}
		wl.addrs = append(wl.addrs, ai)
		wl.byAdr[ai.addr] = ai
	}
	std := types.StandardUnlockConditions(pk(0))
	add("uc-std", &std, nil)
	ms := types.UnlockConditions{PublicKeys: []types.UnlockKey{pk(0).UnlockKey(), pk(1).UnlockKey(), pk(2).UnlockKey()}, SignaturesRequired: 2}
	add("uc-2of3", &ms, nil)
	tl := types.UnlockConditions{Timelock: uint64(5 + idx*7), PublicKeys: []types.UnlockKey{pk(1).UnlockKey()}, SignaturesRequired: 1}
	add("uc-timelock", &tl, nil)
	p1 := types.PolicyPublicKey(pk(0))
	add("pol-pk", nil, &p1)
	p2 := types.PolicyThreshold(2, []types.SpendPolicy{types.PolicyPublicKey(pk(0)), types.PolicyPublicKey(pk(1)), types.PolicyPublicKey(pk(2))})
	add("pol-2of3", nil, &p2)
	h := sha256.Sum256(wl.pre[0][:])
	p3 := types.PolicyThreshold(1, []types.SpendPolicy{types.PolicyHash(h), types.PolicyPublicKey(pk(3))})
	add("pol-hash-or-pk", nil, &p3)
	p4 := types.PolicyThreshold(2, []types.SpendPolicy{types.PolicyAbove(uint64(20 + idx*5)), types.PolicyPublicKey(pk(1))})
	add("pol-above-and-pk", nil, &p4)
	p5 := types.PolicyThreshold(2, []types.SpendPolicy{
		types.PolicyAfter(epoch.Add(time.Duration(15+idx*3) * w.net.BlockInterval)),
		types.PolicyThreshold(1, []types.SpendPolicy{types.PolicyPublicKey(pk(2)), types.PolicyPublicKey(pk(3))}),
	})
	add("pol-after-and-1of2", nil, &p5)
	// a legacy address with a key of an unknown algorithm next to an ed25519 key
	odd := types.UnlockConditions{PublicKeys: []types.UnlockKey{{Algorithm: types.NewSpecifier("a:b c"), Key: []byte{1, 2, 3, byte(idx)}}, pk(2).UnlockKey()}, SignaturesRequired: 1}
	add("uc-odd-algorithm", &odd, nil)
	return wl
}

// satisfyCtx is what a wallet knows when satisfying a policy.
type satisfyCtx struct {
	keys    map[types.PublicKey]types.PrivateKey
	pre     map[types.Hash256][32]byte
	height  uint64    // parent height seen by Verify
	median  time.Time // median timestamp seen by Verify
	sigHash types.Hash256
}

// satisfy returns p with unsatisfiable / unneeded branches made opaque plus
// the witnesses in verification order. ok=false if p cannot be satisfied.
func satisfy(p types.SpendPolicy, c *satisfyCtx) (rp types.SpendPolicy, sigs []types.Signature, pre [][32]byte, ok bool) {
	switch t := p.Type.(type) {
	case types.PolicyTypeAbove:
		return p, nil, nil, c.height >= uint64(t)
	case types.PolicyTypeAfter:
		return p, nil, nil, c.median.After(time.Time(t))
	case types.PolicyTypePublicKey:
		k, has := c.keys[types.PublicKey(t)]
		if !has {
			return p, nil, nil, false
		}
		return p, []types.Signature{k.SignHash(c.sigHash)}, nil, true
	case types.PolicyTypeHash:
		pi, has := c.pre[types.Hash256(t)]
		if !has {
			return p, nil, nil, false
		}
		return p, nil, [][32]byte{pi}, true
	case types.PolicyTypeThreshold:
		out := types.PolicyTypeThreshold{N: t.N, Of: make([]types.SpendPolicy, len(t.Of))}
		var got uint8
		for i, sp := range t.Of {
			if got < t.N {
				if _, isUC := sp.Type.(types.PolicyTypeUnlockConditions); !isUC {
					if r, s, pr, ok := satisfy(sp, c); ok {
						out.Of[i] = r
						sigs = append(sigs, s...)
						pre = append(pre, pr...)
						got++
						continue
					}
				}
			}
			out.Of[i] = types.PolicyOpaque(sp)
		}
		return types.SpendPolicy{Type: out}, sigs, pre, got == t.N
	case types.PolicyTypeUnlockConditions:
		if c.height < t.Timelock {
			return p, nil, nil, false
		}
		need := t.SignaturesRequired
		for _, uk := range t.PublicKeys {
			if need == 0 {
				break
			}
			if uk.Algorithm != types.SpecifierEd25519 || len(uk.Key) != 32 {
				continue
			}
			if k, has := c.keys[types.PublicKey(uk.Key)]; has {
				sigs = append(sigs, k.SignHash(c.sigHash))
				need--
			}
		}
		return p, sigs, nil, need == 0
	}
	return p, nil, nil, false
}

func (wl *Wallet) satisfyCtx(s consensus.State, sigHash types.Hash256) *satisfyCtx {
	c := &satisfyCtx{keys: map[types.PublicKey]types.PrivateKey{}, pre: map[types.Hash256][32]byte{}, height: s.Index.Height, sigHash: sigHash}
	for _, k := range wl.keys {
		c.keys[k.PublicKey()] = k
	}
	for _, p := range wl.pre {
		c.pre[sha256.Sum256(p[:])] = p
	}
	c.median = medianTimestamp(s)
	return c
}

// medianTimestamp restates the median-of-11 rule from the public State fields.
func medianTimestamp(s consensus.State) time.Time {
	n := int(s.Index.Height + 1)
	if s.Index.Height == ^uint64(0) {
		n = 0
	}
	if n > 11 {
		n = 11
	}
	ts := append([]time.Time(nil), s.PrevTimestamps[:n]...)
	for i := 1; i < len(ts); i++ {
		for j := i; j > 0 && ts[j].Before(ts[j-1]); j-- {
			ts[j], ts[j-1] = ts[j-1], ts[j]
		}
	}
	if len(ts) == 0 {
		return time.Time{}
	}
	if len(ts)%2 == 1 {
		return ts[len(ts)/2]
	}
	l, r := ts[len(ts)/2-1], ts[len(ts)/2]
	return l.Add(r.Sub(l) / 2)
}

// policyFor returns the v2 policy that spends from ai.
func (ai *addrInfo) policyFor() types.SpendPolicy {
	if ai.policy != nil {
		return *ai.policy
	}
	return types.SpendPolicy{Type: types.PolicyTypeUnlockConditions(*ai.uc)}
}

// canSpendV1 reports whether the address can be spent by a v1 input at the
// child height.
func (ai *addrInfo) canSpendV1(childHeight uint64) bool {
	return ai.uc != nil && ai.uc.Timelock <= childHeight
}

// signV1 appends whole-transaction signatures for parent with uc.
func (wl *Wallet) signV1(s consensus.State, txn *types.Transaction, parent types.Hash256, uc types.UnlockConditions) {
	need := uc.SignaturesRequired
	for i, uk := range uc.PublicKeys {
		if need == 0 {
			break
		}
		for _, k := range wl.keys {
			pk := k.PublicKey()
			if uk.Algorithm == types.SpecifierEd25519 && string(uk.Key) == string(pk[:]) {
				txn.Signatures = append(txn.Signatures, types.TransactionSignature{
					ParentID: parent, PublicKeyIndex: uint64(i),
					CoveredFields: types.CoveredFields{WholeTransaction: true},
				})
				need--
				break
			}
		}
	}
}

// finishV1 fills in all signatures (after every signature slot exists, since
// whole-transaction signatures do not cover each other here).
func (wl *Wallet) finishV1(s consensus.State, txn *types.Transaction, ucs map[types.Hash256]types.UnlockConditions) {
	for i := range txn.Signatures {
		sig := &txn.Signatures[i]
		uc := ucs[sig.ParentID]
		uk := uc.PublicKeys[sig.PublicKeyIndex]
		var h types.Hash256
		if sig.CoveredFields.WholeTransaction {
			h = s.WholeSigHash(*txn, sig.ParentID, sig.PublicKeyIndex, sig.Timelock, sig.CoveredFields.Signatures)
		} else {
			h = s.PartialSigHash(*txn, sig.CoveredFields)
		}
		for _, k := range wl.keys {
			pk := k.PublicKey()
			if string(uk.Key) == string(pk[:]) {
				sg := k.SignHash(h)
				sig.Signature = sg[:]
			}
		}
	}
}

// spendable lists the wallet's spendable siacoin elements on node n for a
// child of the tip, skipping anything the pool already spends.
func (wl *Wallet) spendable(n *Node, v1 bool) (out []types.SiacoinElement) {
	used := n.poolSpent()
	child := n.tip.Index.Height + 1
	for _, id := range n.store.sortedSC() {
		e := n.store.SC[id]
		ai := wl.byAdr[e.SiacoinOutput.Address]
		if ai == nil || used[types.Hash256(id)] || e.MaturityHeight > child || e.SiacoinOutput.Value.IsZero() {
			continue
		}
		if v1 && !ai.canSpendV1(child) {
			continue
		}
		out = append(out, e.Copy())
	}
	return
}

func (wl *Wallet) spendableSF(n *Node, v1 bool) (out []types.SiafundElement) {
	used := n.poolSpent()
	child := n.tip.Index.Height + 1
	for _, id := range n.store.sortedSF() {
		e := n.store.SF[id]
		ai := wl.byAdr[e.SiafundOutput.Address]
		if ai == nil || used[types.Hash256(id)] {
			continue
		}
		if v1 && !ai.canSpendV1(child) {
			continue
		}
		out = append(out, e.Copy())
	}
	return
}

// poolSpent returns the IDs consumed by pool transactions.
func (n *Node) poolSpent() map[types.Hash256]bool {
	used := map[types.Hash256]bool{}
	for _, pt := range n.pool {
		if pt.V1 != nil {
			for _, in := range pt.V1.SiacoinInputs {
				used[types.Hash256(in.ParentID)] = true
			}
			for _, in := range pt.V1.SiafundInputs {
				used[types.Hash256(in.ParentID)] = true
			}
			for _, r := range pt.V1.FileContractRevisions {
				used[types.Hash256(r.ParentID)] = true
			}
			for _, r := range pt.V1.StorageProofs {
				used[types.Hash256(r.ParentID)] = true
			}
		} else {
			for _, in := range pt.V2.SiacoinInputs {
				used[types.Hash256(in.Parent.ID)] = true
			}
			for _, in := range pt.V2.SiafundInputs {
				used[types.Hash256(in.Parent.ID)] = true
			}
			for _, r := range pt.V2.FileContractRevisions {
				used[types.Hash256(r.Parent.ID)] = true
			}
			for _, r := range pt.V2.FileContractResolutions {
				used[types.Hash256(r.Parent.ID)] = true
			}
		}
	}
	return used
}

// pickAddr chooses a receiving address usable in the era of the child block.
func (w *World) pickAddr(t *sim.Tape, v2ok bool) types.Address {
	wl := w.wallets[t.Choose(len(w.wallets))]
	var cands []*addrInfo
	for _, ai := range wl.addrs {
		if ai.uc != nil || v2ok {
			cands = append(cands, ai)
		}
	}
	return cands[t.Choose(len(cands))].addr
}

// splitValue splits v into k positive parts (k may shrink).
func splitValue(t *sim.Tape, v types.Currency, k int) []types.Currency {
	var parts []types.Currency
	rest := v
	for i := 0; i < k-1; i++ {
		if rest.Cmp(types.NewCurrency64(2)) < 0 {
			break
		}
		d := uint64(t.Range(2, 9))
		p := rest.Div64(d)
		if p.IsZero() {
			break
		}
		parts = append(parts, p)
		rest = rest.Sub(p)
	}
	if !rest.IsZero() {
		parts = append(parts, rest)
	}
	return parts
}

// buildPayV1 builds a signed v1 payment spending up to k inputs.
func (w *World) buildPayV1(wl *Wallet, n *Node) *PoolTxn {
	t := w.tape
	sp := wl.spendable(n, true)
	if len(sp) == 0 {
		return nil
	}
	k := t.Range(1, min(3, len(sp)))
	start := t.Choose(len(sp))
	var txn types.Transaction
	var total types.Currency
	ucs := map[types.Hash256]types.UnlockConditions{}
	for i := 0; i < k; i++ {
		e := sp[(start+i)%len(sp)]
		ai := wl.byAdr[e.SiacoinOutput.Address]
		txn.SiacoinInputs = append(txn.SiacoinInputs, types.SiacoinInput{ParentID: e.ID, UnlockConditions: *ai.uc})
		ucs[types.Hash256(e.ID)] = *ai.uc
		total = total.Add(e.SiacoinOutput.Value)
	}
	fee := types.ZeroCurrency
	if t.Chance(2, 3) && total.Cmp(types.Siacoins(2)) > 0 {
		fee = types.Siacoins(1).Div64(uint64(t.Range(1, 100)))
		txn.MinerFees = []types.Currency{fee}
		if t.Chance(1, 5) {
			h := fee.Div64(2)
			if !h.IsZero() {
				txn.MinerFees = []types.Currency{h, fee.Sub(h)}
			}
		}
	}
	for _, p := range splitValue(t, total.Sub(fee), t.Range(1, 4)) {
		txn.SiacoinOutputs = append(txn.SiacoinOutputs, types.SiacoinOutput{Value: p, Address: w.pickAddr(t, false)})
	}
	if t.Chance(1, 6) {
		txn.ArbitraryData = [][]byte{sim.HashBytes("arb", uint64(wl.idx), wl.next(), t.Range(1, 40))}
	}
	for _, in := range txn.SiacoinInputs {
		wl.signV1(n.tip, &txn, types.Hash256(in.ParentID), in.UnlockConditions)
	}
	if t.Chance(1, 4) {
		w.makePartial(&txn)
	}
	wl.finishV1(n.tip, &txn, ucs)
	return &PoolTxn{V1: &txn, ID: txn.ID(), From: wl.idx, Kind: "pay-v1"}
}

// makePartial turns every signature into an explicit covered-fields signature
// covering all fields of the transaction and all earlier signatures.
func (w *World) makePartial(txn *types.Transaction) {
	idx := func(n int) []uint64 {
		var r []uint64
		for i := 0; i < n; i++ {
			r = append(r, uint64(i))
		}
		return r
	}
	for i := range txn.Signatures {
		txn.Signatures[i].CoveredFields = types.CoveredFields{
			SiacoinInputs:         idx(len(txn.SiacoinInputs)),
			SiacoinOutputs:        idx(len(txn.SiacoinOutputs)),
			FileContracts:         idx(len(txn.FileContracts)),
			FileContractRevisions: idx(len(txn.FileContractRevisions)),
			StorageProofs:         idx(len(txn.StorageProofs)),
			SiafundInputs:         idx(len(txn.SiafundInputs)),
			SiafundOutputs:        idx(len(txn.SiafundOutputs)),
			MinerFees:             idx(len(txn.MinerFees)),
			ArbitraryData:         idx(len(txn.ArbitraryData)),
			Signatures:            idx(i),
		}
	}
	w.stats.Inc("workload.partial-sig")
}

func (wl *Wallet) next() uint64 { wl.ctr++; return wl.ctr }

// signV2 fills in the satisfied policies of every input of txn.
func (wl *Wallet) signV2(s consensus.State, txn *types.V2Transaction) bool {
	sigHash := s.InputSigHash(*txn)
	c := wl.satisfyCtx(s, sigHash)
	for i := range txn.SiacoinInputs {
		ai := wl.byAdr[txn.SiacoinInputs[i].Parent.SiacoinOutput.Address]
		rp, sigs, pre, ok := satisfy(ai.policyFor(), c)
		if !ok {
			return false
		}
		txn.SiacoinInputs[i].SatisfiedPolicy = types.SatisfiedPolicy{Policy: rp, Signatures: sigs, Preimages: pre}
	}
	for i := range txn.SiafundInputs {
		ai := wl.byAdr[txn.SiafundInputs[i].Parent.SiafundOutput.Address]
		rp, sigs, pre, ok := satisfy(ai.policyFor(), c)
		if !ok {
			return false
		}
		txn.SiafundInputs[i].SatisfiedPolicy = types.SatisfiedPolicy{Policy: rp, Signatures: sigs, Preimages: pre}
	}
	return true
}

// canSatisfyNow tells whether the wallet could satisfy the address's policy
// in a child of s.
func (wl *Wallet) canSatisfyNow(s consensus.State, ai *addrInfo) bool {
	_, _, _, ok := satisfy(ai.policyFor(), wl.satisfyCtx(s, types.Hash256{}))
	return ok
}

// buildPayV2 builds a signed v2 payment; with chain>0 it also returns
// follow-up transactions spending ephemeral outputs.
func (w *World) buildPayV2(wl *Wallet, n *Node, chain int) []*PoolTxn {
	t := w.tape
	var sp []types.SiacoinElement
	for _, e := range wl.spendable(n, false) {
		if wl.canSatisfyNow(n.tip, wl.byAdr[e.SiacoinOutput.Address]) {
			sp = append(sp, e)
		}
	}
	if len(sp) == 0 {
		return nil
	}
	k := t.Range(1, min(3, len(sp)))
	start := t.Choose(len(sp))
	var txn types.V2Transaction
	var total types.Currency
	for i := 0; i < k; i++ {
		e := sp[(start+i)%len(sp)]
		txn.SiacoinInputs = append(txn.SiacoinInputs, types.V2SiacoinInput{Parent: e})
		total = total.Add(e.SiacoinOutput.Value)
	}
	if t.Chance(2, 3) && total.Cmp(types.Siacoins(2)) > 0 {
		txn.MinerFee = types.Siacoins(1).Div64(uint64(t.Range(1, 100)))
	}
	parts := t.Range(1, 4)
	if t.Chance(1, 25) {
		parts = t.Range(60, 140) // (a block's diffs outgrow whatever they were first sized for)
		w.stats.Inc("workload.many-outputs")
	}
	for i, p := range splitValue(t, total.Sub(txn.MinerFee), parts) {
		addr := w.pickAddr(t, true)
		if chain > 0 && i == 0 {
			addr = wl.addrs[3].addr // pol-pk, always satisfiable: head of the ephemeral chain
		}
		txn.SiacoinOutputs = append(txn.SiacoinOutputs, types.SiacoinOutput{Value: p, Address: addr})
	}
	if t.Chance(1, 6) {
		txn.ArbitraryData = sim.HashBytes("arb2", uint64(wl.idx), wl.next(), pick(t, t.Range(1, 40), t.Range(1, 40), t.Range(63, 66), t.Range(127, 130), t.Range(190, 260)))
	}
	if t.Chance(1, 5) {
		// attestations: leaves of the accumulator that belong to no diff
		for i := 0; i < t.Range(1, 3); i++ {
			a := types.Attestation{PublicKey: wl.keys[0].PublicKey(), Key: pick(t, "HostAnnouncement", "k", "note"), Value: sim.HashBytes("att", uint64(wl.idx), wl.next(), t.Range(0, 40))}
			a.Signature = wl.keys[0].SignHash(n.tip.AttestationSigHash(a))
			txn.Attestations = append(txn.Attestations, a)
		}
		w.stats.Inc("workload.attestations")
	}
	if !wl.signV2(n.tip, &txn) {
		return nil
	}
	out := []*PoolTxn{{V2: &txn, ID: txn.ID(), From: wl.idx, Kind: "pay-v2"}}
	prev := &txn
	for c := 0; c < chain; c++ {
		e := prev.EphemeralSiacoinOutput(0)
		if e.SiacoinOutput.Value.Cmp(types.NewCurrency64(10)) < 0 {
			break
		}
		if t.Chance(1, 4) {
			// nothing validates the proof attached to an ephemeral parent: some
			// senders attach rubbish
			for k := t.Range(1, 4); k > 0; k-- {
				e.StateElement.MerkleProof = append(e.StateElement.MerkleProof, types.Hash256{byte(k), 0xee})
			}
			w.stats.Inc("fault.ephemeral-parent-junk-proof")
		}
		var nx types.V2Transaction
		nx.SiacoinInputs = []types.V2SiacoinInput{{Parent: e}}
		for i, p := range splitValue(t, e.SiacoinOutput.Value, t.Range(1, 3)) {
			addr := w.pickAddr(t, true)
			if i == 0 {
				addr = wl.addrs[3].addr
			}
			nx.SiacoinOutputs = append(nx.SiacoinOutputs, types.SiacoinOutput{Value: p, Address: addr})
		}
		if !wl.signV2(n.tip, &nx) {
			break
		}
		cp := nx
		out = append(out, &PoolTxn{V2: &cp, ID: cp.ID(), From: wl.idx, Kind: "ephemeral-v2"})
		prev = &cp
	}
	return out
}

// buildSiafundV1 moves siafunds (and claims the accrued tax share).
func (w *World) buildSiafundV1(wl *Wallet, n *Node) *PoolTxn {
	t := w.tape
	sp := wl.spendableSF(n, true)
	if len(sp) == 0 {
		return nil
	}
	e := sp[t.Choose(len(sp))]
	ai := wl.byAdr[e.SiafundOutput.Address]
	var txn types.Transaction
	txn.SiafundInputs = []types.SiafundInput{{ParentID: e.ID, UnlockConditions: *ai.uc, ClaimAddress: w.pickAddr(t, false)}}
	v := e.SiafundOutput.Value
	if v > 1 && t.Chance(1, 2) {
		a := uint64(t.Range(1, int(min(v-1, 5000))))
		txn.SiafundOutputs = []types.SiafundOutput{{Value: a, Address: w.pickAddr(t, false)}, {Value: v - a, Address: w.pickAddr(t, false)}}
	} else {
		txn.SiafundOutputs = []types.SiafundOutput{{Value: v, Address: w.pickAddr(t, false)}}
	}
	ucs := map[types.Hash256]types.UnlockConditions{types.Hash256(e.ID): *ai.uc}
	wl.signV1(n.tip, &txn, types.Hash256(e.ID), *ai.uc)
	wl.finishV1(n.tip, &txn, ucs)
	return &PoolTxn{V1: &txn, ID: txn.ID(), From: wl.idx, Kind: "siafund-v1"}
}

func (w *World) buildSiafundV2(wl *Wallet, n *Node) *PoolTxn {
	t := w.tape
	var sp []types.SiafundElement
	for _, e := range wl.spendableSF(n, false) {
		if wl.canSatisfyNow(n.tip, wl.byAdr[e.SiafundOutput.Address]) {
			sp = append(sp, e)
		}
	}
	if len(sp) == 0 {
		return nil
	}
	e := sp[t.Choose(len(sp))]
	var txn types.V2Transaction
	txn.SiafundInputs = []types.V2SiafundInput{{Parent: e, ClaimAddress: w.pickAddr(t, true)}}
	v := e.SiafundOutput.Value
	if v > 1 && t.Chance(1, 2) {
		a := uint64(t.Range(1, int(min(v-1, 5000))))
		txn.SiafundOutputs = []types.SiafundOutput{{Value: a, Address: w.pickAddr(t, true)}, {Value: v - a, Address: w.pickAddr(t, true)}}
	} else {
		txn.SiafundOutputs = []types.SiafundOutput{{Value: v, Address: w.pickAddr(t, true)}}
	}
	if !wl.signV2(n.tip, &txn) {
		return nil
	}
	return &PoolTxn{V2: &txn, ID: txn.ID(), From: wl.idx, Kind: "siafund-v2"}
}
