package world

import (
	"bytes"
	"fmt"
	"sort"
	"time"

	"go.sia.tech/core/consensus"
	"go.sia.tech/core/types"
	"verif/ref"
)

func init() {
	// ---- v1 contract formed and proven inside one block (C08 / C07)
	sameBlockProof := probeRow{"K3-v1-formed-and-proven-in-block", func(w *World, n *Node) {
		sc := n.fork()
		if !sc.v1ok() || sc.child() < w.net.HardforkTax.Height || sc.child() < w.net.HardforkStorageProof.Height {
			return
		}
		funder, okf := pickSC(w, sc.ownedSC(true, true))
		if !okf {
			return
		}
		renter, host := w.wallets[0], w.wallets[len(w.wallets)-1]
		c := &Contract{renter: renter, host: host}
		data := make([]byte, 64*w.tape.Range(1, 5))
		for i := range data {
			data[i] = byte(i*7 + 3)
		}
		build := func(windowStart uint64) ([]types.Transaction, bool) {
			valid := types.Siacoins(2)
			fc := types.FileContract{Filesize: uint64(len(data)), FileMerkleRoot: fileRoot(data), WindowStart: windowStart, WindowEnd: windowStart + 3, UnlockHash: c.uc().UnlockHash(),
				ValidProofOutputs:  []types.SiacoinOutput{{Value: valid, Address: renter.addrs[0].addr}},
				MissedProofOutputs: []types.SiacoinOutput{{Value: valid, Address: types.VoidAddress}}}
			fc.Payout = preTaxPayout(sc.s, fc, valid)
			if fc.Payout.IsZero() || funder.SiacoinOutput.Value.Cmp(fc.Payout) < 0 {
				return nil, false
			}
			_, ai := w.ownerOf(funder.SiacoinOutput.Address)
			form := types.Transaction{SiacoinInputs: []types.SiacoinInput{{ParentID: funder.ID, UnlockConditions: *ai.uc}}, FileContracts: []types.FileContract{fc}}
			if ch := funder.SiacoinOutput.Value.Sub(fc.Payout); !ch.IsZero() {
				form.SiacoinOutputs = []types.SiacoinOutput{{Value: ch, Address: renter.addrs[0].addr}}
			}
			w.signAllV1(sc.s, &form)
			// the only block ID an in-block proof can be checked against is the parent's
			id := form.FileContractID(0)
			idx := ref.ChallengeIndex(fc.Filesize, sc.s.Index.ID, id)
			leaves := ref.FileLeaves(data)
			sp := types.StorageProof{ParentID: id, Leaf: ref.LeafSegment(data, int(idx)), Proof: ref.TreePath(leaves, int(idx))}
			return []types.Transaction{form, {StorageProofs: []types.StorageProof{sp}}}, true
		}
		if sc.child()+4 >= w.net.HardforkV2.RequireHeight {
			return
		}
		if t, ok := build(sc.child()); ok {
			verr, ok := sc.offer(t, nil, offerOpt{})
			w.expect(w.propAmong("C08", "C07"), "K3-v1-in-block-proof-at-window-start", verr, ok, true, fmt.Sprintf("v1 contract formed with window start %d and proven in the same block (height %d)", sc.child(), sc.child()))
		}
		// two contracts proven by one transaction: a whole leaf of the first file, then
		// the only, partial leaf of the second (and the other way round) - each proof
		// is judged on its own data
		{
			small := make([]byte, w.tape.Range(1, 63))
			for i := range small {
				small[i] = byte(i*11 + 5)
			}
			files := [][]byte{data, small}
			valid := types.Siacoins(2)
			_, ai := w.ownerOf(funder.SiacoinOutput.Address)
			form := types.Transaction{SiacoinInputs: []types.SiacoinInput{{ParentID: funder.ID, UnlockConditions: *ai.uc}}}
			total := types.ZeroCurrency
			for _, f := range files {
				fc := types.FileContract{Filesize: uint64(len(f)), FileMerkleRoot: fileRoot(f), WindowStart: sc.child(), WindowEnd: sc.child() + 3, UnlockHash: c.uc().UnlockHash(),
					ValidProofOutputs:  []types.SiacoinOutput{{Value: valid, Address: renter.addrs[0].addr}},
					MissedProofOutputs: []types.SiacoinOutput{{Value: valid, Address: types.VoidAddress}}}
				fc.Payout = preTaxPayout(sc.s, fc, valid)
				total = total.Add(fc.Payout)
				form.FileContracts = append(form.FileContracts, fc)
			}
			if !form.FileContracts[0].Payout.IsZero() && !form.FileContracts[1].Payout.IsZero() && funder.SiacoinOutput.Value.Cmp(total) >= 0 {
				if ch := funder.SiacoinOutput.Value.Sub(total); !ch.IsZero() {
					form.SiacoinOutputs = []types.SiacoinOutput{{Value: ch, Address: renter.addrs[0].addr}}
				}
				w.signAllV1(sc.s, &form)
				var sps []types.StorageProof
				for i, f := range files {
					id := form.FileContractID(i)
					idx := ref.ChallengeIndex(uint64(len(f)), sc.s.Index.ID, id)
					sps = append(sps, types.StorageProof{ParentID: id, Leaf: ref.LeafSegment(f, int(idx)), Proof: ref.TreePath(ref.FileLeaves(f), int(idx))})
				}
				verr, ok := sc.offer([]types.Transaction{form, {StorageProofs: []types.StorageProof{sps[0], sps[1]}}}, nil, offerOpt{})
				w.expect("C07", "K3-v1-two-proofs-whole-then-partial-leaf", verr, ok, true, fmt.Sprintf("one transaction proves a %d-byte file and then a %d-byte file (a partial leaf), both honestly", len(data), len(small)))
				verr, ok = sc.offer([]types.Transaction{form, {StorageProofs: []types.StorageProof{sps[1], sps[0]}}}, nil, offerOpt{})
				w.expect("C07", "K3-v1-two-proofs-partial-then-whole-leaf", verr, ok, true, fmt.Sprintf("one transaction proves a %d-byte file (a partial leaf) and then a %d-byte file, both honestly", len(small), len(data)))
			}
		}
		if t, ok := build(sc.child() + 1); ok {
			verr, ok := sc.offer(t, nil, offerOpt{})
			w.expect(w.propAmong("C08", "C07"), "K3-v1-in-block-proof-before-window-start", verr, ok, false, fmt.Sprintf("v1 contract formed with window start %d and proven in the same block (height %d): the block at height %d does not exist yet", sc.child()+1, sc.child(), sc.child()))
		}
	}}
	registerRows("C08", sameBlockProof)
	registerRows("C07", sameBlockProof)

	// ---- v1 contract whose unlock conditions carry a timelock: revisable in the block at that height (C08)
	registerRows("C08", probeRow{"T2-v1-revision-timelock", func(w *World, n *Node) {
		sc := n.fork()
		if !sc.v1ok() || sc.child()+8 >= w.net.HardforkV2.RequireHeight || sc.child() < w.net.HardforkTax.Height {
			return
		}
		funder, okf := pickSC(w, sc.ownedSC(true, true))
		if !okf {
			return
		}
		renter, host := w.wallets[0], w.wallets[len(w.wallets)-1]
		c := &Contract{renter: renter, host: host}
		T := sc.child() + uint64(w.tape.Range(2, 4))
		uc := c.uc()
		uc.Timelock = T
		valid := types.Siacoins(2)
		fc := types.FileContract{Filesize: 0, WindowStart: T + 4, WindowEnd: T + 7, UnlockHash: uc.UnlockHash(),
			ValidProofOutputs:  []types.SiacoinOutput{{Value: valid, Address: renter.addrs[0].addr}},
			MissedProofOutputs: []types.SiacoinOutput{{Value: valid, Address: types.VoidAddress}}}
		fc.Payout = preTaxPayout(sc.s, fc, valid)
		if fc.Payout.IsZero() || funder.SiacoinOutput.Value.Cmp(fc.Payout) < 0 || T+7 >= w.net.HardforkV2.RequireHeight {
			return
		}
		_, ai := w.ownerOf(funder.SiacoinOutput.Address)
		form := types.Transaction{SiacoinInputs: []types.SiacoinInput{{ParentID: funder.ID, UnlockConditions: *ai.uc}}, FileContracts: []types.FileContract{fc}}
		if ch := funder.SiacoinOutput.Value.Sub(fc.Payout); !ch.IsZero() {
			form.SiacoinOutputs = []types.SiacoinOutput{{Value: ch, Address: renter.addrs[0].addr}}
		}
		w.signAllV1(sc.s, &form)
		if sc.mine([]types.Transaction{form}, nil) != nil {
			return
		}
		id := form.FileContractID(0)
		cc := *c
		cc.id = id
		w.boundary(sc, "T2-v1-revision-timelock", T, func(sc *scratch) ([]types.Transaction, []types.V2Transaction, bool) {
			rev := fc
			rev.RevisionNumber = 1
			t := types.Transaction{FileContractRevisions: []types.FileContractRevision{{ParentID: id, UnlockConditions: uc, FileContract: rev}}}
			w.signContractV1(sc.s, &t, &cc)
			return []types.Transaction{t}, nil, true
		}, fmt.Sprintf("revision of a v1 contract whose unlock conditions are locked until height %d", T))
	}})

	// ---- v2: two revisions in one block, the second judged against the first
	inBlockRevisions := probeRow{"K5-v2-two-revisions-in-block", func(w *World, n *Node) {
		sc := n.fork()
		if !sc.v2ok() {
			return
		}
		one := types.NewCurrency64(1)
		c := sc.pickLive(true, func(c *Contract) bool {
			fc := sc.store.V2FC[c.id].V2FileContract
			return fc.ProofHeight >= sc.child() && fc.RevisionNumber < types.MaxRevisionNumber-4 && fc.MissedHostValue.Cmp(one) > 0 && fc.RenterOutput.Value.Cmp(one) > 0
		})
		if c == nil {
			return
		}
		e := sc.store.V2FC[c.id]
		cur := e.V2FileContract
		rev := func(base types.V2FileContract, mut func(r *types.V2FileContract)) (types.V2Transaction, types.V2FileContract) {
			r := base
			r.RevisionNumber++
			mut(&r)
			w.signContractV2(sc.s, &r, c.renterKey(), c.hostKey())
			return types.V2Transaction{FileContractRevisions: []types.V2FileContractRevision{{Parent: e.Copy(), Revision: r}}}, r
		}
		// first revision lowers the missed host value and moves a hasting to the host
		t1, r1 := rev(cur, func(r *types.V2FileContract) {
			r.MissedHostValue = r.MissedHostValue.Sub(one)
			r.RenterOutput.Value = r.RenterOutput.Value.Sub(one)
			r.HostOutput.Value = r.HostOutput.Value.Add(one)
		})
		what := fmt.Sprintf("(contract %v, revisions %d and %d in one block)", c.id, r1.RevisionNumber, r1.RevisionNumber+1)
		t2, _ := rev(r1, func(r *types.V2FileContract) {})
		verr, ok := sc.offer(nil, []types.V2Transaction{t1, t2}, offerOpt{})
		w.expect("C07", "K5-in-block-second-revision-control", verr, ok, true, "second revision keeps what the first one set "+what)
		t2, _ = rev(r1, func(r *types.V2FileContract) { r.MissedHostValue = cur.MissedHostValue })
		verr, ok = sc.offer(nil, []types.V2Transaction{t1, t2}, offerOpt{})
		w.expect("C07", "K5-in-block-second-revision-restores-missed-host", verr, ok, false, "second revision raises the missed host value back to what it was before the first revision of the block "+what)
		t2, _ = rev(r1, func(r *types.V2FileContract) { r.RevisionNumber = r1.RevisionNumber })
		verr, ok = sc.offer(nil, []types.V2Transaction{t1, t2}, offerOpt{})
		w.expect("C07", "K5-in-block-second-revision-same-number", verr, ok, false, "second revision repeats the first one's revision number "+what)
		t2, _ = rev(r1, func(r *types.V2FileContract) { r.RenterOutput.Value = cur.RenterOutput.Value })
		verr, ok = sc.offer(nil, []types.V2Transaction{t1, t2}, offerOpt{})
		w.expect("C07", "K5-in-block-second-revision-old-total", verr, ok, false, "second revision takes the renter output of before the first revision (total up by one hasting) "+what)
	}}
	registerRows("C07", inBlockRevisions)
	registerRows("C01", inBlockRevisions)

	// ---- after(T) on young chains, where the median is taken over fewer than
	// eleven timestamps (an even number of them every other block)
	afterYoung := probeRow{"P1-after-young-chain", func(w *World, n *Node) {
		sc := n.fork()
		// the funding block is child; the spend is offered in child+1
		if sc.child()+1 < w.net.HardforkV2.AllowHeight || !sc.v2ok() || sc.s.Index.Height+2 > 10 {
			return
		}
		e, ok := pickSC(w, sc.ownedSC(false, true))
		if !ok || e.SiacoinOutput.Value.Cmp(types.Siacoins(1)) < 0 {
			return
		}
		ts := sc.nextTimestamp().Add(time.Duration(w.tape.Range(0, 7)) * time.Second)
		if ts.After(sc.s.MaxFutureTimestamp(ts)) {
			return
		}
		// timestamps the spend block's parent will see
		k := int(sc.s.Index.Height + 1)
		all := append([]time.Time{ts}, sc.s.PrevTimestamps[:k]...)
		sort.Slice(all, func(i, j int) bool { return all[i].Before(all[j]) })
		var med time.Time
		if len(all)%2 == 1 {
			med = all[len(all)/2]
		} else {
			l, r := all[len(all)/2-1], all[len(all)/2]
			med = l.Add(r.Sub(l) / 2)
		}
		// after(T) holds iff median > T
		tReject := med.Truncate(time.Second)
		if tReject.Before(med) {
			tReject = tReject.Add(time.Second) // smallest whole second >= median
		}
		tAccept := tReject.Add(-time.Second) // largest whole second < median
		half := e.SiacoinOutput.Value.Div64(2)
		pA, pR := types.PolicyAfter(tAccept), types.PolicyAfter(tReject)
		fund := types.V2Transaction{SiacoinInputs: []types.V2SiacoinInput{{Parent: e.Copy()}},
			SiacoinOutputs: []types.SiacoinOutput{{Value: half, Address: pA.Address()}, {Value: e.SiacoinOutput.Value.Sub(half), Address: pR.Address()}}}
		if !w.signAllV2(sc.s, &fund) {
			return
		}
		if sc.mineAt(ts, nil, []types.V2Transaction{fund}) != nil {
			return
		}
		if got := medianTimestamp(sc.s); !got.Equal(med) {
			w.harnessErr("young-chain median: predicted %v, model %v", med, got)
			return
		}
		els := map[types.SiacoinOutputID]types.SiacoinElement{}
		for _, d := range sc.last.SiacoinElementDiffs() {
			els[d.SiacoinElement.ID] = d.SiacoinElement.Copy()
		}
		spend := func(i int, p types.SpendPolicy) types.V2Transaction {
			el := els[fund.SiacoinOutputID(fund.ID(), i)]
			return types.V2Transaction{SiacoinInputs: []types.V2SiacoinInput{{Parent: el, SatisfiedPolicy: types.SatisfiedPolicy{Policy: p}}},
				SiacoinOutputs: []types.SiacoinOutput{{Value: el.SiacoinOutput.Value, Address: w.advAddr()}}}
		}
		what := fmt.Sprintf("parent height %d sees %d timestamps, median %s", sc.s.Index.Height, len(all), med.UTC().Format("15:04:05.0"))
		verr, okc := sc.offer(nil, []types.V2Transaction{spend(0, pA)}, offerOpt{})
		w.expect("C08", "P1-after-young-below-median", verr, okc, true, fmt.Sprintf("after(%s) with %s", tAccept.UTC().Format("15:04:05"), what))
		verr, okc = sc.offer(nil, []types.V2Transaction{spend(1, pR)}, offerOpt{})
		w.expect("C08", "P1-after-young-at-or-above-median", verr, okc, false, fmt.Sprintf("after(%s) with %s", tReject.UTC().Format("15:04:05"), what))
		if len(all)%2 == 0 {
			w.stats.Inc("reach.after-even-timestamp-count")
		}
	}}
	registerRows("C08", afterYoung)

	// ---- C10: multiproof leaf counts and covered-field indices at their bounds
	registerRows("C10",
		probeRow{"Z2-multiproof-leaf-count", func(w *World, n *Node) {
			sc := n.fork()
			if !sc.v2ok() {
				return
			}
			var ins []types.SiacoinElement
			for _, e := range sc.ownedSC(false, true) {
				ins = append(ins, e)
				if len(ins) == 3 {
					break
				}
			}
			if len(ins) == 0 {
				return
			}
			var txns []types.V2Transaction
			var idxs []uint64
			for _, e := range ins {
				if t, ok := w.spendV2(sc.s, []types.SiacoinElement{e}, w.advAddr()); ok {
					txns = append(txns, t)
					idxs = append(idxs, e.StateElement.LeafIndex)
				}
			}
			if len(txns) == 0 {
				return
			}
			var enc []byte
			if p := guard(func() { enc = encP(types.V2TransactionsMultiproof(txns)) }); p != "" {
				return
			}
			// offset of the leaf count: right after the proofless transactions
			proofless := make([]types.V2Transaction, len(txns))
			for i := range txns {
				proofless[i] = txns[i].DeepCopy()
				for j := range proofless[i].SiacoinInputs {
					proofless[i].SiacoinInputs[j].Parent.StateElement.MerkleProof = nil
				}
			}
			var pb bytes.Buffer
			pe := types.NewEncoder(&pb)
			types.EncodeSlice(pe, proofless)
			pe.Flush()
			off := pb.Len()
			if off+8 > len(enc) || !bytes.Equal(enc[:off], pb.Bytes()) {
				w.harnessErr("multiproof row: unexpected layout")
				return
			}
			cands := []uint64{0, 1, ^uint64(0), 1 << 63, sc.s.Elements.NumLeaves, sc.s.Elements.NumLeaves + 1}
			for _, i := range idxs {
				cands = append(cands, i, i+1, i-1, i|1<<40)
			}
			for _, nl := range cands {
				mut := append([]byte(nil), enc...)
				for b := 0; b < 8; b++ {
					mut[off+b] = byte(nl >> (8 * b))
				}
				var out types.V2TransactionsMultiproof
				var derr error
				if p := guard(func() {
					d := types.NewBufDecoder(mut)
					out.DecodeFrom(d)
					derr = d.Err()
				}); p != "" {
					w.violate("C10", "decode-multiproof-panic", fmt.Sprintf("V2TransactionsMultiproof.DecodeFrom panicked with the leaf count set to %d (element leaf indices %v): %s", nl, idxs, p))
					return
				}
				w.stats.Inc("probe.Z2-multiproof-leaf-count")
				w.stats.Inc("probe.crash")
				_ = derr
			}
			w.stats.Inc("probe.rows-run")
		}},
		probeRow{"Z1-v1-covered-fields", func(w *World, n *Node) {
			sc := n.fork()
			if !sc.v1ok() {
				return
			}
			e, ok := pickSC(w, sc.ownedSC(true, true))
			if !ok || e.SiacoinOutput.Value.Cmp(types.Siacoins(1)) < 0 {
				return
			}
			_, ai := w.ownerOf(e.SiacoinOutput.Address)
			// every list has its own length, so an index checked against the wrong list shows
			fee := types.NewCurrency64(1000)
			rest := e.SiacoinOutput.Value.Sub(fee.Mul64(5))
			base := types.Transaction{
				SiacoinInputs:  []types.SiacoinInput{{ParentID: e.ID, UnlockConditions: *ai.uc}},
				SiacoinOutputs: []types.SiacoinOutput{{Value: rest.Div64(2), Address: w.advAddr()}, {Value: rest.Sub(rest.Div64(2)), Address: w.advAddr()}},
				MinerFees:      []types.Currency{fee, fee, fee, fee, fee},
				ArbitraryData:  [][]byte{{1}, {2}, {3}},
			}
			w.signAllV1(sc.s, &base)
			if len(base.Signatures) == 0 {
				return
			}
			fields := []struct {
				name string
				n    int
				set  func(cf *types.CoveredFields, idx []uint64)
			}{
				{"siacoin-inputs", len(base.SiacoinInputs), func(cf *types.CoveredFields, idx []uint64) { cf.SiacoinInputs = idx }},
				{"siacoin-outputs", len(base.SiacoinOutputs), func(cf *types.CoveredFields, idx []uint64) { cf.SiacoinOutputs = idx }},
				{"file-contracts", 0, func(cf *types.CoveredFields, idx []uint64) { cf.FileContracts = idx }},
				{"file-contract-revisions", 0, func(cf *types.CoveredFields, idx []uint64) { cf.FileContractRevisions = idx }},
				{"storage-proofs", 0, func(cf *types.CoveredFields, idx []uint64) { cf.StorageProofs = idx }},
				{"siafund-inputs", 0, func(cf *types.CoveredFields, idx []uint64) { cf.SiafundInputs = idx }},
				{"siafund-outputs", 0, func(cf *types.CoveredFields, idx []uint64) { cf.SiafundOutputs = idx }},
				{"miner-fees", len(base.MinerFees), func(cf *types.CoveredFields, idx []uint64) { cf.MinerFees = idx }},
				{"arbitrary-data", len(base.ArbitraryData), func(cf *types.CoveredFields, idx []uint64) { cf.ArbitraryData = idx }},
				{"signatures", len(base.Signatures), func(cf *types.CoveredFields, idx []uint64) { cf.Signatures = idx }},
			}
			for _, f := range fields {
				for _, idx := range [][]uint64{{uint64(f.n)}, {uint64(f.n) + 1}, {0, uint64(f.n)}, {^uint64(0)}, {1 << 32}} {
					d := types.NewBufDecoder(encV1(base))
					var t types.Transaction
					t.DecodeFrom(d)
					cf := types.CoveredFields{}
					f.set(&cf, idx)
					t.Signatures[0].CoveredFields = cf
					w.crashOffer(sc, fmt.Sprintf("covered-%s-%d-of-%d", f.name, idx[len(idx)-1], f.n), []types.Transaction{t}, nil)
				}
			}
		}},
	)
	_ = consensus.State{}
}

func encP(o types.EncoderTo) []byte {
	var buf bytes.Buffer
	e := types.NewEncoder(&buf)
	o.EncodeTo(e)
	e.Flush()
	return buf.Bytes()
}

// ---- C08: rules that switch on at HardforkV2.EphemeralOutputHeight, offered
// in the block at exactly that height
func init() {
	gate := probeRow{"T1-ephemeral-output-gate", func(w *World, n *Node) {
		sc := n.fork()
		eoh := w.net.HardforkV2.EphemeralOutputHeight
		if eoh > sc.child()+14 || eoh < w.net.HardforkV2.AllowHeight {
			return
		}
		for sc.child() < eoh {
			if !sc.extend(sc.nextTimestamp()) {
				return
			}
		}
		if !sc.v2ok() {
			return
		}
		tag := "-after-gate"
		if sc.child() == eoh {
			tag = "-at-gate"
		}
		what := fmt.Sprintf("in the block at height %d (ephemeral output height %d)", sc.child(), eoh)
		mid := w.wallets[0].addrs[3].addr
		if e, ok := pickSC(w, sc.ownedSC(false, true)); ok {
			if t1, ok := w.spendV2(sc.s, []types.SiacoinElement{e}, mid); ok {
				eph := t1.EphemeralSiacoinOutput(0)
				if t2, ok := w.spendV2(sc.s, []types.SiacoinElement{eph}, w.advAddr()); ok {
					verr, ok := sc.offer(nil, []types.V2Transaction{t1, t2}, offerOpt{})
					w.expect("C08", "T1-ephemeral-siacoin-honest"+tag, verr, ok, true, "ephemeral siacoin output spent with its true fields "+what)
				}
				forged := eph.Copy()
				forged.SiacoinOutput.Value = forged.SiacoinOutput.Value.Add(types.NewCurrency64(1))
				if t2, ok := w.spendV2(sc.s, []types.SiacoinElement{forged}, w.advAddr()); ok {
					verr, ok := sc.offer(nil, []types.V2Transaction{t1, t2}, offerOpt{})
					w.expect("C08", "T1-ephemeral-siacoin-value-plus-1"+tag, verr, ok, false, "ephemeral siacoin parent claiming one hasting more than the output created "+what)
				}
				forged = eph.Copy()
				forged.MaturityHeight = 1
				if t2, ok := w.spendV2(sc.s, []types.SiacoinElement{forged}, w.advAddr()); ok && eph.MaturityHeight != 1 {
					verr, ok := sc.offer(nil, []types.V2Transaction{t1, t2}, offerOpt{})
					w.expect("C08", "T1-ephemeral-siacoin-maturity"+tag, verr, ok, false, "ephemeral siacoin parent claiming another maturity height "+what)
				}
			}
		}
		for _, id := range sc.store.sortedSF() {
			sf := sc.store.SF[id]
			wl, ai := w.ownerOf(sf.SiafundOutput.Address)
			if wl == nil || !wl.canSatisfyNow(sc.s, ai) {
				continue
			}
			t1 := types.V2Transaction{SiafundInputs: []types.V2SiafundInput{{Parent: sf.Copy(), ClaimAddress: mid}}, SiafundOutputs: []types.SiafundOutput{{Value: sf.SiafundOutput.Value, Address: mid}}}
			if !w.signAllV2(sc.s, &t1) {
				continue
			}
			eph := types.SiafundElement{ID: t1.SiafundOutputID(t1.ID(), 0), StateElement: types.StateElement{LeafIndex: types.UnassignedLeafIndex}, SiafundOutput: t1.SiafundOutputs[0], ClaimStart: sc.s.SiafundTaxRevenue}
			t2 := types.V2Transaction{SiafundInputs: []types.V2SiafundInput{{Parent: eph, ClaimAddress: mid}}, SiafundOutputs: []types.SiafundOutput{{Value: sf.SiafundOutput.Value, Address: w.advAddr()}}}
			if !w.signAllV2(sc.s, &t2) {
				break
			}
			verr, ok := sc.offer(nil, []types.V2Transaction{t1, t2}, offerOpt{})
			w.expect("C08", "T1-ephemeral-siafund"+tag, verr, ok, false, "siafund output created and spent in one block "+what)
			break
		}
		one := types.NewCurrency64(1)
		if c := sc.pickLive(true, func(c *Contract) bool {
			fc := sc.store.V2FC[c.id].V2FileContract
			return fc.ProofHeight >= sc.child() && fc.RevisionNumber < types.MaxRevisionNumber-2 && fc.HostOutput.Value.Cmp(one) > 0 && fc.MissedHostValue.Equals(fc.HostOutput.Value)
		}); c != nil {
			e := sc.store.V2FC[c.id]
			r := e.V2FileContract
			r.RevisionNumber++
			// move one hasting from host to renter: the missed host value now exceeds the valid one
			r.HostOutput.Value = r.HostOutput.Value.Sub(one)
			r.RenterOutput.Value = r.RenterOutput.Value.Add(one)
			w.signContractV2(sc.s, &r, c.renterKey(), c.hostKey())
			verr, ok := sc.offer(nil, []types.V2Transaction{{FileContractRevisions: []types.V2FileContractRevision{{Parent: e.Copy(), Revision: r}}}}, offerOpt{})
			w.expect("C08", "T1-revision-missed-exceeds-valid"+tag, verr, ok, false, "v2 revision whose missed host value exceeds its valid host value "+what)
		}
	}}
	registerRows("C08", gate)
}
