package world

import (
	"testing"

	"verif/sim"
)

// TestWorker is the entry point of the E1 engine binary (go test -c).
func TestWorker(t *testing.T) {
	j, err := sim.LoadJob()
	if err != nil {
		t.Skip("no VERIF_JOB")
	}
	if err := sim.RunJob(j, Run); err != nil {
		t.Fatal(err)
	}
}
