package world

import (
	"crypto/sha256"
	"encoding/hex"
	"errors"
	"fmt"
	"reflect"

	"go.sia.tech/core/consensus"
	"go.sia.tech/core/types"
	"verif/ref"
)

// diffDigest is a digest of the diffs of an update (order-sensitive).
func diffDigest(sc []consensus.SiacoinElementDiff, sf []consensus.SiafundElementDiff, fc []consensus.FileContractElementDiff, v2 []consensus.V2FileContractElementDiff) string {
	var w ref.W
	for _, d := range sc {
		w.SCE(d.SiacoinElement)
		w.Bool(d.Created)
		w.Bool(d.Spent)
	}
	w.U8(0xfe)
	for _, d := range sf {
		w.SFE(d.SiafundElement)
		w.Bool(d.Created)
		w.Bool(d.Spent)
	}
	w.U8(0xfe)
	for _, d := range fc {
		w.FCE(d.FileContractElement)
		w.Bool(d.Created)
		w.Bool(d.Resolved)
		w.Bool(d.Valid)
		w.Bool(d.Revision != nil)
		if d.Revision != nil {
			w.FC(*d.Revision)
		}
	}
	w.U8(0xfe)
	for _, d := range v2 {
		w.V2FCE(d.V2FileContractElement)
		w.Bool(d.Created)
		w.Bool(d.Revision != nil)
		if d.Revision != nil {
			w.V2FC(*d.Revision)
		}
		switch d.Resolution.(type) {
		case nil:
			w.U8(9)
		case *types.V2FileContractRenewal:
			w.U8(0)
		case *types.V2StorageProof:
			w.U8(1)
		case *types.V2FileContractExpiration:
			w.U8(2)
		}
	}
	h := sha256.Sum256(w.B)
	return hex.EncodeToString(h[:8])
}

// ledgerFor returns the reference ledger after e, computing it from the
// parent's if needed. A RuleError becomes a violation: the library accepted a
// block whose contents contradict the ledger rules.
func (w *World) ledgerFor(n *Node, e *blockEntry) *ref.Ledger {
	if l, ok := w.ledgers[e.id]; ok {
		return l
	}
	if w.badLedger[e.id] {
		return nil
	}
	pl, ok := w.ledgers[e.parent]
	if !ok {
		w.harnessErr("no ledger for parent of %s", short(e.id))
		return nil
	}
	var exp []types.FileContractID
	for _, fce := range e.supp.ExpiringFileContracts {
		exp = append(exp, fce.ID)
	}
	l, err := pl.Apply(e.b, exp)
	if err != nil {
		var re *ref.RuleError
		if errors.As(err, &re) {
			w.violate(re.Property, "ledger-"+re.Rule, fmt.Sprintf("block %s at height %d was accepted by ValidateBlock but: %s", short(e.id), e.height, re.Detail))
			w.badLedger[e.id] = true
			w.fatal = true
			return nil
		}
		w.harnessErr("ledger: %v", err)
		return nil
	}
	w.ledgers[e.id] = l
	return l
}

// checkNode compares the node's store and state with the reference ledger and
// the naive forest after e became the tip (by apply or by revert).
func (w *World) checkNode(n *Node, e *blockEntry, ctx string) {
	l := w.ledgerFor(n, e)
	if l == nil {
		return
	}
	w.checkStore(fmt.Sprintf("node %d after %s of block %s (height %d): ", n.idx, ctx, short(e.id), e.height), n.store, n.tip, l, ctx)
}

// checkStore compares a store and state with a reference ledger.
func (w *World) checkStore(where string, st *Store, s consensus.State, l *ref.Ledger, ctx string) {
	bad := func(prop, inv, f string, a ...any) {
		w.violate(prop, inv, where+fmt.Sprintf(f, a...))
	}
	storeProp := "C01"
	if ctx == "revert" {
		storeProp = "C06"
	}
	// (a) element sets equal (id, fields, leaf index)
	if len(st.SC) != len(l.SC) {
		bad(storeProp, "store-siacoin-set", "store has %d siacoin elements, ledger %d", len(st.SC), len(l.SC))
	}
	for _, id := range st.sortedSC() {
		se := st.SC[id]
		le, ok := l.SC[id]
		if !ok {
			bad(storeProp, "store-siacoin-set", "store holds siacoin element %v unknown to the ledger", id)
			break
		}
		if se.SiacoinOutput != le.Out || se.MaturityHeight != le.Maturity {
			bad(storeProp, "store-siacoin-fields", "element %v: store (%v,%v,maturity %d) ledger (%v,%v,maturity %d)", id, se.SiacoinOutput.Value, se.SiacoinOutput.Address, se.MaturityHeight, le.Out.Value, le.Out.Address, le.Maturity)
			break
		}
		if se.StateElement.LeafIndex != le.Leaf {
			bad("C05", "leaf-index", "siacoin element %v: store leaf %d, forest leaf %d", id, se.StateElement.LeafIndex, le.Leaf)
			break
		}
	}
	if len(st.SF) != len(l.SF) {
		bad(storeProp, "store-siafund-set", "store has %d siafund elements, ledger %d", len(st.SF), len(l.SF))
	}
	for _, id := range st.sortedSF() {
		se := st.SF[id]
		le, ok := l.SF[id]
		if !ok {
			bad(storeProp, "store-siafund-set", "store holds siafund element %v unknown to the ledger", id)
			break
		}
		if se.SiafundOutput != le.Out || se.ClaimStart != le.ClaimStart || se.StateElement.LeafIndex != le.Leaf {
			bad(storeProp, "store-siafund-fields", "element %v: store (%d,%v,claim %v,leaf %d) ledger (%d,%v,claim %v,leaf %d)", id, se.SiafundOutput.Value, se.SiafundOutput.Address, se.ClaimStart, se.StateElement.LeafIndex, le.Out.Value, le.Out.Address, le.ClaimStart, le.Leaf)
			break
		}
	}
	if len(st.FC) != len(l.FC) {
		bad(storeProp, "store-contract-set", "store has %d v1 contracts, ledger %d", len(st.FC), len(l.FC))
	}
	for _, id := range st.sortedFC() {
		se := st.FC[id]
		le, ok := l.FC[id]
		if !ok {
			bad(storeProp, "store-contract-set", "store holds v1 contract %v unknown to the ledger", id)
			break
		}
		if !reflect.DeepEqual(normFC(se.FileContract), normFC(le.FC)) || se.StateElement.LeafIndex != le.Leaf {
			bad("C07", "store-contract-fields", "v1 contract %v differs from the ledger's latest revision (rev %d vs %d)", id, se.FileContract.RevisionNumber, le.FC.RevisionNumber)
			break
		}
	}
	if len(st.V2FC) != len(l.V2FC) {
		bad(storeProp, "store-v2contract-set", "store has %d v2 contracts, ledger %d", len(st.V2FC), len(l.V2FC))
	}
	for _, id := range st.sortedV2FC() {
		se := st.V2FC[id]
		le, ok := l.V2FC[id]
		if !ok {
			bad(storeProp, "store-v2contract-set", "store holds v2 contract %v unknown to the ledger", id)
			break
		}
		if se.V2FileContract != le.FC || se.StateElement.LeafIndex != le.Leaf {
			bad("C07", "store-v2contract-fields", "v2 contract %v differs from the ledger's latest revision (rev %d vs %d)", id, se.V2FileContract.RevisionNumber, le.FC.RevisionNumber)
			break
		}
	}
	// (b) conservation, (d) siafund count
	have, want := l.Conservation()
	if have.Cmp(want) != 0 {
		bad("C01", "conservation", "unspent+locked+unclaimed+forfeited = %v, genesis+subsidies = %v", have, want)
	}
	if sf := l.SiafundTotal(); sf != 10000 {
		bad("C01", "siafund-count", "siafunds in unspent outputs = %d", sf)
	}
	if s.SiafundTaxRevenue != l.Pool {
		bad("C01", "tax-pool", "state tax revenue %v, ledger pool %v", s.SiafundTaxRevenue, l.Pool)
	}
	if s.FoundationSubsidyAddress != l.FoundationPrimary || s.FoundationManagementAddress != l.FoundationFailsafe {
		bad("C03", "foundation-address", "state foundation addresses (%v,%v), ledger (%v,%v)", s.FoundationSubsidyAddress, s.FoundationManagementAddress, l.FoundationPrimary, l.FoundationFailsafe)
	}
	// accumulator = naive forest
	w.checkForest(st, s, l, bad)
	w.nontrivial = true
}

func normFC(fc types.FileContract) types.FileContract {
	if len(fc.ValidProofOutputs) == 0 {
		fc.ValidProofOutputs = nil
	}
	if len(fc.MissedProofOutputs) == 0 {
		fc.MissedProofOutputs = nil
	}
	return fc
}

func (w *World) checkForest(st *Store, s consensus.State, l *ref.Ledger, bad func(prop, inv, f string, a ...any)) {
	f := l.Forest
	if s.Elements.NumLeaves != f.N() {
		bad("C05", "leaf-count", "accumulator has %d leaves, naive forest %d", s.Elements.NumLeaves, f.N())
		return
	}
	roots := f.Roots()
	for h := 0; h < 64; h++ {
		if f.N()&(1<<h) != 0 && s.Elements.Trees[h] != roots[h] {
			bad("C05", "forest-root", "tree of height %d: accumulator root %v, naive forest root %v", h, s.Elements.Trees[h], roots[h])
			return
		}
	}
	checkProof := func(kind string, id [32]byte, se types.StateElement) bool {
		want := f.Path(se.LeafIndex)
		if len(want) != len(se.MerkleProof) {
			bad("C05", "proof-length", "%s element %x (leaf %d): proof length %d, forest path length %d", kind, id[:4], se.LeafIndex, len(se.MerkleProof), len(want))
			return false
		}
		for i := range want {
			if want[i] != se.MerkleProof[i] {
				bad("C05", "proof-path", "%s element %x (leaf %d): proof differs from the forest path at level %d", kind, id[:4], se.LeafIndex, i)
				return false
			}
		}
		return true
	}
	for _, id := range st.sortedSC() {
		if !checkProof("siacoin", id, st.SC[id].StateElement) {
			return
		}
	}
	for _, id := range st.sortedSF() {
		if !checkProof("siafund", id, st.SF[id].StateElement) {
			return
		}
	}
	for _, id := range st.sortedFC() {
		if !checkProof("contract", id, st.FC[id].StateElement) {
			return
		}
	}
	for _, id := range st.sortedV2FC() {
		if !checkProof("v2contract", id, st.V2FC[id].StateElement) {
			return
		}
	}
	if len(st.CI) != len(l.CI) {
		bad("C05", "chain-index-count", "store has %d chain index elements, ledger %d", len(st.CI), len(l.CI))
		return
	}
	for i, cie := range st.CI {
		if cie.ID != l.CI[i].ID || cie.ChainIndex != l.CI[i].ChainIndex || cie.StateElement.LeafIndex != l.CI[i].StateElement.LeafIndex {
			bad("C05", "chain-index-element", "chain index element %d differs from the ledger's", i)
			return
		}
		if !checkProof("chainindex", cie.ID, cie.StateElement) {
			return
		}
	}
	w.reach[fmt.Sprintf("forest n=%d", min(int(f.N()), 1<<12)>>4)] = true
}

func (w *World) onApplied(n *Node, e *blockEntry, au consensus.ApplyUpdate, first bool) {
	w.checkNode(n, e, "apply")
	if w.fatal {
		return
	}
	if first {
		w.apiBlock(n, e)
	}
	if l := w.ledgers[e.id]; l != nil && first {
		for _, r := range l.Resolved {
			era := ""
			if !r.V2 {
				switch {
				case e.height < w.net.HardforkTax.Height:
					era = ".era1"
				case e.height < w.net.HardforkStorageProof.Height:
					era = ".era2"
				default:
					era = ".era3"
				}
			}
			w.stats.Inc("reach.resolved." + r.Kind + era)
		}
		if l.ClaimsPaid > 0 {
			w.stats.Add("reach.siafund-claims", int64(l.ClaimsPaid))
		}
		if l.Subsidy != nil && l.Subsidy.Sign() > 0 {
			w.stats.Inc("reach.foundation-subsidy")
		}
	}
	if first {
		// a contract is paid out once: the update of one block never creates both
		// the outputs of a contract's successful end and those of its failure
		created := map[types.SiacoinOutputID]bool{}
		for _, d := range au.SiacoinElementDiffs() {
			if d.Created {
				if created[d.SiacoinElement.ID] {
					w.violate("C02", "output-created-twice", fmt.Sprintf("node %d, block %s (height %d): the update creates siacoin output %v twice", n.idx, short(e.id), e.height, d.SiacoinElement.ID))
				}
				created[d.SiacoinElement.ID] = true
			}
		}
		// the order of amounts (every balance and limit rule compares through it): by
		// definition the order of the numbers, also for amounts that agree in their
		// upper word and lie far apart in the lower
		for i, d := range au.SiacoinElementDiffs() {
			if i > 3 {
				break
			}
			v := d.SiacoinElement.SiacoinOutput.Value
			for _, o := range []types.Currency{types.NewCurrency(v.Lo^(1<<63), v.Hi), types.NewCurrency(v.Lo+(1<<63)+12345, v.Hi), types.NewCurrency(^v.Lo, v.Hi), types.NewCurrency(v.Lo, v.Hi+1)} {
				if got, want := v.Cmp(o), v.Big().Cmp(o.Big()); got != want || o.Cmp(v) != -want {
					w.violate("C01", "currency-order", fmt.Sprintf("Currency.Cmp(%v, %v) = %d (and %d the other way round); as numbers they compare %d", v.ExactString(), o.ExactString(), got, o.Cmp(v), want))
				}
			}
			w.stats.Inc("probe.c01.currency-order")
		}
		for _, d := range au.FileContractElementDiffs() {
			if !d.Resolved {
				continue
			}
			fc := d.FileContractElement.FileContract
			if d.Revision != nil {
				fc = *d.Revision
			}
			valid, missed := 0, 0
			for i := range fc.ValidProofOutputs {
				if created[d.FileContractElement.ID.ValidOutputID(i)] {
					valid++
				}
			}
			for i := range fc.MissedProofOutputs {
				if created[d.FileContractElement.ID.MissedOutputID(i)] {
					missed++
				}
			}
			if valid > 0 && missed > 0 {
				w.violate("C02", "contract-resolved-twice", fmt.Sprintf("node %d, block %s (height %d): the update pays out v1 contract %v both as proven (%d outputs) and as missed (%d outputs)", n.idx, short(e.id), e.height, d.FileContractElement.ID, valid, missed))
			}
			w.stats.Inc("probe.c02.v1-resolution-paid-once")
		}
	}
	if l := w.ledgers[e.id]; l != nil && l.Forest != nil {
		var touched []uint64
		for _, d := range au.SiacoinElementDiffs() {
			touched = append(touched, d.SiacoinElement.StateElement.LeafIndex)
		}
		for _, d := range au.SiafundElementDiffs() {
			touched = append(touched, d.SiafundElement.StateElement.LeafIndex)
		}
		for _, d := range au.FileContractElementDiffs() {
			touched = append(touched, d.FileContractElement.StateElement.LeafIndex)
		}
		for _, d := range au.V2FileContractElementDiffs() {
			touched = append(touched, d.V2FileContractElement.StateElement.LeafIndex)
		}
		// ... and every leaf the block added, whatever it holds (attestations
		// and the block's own chain index entry have no diff of their own)
		if pe := n.blocks[e.parent]; pe != nil && pe.applied && e.height > 0 {
			for i := pe.state.Elements.NumLeaves; i < l.Forest.N(); i++ {
				touched = append(touched, i)
			}
			w.stats.Inc("probe.tree-nodes-new-leaves")
		}
		w.checkUpdateNodes("apply", n, e, l.Forest, au.ForEachTreeNode, touched...)
		// every element the update reports carries the proof a store would keep
		report := func(kind string, id [32]byte, se types.StateElement) {
			if se.LeafIndex == types.UnassignedLeafIndex || se.LeafIndex >= l.Forest.N() || w.ownViolation() {
				return
			}
			if want := l.Forest.Path(se.LeafIndex); fmt.Sprint(want) != fmt.Sprint(se.MerkleProof) {
				w.violate("C05", "update-diff-proof", fmt.Sprintf("node %d, block %s (height %d): the %s element %x (leaf %d) reported by the ApplyUpdate carries a proof of %d hashes that is not its path in the forest (%d hashes)", n.idx, short(e.id), e.height, kind, id[:4], se.LeafIndex, len(se.MerkleProof), len(want)))
			}
		}
		for _, d := range au.SiacoinElementDiffs() {
			report("siacoin", d.SiacoinElement.ID, d.SiacoinElement.StateElement)
		}
		for _, d := range au.SiafundElementDiffs() {
			report("siafund", d.SiafundElement.ID, d.SiafundElement.StateElement)
		}
		for _, d := range au.FileContractElementDiffs() {
			report("contract", d.FileContractElement.ID, d.FileContractElement.StateElement)
		}
		for _, d := range au.V2FileContractElementDiffs() {
			report("v2contract", d.V2FileContractElement.ID, d.V2FileContractElement.StateElement)
		}
	}
	if w.cfg.Profile == "C05" && first && w.tape.Choose(3) == 0 {
		w.tallForestProbe(e.state)
	}
	w.lightsApplied(n, e, au)
	w.extrasApplied(n, e, au, first)
}

// checkUpdateNodes: the tree nodes an update reports (what a store that keeps
// nodes rather than proofs would persist) are the nodes of the naive forest.
func (w *World) checkUpdateNodes(how string, n *Node, e *blockEntry, f *ref.Forest, forEach func(func(row, col uint64, h types.Hash256)), leaves ...uint64) {
	if w.ownViolation() {
		return
	}
	bad := ""
	count := 0
	seen := map[[2]uint64]bool{}
	defer func() {
		// completeness: every node between a touched leaf and the root of its tree is reported
		if bad != "" || w.ownViolation() {
			return
		}
		for _, i := range leaves {
			if i >= f.N() {
				continue
			}
			_, height := f.TreeOf(i)
			for row := 0; row <= height; row++ {
				if !seen[[2]uint64{uint64(row), i >> uint(row)}] {
					w.violate(w.propAmong("C05", "C06"), "update-tree-node-missing", fmt.Sprintf("node %d, %s of block %s (height %d): ForEachTreeNode does not report node (row %d, column %d) on the path of touched leaf %d (tree of height %d)", n.idx, how, short(e.id), e.height, row, i>>uint(row), i, height))
					return
				}
			}
		}
	}()
	if p := guard(func() {
		forEach(func(row, col uint64, h types.Hash256) {
			count++
			seen[[2]uint64{row, col}] = true
			if bad != "" || row >= 63 || (col+1)<<row > f.N() {
				return // (a node above the tree that holds it: not part of the forest)
			}
			if want := f.Node(row, col); want != h {
				bad = fmt.Sprintf("node (row %d, column %d) is reported as %v, the forest has %v", row, col, h, want)
			}
		})
	}); p != "" {
		w.violate("C10", "tree-node-walk-panic", p)
		return
	}
	if bad != "" {
		w.violate(w.propAmong("C05", "C06"), "update-tree-node", fmt.Sprintf("node %d, %s of block %s (height %d): ForEachTreeNode: %s", n.idx, how, short(e.id), e.height, bad))
		return
	}
	if count > 0 {
		w.stats.Inc("probe.tree-nodes-" + how)
	}
}

func (w *World) onReverted(n *Node, e *blockEntry, ru consensus.RevertUpdate, pre *revertSnap) {
	parent := n.blocks[e.parent]
	w.stats.Inc("world.reverted")
	w.checkRevertDiffs(n, e, ru, pre)
	w.checkNode(n, parent, "revert")
	if w.fatal {
		return
	}
	if l := w.ledgers[parent.id]; l != nil && l.Forest != nil {
		var touched []uint64
		for _, d := range ru.SiacoinElementDiffs() {
			touched = append(touched, d.SiacoinElement.StateElement.LeafIndex)
		}
		for _, d := range ru.SiafundElementDiffs() {
			touched = append(touched, d.SiafundElement.StateElement.LeafIndex)
		}
		for _, d := range ru.FileContractElementDiffs() {
			touched = append(touched, d.FileContractElement.StateElement.LeafIndex)
		}
		for _, d := range ru.V2FileContractElementDiffs() {
			touched = append(touched, d.V2FileContractElement.StateElement.LeafIndex)
		}
		w.checkUpdateNodes("revert", n, e, l.Forest, ru.ForEachTreeNode, touched...)
	}
	w.lightsReverted(n, e, ru)
	w.advReverted(n, e, ru)
}
