package world

import (
	"fmt"
	"os"
	"strconv"
	"strings"
	"testing"

	"verif/sim"
)

func TestDebug(t *testing.T) {
	if os.Getenv("DBG_RUN") == "" {
		t.Skip()
	}
	run, _ := strconv.ParseUint(os.Getenv("DBG_RUN"), 10, 64)
	seed, _ := strconv.ParseUint(os.Getenv("DBG_SEED"), 10, 64)
	debugHook = func(w *World) {
		for _, n := range w.nodes {
			fmt.Printf("node %d tip h=%d id=%s best=%d\n", n.idx, n.tip.Index.Height, short(n.tip.Index.ID), len(n.best))
			fmt.Printf("  skew=%v held=%d orphans=%d crashed=%v work=%v\n", n.skew, n.held, len(n.orphans), n.crashed, n.tip.TotalWork)
			for id, e := range n.blocks {
				if e.invalid {
					fmt.Printf("  invalid %s h=%d applied=%v\n", short(id), e.height, e.applied)
				}
			}
		}
	}
	if from := os.Getenv("DBG_FROM"); from != "" {
		// earlier runs of the same process first (state carried between runs shows here)
		f, _ := strconv.ParseUint(from, 10, 64)
		for i := f; i < run; i++ {
			Run(sim.NewTape(seed, i), os.Getenv("DBG_PROFILE"), "quick")
		}
	}
	debugKeep = 100000
	r := Run(sim.NewTape(seed, run), os.Getenv("DBG_PROFILE"), "quick")
	fmt.Println(r.HarnessErr, r.Violations)
	if f := os.Getenv("DBG_DUMP"); f != "" {
		os.WriteFile(f, []byte(strings.Join(debugLines, "\n")), 0o644)
	}
	if f := os.Getenv("DBG_GREP"); f != "" {
		n := 0
		for _, l := range debugLines {
			if strings.Contains(l, f) {
				n++
			}
		}
		k := 0
		for _, l := range debugLines {
			if strings.Contains(l, f) {
				k++
				if k > n-40 {
					fmt.Println(l)
				}
			}
		}
	}
}
