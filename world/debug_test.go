package world

import (
	"fmt"
	"os"
	"strconv"
	"testing"

	"verif/sim"
)

func TestDebug(t *testing.T) {
	if os.Getenv("DBG_RUN") == "" {
		t.Skip()
	}
	run, _ := strconv.ParseUint(os.Getenv("DBG_RUN"), 10, 64)
	seed, _ := strconv.ParseUint(os.Getenv("DBG_SEED"), 10, 64)
	debugHook = func(w *World) {
		for _, n := range w.nodes {
			fmt.Printf("node %d tip h=%d id=%s best=%d\n", n.idx, n.tip.Index.Height, short(n.tip.Index.ID), len(n.best))
			if len(n.best) > 9 {
				e := n.blocks[n.best[9]]
				fmt.Printf("  h9 id=%s hstate.ts=%v\n  state.ts=%v\n", short(e.id), e.hstate.PrevTimestamps, e.state.PrevTimestamps)
			}
		}
	}
	r := Run(sim.NewTape(seed, run), os.Getenv("DBG_PROFILE"), "quick")
	fmt.Println(r.HarnessErr, r.Violations)
}
