package world

import (
	"bytes"
	"fmt"
	"sort"
	"time"

	"go.sia.tech/core/consensus"
	"go.sia.tech/core/types"
)

// Store is the stub element store of a full node: every live element with its
// proof, maintained from the library's apply/revert updates only.
type Store struct {
	SC   map[types.SiacoinOutputID]types.SiacoinElement
	SF   map[types.SiafundOutputID]types.SiafundElement
	FC   map[types.FileContractID]types.FileContractElement
	V2FC map[types.FileContractID]types.V2FileContractElement
	CI   []types.ChainIndexElement // by height
}

func newStore() *Store {
	return &Store{
		SC:   map[types.SiacoinOutputID]types.SiacoinElement{},
		SF:   map[types.SiafundOutputID]types.SiafundElement{},
		FC:   map[types.FileContractID]types.FileContractElement{},
		V2FC: map[types.FileContractID]types.V2FileContractElement{},
	}
}

func cmpID(a, b [32]byte) bool { return bytes.Compare(a[:], b[:]) < 0 }

func (s *Store) sortedSC() []types.SiacoinOutputID {
	ids := make([]types.SiacoinOutputID, 0, len(s.SC))
	for id := range s.SC {
		ids = append(ids, id)
	}
	sort.Slice(ids, func(i, j int) bool { return cmpID(ids[i], ids[j]) })
	return ids
}
func (s *Store) sortedSF() []types.SiafundOutputID {
	ids := make([]types.SiafundOutputID, 0, len(s.SF))
	for id := range s.SF {
		ids = append(ids, id)
	}
	sort.Slice(ids, func(i, j int) bool { return cmpID(ids[i], ids[j]) })
	return ids
}
func (s *Store) sortedFC() []types.FileContractID {
	ids := make([]types.FileContractID, 0, len(s.FC))
	for id := range s.FC {
		ids = append(ids, id)
	}
	sort.Slice(ids, func(i, j int) bool { return cmpID(ids[i], ids[j]) })
	return ids
}
func (s *Store) sortedV2FC() []types.FileContractID {
	ids := make([]types.FileContractID, 0, len(s.V2FC))
	for id := range s.V2FC {
		ids = append(ids, id)
	}
	sort.Slice(ids, func(i, j int) bool { return cmpID(ids[i], ids[j]) })
	return ids
}

type proofUpdater interface {
	UpdateElementProof(e *types.StateElement)
}

func (s *Store) updateAll(u proofUpdater) {
	for id, e := range s.SC {
		u.UpdateElementProof(&e.StateElement)
		s.SC[id] = e
	}
	for id, e := range s.SF {
		u.UpdateElementProof(&e.StateElement)
		s.SF[id] = e
	}
	for id, e := range s.FC {
		u.UpdateElementProof(&e.StateElement)
		s.FC[id] = e
	}
	for id, e := range s.V2FC {
		u.UpdateElementProof(&e.StateElement)
		s.V2FC[id] = e
	}
	for i := range s.CI {
		u.UpdateElementProof(&s.CI[i].StateElement)
	}
}

// apply folds an ApplyUpdate into the store, the way a chain database does.
func (s *Store) apply(au consensus.ApplyUpdate) {
	s.updateAll(au)
	for _, d := range au.SiacoinElementDiffs() {
		if d.Spent {
			delete(s.SC, d.SiacoinElement.ID)
		} else if d.Created {
			s.SC[d.SiacoinElement.ID] = d.SiacoinElement.Copy()
		}
	}
	for _, d := range au.SiafundElementDiffs() {
		if d.Spent {
			delete(s.SF, d.SiafundElement.ID)
		} else if d.Created {
			s.SF[d.SiafundElement.ID] = d.SiafundElement.Copy()
		}
	}
	for _, d := range au.FileContractElementDiffs() {
		id := d.FileContractElement.ID
		switch {
		case d.Resolved:
			delete(s.FC, id)
		case d.Created:
			s.FC[id] = d.FileContractElement.Copy()
		case d.Revision != nil:
			e := d.FileContractElement.Copy()
			e.FileContract = *d.Revision
			s.FC[id] = e
		}
	}
	for _, d := range au.V2FileContractElementDiffs() {
		id := d.V2FileContractElement.ID
		switch {
		case d.Resolution != nil:
			delete(s.V2FC, id)
		case d.Created:
			s.V2FC[id] = d.V2FileContractElement.Copy()
		case d.Revision != nil:
			e := d.V2FileContractElement.Copy()
			e.V2FileContract = *d.Revision
			s.V2FC[id] = e
		}
	}
	s.CI = append(s.CI, au.ChainIndexElement().Copy())
}

// revert folds a RevertUpdate into the store: inverse effects first, then
// refresh every remaining proof.
func (s *Store) revert(ru consensus.RevertUpdate) {
	for _, d := range ru.SiacoinElementDiffs() {
		if d.Created {
			delete(s.SC, d.SiacoinElement.ID)
		} else if d.Spent {
			s.SC[d.SiacoinElement.ID] = d.SiacoinElement.Copy()
		}
	}
	for _, d := range ru.SiafundElementDiffs() {
		if d.Created {
			delete(s.SF, d.SiafundElement.ID)
		} else if d.Spent {
			s.SF[d.SiafundElement.ID] = d.SiafundElement.Copy()
		}
	}
	for _, d := range ru.FileContractElementDiffs() {
		id := d.FileContractElement.ID
		switch {
		case d.Created:
			delete(s.FC, id)
		case d.Resolved, d.Revision != nil:
			s.FC[id] = d.FileContractElement.Copy()
		}
	}
	for _, d := range ru.V2FileContractElementDiffs() {
		id := d.V2FileContractElement.ID
		switch {
		case d.Created:
			delete(s.V2FC, id)
		case d.Resolution != nil, d.Revision != nil:
			s.V2FC[id] = d.V2FileContractElement.Copy()
		}
	}
	s.CI = s.CI[:len(s.CI)-1]
	s.updateAll(ru)
}

func (s *Store) clone() *Store {
	c := newStore()
	for k, v := range s.SC {
		c.SC[k] = v.Copy()
	}
	for k, v := range s.SF {
		c.SF[k] = v.Copy()
	}
	for k, v := range s.FC {
		c.FC[k] = v.Copy()
	}
	for k, v := range s.V2FC {
		c.V2FC[k] = v.Copy()
	}
	for _, v := range s.CI {
		c.CI = append(c.CI, v.Copy())
	}
	return c
}

// blockEntry is what a node knows about a block.
type blockEntry struct {
	b       types.Block
	id      types.BlockID
	height  uint64
	parent  types.BlockID
	hstate  consensus.State // state after applying the header only (PoW fields meaningful)
	invalid bool
	// set once the block has been fully applied on this node
	applied  bool
	state    consensus.State
	supp     consensus.V1BlockSupplement
	stateEnc []byte // encoding of state at first apply (C06/C09: re-apply must match)
	diffSig  string // digest of the diffs at first apply
	// C06: what the last application reported and what the store held before
	applyDiffs      [4][]string
	preStore        string
	preStoreNoProof string
}

// PoolTxn is a mempool entry.
type PoolTxn struct {
	V1   *types.Transaction
	V2   *types.V2Transaction
	ID   types.TransactionID
	From int    // actor index that built it (-1 unknown)
	Kind string // workload label
}

// Node is the stub full node around the real library.
type Node struct {
	w    *World
	idx  int
	skew time.Duration

	blocks  map[types.BlockID]*blockEntry
	best    []types.BlockID // best chain by height
	tip     consensus.State
	store   *Store
	pool    []*PoolTxn
	orphans map[types.BlockID][]types.Block // by missing parent
	held    int

	crashed bool
	reorgs  int
}

func (n *Node) tipEntry() *blockEntry { return n.blocks[n.tip.Index.ID] }

func (n *Node) clock() time.Time { return n.w.wall().Add(n.skew) }

// ancestorTimestamp returns the timestamp the library needs for ApplyBlock /
// ApplyHeader of a child of parent: the block at depth min(height,1000) on
// that branch.
func (n *Node) ancestorTimestamp(parent *blockEntry) time.Time {
	childHeight := parent.height + 1
	depth := uint64(1000)
	if childHeight < depth {
		depth = childHeight
	}
	e := parent
	for i := uint64(1); i < depth; i++ {
		e = n.blocks[e.parent]
	}
	return e.b.Timestamp
}

// supplement builds the v1 block supplement for b as a child of the current
// tip from the store.
func (n *Node) supplement(b types.Block) consensus.V1BlockSupplement {
	height := n.tip.Index.Height + 1
	if height >= n.w.net.HardforkV2.RequireHeight {
		return consensus.V1BlockSupplement{Transactions: make([]consensus.V1TransactionSupplement, len(b.Transactions))}
	}
	return n.store.supplementFor(b, height, n.best)
}

func (s *Store) supplementFor(b types.Block, height uint64, best []types.BlockID) consensus.V1BlockSupplement {
	bs := consensus.V1BlockSupplement{Transactions: make([]consensus.V1TransactionSupplement, len(b.Transactions))}
	for i, txn := range b.Transactions {
		ts := &bs.Transactions[i]
		for _, sci := range txn.SiacoinInputs {
			if e, ok := s.SC[sci.ParentID]; ok {
				ts.SiacoinInputs = append(ts.SiacoinInputs, e.Copy())
			}
		}
		for _, sfi := range txn.SiafundInputs {
			if e, ok := s.SF[sfi.ParentID]; ok {
				ts.SiafundInputs = append(ts.SiafundInputs, e.Copy())
			}
		}
		for _, fcr := range txn.FileContractRevisions {
			if e, ok := s.FC[fcr.ParentID]; ok {
				ts.RevisedFileContracts = append(ts.RevisedFileContracts, e.Copy())
			}
		}
		for _, sp := range txn.StorageProofs {
			if e, ok := s.FC[sp.ParentID]; ok {
				ws := e.FileContract.WindowStart
				if ws >= 1 && ws-1 < uint64(len(best)) && ws-1 < height {
					ts.StorageProofs = append(ts.StorageProofs, consensus.V1StorageProofSupplement{
						FileContract: e.Copy(),
						WindowID:     best[ws-1],
					})
				}
			}
		}
	}
	for _, id := range s.sortedFC() {
		if e := s.FC[id]; e.FileContract.WindowEnd == height {
			bs.ExpiringFileContracts = append(bs.ExpiringFileContracts, e.Copy())
		}
	}
	return bs
}

func encodeState(s consensus.State) []byte {
	var buf bytes.Buffer
	e := types.NewEncoder(&buf)
	s.EncodeTo(e)
	e.Flush()
	return buf.Bytes()
}

func encodeBlock(b types.Block) []byte {
	var buf bytes.Buffer
	e := types.NewEncoder(&buf)
	types.V2Block(b).EncodeTo(e)
	e.Flush()
	return buf.Bytes()
}

// decodeBlockSafe is decodeBlock for callers that do not expect a panic (they
// decode what the library itself encoded): a decoder that panics has failed to decode.
func decodeBlockSafe(p []byte) (b types.Block, err error) {
	defer func() {
		if r := recover(); r != nil {
			err = fmt.Errorf("decode panicked: %v", r)
		}
	}()
	return decodeBlock(p)
}

func decodeBlock(p []byte) (b types.Block, err error) {
	d := types.NewBufDecoder(p)
	(*types.V2Block)(&b).DecodeFrom(d)
	return b, d.Err()
}

func short(id [32]byte) string { return fmt.Sprintf("%x", id[:4]) }
