package world

// Rows whose adversary move breaks more than one property run under each of
// them. (This file sorts last so that every catalogue is complete when its
// init runs.)

// shareRow registers a row of one property's catalogue under other properties
// as well; verdicts it reaches through expect() are reported under the
// property whose check is running.
func shareRow(from, name string, to ...string) {
	for _, r := range probeCatalogue[from] {
		if r.name == name {
			run := r.run
			for _, p := range to {
				p := p
				registerRows(p, probeRow{name, func(w *World, n *Node) {
					w.shareAs = p
					defer func() { w.shareAs = "" }()
					run(w, n)
				}})
			}
			return
		}
	}
	panic("shareRow: no row " + name + " in " + from)
}

func init() {
	// spending one output twice creates value
	shareRow("C02", "D2-two-txns", "C01")
	shareRow("C02", "D3-ephemeral", "C01")
	// ... and so does spending under the ID of an element of another kind
	shareRow("C02", "D6-cross-kind-parent", "C01")
	// a resolved contract that stays an unresolved member is also a membership failure
	shareRow("C02", "D5-v2-revise-renew-then-again", "C04")
	// a forged or resolved contract listed as expiring is paid out (again)
	shareRow("C04", "M1-v1-expiring-supplement", "C07", "C02")
	// proving a contract before the window of its latest revision opens is a boundary matter too
	shareRow("C07", "D5-v1-revise-prove-in-block", "C08")
}
