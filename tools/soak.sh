#!/bin/sh
# thorough tier of every claimed check with the given seed(s); prints one line per check
# usage: tools/soak.sh "<seed> [seed...]" [ids...]
seeds=${1:-2}; shift
ids=${*:-C01 C02 C03 C04 C05 C06 C07 C08 C09 C10 C11 C12 C13 C14 C16 C17 C18 C19 C20}
for s in $seeds; do
  for id in $ids; do
    out=$(VERIF_SEED=$s ./check $id thorough 2>&1); rc=$?
    echo "seed=$s $id exit=$rc $(echo "$out" | grep -v '^KNOWN' | tail -2 | tr '\n' ' ' | cut -c1-400)"
  done
done
