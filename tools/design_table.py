#!/usr/bin/env python3
"""Regenerate the seeded-changes table in DESIGN.md from seeded/*/meta.json and seeded/RESULTS.json."""
import json, os, re
root = os.path.dirname(os.path.dirname(os.path.abspath(__file__)))
sd = os.path.join(root, 'seeded')
res = json.load(open(os.path.join(sd, 'RESULTS.json')))
rows = ['| id | written for | change | needs | verified | caught by | missed by |', '|---|---|---|---|---|---|---|']
for mid in sorted(d for d in os.listdir(sd) if os.path.isfile(os.path.join(sd, d, 'meta.json'))):
    m = json.load(open(os.path.join(sd, mid, 'meta.json')))
    r = res.get(mid, {})
    ver = 'yes' if r.get('applies') and r.get('suite_passes_with_patch') and r.get('demo_fails_with_patch') and r.get('demo_passes_without_patch') else ('not run' if not r else 'NO')
    caught = [c for c, v in sorted(r.get('checks', {}).items()) if v.get('exit') == 1]
    missed = [c for c, v in sorted(r.get('checks', {}).items()) if v.get('exit') == 0]
    other = [c + '(exit %s)' % v.get('exit') for c, v in sorted(r.get('checks', {}).items()) if v.get('exit') not in (0, 1)]
    rows.append('| %s | %s | %s | %s | %s | %s | %s |' % (mid, m['written_for'], m['change'].replace('|', '/'), m['needs_to_manifest'].replace('|', '/'), ver, ' '.join(caught) or '-', ' '.join(missed + other) or '-'))
p = os.path.join(root, 'DESIGN.md')
s = open(p).read()
s = re.sub(r'<!-- SEEDED-TABLE-BEGIN -->.*<!-- SEEDED-TABLE-END -->', '<!-- SEEDED-TABLE-BEGIN -->\n' + '\n'.join(rows) + '\n<!-- SEEDED-TABLE-END -->', s, flags=re.S)
open(p, 'w').write(s)
print(len(rows) - 2, 'rows')
