#!/usr/bin/env python3
"""Evaluate seeded changes: verify each (builds, suite passes, demo fails with / passes without) in a scratch
worktree of /repo and run the named checks against that worktree (VERIF_REPO), never touching /repo.
usage: sweep.py <spec.json> <out.json>    spec: [{"id":"C01","n":1,"checks":["C01","C02"]}, ...]
Run from a checkout of /verif (cwd)."""
import json, os, re, subprocess, sys, time, shutil
spec = json.load(open(sys.argv[1])); outp = sys.argv[2]
here = os.getcwd()
env = dict(os.environ, VERIF_ROOT=here)
res = []
def sh(cmd, cwd=None, env=None, timeout=3600):
    p = subprocess.run(cmd, shell=True, cwd=cwd, env=env, stdout=subprocess.PIPE, stderr=subprocess.STDOUT, timeout=timeout)
    return p.returncode, p.stdout.decode(errors='replace')
for m in spec:
    mid, n = m['id'], m['n']
    patch = m.get('patch', f'/tmp/mut/{mid}.patch{n}.diff'); demo = m.get('demo', f'/tmp/mut/{mid}.demo{n}_test.go')
    wt = f'/tmp/mut/V_{mid}_{n}'
    r = {'id': mid, 'n': n, 'checks': {}}
    sh(f'git -C /repo worktree remove --force {wt}'); shutil.rmtree(wt, ignore_errors=True)
    rc, o = sh(f'git -C /repo worktree add --detach {wt} HEAD')
    rc, o = sh(f'git -C {wt} apply {patch}')
    r['applies'] = rc == 0
    if rc != 0:
        r['error'] = o[-400:]; res.append(r); json.dump(res, open(outp, 'w'), indent=1); continue
    if not m.get('skip_verify'):
        rc, o = sh('go build ./... && go test -vet=off -count=1 ./...', cwd=wt)
        r['suite_passes_with_patch'] = rc == 0
        src = open(demo).read()
        pkg = re.search(r'^package (\w+)', src, re.M).group(1)
        d = {'consensus': 'consensus', 'types': 'types', 'gateway': 'gateway', 'rhp': None}.get(pkg)
        if d is None:
            mm = re.search(r'rhp/v[234]', src); d = mm.group(0) if mm else 'rhp/v4'
        mm = re.search(r'func (Test\w+)\(', src)
        shutil.copy(demo, f'{wt}/{d}/zz_demo_{n}_test.go')
        rc, o = sh(f'go test -vet=off -count=1 -run "^{mm.group(1)}" ./{d}/', cwd=wt)
        r['demo_fails_with_patch'] = rc != 0
        sh(f'git -C {wt} apply -R {patch}')
        rc, o = sh(f'go test -vet=off -count=1 -run "^{mm.group(1)}" ./{d}/', cwd=wt)
        r['demo_passes_without_patch'] = rc == 0
        os.remove(f'{wt}/{d}/zz_demo_{n}_test.go')
        sh(f'git -C {wt} apply {patch}')
    for c in m['checks']:
        t0 = time.time()
        rc, o = sh(f'./check {c} quick', cwd=here, env=dict(env, VERIF_REPO=wt, VERIF_SEED=str(m.get('seed', 1))))
        v = [l for l in o.splitlines() if l.startswith('VIOLATION') or l.startswith('  C')]
        r['checks'][c] = {'exit': rc, 'violation': ' | '.join(v)[:600], 'wall': round(time.time() - t0, 1), 'tail': o[-300:] if rc == 2 else ''}
        print(mid, n, c, rc, ' | '.join(v)[:300], flush=True)
    sh(f'git -C /repo worktree remove --force {wt}'); shutil.rmtree(wt, ignore_errors=True)
    res.append(r); json.dump(res, open(outp, 'w'), indent=1)
print('done')
