#!/usr/bin/env python3
"""Evaluate the seeded changes kept under seeded/<id>/ (patch.diff, demo_test.go, meta.json).

For each: fresh scratch worktree of /repo HEAD under /tmp, apply patch.diff, verify it (go build, the whole
test suite passes with it, demo_test.go fails with it and passes without it), then run the quick checks named
in meta.json ("checks") against that worktree (VERIF_REPO) -- /repo itself is never touched -- and record
the outcome in seeded/RESULTS.json. The worktree is removed afterwards.

usage: tools/sweep.py [--no-verify] [--checks C01,C02] [id ...]      (cwd = a checkout of /verif)
"""
import json, os, re, subprocess, sys, time, shutil
args = sys.argv[1:]
verify = True
only_checks = None
ids = []
while args:
    a = args.pop(0)
    if a == '--no-verify':
        verify = False
    elif a == '--checks':
        only_checks = args.pop(0).split(',')
    else:
        ids.append(a)
here = os.getcwd()
sd = os.path.join(here, 'seeded')
if not ids:
    ids = sorted(d for d in os.listdir(sd) if os.path.isfile(os.path.join(sd, d, 'meta.json')))
outp = os.path.join(sd, 'RESULTS.json')
res = json.load(open(outp)) if os.path.exists(outp) else {}
env = dict(os.environ, VERIF_ROOT=here)


def sh(cmd, cwd=None, env=None, timeout=7200):
    p = subprocess.run(cmd, shell=True, cwd=cwd, env=env, stdout=subprocess.PIPE, stderr=subprocess.STDOUT, timeout=timeout)
    return p.returncode, p.stdout.decode(errors='replace')


for mid in ids:
    d = os.path.join(sd, mid)
    meta = json.load(open(os.path.join(d, 'meta.json')))
    patch, demo = os.path.join(d, 'patch.diff'), os.path.join(d, 'demo_test.go')
    wt = f'/tmp/seeded_{mid}'
    r = res.get(mid, {})
    r.setdefault('checks', {})
    sh(f'git -C /repo worktree remove --force {wt}'); shutil.rmtree(wt, ignore_errors=True); sh('git -C /repo worktree prune')
    rc, o = sh(f'git -C /repo worktree add --detach {wt} HEAD')
    rc, o = sh(f'git -C {wt} apply {patch}')
    r['applies'] = rc == 0
    r['repo_head'] = sh('git -C /repo rev-parse --short HEAD')[1].strip()
    if rc != 0:
        r['error'] = o[-400:]
        res[mid] = r
        json.dump(res, open(outp, 'w'), indent=1, sort_keys=True)
        sh(f'git -C /repo worktree remove --force {wt}')
        continue
    if verify:
        rc, o = sh('go build ./... && go test -vet=off -count=1 ./...', cwd=wt)
        r['suite_passes_with_patch'] = rc == 0
        src = open(demo).read()
        pkg = re.search(r'^package (\w+)', src, re.M).group(1)
        dd = {'consensus': 'consensus', 'types': 'types', 'gateway': 'gateway'}.get(pkg)
        if dd is None:
            mm = re.search(r'rhp/v[234]', src)
            dd = meta.get('demo_dir') or (mm.group(0) if mm else 'rhp/v4')
        dd = meta.get('demo_dir', dd)
        # every test of the demonstration file (some files begin with a control that passes either way)
        names = re.findall(r'^func (Test\w+)\(', src, re.M)
        mm = re.match(r'(.*)', '|'.join(names))
        tgt = f'{wt}/{dd}/zz_seeded_demo_test.go'
        shutil.copy(demo, tgt)
        rc, o = sh(f'go test -vet=off -count=1 -run "^({mm.group(1)})$" ./{dd}/', cwd=wt)
        r['demo_fails_with_patch'] = rc != 0
        sh(f'git -C {wt} apply -R {patch}')
        rc, o = sh(f'go test -vet=off -count=1 -run "^({mm.group(1)})$" ./{dd}/', cwd=wt)
        r['demo_passes_without_patch'] = rc == 0
        os.remove(tgt)
        sh(f'git -C {wt} apply {patch}')
    for c in (only_checks or meta['checks']):
        t0 = time.time()
        rc, o = sh(f'./check {c} quick', cwd=here, env=dict(env, VERIF_REPO=wt, VERIF_SEED=str(meta.get('seed', 1))))
        v = [l for l in o.splitlines() if l.startswith('VIOLATION') or l.startswith('  C')]
        r['checks'][c] = {'exit': rc, 'caught': rc == 1, 'violation': ' | '.join(v)[:500], 'wall_s': round(time.time() - t0, 1)}
        if rc == 2:
            r['checks'][c]['tail'] = o[-300:]
        print(mid, c, rc, ' | '.join(v)[:260], flush=True)
    sh(f'git -C /repo worktree remove --force {wt}'); shutil.rmtree(wt, ignore_errors=True)
    res[mid] = r
    json.dump(res, open(outp, 'w'), indent=1, sort_keys=True)
print('done')
