#!/usr/bin/env python3
"""Regenerates MANIFEST.json from the table below (kept in one place so that it stays valid)."""
import json, sys
claimed = json.load(open('/verif/manifest_checks.json'))
props = [json.loads(l) for l in open('/verif/properties.jsonl')]
ids = [p['id'] for p in props]
checks = []
for c in claimed['checks']:
    checks.append({
        "property_id": c['id'],
        "quick_cmd": "./check %s quick" % c['id'],
        "thorough_cmd": "./check %s thorough" % c['id'],
        "evidence_file": "/verif/evidence/%s.json" % c['id'],
        "replay_cmd_template": "./check replay {path}",
        "engine": c['engine'],
        "level_claimed": {"category": "exploration", "text": c['level_text'], "design_ref": c['design_ref']},
        "level_note": c['level_note'],
        "technique": c['technique'],
    })
claimed_ids = {c['id'] for c in claimed['checks']}
na = [x for x in claimed['not_applicable'] if x['property_id'] not in claimed_ids]
na_ids = {x['property_id'] for x in na}
for i in ids:
    if i not in claimed_ids and i not in na_ids:
        na.append({"property_id": i, "reason": "not claimed yet: check under construction in this session (see DESIGN.md section 6 for the planned procedure)"})
m = {
    "version": 1,
    "setup_cmd": "cd /verif && export GOFLAGS=-mod=mod GOPROXY=off GOSUMDB=off GOTOOLCHAIN=local PATH=/opt/veriftools/go1.26.8/bin:$PATH && mkdir -p bin evidence replays && go build -o bin/verif ./cmd/verif && ./bin/verif build",
    "hooks": claimed['hooks'],
    "engines": claimed['engines'],
    "checks": checks,
    "notes": claimed['notes'],
    "not_applicable": sorted(na, key=lambda x: x['property_id']),
}
json.dump(m, open('/verif/MANIFEST.json', 'w'), indent=1)
print("claimed", sorted(claimed_ids), "na", sorted(x['property_id'] for x in na))
